(* C15, byte level: a PING / PONG written by the peer's (translated) sendPING / sendPONG between any two tokens
   of ANY inbound byte stream, under EVERY chunking, is answered by exactly one PONG with the same number /
   by nothing, and leaves the decoding of the stream untouched.  Composition of
     - lib/RecvProofs.v  feed_app / feed_all_concat (C07: chunk independence of the byte-level receiver),
     - lib/TokenProofs.v hdr_tok_scan (translated int2b128 is read back by the header scan),
     - the PING / PONG clauses of BananaRecv.step_nobody_hr. *)
From Coq Require Import ZArith List Bool Lia.
Import ListNotations.
Require Import Verif.lib.PyLite Verif.gen.BananaGen Verif.gen.TimersGen Verif.lib.BytesProofs
               Verif.lib.Token Verif.lib.TokenProofs Verif.lib.Recv Verif.lib.RecvProofs
               Verif.lib.BananaRecv Verif.lib.BananaRecvProofs Verif.lib.TimersWire.
Local Open Scope Z_scope.

(* ---- 1. token level, every receiver context: discarding or not, inside an OPEN's index phase or not, any stack *)

Lemma ping_step c n : step_nobody_hr c tok_PING n = Ok' c [EPong n].
Proof. unfold step_nobody_hr. destruct (0 <? discard c); reflexivity. Qed.

Lemma pong_step c n : step_nobody_hr c tok_PONG n = Ok' c [].
Proof. unfold step_nobody_hr. destruct (0 <? discard c); reflexivity. Qed.

(* the receiver model's PING / PONG behaviour is the one the generator reads off the current source: if PING or PONG leaves
   the exemption tuple of handleData, or a clause stops being `sendPONG(header); continue` / `continue`, this stops holding *)
Theorem source_shape_is_model c n :
  keepalive_clause_of_source c tok_PING n = Some (step_nobody_hr c tok_PING n) /\
  keepalive_clause_of_source c tok_PONG n = Some (step_nobody_hr c tok_PONG n).
Proof. rewrite ping_step, pong_step. split; reflexivity. Qed.

Theorem ping_tok_apply c n body : tok_apply c tok_PING n body = Ok' c [EPong n].
Proof. unfold tok_apply. change (has_body tok_PING) with false. cbv iota. apply ping_step. Qed.

Theorem pong_tok_apply c n body : tok_apply c tok_PONG n body = Ok' c [].
Proof. unfold tok_apply. change (has_body tok_PONG) with false. cbv iota. apply pong_step. Qed.

(* ---- 2. the bytes of sendPING n / sendPONG n are one header + type byte that the scanner reads back *)

Lemma send_wire (send : Z -> list Z -> res (list Z)) ty n :
  (forall w, send n w = match (if negb (n =? 0) then int2b128 n w else Ok w) with Exc t => Exc t | Ok w => Ok (w ++ [ty]) end) ->
  128 <= ty -> 0 <= n < 2 ^ 448 ->
  exists ds, send n [] = Ok (ds ++ [ty]) /\ le128 ds = n /\
             forall rest, scan_header 64 [] (ds ++ ty :: rest) = HOk ds ty rest.
Proof.
  intros Hs Hty Hn. rewrite Hs. destruct (Z.eqb_spec n 0) as [Ez|Hnz]; cbn [negb].
  - exists []. split; [reflexivity|]. split; [symmetry; exact Ez|]. intros rest. cbn [app scan_header rev].
    destruct (Z.leb_spec 128 ty); [reflexivity|lia].
  - assert (H : hdr_ok n = true).
    { unfold hdr_ok. apply andb_true_iff. split; [apply Z.leb_le|apply Z.ltb_lt]; lia. }
    destruct (hdr_tok_scan n ty [] [] H Hty) as (ds & E & _ & V).
    unfold hdr_tok, bind in E. destruct (int2b128 n []) as [w|t] eqn:Ew; [|discriminate].
    cbn [app] in E. inversion E as [E']. apply app_inv_tail in E'. subst w. exists ds. split; [reflexivity|]. split; [exact V|].
    intros rest. destruct (hdr_tok_scan n ty [] rest H Hty) as (ds' & E2 & S2 & _).
    unfold hdr_tok, bind in E2. rewrite Ew in E2. cbn [app] in E2. inversion E2 as [E2'].
    apply app_inv_tail in E2'. subst ds'. exact S2.
Qed.

Lemma ge_ping : 128 <= tok_PING. Proof. unfold tok_PING. lia. Qed.
Lemma ge_pong : 128 <= tok_PONG. Proof. unfold tok_PONG. lia. Qed.

(* ---- 3. one keepalive token fed to a receiver that is between two tokens *)

Lemma boundary_spec s : boundary s = true -> s = mk (r_ctx s) [] 0 false.
Proof.
  unfold boundary. intros H. apply andb_true_iff in H as [H H3]. apply andb_true_iff in H as [H1 H2].
  destruct s as [c b k d]. cbn in *. apply Z.eqb_eq in H2. destruct b; [|discriminate]. destruct d; [discriminate|].
  subst. reflexivity.
Qed.

Lemma boundary_stable s : boundary s = true -> stable bctx event begin_body finish_body step_nobody (fatal 0) (fatal 0) (fun _ => [ELose]) s.
Proof. intros H. rewrite (boundary_spec s H). right; right. cbn. auto. Qed.

Lemma feed_keepalive_token s ds ty n es :
  boundary s = true -> le128 ds = n -> ty <> tok_ERROR -> has_body ty = false ->
  (forall rest, scan_header 64 [] (ds ++ ty :: rest) = HOk ds ty rest) ->
  step_nobody_hr (r_ctx s) ty n = Ok' (r_ctx s) es ->
  bfeed s (ds ++ [ty]) = (s, es).
Proof.
  intros B V NE NB Sc St. rewrite (boundary_spec s B) at 1. unfold bfeed. rewrite feed_fresh. cbn [app].
  assert (L : exists f, S (List.length (ds ++ [ty])) = S (S f)).
  { rewrite app_length. cbn [List.length]. exists (List.length ds). lia. }
  destruct L as [f ->]. destruct (ds ++ [ty]) as [|x l] eqn:El; [destruct ds; discriminate|].
  rewrite loop_cons. rewrite <- El. unfold tok_step. rewrite (Sc []), V.
  destruct (Z.eqb_spec ty tok_ERROR) as [|_]; [contradiction|]. rewrite NB.
  unfold step_nobody. rewrite St. cbn [to_generic]. destruct f; cbn [loop]; rewrite app_nil_r; rewrite <- (boundary_spec s B); reflexivity.
Qed.

Theorem feed_ping s n bs : boundary s = true -> 0 <= n < 2 ^ 448 -> sendPING n [] = Ok bs -> bfeed s bs = (s, [EPong n]).
Proof.
  intros B Hn E. destruct (send_wire sendPING tok_PING n (fun w => eq_refl) ge_ping Hn) as (ds & E' & V & S).
  rewrite E in E'. inversion E'; subst bs.
  apply (feed_keepalive_token s ds tok_PING n); auto; [discriminate|apply ping_step].
Qed.

Theorem feed_pong s n bs : boundary s = true -> 0 <= n < 2 ^ 448 -> sendPONG n [] = Ok bs -> bfeed s bs = (s, []).
Proof.
  intros B Hn E. destruct (send_wire sendPONG tok_PONG n (fun w => eq_refl) ge_pong Hn) as (ds & E' & V & S).
  rewrite E in E'. inversion E'; subst bs.
  apply (feed_keepalive_token s ds tok_PONG n); auto; [discriminate|apply pong_step].
Qed.

Theorem ping_bytes_answered s n bs : boundary s = true -> 0 <= n < 2 ^ 448 ->
  (sendPING n [] = Ok bs -> bfeed s bs = (s, [EPong n])) /\ (sendPONG n [] = Ok bs -> bfeed s bs = (s, [])).
Proof. intros B H. split; [apply feed_ping|apply feed_pong]; assumption. Qed.

Theorem ping_any_context c n body :
  tok_apply c tok_PING n body = Ok' c [EPong n] /\ tok_apply c tok_PONG n body = Ok' c [].
Proof. split; [apply ping_tok_apply|apply pong_tok_apply]. Qed.

(* ---- 4. any number of keepalive tokens woven into any byte stream, one pass *)

Notation bstable := (stable bctx event begin_body finish_body step_nobody (fatal 0) (fatal 0) (fun _ => [ELose])).

Lemma bfeed_app s x y : bstable s ->
  bfeed s (x ++ y) = let '(s1, e1) := bfeed s x in let '(s2, e2) := bfeed s1 y in (s2, e1 ++ e2).
Proof. apply feed_app. Qed.

Lemma bfeed_stable s y : bstable s -> bstable (fst (bfeed s y)).
Proof. apply feed_stable. Qed.

Theorem woven_one_pass items : forall s bs, bstable s -> placed s items = true -> wire items = Ok bs ->
  bfeed s bs = (fst (expect s items), map snd (snd (expect s items))).
Proof.
  induction items as [|i r IH]; intros s bs St P W.
  - cbn in W. inversion W; subst. cbn [expect fst snd map]. apply (feed_nil _ _ _ _ _ _ _ _ s St).
  - cbn [wire] in W. destruct (item_bytes i) as [b|t] eqn:Eb; [|discriminate].
    destruct (wire r) as [br|t] eqn:Er; [|discriminate]. inversion W; subst bs. clear W.
    rewrite (bfeed_app s b br St). destruct i as [b0|n|n]; cbn [item_bytes] in Eb; cbn [placed] in P; cbn [expect].
    + inversion Eb; subst b0. pose proof (bfeed_stable s b St) as St1. destruct (bfeed s b) as [s1 e1]. cbn [fst] in *.
      rewrite (IH s1 br St1 P eq_refl). destruct (expect s1 r) as [s2 e2]. cbn [fst snd]. rewrite map_app, map_map. cbn [snd].
      rewrite map_id. reflexivity.
    + apply andb_true_iff in P as [P P4]. apply andb_true_iff in P as [P P3]. apply andb_true_iff in P as [P1 P2].
      apply Z.leb_le in P2. apply Z.ltb_lt in P3. rewrite (feed_ping s n b P1 (conj P2 P3) Eb).
      rewrite (IH s br St P4 eq_refl). destruct (expect s r) as [s2 e2]. reflexivity.
    + apply andb_true_iff in P as [P P4]. apply andb_true_iff in P as [P P3]. apply andb_true_iff in P as [P1 P2].
      apply Z.leb_le in P2. apply Z.ltb_lt in P3. rewrite (feed_pong s n b P1 (conj P2 P3) Eb).
      rewrite (IH s br St P4 eq_refl). destruct (expect s r) as [s2 e2]. reflexivity.
Qed.

(* ---- 5. what `expect` says: the ordinary stream is decoded as if the keepalive tokens were not there,
        and the PONGs answer the PINGs one for one, in order *)

Theorem expect_undisturbed items : forall s, bstable s ->
  let '(s', es) := expect s items in
  bfeed s (plain items) = (s', map snd (filter (fun e => negb (fst e)) es)) /\
  map snd (filter fst es) = map EPong (ping_numbers items).
Proof.
  induction items as [|i r IH]; intros s St.
  - cbn [expect plain filter map ping_numbers flat_map]. split; [apply (feed_nil _ _ _ _ _ _ _ _ s St)|reflexivity].
  - destruct i as [b|n|n]; cbn [expect plain ping_numbers flat_map app].
    + rewrite (bfeed_app s b (plain r) St). pose proof (bfeed_stable s b St) as St1. destruct (bfeed s b) as [s1 e1]. cbn [fst] in St1.
      specialize (IH s1 St1). destruct (expect s1 r) as [s2 e2]. destruct IH as [I1 I2]. rewrite I1.
      rewrite !filter_app, !map_app.
      assert (F1 : filter (fun e : bool * event => negb (fst e)) (map (pair false) e1) = map (pair false) e1).
      { clear. induction e1 as [|e l IHl]; [reflexivity|]. cbn. rewrite IHl. reflexivity. }
      assert (F2 : filter (@fst bool event) (map (pair false) e1) = []).
      { clear. induction e1 as [|e l IHl]; [reflexivity|]. cbn. exact IHl. }
      rewrite F1, F2, map_map. cbn [snd app]. rewrite map_id. split; [reflexivity|exact I2].
    + specialize (IH s St). destruct (expect s r) as [s2 e2]. destruct IH as [I1 I2]. cbn [filter fst negb map snd].
      split; [exact I1|]. rewrite I2. reflexivity.
    + apply (IH s St).
Qed.

(* ---- 6. C15 sentence 4, byte level, every chunking *)

Theorem woven_any_chunking c items bs cs :
  placed (init c) items = true -> wire items = Ok bs -> concat cs = bs ->
  let '(s', es) := expect (init c) items in
  bfeed_all (init c) cs = (s', map snd es) /\
  (forall cs', concat cs' = plain items -> bfeed_all (init c) cs' = (s', map snd (filter (fun e => negb (fst e)) es))) /\
  map snd (filter fst es) = map EPong (ping_numbers items).
Proof.
  intros P W C. pose proof (init_stable bctx event begin_body finish_body step_nobody (fatal 0) (fatal 0) (fun _ => [ELose]) c) as St.
  pose proof (woven_one_pass items (init c) bs St P W) as O.
  pose proof (expect_undisturbed items (init c) St) as U.
  destruct (expect (init c) items) as [s' es]. cbn [fst snd] in O. destruct U as [U1 U2].
  split; [|split; [|exact U2]].
  - rewrite banana_feed_is_run, C. exact O.
  - intros cs' C'. rewrite banana_feed_is_run, C'. exact U1.
Qed.

(* the bytes written back are the translated sendPONG of each PING's number, in order, and nothing for a PONG *)
Lemma pong_bytes_app a b : pong_bytes (a ++ b) =
  match pong_bytes a, pong_bytes b with Ok x, Ok y => Ok (x ++ y) | Exc t, _ => Exc t | _, Exc t => Exc t end.
Proof.
  induction a as [|e a IH]; cbn [app pong_bytes].
  - destruct (pong_bytes b); reflexivity.
  - destruct e; try exact IH. rewrite IH. destruct (sendPONG n []); [|reflexivity].
    destruct (pong_bytes a); [|reflexivity]. destruct (pong_bytes b); [rewrite app_assoc|]; reflexivity.
Qed.

(* ---- 7. non-vacuity: PINGs and a PONG inside a nested list, inside the index phase of an OPEN, inside a message
        that is being discarded after a violation; the stream cut in awkward places *)

Definition demo_items : list item :=
  [Ping 0; Bytes [0; 136]; Ping 5; Bytes [1; 130; 76]; Pong 9; Bytes [7; 129]; Ping (2 ^ 447); Bytes [0; 137];
   Bytes [1; 136; 2; 130; 73; 48]; Ping 300; Bytes [1; 130; 120]; Ping 7; Bytes [3; 129; 1; 137]; Ping 1].

Example ex_woven :
  placed (init (ctx0 0 [])) demo_items = true /\
  (exists bs, wire demo_items = Ok bs /\ (List.length bs = 99)%nat) /\
  ping_numbers demo_items = [0; 5; 2 ^ 447; 300; 7; 1] /\
  In (false, EDeliver (VList 76 [VInt 7])) (snd (expect (init (ctx0 0 [])) demo_items)) /\
  In (false, EViolation) (snd (expect (init (ctx0 0 [])) demo_items)).
Proof.
  split; [vm_compute; reflexivity|]. split; [eexists; split; [vm_compute; reflexivity|reflexivity]|].
  split; [reflexivity|]. split; vm_compute; tauto.
Qed.

(* a PING is NOT "between two tokens" while a rejected body is being skipped or a header is incomplete: `placed` says no *)
Example ex_not_placed :
  placed (init (ctx0 1 [])) [Bytes [5; 130; 1; 2]; Ping 3] = false /\ placed (init (ctx0 0 [])) [Bytes [5]; Ping 3] = false.
Proof. split; vm_compute; reflexivity. Qed.
