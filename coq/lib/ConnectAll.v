(* ConnectAll.v -- model of TubConnector.connectToAll with the callback chain it puts on each hint's Deferred
   (_good_hint, _remove, _connectionSuccess / _connectionFailed), checkForFailure and failed(), in the world of
   Connector.v: an endpoint that is dialled never answers (C20: "an untrusted FURL cannot stall or crash").
   A hint is characterised only by what happens when it is considered -- ANY behaviour, per hint:
     HPending          get_endpoint gave an endpoint and endpoint.connect() returned a Deferred that has not fired
     HWaiting          get_endpoint's Deferred has NOT fired when the reactor is idle: the handler is waiting for something
                       (a Tor handler whose Tor is starting: TorState.Waiting).  The Deferred sits in pendingConnections,
                       the hint is NOT in validHints, its status is what get_endpoint / the handler last set
     HConnectFails e   get_endpoint gave an endpoint, endpoint.connect() raised / failed at once with e
     HRaises e         get_endpoint's Deferred failed with e (InvalidHintError, or whatever the handler raised)
   What happens AFTER connect() has returned is the late phase at the end of this file: a waiting hint's Deferred fires, a
   pending endpoint.connect() fails, the connect timer fires (connectionTimedOut -> shutdown -> cancel -> _connectionFailed
   -> failed).
   Definitions only; proofs in ConnectAllProofs.v.  Tie: shape facts of connectToAll / _connectionFailed /
   checkForFailure / failed (translate/g_furl.py) and a correspondence with real TubConnectors (harness/c20.py). *)
From Coq Require Import ZArith List String Bool.
Import ListNotations.
Require Import Verif.lib.PyLite.
Local Open Scope Z_scope.

Definition hstr := list Z.
Inductive houtcome := HPending | HWaiting | HConnectFails (e : string) | HRaises (e : string).

(* ConnectionInfo status of a hint *)
(* SResolving: any status set before the hint's Deferred fires ("resolving hint" by get_endpoint, then whatever the
   handler reports through update_status: "connecting to a Tor", "launching Tor" ...) *)
Inductive hstatus := SConnecting | SBadHint | SFailed | SRefused | SAbandoned | SResolving.

Record cas := {
  remaining : list hstr;            (* self.remainingLocations, next to be popped FIRST (the Python list reversed) *)
  attempted : list hstr;            (* self.attemptedLocations, newest first *)
  valid : list hstr;                (* self.validHints, newest first *)
  pending : list hstr;              (* hints whose Deferred is in self.pendingConnections *)
  statuses : list (hstr * hstatus); (* newest first; the first entry for a hint is its current status *)
  reason : option string;           (* class of self.failureReason *)
  active : bool;
  failed_calls : nat                (* how often failed() ran = calls of Tub.connectionFailed *)
}.

Definition init (hints : list hstr) : cas :=
  {| remaining := hints; attempted := []; valid := []; pending := []; statuses := []; reason := None; active := true; failed_calls := 0 |}.

Fixpoint hmem (h : hstr) (l : list hstr) : bool :=
  match l with [] => false | x :: l' => list_eqb h x || hmem h l' end.

(* _connectionFailed's classification of the failure *)
Definition classify (e : string) : hstatus :=
  if String.eqb e "ConnectionRefusedError" then SRefused
  else if String.eqb e "ConnectingCancelledError" || String.eqb e "CancelledError" then SAbandoned
  else if String.eqb e "InvalidHintError" then SBadHint
  else SFailed.

Definition nil_b {A} (l : list A) : bool := match l with [] => true | _ => false end.

(* failed(): stop the timer, active = False, Tub.connectionFailed(target, failureReason) *)
Definition failed (s : cas) : cas :=
  {| remaining := remaining s; attempted := attempted s; valid := valid s; pending := pending s; statuses := statuses s;
     reason := reason s; active := false; failed_calls := S (failed_calls s) |}.

Definition check_for_failure (s : cas) : cas :=
  if negb (active s) then s
  else if negb (nil_b (remaining s)) || negb (nil_b (pending s)) then s
  else failed (if nil_b (valid s)
               then {| remaining := remaining s; attempted := attempted s; valid := valid s; pending := pending s; statuses := statuses s;
                       reason := Some "NoLocationHintsError"%string; active := active s; failed_calls := failed_calls s |}
               else s).

(* errback _connectionFailed(reason, hint): status, first failure kept, checkForFailure (checkForIdle only tells the Tub that
   the connector is finished) *)
Definition connection_failed (e : string) (h : hstr) (s : cas) : cas :=
  check_for_failure
    {| remaining := remaining s; attempted := attempted s; valid := valid s; pending := pending s;
       statuses := (h, classify e) :: statuses s;
       reason := match reason s with Some r => Some r | None => Some e end;
       active := active s; failed_calls := failed_calls s |}.

(* callback _good_hint up to endpoint.connect(): status "connecting", validHints.append *)
Definition good_hint (h : hstr) (s : cas) : cas :=
  {| remaining := remaining s; attempted := attempted s; valid := h :: valid s; pending := pending s;
     statuses := (h, SConnecting) :: statuses s; reason := reason s; active := active s; failed_calls := failed_calls s |}.

Definition add_pending (h : hstr) (s : cas) : cas :=
  {| remaining := remaining s; attempted := attempted s; valid := valid s; pending := h :: pending s;
     statuses := statuses s; reason := reason s; active := active s; failed_calls := failed_calls s |}.

(* get_endpoint's _update_status("resolving hint") / the handler's update_status, for a hint whose Deferred does not fire *)
Definition resolving (h : hstr) (s : cas) : cas :=
  {| remaining := remaining s; attempted := attempted s; valid := valid s; pending := pending s;
     statuses := (h, SResolving) :: statuses s; reason := reason s; active := active s; failed_calls := failed_calls s |}.

Definition consider (beh : hstr -> houtcome) (h : hstr) (s : cas) : cas :=
  match beh h with
  | HPending => add_pending h (good_hint h s)
  | HWaiting => add_pending h (resolving h s)
  | HConnectFails e => connection_failed e h (good_hint h s)
  | HRaises e => connection_failed e h s
  end.

(* the while loop: pop, skip what was attempted, consider; then checkForFailure *)
Fixpoint connect_loop (beh : hstr -> houtcome) (l : list hstr) (s : cas) : cas :=
  match l with
  | [] => check_for_failure s
  | h :: rest =>
      let s0 := {| remaining := rest; attempted := attempted s; valid := valid s; pending := pending s; statuses := statuses s;
                   reason := reason s; active := active s; failed_calls := failed_calls s |} in
      if hmem h (attempted s0) then connect_loop beh rest s0
      else connect_loop beh rest
             (consider beh h {| remaining := rest; attempted := h :: attempted s0; valid := valid s0; pending := pending s0;
                                statuses := statuses s0; reason := reason s0; active := active s0; failed_calls := failed_calls s0 |})
  end.

(* TubConnector.connect() for the hints in the order in which connectToAll pops them (the FURL's hints reversed) *)
Definition connect_all (beh : hstr -> houtcome) (hints : list hstr) : cas := connect_loop beh hints (init hints).

(* the hint's Deferred stays in pendingConnections: an endpoint is being dialled, or the handler is still waiting *)
Definition is_pending (o : houtcome) : bool := match o with HPending | HWaiting => true | _ => false end.
(* the `usable` flag of Connector.v's GetRef event: some hint is being dialled or waited for when connect() returns *)
Definition usable (beh : hstr -> houtcome) (hints : list hstr) : bool := existsb (fun h => is_pending (beh h)) hints.

(* the current status of a hint *)
Fixpoint status_of (h : hstr) (l : list (hstr * hstatus)) : option hstatus :=
  match l with [] => None | (x, st) :: l' => if list_eqb h x then Some st else status_of h l' end.

Definition expected_status (o : houtcome) : hstatus :=
  match o with HPending => SConnecting | HWaiting => SResolving | HConnectFails e => classify e | HRaises e => classify e end.

(* observation for the correspondence *)
Definition st_code (s : hstatus) : Z := match s with SConnecting => 0 | SBadHint => 1 | SFailed => 2 | SRefused => 3 | SAbandoned => 4 | SResolving => 5 end.
Definition obs (s : cas) : list hstr * list hstr * Z * list (hstr * Z) * option string * bool * Z :=
  (rev (attempted s), rev (valid s), Z.of_nat (List.length (pending s)),
   map (fun h => (h, match status_of h (statuses s) with Some st => st_code st | None => -1 end)) (rev (attempted s)),
   reason s, active s, Z.of_nat (failed_calls s)).

(* ================================================================== the late phase: after connect() has returned
   Events, in any order and number:
     LResolve h o   the Deferred of the WAITING hint h fires at last (the Tor came up / gave up): o = HPending (endpoint,
                    connect() pending), HConnectFails e, HRaises e; (o = HWaiting: nothing happens)
     LConnFail h e  the pending endpoint.connect() of the DIALLED hint h fails with e (refused later, timed out ...)
     LTimeout       the connect timer fires: connectionTimedOut() = failureReason := NegotiationError; shutdown() [active :=
                    False, remainingLocations := [], d.cancel() for every pending Deferred, which runs _remove and
                    _connectionFailed(CancelledError / ConnectingCancelledError / whatever the Deferred's canceller fails
                    it with: cx h) at once]; failed().  failed() cancels the timer, so it fires only on an active connector.
   An event that cannot happen in the state (h not waiting / not dialled, connector not active) leaves it unchanged.
   pendingConnections is a set: the order of the cancellations is the set's; the statuses of different hints do not depend on it. *)
Definition remove_pending (h : hstr) (s : cas) : cas :=
  {| remaining := remaining s; attempted := attempted s; valid := valid s;
     pending := filter (fun x => negb (list_eqb h x)) (pending s);
     statuses := statuses s; reason := reason s; active := active s; failed_calls := failed_calls s |}.

Definition is_waiting (h : hstr) (s : cas) : bool := hmem h (pending s) && negb (hmem h (valid s)).
Definition is_dialled (h : hstr) (s : cas) : bool := hmem h (pending s) && hmem h (valid s).

Inductive lev := LResolve (h : hstr) (o : houtcome) | LConnFail (h : hstr) (e : string) | LTimeout.

Fixpoint cancel_all (cx : hstr -> string) (l : list hstr) (s : cas) : cas :=
  match l with
  | [] => s
  | h :: l' => cancel_all cx l' (connection_failed (cx h) h (remove_pending h s))
  end.

Definition timed_out (cx : hstr -> string) (s : cas) : cas :=
  let s1 := {| remaining := []; attempted := attempted s; valid := valid s; pending := pending s; statuses := statuses s;
               reason := Some "NegotiationError"%string; active := false; failed_calls := failed_calls s |} in
  failed (cancel_all cx (pending s1) s1).

Definition late_step (cx : hstr -> string) (s : cas) (ev : lev) : cas :=
  match ev with
  | LResolve h o =>
      if is_waiting h s then
        match o with
        | HPending => good_hint h s
        | HWaiting => s
        | HConnectFails e => connection_failed e h (remove_pending h (good_hint h s))
        | HRaises e => connection_failed e h (remove_pending h s)
        end
      else s
  | LConnFail h e => if is_dialled h s then connection_failed e h (remove_pending h s) else s
  | LTimeout => if active s then timed_out cx s else s
  end.

Definition run_late (cx : hstr -> string) (evs : list lev) (s : cas) : cas := fold_left (late_step cx) evs s.

(* observation after each late event, for the correspondence *)
Fixpoint late_trace (cx : hstr -> string) (evs : list lev) (s : cas) : list cas :=
  match evs with [] => [] | ev :: evs' => let s' := late_step cx s ev in s' :: late_trace cx evs' s' end.

(* the canceller of a Deferred that has none (every Deferred met here) fails it with CancelledError *)
Definition cx_default : hstr -> string := fun _ => "CancelledError"%string.
