(* C02 / C12: executable model of foolscap's schema enforcement.
   - object level : checkObject of every constraint class (constraint.py, schema.py, slicers/*.py)
   - token level  : Constraint.checkToken / PolyConstraint.checkToken tasters, checkOpentype, the
                    setConstraint hand-down of every Unslicer and each Unslicer's own size checks,
                    as a function  recvw : constraint-of-the-slot -> wire tree -> delivered | Violation | Abort
   - honest sender: slice : obj -> wire tree  (Banana.sendToken's integer split is the TRANSLATED int_token)
   - call level   : RemoteMethodSchema.checkAllArgs, ArgumentUnslicer, Broker._doCall, AnswerUnslicer.
   All comparison operators, taster tables, strictness flags, opentypes and the two shape facts
   (doCall_shape, answer_checks_object) come from gen/SchemaGen.v, regenerated from the source on every run.
   Definitions only; proofs are in SchemaProofs.v. *)
From Coq Require Import ZArith List String Bool Lia.
Import ListNotations.
Require Import Verif.lib.PyLite Verif.gen.BananaGen Verif.gen.SchemaGen.
Local Open Scope Z_scope.

Definition scmp_eval (op : scmp) (a b : Z) : bool :=
  match op with
  | SGt => a >? b | SGe => a >=? b | SLt => a <? b | SLe => a <=? b | SEq => a =? b | SNe => negb (a =? b)
  end.

Definition zlen {A} (l : list A) : Z := Z.of_nat (List.length l).

(* `if self.max != None and len(obj) OP self.max: raise Violation` *)
Definition over_max (op : scmp) (mx : option Z) (n : Z) : bool :=
  match mx with None => false | Some m => scmp_eval op n m end.

Definition len_ok (opmax opmin : scmp) (mx : option Z) (mn n : Z) : bool :=
  negb (over_max opmax mx n) && negb (scmp_eval opmin n mn).

(* ---- values: the part of Python's object universe the schema vocabulary talks about.
   Floats are opaque bit patterns, text is a list of code points, a dict is two parallel lists. *)
Inductive obj :=
| OInt (z : Z) | OFloat (bits : Z) | OBytes (bs : list Z) | OText (cps : list Z) | OBool (b : bool) | ONone
| OList (l : list obj) | OTuple (l : list obj) | OSet (l : list obj) | OFset (l : list obj)
| ODict (ks vs : list obj)
| ORemote (claim : list Z)  (* a RemoteReference as the receiver sees it: the interface NAME its sender claimed for it
                               ([] = none); the receiver resolves the name through its own registry *)
| OPending (k : nat).       (* the Deferred placeholder of the k-th enclosing tuple that is still being received; it is
                               replaced by that tuple when the tuple completes (a cycle through an immutable container) *)

(* ---- constraint trees.  CInt (Some (-1)) is the 32-bit IntegerConstraint; COpt is an Optional/Shared
   found BELOW the argument level (at the argument level it is unwrapped, see argspec). *)
Inductive ctr :=
| CAny | CInt (mb : option Z) | CNumber (mb : option Z)
| CBytes (mx : option Z) (mn : Z) | CText (mx : option Z) (mn : Z)
| CBool (v : option bool) | CNone
| CList (c : ctr) (mx : option Z) (mn : Z) | CTuple (cs : list ctr)
| CDict (k v : ctr) (mk : option Z) | CSet (c : ctr) (mx : option Z) (mut : option bool)
| CChoice (cs : list ctr) | COpt (c : ctr)
| CRemote (iface : option (list Z)).   (* RemoteInterfaceConstraint, inbound side: the declared interface's name, None = any *)

Definition int_ok (mb : option Z) (z : Z) : bool := is_ok (int_check z mb).

Definition mut_ok (mut : option bool) (is_mutable : bool) : bool :=
  match mut with None => true | Some m => Bool.eqb m is_mutable end.

Definition bool_ok (v : option bool) (b : bool) : bool :=
  match v with None => true | Some x => Bool.eqb b x end.

(* pointwise test of two lists, up to the shorter one (lengths are compared separately, as the code does) *)
Definition all2 {A B} (f : A -> B -> bool) : list A -> list B -> bool :=
  fix go (xs : list A) (ys : list B) {struct xs} : bool :=
    match xs, ys with x :: xs', y :: ys' => f x y && go xs' ys' | _, _ => true end.

(* every class's checkObject, as "does not raise Violation" *)
Fixpoint checkObject (c : ctr) (o : obj) {struct c} : bool :=
  match c with
  | CAny => true
  | CInt mb => match o with OInt z => int_ok mb z | _ => false end
  | CNumber mb => match o with OFloat _ => true | OInt z => int_ok mb z | _ => false end
  | CBytes mx mn => match o with OBytes bs => len_ok bytes_max_cmp bytes_min_cmp mx mn (zlen bs) | _ => false end
  | CText mx mn => match o with OText cps => len_ok text_max_cmp text_min_cmp mx mn (zlen cps) | _ => false end
  | CBool v => match o with OBool b => bool_ok v b | _ => false end
  | CNone => match o with ONone => true | _ => false end
  | CList ci mx mn =>
      match o with
      | OList l => len_ok list_max_cmp list_min_cmp mx mn (zlen l) && forallb (checkObject ci) l
      | _ => false
      end
  | CTuple cs =>
      match o with
      | OTuple l =>
          negb (scmp_eval tuple_len_cmp (zlen l) (zlen cs)) &&
          all2 checkObject cs l
      | _ => false
      end
  | CDict kc vc mk =>
      match o with
      | ODict ks vs => negb (over_max dict_max_cmp mk (zlen ks)) && forallb (checkObject kc) ks && forallb (checkObject vc) vs
      | _ => false
      end
  | CSet ci mx mut =>
      match o with
      | OSet l => mut_ok mut true && negb (over_max set_max_cmp mx (zlen l)) && forallb (checkObject ci) l
      | OFset l => mut_ok mut false && negb (over_max set_max_cmp mx (zlen l)) && forallb (checkObject ci) l
      | _ => false
      end
  | CChoice cs => existsb (fun c1 => checkObject c1 o) cs
  | COpt _ => true
  | CRemote iface =>       (* inbound: must be a RemoteReference; `not iface or iface != self.interface` -> Violation *)
      match o with
      | ORemote claim => match iface with None => true | Some d => negb (list_is_nil claim) && list_eqb claim d end
      | _ => false
      end
  end.

(* ---- token level *)
Inductive tv := TOk | TViol | TBanana.

Fixpoint assoc (k : Z) (t : list (Z * option Z)) : option (option Z) :=
  match t with [] => None | (k', v) :: t' => if k =? k' then Some v else assoc k t' end.

(* Constraint.checkToken:  limit = taster.get(typebyte, "not in list"); not in list -> BananaError if strictTaster else
   Violation;  `if <limit is set> and size OP limit` -> Violation  (whether 0 counts as "set" is read from the source) *)
Definition checkToken_base (taster : list (Z * option Z)) (strict : bool) (tb size : Z) : tv :=
  match assoc tb taster with
  | None => if strict then TBanana else TViol
  | Some None => TOk
  | Some (Some l) =>
      if (negb token_limit_zero_unlimited || negb (l =? 0)) && scmp_eval token_size_cmp size l then TViol else TOk
  end.

Definition taster_of (c : ctr) : list (Z * option Z) :=
  match c with
  | CAny | COpt _ | CChoice _ => everythingTaster
  | CInt mb => int_taster mb
  | CNumber mb => number_taster mb
  | CBytes mx _ => bytes_taster mx
  | _ => openTaster
  end.

Definition strict_of (c : ctr) : bool :=
  match c with
  | CAny => strict_Any | CInt _ => strict_Int | CNumber _ => strict_Number | CBytes _ _ => strict_Bytes
  | CText _ _ => strict_Text | CBool _ => strict_Bool | CNone => strict_None | CList _ _ _ => strict_List
  | CTuple _ => strict_Tuple | CDict _ _ _ => strict_Dict | CSet _ _ _ => strict_Set
  | CChoice _ => strict_Choice | COpt _ => strict_Opt | CRemote _ => strict_Remote
  end.

Definition tv_ok (t : tv) : bool := match t with TOk => true | _ => false end.

(* PolyConstraint.checkToken: accepted iff some alternative accepts (Violation and BananaError both swallowed) *)
Fixpoint taste (c : ctr) (tb size : Z) {struct c} : tv :=
  match c with
  | CChoice cs =>
      if existsb (fun c1 => tv_ok (taste c1 tb size)) cs then TOk else TViol
  | _ => checkToken_base (taster_of c) (strict_of c) tb size
  end.

Definition opentypes_of (c : ctr) : option (list otype) :=
  match c with
  | CAny => opentypes_Any | CInt _ => opentypes_Int | CNumber _ => opentypes_Number | CBytes _ _ => opentypes_Bytes
  | CText _ _ => opentypes_Text | CBool _ => opentypes_Bool | CNone => opentypes_None | CList _ _ _ => opentypes_List
  | CTuple _ => opentypes_Tuple | CDict _ _ _ => opentypes_Dict | CSet _ _ _ => opentypes_Set
  | CChoice _ => opentypes_Choice | COpt _ => opentypes_Opt | CRemote _ => opentypes_Remote
  end.

Definition otype_eqb (a b : otype) : bool :=
  match a, b with
  | OtList, OtList | OtTuple, OtTuple | OtSet, OtSet | OtFset, OtFset | OtDict, OtDict
  | OtUnicode, OtUnicode | OtBool, OtBool | OtNone, OtNone | OtMyRef, OtMyRef | OtTheirRef, OtTheirRef => true
  | _, _ => false
  end.

Definition checkOpentype (c : ctr) (ot : otype) : bool :=
  match opentypes_of c with None => true | Some l => existsb (otype_eqb ot) l end.

(* ---- wire trees: what a peer can put on the wire for one object *)
Inductive wobj :=
| WInt (tb size v : Z)                       (* INT/NEG/LONGINT/LONGNEG token: type byte, header (value or body length), value *)
| WFloat (bits : Z)
| WStr (vocab : bool) (size : Z) (bs : list Z)   (* STRING (size = length) or VOCAB (size = index) token *)
| WOpen (ot : otype) (kids : list wobj)      (* OPEN <opentype> kids CLOSE *)
| WRefOpen (k : nat) (partial : obj)         (* OPEN reference n CLOSE, n naming the k-th ENCLOSING list / dict / set, which
                                                is still open: the receiver's table holds the real, partially filled
                                                container (partial = its members so far) and checkObject sees THAT; what
                                                is stored is the container itself, i.e. a cycle (OPending k) *)
| WRef (o : obj).                            (* OPEN reference n CLOSE, n naming an earlier, complete object o -- or, with
                                                o = OPending k, the k-th enclosing tuple, which is still open: the receiver's
                                                table holds a Deferred for it and checkObject is applied to that Deferred *)

(* the child Unslicer pushed for an OPEN and what setConstraint left in it.  An inner None = attribute left unset *)
Inductive child :=
| ChList (ic : option ctr) (mx : option Z) | ChTuple (cs : option (list ctr))
| ChDict (kv : option (ctr * ctr)) (mk : option Z) | ChSet (ic : option ctr) (mx : option Z)
| ChFset (ic : option ctr) (mx : option Z) | ChText (mx : option Z) | ChBool (v : option bool) | ChNone | ChMyRef.

Definition free_child (ot : otype) : child :=
  match ot with
  | OtList => ChList None None | OtTuple => ChTuple None | OtDict => ChDict None None | OtSet => ChSet None None
  | OtFset => ChFset None None | OtUnicode => ChText None | OtBool => ChBool None | OtNone => ChNone
  | OtMyRef | OtTheirRef => ChMyRef          (* their-reference (gifts) is not modelled beyond its opentype *)
  end.

(* parent.doOpen: `unslicer.setConstraint(c)`.  None = the isinstance assertion fails (AssertionError escapes
   dataReceived: connection lost).  oc = None: the parent has no constraint for this slot and does not call it. *)
Definition child_of (ot : otype) (oc : option ctr) : option child :=
  match oc with
  | None => Some (free_child ot)
  | Some c =>
      match ot, c with
      | OtNone, _ => Some ChNone                        (* BaseUnslicer.setConstraint: pass *)
      | OtMyRef, _ | OtTheirRef, _ => Some ChMyRef      (* referenceable.ReferenceUnslicer has no setConstraint either *)
      | _, CAny => Some (free_child ot)                 (* isinstance(constraint, Any): return *)
      | OtList, CList ic mx _ => Some (ChList (Some ic) mx)
      | OtTuple, CTuple cs => Some (ChTuple (Some cs))
      | OtDict, CDict k v mk => Some (ChDict (Some (k, v)) mk)
      | OtSet, CSet ic mx _ => Some (ChSet (Some ic) mx)
      | OtFset, CSet ic mx _ => Some (ChFset (Some ic) mx)
      | OtUnicode, CText mx _ => Some (ChText mx)
      | OtBool, CBool v => Some (ChBool v)
      | _, _ => if setConstraint_asserts_exact_class then None else Some (free_child ot)
      end
  end.

(* the constraint a container child applies to its i-th token; None = "full" -> Violation *)
Definition child_slot (ch : child) (i : nat) : option (option ctr) :=
  let n := Z.of_nat i in
  match ch with
  | ChList ic mx => if over_max list_full_cmp mx n then None else Some ic
  | ChTuple None => Some None
  | ChTuple (Some cs) => if scmp_eval tuple_full_cmp n (zlen cs) then None else Some (nth_error cs i)
  | ChDict kv mk =>
      if over_max dict_full_cmp mk (Z.of_nat (Nat.div2 i)) then None
      else Some (match kv with None => None | Some (k, v) => Some (if Nat.even i then k else v) end)
  | ChSet ic mx => if over_max set_full_cmp mx n then None else Some ic
  | ChFset ic mx => if over_max fset_full_cmp mx n then None else Some ic
  | _ => Some None
  end.

Inductive rv := RDeliver (o : obj) | RViol | RAbort.
Inductive krv := KOk (l : list obj) | KViol | KAbort.

Definition of_tv (t : tv) (o : obj) : rv := match t with TOk => RDeliver o | TViol => RViol | TBanana => RAbort end.

Definition slot_token (oc : option ctr) (tb size : Z) (o : obj) : rv :=
  match oc with None => RDeliver o | Some c => of_tv (taste c tb size) o end.

Definition slot_open (oc : option ctr) : tv := match oc with None => TOk | Some c => taste c tok_OPEN 0 end.

Definition slot_opentype (oc : option ctr) (ot : otype) : bool :=
  match oc with None => true | Some c => checkOpentype c ot end.

Fixpoint evens {A} (l : list A) : list A := match l with x :: _ :: l' => x :: evens l' | _ => [] end.
Fixpoint odds {A} (l : list A) : list A := match l with _ :: y :: l' => y :: odds l' | _ => [] end.

Definition build (ch : child) (l : list obj) : obj :=
  match ch with
  | ChList _ _ => OList l | ChTuple _ => OTuple l | ChDict _ _ => ODict (evens l) (odds l)
  | ChSet _ _ => OSet l | ChFset _ _ => OFset l | _ => ONone
  end.

(* ---- text.  A Python str may hold lone surrogates (U+D800..U+DFFF: os.fsdecode / surrogateescape produce them);
   str.encode("UTF-8") raises UnicodeEncodeError exactly on those, and bytes.decode("UTF-8") refuses their three-byte forms
   (utf8_valid below is that decoder; SchemaProofs.utf8_encode_valid_iff relates the two).  In a wire tree the payload of
   the STRING token inside OPEN unicode is the BODY BYTES, like that of every other STRING token: a peer can put any bytes
   there, and UnicodeUnslicer.receiveChild decodes them (recv_text). *)
Definition cp_encodable (cp : Z) : bool :=
  (0 <=? cp) && (cp <=? 1114111) && negb ((55296 <=? cp) && (cp <=? 57343)).
Definition text_encodable (cps : list Z) : bool := forallb cp_encodable cps.

Fixpoint encodable (o : obj) : bool :=
  match o with
  | OText cps => text_encodable cps
  | OList l | OTuple l | OSet l | OFset l => forallb encodable l
  | ODict ks vs => forallb encodable ks && forallb encodable vs
  | _ => true
  end.

(* length of the UTF-8 form of a text (Python's str.encode("UTF-8")) *)
Definition utf8len (cp : Z) : Z := if cp <? 128 then 1 else if cp <? 2048 then 2 else if cp <? 65536 then 3 else 4.
Definition utf8size (cps : list Z) : Z := fold_right (fun cp n => utf8len cp + n) 0 cps.
(* the bytes themselves (the generic forms; for a lone surrogate this is what errors="surrogatepass" emits) *)
Definition utf8_encode_cp (cp : Z) : list Z :=
  if cp <? 128 then [cp]
  else if cp <? 2048 then [192 + cp / 64; 128 + cp mod 64]
  else if cp <? 65536 then [224 + cp / 4096; 128 + (cp / 64) mod 64; 128 + cp mod 64]
  else [240 + cp / 262144; 128 + (cp / 4096) mod 64; 128 + (cp / 64) mod 64; 128 + cp mod 64].
Definition utf8_encode (cps : list Z) : list Z := flat_map utf8_encode_cp cps.

(* is this byte string text?  Exactly the byte strings Python's strict UTF-8 decoder accepts (RFC 3629: no overlong forms,
   no surrogates, nothing above U+10FFFF): six.ensure_str(token) / bytes.decode("UTF-8") raise UnicodeDecodeError on the
   others.  sp = true is the lenient errors="surrogatepass" decoder, which also takes ED A0..BF xx (U+D800..U+DFFF). *)
Definition u8cont (b : Z) : bool := (128 <=? b) && (b <=? 191).
Fixpoint utf8_valid (l : list Z) : bool :=
  match l with
  | [] => true
  | b :: r =>
      if (0 <=? b) && (b <? 128) then utf8_valid r
      else if (194 <=? b) && (b <=? 223) then
        match r with c1 :: r1 => u8cont c1 && utf8_valid r1 | _ => false end
      else if (224 <=? b) && (b <=? 239) then
        match r with
        | c1 :: c2 :: r2 =>
            (if b =? 224 then (160 <=? c1) && (c1 <=? 191) else if b =? 237 then (128 <=? c1) && (c1 <=? 159) else u8cont c1)
            && u8cont c2 && utf8_valid r2
        | _ => false
        end
      else if (240 <=? b) && (b <=? 244) then
        match r with
        | c1 :: c2 :: c3 :: r3 =>
            (if b =? 240 then (144 <=? c1) && (c1 <=? 191) else if b =? 244 then (128 <=? c1) && (c1 <=? 143) else u8cont c1)
            && u8cont c2 && u8cont c3 && utf8_valid r3
        | _ => false
        end
      else false
  end.
Fixpoint utf8_valid_sp (l : list Z) : bool :=
  match l with
  | [] => true
  | b :: r =>
      if (0 <=? b) && (b <? 128) then utf8_valid_sp r
      else if (194 <=? b) && (b <=? 223) then
        match r with c1 :: r1 => u8cont c1 && utf8_valid_sp r1 | _ => false end
      else if (224 <=? b) && (b <=? 239) then
        match r with
        | c1 :: c2 :: r2 => (if b =? 224 then (160 <=? c1) && (c1 <=? 191) else u8cont c1) && u8cont c2 && utf8_valid_sp r2
        | _ => false
        end
      else if (240 <=? b) && (b <=? 244) then
        match r with
        | c1 :: c2 :: c3 :: r3 =>
            (if b =? 240 then (144 <=? c1) && (c1 <=? 191) else if b =? 244 then (128 <=? c1) && (c1 <=? 143) else u8cont c1)
            && u8cont c2 && u8cont c3 && utf8_valid_sp r3
        | _ => false
        end
      else false
  end.

(* the text a byte string that passed utf8_valid / utf8_valid_sp stands for (bytes.decode("UTF-8")); on other input the
   value is irrelevant (recv_text tests first).  SchemaProofs.utf8_decode_encode: it inverts utf8_encode *)
Fixpoint utf8_decode (l : list Z) : list Z :=
  match l with
  | [] => []
  | b :: r =>
      if b <? 128 then b :: utf8_decode r
      else if b <? 224 then
        match r with c1 :: r1 => ((b - 192) * 64 + (c1 - 128)) :: utf8_decode r1 | _ => [] end
      else if b <? 240 then
        match r with c1 :: c2 :: r2 => ((b - 224) * 4096 + (c1 - 128) * 64 + (c2 - 128)) :: utf8_decode r2 | _ => [] end
      else
        match r with
        | c1 :: c2 :: c3 :: r3 => ((b - 240) * 262144 + (c1 - 128) * 4096 + (c2 - 128) * 64 + (c3 - 128)) :: utf8_decode r3
        | _ => []
        end
  end.

(* leaf unslicers *)
(* UnicodeUnslicer.checkToken: a STRING body of more than factor*maxLength bytes cannot hold <= maxLength characters *)
Definition text_body_too_long (mx : option Z) (vocab : bool) (size : Z) : bool :=
  unicode_unslicer_checks_size && negb vocab &&
  match mx with None => false | Some m => scmp_eval unicode_size_cmp size (unicode_size_factor * m) end.

(* obj.decode("UTF-8"[, "surrogatepass"]) does not raise *)
Definition body_decodable (bs : list Z) : bool :=
  if unicode_unslicer_strict_decode then utf8_valid bs else utf8_valid_sp bs.

Definition recv_text (mx : option Z) (kids : list wobj) : rv :=
  match kids with
  | [] => RDeliver ONone                                   (* receiveClose returns self.string = None *)
  | WStr vocab size bs :: rest =>
      if text_body_too_long mx vocab size then RViol
      else if negb (body_decodable bs) then
        (* receiveChild: self.string = obj.decode("UTF-8") raises UnicodeDecodeError on ANY body that is not UTF-8 (a stray
           continuation byte, an overlong form, a surrogate, 0xFF ..).  That is neither Violation nor BananaError: unless
           the unslicer turns it into a Violation (read from the source) it escapes dataReceived: connection lost *)
        (if unicode_unslicer_undecodable_violation then RViol else RAbort)
      else match rest with
           | [] => RDeliver (OText (utf8_decode bs))       (* the text the body stands for *)
           | _ => RAbort                                   (* BananaError: already received a string / not a string *)
           end
  | _ => RAbort                                            (* BananaError: UnicodeUnslicer only accepts strings *)
  end.

Definition recv_bool (v : option bool) (kids : list wobj) : rv :=
  match kids with
  | [] => RDeliver ONone                                   (* receiveClose returns self.value = None *)
  | WInt tb _ x :: rest =>
      if negb (tb =? tok_INT) then RAbort
      else if negb (bool_ok v (negb (x =? 0))) then RViol
      else match rest with [] => RDeliver (OBool (negb (x =? 0))) | _ => RAbort end
  | _ => RAbort
  end.

(* a container Unslicer receiving its children: f is the receiver of one child (recvw below) *)
Definition kids_with (f : option ctr -> wobj -> rv) (ch : child) : list wobj -> nat -> krv :=
  fix go (ks : list wobj) (i : nat) {struct ks} : krv :=
    match ks with
    | [] => KOk []
    | k :: ks' =>
        match child_slot ch i with
        | None => KViol                                   (* "the list/tuple/dict/set is full" *)
        | Some occ =>
            match f occ k with
            | RDeliver x => match go ks' (S i) with KOk l => KOk (x :: l) | e => e end
            | RViol => KViol
            | RAbort => KAbort
            end
        end
    end.

(* referenceable.ReferenceUnslicer: clid (INT/NEG), optional interface name, optional url (ByteStringConstraint() each).
   receiveChild: self.interfaceName = six.ensure_str(obj) or None / self.url = six.ensure_str(obj): a name or URL that is
   not UTF-8 raises UnicodeDecodeError -- a Violation when the statement is guarded, otherwise it escapes dataReceived
   (connection lost); which one is read from the source (myref_nontext_*_violation).
   A URL that IS text is parsed by RemoteReferenceTracker.__init__ (SturdyRef(url)) and its tubid compared with the
   connection's peer: a foreign tubid is a BananaError by design (the identity check of C05), a text that is no FURL at
   all escapes as ValueError / BadFURLError -- connection lost in both cases; only the FURL the sending Tub itself
   publishes is accepted.  This model has no Tub identities: it answers "connection lost" for EVERY text URL (the
   conservative side: no theorem of C02 / C12 claims delivery of a URL-carrying reference; slice sends none). *)
Definition recv_myref (kids : list wobj) : rv :=
  match kids with
  | [WInt tb _ _] => if (tb =? tok_INT) || (tb =? tok_NEG) then RDeliver (ORemote []) else RAbort
  | WInt tb _ _ :: WStr _ _ name :: rest =>
      if negb ((tb =? tok_INT) || (tb =? tok_NEG)) then RAbort
      else if negb (utf8_valid name) then (if myref_nontext_name_violation then RViol else RAbort)
      else match rest with
           | [] => RDeliver (ORemote name)
           | [WStr _ _ url] =>
               if negb (utf8_valid url) then (if myref_nontext_url_violation then RViol else RAbort)
               else RAbort                                   (* not modelled: see above *)
           | _ => RViol
           end
  | _ => RAbort
  end.

(* what the receiver does with one object arriving in a slot governed by oc *)
Fixpoint recvw (oc : option ctr) (w : wobj) {struct w} : rv :=
  match w with
  | WInt tb size v => slot_token oc tb size (OInt v)
  | WFloat bits => slot_token oc tok_FLOAT 0 (OFloat bits)
  | WStr vocab size bs => slot_token oc (if vocab then tok_VOCAB else tok_STRING) size (OBytes bs)
  | WRefOpen k partial =>
      match slot_open oc with
      | TViol => RViol | TBanana => RAbort
      | TOk => match oc with
               | None => RDeliver (OPending k)
               | Some c => if negb reference_rechecks_object || checkObject c partial then RDeliver (OPending k) else RViol
               end
      end
  | WRef o =>
      match slot_open oc with
      | TViol => RViol | TBanana => RAbort
      | TOk => match oc with                                (* ('reference',) always passes checkOpentype *)
               | None => RDeliver o
               | Some c => if negb reference_rechecks_object || checkObject c o then RDeliver o else RViol
               end
      end
  | WOpen ot kids =>
      match slot_open oc with
      | TViol => RViol | TBanana => RAbort
      | TOk =>
          if negb (slot_opentype oc ot) then RViol
          else match child_of ot oc with
               | None => RAbort
               | Some ch =>
                   match ch with
                   | ChText mx => recv_text mx kids
                   | ChBool v => recv_bool v kids
                   | ChNone => match kids with [] => RDeliver ONone | _ => RAbort end
                   | ChMyRef => recv_myref kids
                   | _ =>
                       match kids_with recvw ch kids O with
                       | KOk l => RDeliver (build ch l)
                       | KViol => RViol
                       | KAbort => RAbort
                       end
                   end
               end
      end
  end.

Definition recv_kids : child -> list wobj -> nat -> krv := kids_with recvw.

(* ---- the honest sender.  Integers: the translated split of Banana.sendToken (int_token). *)
Fixpoint interleave {A} (a b : list A) : list A :=
  match a, b with x :: a', y :: b' => x :: y :: interleave a' b' | _, _ => [] end.

(* the connection's vocabulary (the negotiated initial table, in index order): a byte string equal to one of its
   words travels as a VOCAB token whose header is the word's INDEX *)
Fixpoint vocab_index_from (i : Z) (voc : list (list Z)) (bs : list Z) : option Z :=
  match voc with [] => None | w :: voc' => if list_eqb w bs then Some i else vocab_index_from (i + 1) voc' bs end.
Definition vocab_index := vocab_index_from 0.

Definition str_token (voc : list (list Z)) (size : Z) (bs : list Z) : wobj :=
  match vocab_index voc bs with Some i => WStr true i bs | None => WStr false size bs end.

Fixpoint slice (voc : list (list Z)) (o : obj) : wobj :=
  match o with
  | OInt z => let '(tb, size) := int_token z in WInt tb size z
  | OFloat b => WFloat b
  | OBytes bs => str_token voc (zlen bs) bs
  | OText cps => WOpen OtUnicode [str_token voc (utf8size cps) (utf8_encode cps)]   (* UnicodeSlicer yields the UTF-8 bytes to sendToken *)
  | OBool b => WOpen OtBool [WInt tok_INT (if b then 1 else 0) (if b then 1 else 0)]
  | ONone => WOpen OtNone []
  | OList l => WOpen OtList (map (slice voc) l)
  | OTuple l => WOpen OtTuple (map (slice voc) l)
  | OSet l => WOpen OtSet (map (slice voc) l)
  | OFset l => WOpen OtFset (map (slice voc) l)
  | ODict ks vs => WOpen OtDict (interleave (map (slice voc) ks) (map (slice voc) vs))
  | ORemote name => WOpen OtMyRef [WInt tok_INT 0 0; WStr false (zlen name) name]   (* receiver's view only, see owf *)
  | OPending k => WRef (OPending k)
  end.

(* sharing: within one call, a list / tuple / set / dict object (Slicer.trackReferences) that was already sent
   travels as OPEN reference the next time it occurs.  ser o w: w is a serialization of o in which any number of
   such occurrences (the repeats) are references to the object itself *)
Definition refable (o : obj) : bool :=
  match o with OList _ | OTuple _ | OSet _ | ODict _ _ => true | _ => false end.

Definition atom (o : obj) : bool :=
  match o with OInt _ | OFloat _ | OBytes _ | OText _ | OBool _ | ONone => true | _ => false end.

Inductive ser (voc : list (list Z)) : obj -> wobj -> Prop :=
| ser_atom o : atom o = true -> ser voc o (slice voc o)
| ser_list l ws : Forall2 (ser voc) l ws -> ser voc (OList l) (WOpen OtList ws)
| ser_tuple l ws : Forall2 (ser voc) l ws -> ser voc (OTuple l) (WOpen OtTuple ws)
| ser_set l ws : Forall2 (ser voc) l ws -> ser voc (OSet l) (WOpen OtSet ws)
| ser_fset l ws : Forall2 (ser voc) l ws -> ser voc (OFset l) (WOpen OtFset ws)
| ser_dict ks vs wks wvs : Forall2 (ser voc) ks wks -> Forall2 (ser voc) vs wvs ->
                           ser voc (ODict ks vs) (WOpen OtDict (interleave wks wvs))
| ser_ref o : refable o = true -> ser voc o (WRef o).

(* ---- method schemas *)
Record argspec := { a_name : Z; a_ctr : ctr; a_opt : bool }.     (* a_opt: declared Optional(...) (unwrapped in a_ctr) *)
Record mschema := { ms_args : list argspec; ms_resp : option ctr;
                    ms_ignore : bool; ms_accept : bool }.   (* __ignoreUnknown__ / __acceptUnknown__ of RemoteMethodSchema( **kw ) *)

(* what initFromMethod (prototype function) and RemoteMethodSchema( **kwargs ) without the two special names build *)
Definition mkms (args : list argspec) (resp : option ctr) : mschema :=
  {| ms_args := args; ms_resp := resp; ms_ignore := false; ms_accept := false |}.

Definition names (ms : mschema) : list Z := map a_name (ms_args ms).

Fixpoint lookup (n : Z) (l : list argspec) : option argspec :=
  match l with [] => None | a :: l' => if n =? a_name a then Some a else lookup n l' end.

Definition memZ (n : Z) (l : list Z) : bool := existsb (Z.eqb n) l.

(* for argname, argvalue in kwargs.items(): if argname in allargs: raise Violation; allargs[argname] = argvalue *)
Fixpoint add_kwargs {V} (acc : list (Z * V)) (kw : list (Z * V)) : option (list (Z * V)) :=
  match kw with
  | [] => Some acc
  | (n, v) :: kw' => if memZ n (map fst acc) then None else add_kwargs (acc ++ [(n, v)]) kw'
  end.

Definition arg_ok (ms : mschema) (nv : Z * obj) : bool :=
  match lookup (fst nv) (ms_args ms) with None => false | Some a => checkObject (a_ctr a) (snd nv) end.

Definition required_ok (ms : mschema) (bound : list Z) : bool :=
  forallb (fun a => a_opt a || memZ (a_name a) bound) (ms_args ms).

(* RemoteMethodSchema.getPositionalArgConstraint / getKeywordArgConstraint: (accept, constraint) | Violation | another
   exception (IndexError: cannot happen while the range test stands before the subscript) *)
Inductive gac := GViol | GOther | GC (accept : bool) (c : option ctr).

Definition getPositionalArgConstraint (ms : mschema) (argnum : Z) : gac :=
  if scmp_eval posarg_full_cmp argnum (zlen (ms_args ms)) then GViol          (* too many positional arguments *)
  else match nth_error (ms_args ms) (Z.to_nat argnum) with
       | Some a => GC true (Some (a_ctr a))                                   (* an Optional is unwrapped: a_ctr *)
       | None => GOther
       end.

(* previous_args = argumentNames[:num_posargs] + previous_kwargs is passed in as prev *)
Definition getKeywordArgConstraint (ms : mschema) (n : Z) (prev : list Z) : gac :=
  if memZ n prev then GViol                                                   (* got multiple values for keyword argument *)
  else match lookup n (ms_args ms) with
       | Some a => GC true (Some (a_ctr a))
       | None => if ms_ignore ms then GC false None                           (* "silently dropped" *)
                 else if ms_accept ms then GC true None                       (* "accepted without a constraint" *)
                 else GViol                                                   (* unknown argument *)
       end.

(* for argname, argvalue in allargs.items(): accept, constraint = self.getKeywordArgConstraint(argname);
   constraint.checkObject(argvalue, inbound)   -- with constraint = None this is an AttributeError, not a Violation *)
Fixpoint check_each (ms : mschema) (l : list (Z * obj)) : res unit :=
  match l with
  | [] => Ok tt
  | (n, v) :: l' =>
      match getKeywordArgConstraint ms n [] with
      | GViol => Exc "Violation"%string
      | GOther => Exc "IndexError"%string
      | GC _ None => Exc "AttributeError"%string
      | GC _ (Some c) => if checkObject c v then check_each ms l' else Exc "Violation"%string
      end
  end.

(* RemoteMethodSchema.checkAllArgs *)
Definition checkAllArgs (ms : mschema) (args : list obj) (kwargs : list (Z * obj)) : res unit :=
  if scmp_eval args_count_cmp (zlen args) (zlen (ms_args ms)) then Exc "Violation"%string
  else match add_kwargs (combine (names ms) args) kwargs with
       | None => Exc "Violation"%string
       | Some allargs =>
           match check_each ms allargs with
           | Exc e => Exc e
           | Ok _ => if negb (required_ok ms (map fst allargs)) then Exc "Violation"%string else Ok tt
           end
       end.

(* CFail: the call fails with an exception that is not a Violation (the caller gets a RemoteException), connection alive *)
Inductive cv := CInvoke (args : list obj) (kwargs : list (Z * obj)) | CViol | CAbort | CFail.

(* Broker._doCall, shape read from the source: the check dominates the invocation, on the same objects *)
Definition doCall (ms : mschema) (args : list obj) (kwargs : list (Z * obj)) : cv :=
  match doCall_shape with
  | CheckedBeforeCall =>
      match checkAllArgs ms args kwargs with
      | Ok _ => CInvoke args kwargs
      | Exc e => if String.eqb e "Violation" then CViol else CFail
      end
  | NotChecked => CInvoke args kwargs
  end.

(* ---- ArgumentUnslicer, as the state machine it is: one step per child of the `arguments` sequence.  The peer chooses
   every token, including the positional-argument COUNT (first child); whether a later token is a positional value, a
   keyword name or a keyword value is decided by the receiver's state alone.  Stage tests, the `if self.numargs:` guard,
   the first index and the `assert accept` lines are read from call.py (the au_ definitions of gen/SchemaGen.v). *)
Record austate := { au_numargs : option Z; au_args : list obj; au_kwargs : list (Z * obj);
                    au_argname : option Z; au_ctr : option ctr }.

Definition au_init : austate := {| au_numargs := None; au_args := []; au_kwargs := []; au_argname := None; au_ctr := None |}.

Inductive austep := AuGo (st : austate) | AuViol | AuAbort.

(* a keyword name as the model's identifier: the bytes of the STRING / VOCAB token, base 256 behind a leading 1 (injective) *)
Definition name_code (bs : list Z) : Z := fold_left (fun acc b => acc * 256 + b) bs 1.

(* accept, self.argConstraint = ms.getXArgConstraint(..); assert accept *)
Definition au_take (g : gac) (k : option ctr -> austate) : austep :=
  match g with
  | GViol => AuViol
  | GOther => AuAbort
  | GC accept c => if au_asserts_accept && negb accept then AuAbort else AuGo (k c)
  end.

Inductive austage := AuCount | AuPos | AuKwName | AuKwValue.

(* the dispatch at the head of checkToken / receiveChild *)
Definition au_stage (st : austate) : austage :=
  match au_numargs st with
  | None => AuCount
  | Some na =>
      if scmp_eval au_pos_cmp (zlen (au_args st)) na then AuPos
      else match au_argname st with None => AuKwName | Some _ => AuKwValue end
  end.

Definition au_child (ms : mschema) (st : austate) (w : wobj) : austep :=
  match au_stage st with
  | AuCount =>
      match w with
      | WInt tb _ n =>
          if negb (tb =? tok_INT) then AuAbort                      (* BananaError: posarg count must be an INT *)
          else
            let st1 := {| au_numargs := Some n; au_args := au_args st; au_kwargs := au_kwargs st;
                          au_argname := au_argname st; au_ctr := au_ctr st |} in
            if au_count_zero_skips && (n =? 0) then AuGo st1        (* `if self.numargs:` *)
            else au_take (getPositionalArgConstraint ms au_first_index)
                         (fun c => {| au_numargs := Some n; au_args := au_args st; au_kwargs := au_kwargs st;
                                      au_argname := au_argname st; au_ctr := c |})
      | _ => AuAbort
      end
  | AuPos =>
      match recvw (au_ctr st) w with
      | RViol => AuViol
      | RAbort => AuAbort
      | RDeliver x =>
          let args' := au_args st ++ [x] in
          let st1 := {| au_numargs := au_numargs st; au_args := args'; au_kwargs := au_kwargs st;
                        au_argname := au_argname st; au_ctr := au_ctr st |} in
          match au_numargs st with
          | Some na =>
              if scmp_eval au_pos_cmp (zlen args') na                (* more to come *)
              then au_take (getPositionalArgConstraint ms (zlen args'))
                           (fun c => {| au_numargs := au_numargs st; au_args := args'; au_kwargs := au_kwargs st;
                                        au_argname := au_argname st; au_ctr := c |})
              else AuGo st1
          | None => AuGo st1
          end
      end
  | AuKwName =>
      match w with
      | WStr _ _ bs =>                                               (* STRING or VOCAB, any size *)
          (* self.argname = six.ensure_str(token): a name that is not UTF-8 -> Violation (try/except in call.py) or, without
             the handler, a UnicodeDecodeError that escapes dataReceived (connection lost): read from the source *)
          if negb (utf8_valid bs) then (if au_nontext_name_violation then AuViol else AuAbort) else
          let n := name_code bs in
          let na := match au_numargs st with Some na => na | None => 0 end in
          au_take (getKeywordArgConstraint ms n (firstn (Z.to_nat na) (names ms) ++ map fst (au_kwargs st)))
                  (fun c => {| au_numargs := au_numargs st; au_args := au_args st; au_kwargs := au_kwargs st;
                               au_argname := Some n; au_ctr := c |})
      | _ => AuAbort                                                 (* BananaError: kwarg name must be a STRING *)
      end
  | AuKwValue =>
      match recvw (au_ctr st) w with
      | RViol => AuViol
      | RAbort => AuAbort
      | RDeliver x =>
          let n := match au_argname st with Some n => n | None => 0 end in
          AuGo {| au_numargs := au_numargs st; au_args := au_args st; au_kwargs := au_kwargs st ++ [(n, x)];
                  au_argname := None; au_ctr := au_ctr st |}
      end
  end.

(* receiveClose: "'arguments' sequence ended too early" (BananaError) unless the count was seen, all counted positional
   values arrived and no keyword name is waiting for its value *)
Definition au_close (st : austate) : option (list obj * list (Z * obj)) :=
  match au_stage st with
  | AuKwName => Some (au_args st, au_kwargs st)
  | _ => None
  end.

Fixpoint au_run (ms : mschema) (st : austate) (items : list wobj) {struct items} : cv :=
  match items with
  | [] => match au_close st with Some (a, kw) => doCall ms a kw | None => CAbort end
  | w :: rest =>
      match au_child ms st w with
      | AuGo st' => au_run ms st' rest
      | AuViol => CViol                                              (* the rest of the sequence is discarded *)
      | AuAbort => CAbort
      end
  end.

(* an inbound `call` whose `arguments` sequence has the children items (ANY wire trees, the count included) *)
Definition recv_arguments (ms : mschema) (items : list wobj) : cv := au_run ms au_init items.

(* ---- the same for streams whose count token equals the number of positional wire trees (every honest sender's):
   positional arguments ... *)
Fixpoint recv_pos (ms : mschema) (ws : list wobj) (i : nat) {struct ws} : krv :=
  match ws with
  | [] => KOk []
  | w :: ws' =>
      if scmp_eval posarg_full_cmp (Z.of_nat i) (zlen (ms_args ms)) then KViol       (* too many positional arguments *)
      else match recvw (option_map a_ctr (nth_error (ms_args ms) i)) w with
           | RDeliver x => match recv_pos ms ws' (S i) with KOk l => KOk (x :: l) | e => e end
           | RViol => KViol
           | RAbort => KAbort
           end
  end.

Inductive kwrv := KwOk (l : list (Z * obj)) | KwViol | KwAbort.

(* ... keyword arguments: prev = names already bound (positionally or by an earlier keyword) *)
Fixpoint recv_kw (ms : mschema) (prev : list Z) (kws : list (Z * wobj)) {struct kws} : kwrv :=
  match kws with
  | [] => KwOk []
  | (n, w) :: kws' =>
      match getKeywordArgConstraint ms n prev with
      | GViol => KwViol
      | GOther => KwAbort
      | GC accept oc =>
          if au_asserts_accept && negb accept then KwAbort             (* AssertionError escapes dataReceived *)
          else match recvw oc w with
               | RDeliver x => match recv_kw ms (prev ++ [n]) kws' with KwOk l => KwOk ((n, x) :: l) | e => e end
               | RViol => KwViol
               | RAbort => KwAbort
               end
      end
  end.

(* an inbound `call` whose arguments sequence carries the positional wire trees pos and keyword wire trees kws *)
Definition recv_call (ms : mschema) (pos : list wobj) (kws : list (Z * wobj)) : cv :=
  match recv_pos ms pos O with
  | KViol => CViol | KAbort => CAbort
  | KOk a =>
      match recv_kw ms (firstn (List.length pos) (names ms)) kws with
      | KwViol => CViol | KwAbort => CAbort
      | KwOk kw => doCall ms a kw
      end
  end.

(* the children of the `arguments` sequence of such a stream: count, positional trees, (name, tree) pairs *)
Definition enc_kws (kwsb : list (list Z * wobj)) : list wobj :=
  flat_map (fun p => [WStr false (zlen (fst p)) (fst p); snd p]) kwsb.
Definition enc_args (pos : list wobj) (kwsb : list (list Z * wobj)) : list wobj :=
  WInt tok_INT (zlen pos) (zlen pos) :: pos ++ enc_kws kwsb.
Definition code_kws (kwsb : list (list Z * wobj)) : list (Z * wobj) := map (fun p => (name_code (fst p), snd p)) kwsb.
Definition names_text (kwsb : list (list Z * wobj)) : bool := forallb (fun p => utf8_valid (fst p)) kwsb.

(* ---- the whole `call` sequence: CallUnslicer (reqID, object id, method name, arguments) composed with ArgumentUnslicer.
   The children of OPEN call are ARBITRARY: tokens / sequences of any kind in any number, or an `arguments` sequence with
   arbitrary children, wherever the peer puts them.  Which type bytes each stage accepts and when the sequence may close
   are tables computed by executing CallUnslicer.checkToken / receiveClose (gen/SchemaGen.v: cu_tok_ok, cu_close_ok). *)
Inductive arr := ArOk (a : list obj) (kw : list (Z * obj)) | ArViol | ArAbort.

(* ArgumentUnslicer up to (and including) its receiveClose, without the delivery *)
Fixpoint au_collect (ms : mschema) (st : austate) (items : list wobj) {struct items} : arr :=
  match items with
  | [] => match au_close st with Some (a, kw) => ArOk a kw | None => ArAbort end
  | w :: rest =>
      match au_child ms st w with
      | AuGo st' => au_collect ms st' rest
      | AuViol => ArViol
      | AuAbort => ArAbort
      end
  end.

(* what the Broker knows: the object behind each connection-local id -- for clid >= 0 a Referenceable whose getInterface()
   is a table method name -> schema (None: no RemoteInterface), for clid < 0 a bound method with an optional
   .methodSchema --, requireSchema, and the reqIDs of calls still being answered *)
Record target := { t_iface : option (list (Z * mschema)); t_methodSchema : option mschema }.
Record benv := { be_objs : list (Z * target); be_require : bool; be_active : list Z }.

Fixpoint assocZ {V} (k : Z) (l : list (Z * V)) : option V :=
  match l with [] => None | (k', v) :: l' => if k =? k' then Some v else assocZ k l' end.

(* a RemoteInterface that derives from other RemoteInterfaces: CallUnslicer asks self.interface.get(methodname), and zope's
   Specification.get walks __iro__ -- the interface itself first, then its bases in resolution order -- and takes the
   first interface that declares the name DIRECTLY.  layers: the own (direct) method tables of the interfaces of __iro__,
   in that order; the table in force for a target is their concatenation (assocZ takes the first match) *)
Definition iface_table (layers : list (list (Z * mschema))) : list (Z * mschema) := List.concat layers.
Fixpoint most_derived (layers : list (list (Z * mschema))) (n : Z) : option mschema :=
  match layers with
  | [] => None
  | l :: rest => match assocZ n l with Some ms => Some ms | None => most_derived rest n end
  end.

Inductive citem := CTok (w : wobj) | CArgs (items : list wobj).

(* QNoSchema: the addressed method has no schema in force (outside the property: nothing is declared) *)
Inductive callv := QInvoke (clid : Z) (meth : option Z) (ms : mschema) (a : list obj) (kw : list (Z * obj))
                 | QViol | QAbort | QFail | QNoSchema.

Record custate := { cu_stage : Z; cu_objid : Z; cu_target : option target; cu_iface : option (list (Z * mschema));
                    cu_meth : option Z; cu_ms : option mschema; cu_args : option (list obj * list (Z * obj)) }.

Definition cu_init : custate :=
  {| cu_stage := 0; cu_objid := 0; cu_target := None; cu_iface := None; cu_meth := None; cu_ms := None; cu_args := None |}.

Inductive custep := CuGo (st : custate) | CuStop (r : callv).

Definition typebyte_of (w : wobj) : Z :=
  match w with
  | WInt tb _ _ => tb | WFloat _ => tok_FLOAT | WStr vocab _ _ => if vocab then tok_VOCAB else tok_STRING
  | _ => tok_OPEN
  end.

Definition cu_child (env : benv) (st : custate) (k : citem) : custep :=
  let stage := cu_stage st in
  match k with
  | CArgs items =>
      if negb (cu_tok_ok stage tok_OPEN) then CuStop QAbort           (* BananaError from checkToken *)
      else match cu_ms st with
           | None => CuStop QNoSchema
           | Some ms =>
               match au_collect ms au_init items with
               | ArOk a kw => CuGo {| cu_stage := stage + 1; cu_objid := cu_objid st; cu_target := cu_target st; cu_iface := cu_iface st;
                                      cu_meth := cu_meth st; cu_ms := cu_ms st; cu_args := Some (a, kw) |}
               | ArViol => CuStop QViol
               | ArAbort => CuStop QAbort
               end
           end
  | CTok w =>
      if negb (cu_tok_ok stage (typebyte_of w)) then CuStop QAbort
      else
        match w with
        | WInt tb _ v =>
            if stage =? 0 then
              (* reqID: `assert self.reqID not in self.broker.activeLocalCalls` for a non-zero id *)
              if negb (v =? 0) && memZ v (be_active env) then CuStop QAbort
              else CuGo {| cu_stage := 1; cu_objid := 0; cu_target := None; cu_iface := None; cu_meth := None; cu_ms := None; cu_args := None |}
            else if stage =? 1 then
              match assocZ v (be_objs env) with
              | None => CuStop QViol                                   (* KeyError -> Violation("unknown CLID") *)
              | Some t => CuGo {| cu_stage := 2; cu_objid := v; cu_target := Some t;
                                  cu_iface := if v <? 0 then None else t_iface t; cu_meth := None; cu_ms := None; cu_args := None |}
              end
            else CuStop QAbort
        | WStr _ _ bs =>
            if stage =? 2 then
              if cu_objid st <? 0 then
                (* a bound method: the name is ignored, the schema is the callable's .methodSchema *)
                let ms := match cu_target st with Some t => t_methodSchema t | None => None end in
                if be_require env && match ms with None => true | Some _ => false end then CuStop QViol
                else CuGo {| cu_stage := 3; cu_objid := cu_objid st; cu_target := cu_target st; cu_iface := cu_iface st;
                             cu_meth := None; cu_ms := ms; cu_args := None |}
              else if negb (utf8_valid bs) then CuStop (if methodname_nontext_violation then QViol else QAbort)
              else
                let n := name_code bs in
                match cu_iface st with
                | Some tbl =>
                    match assocZ n tbl with
                    | None => CuStop QViol                             (* method not defined in the RemoteInterface *)
                    | Some ms => CuGo {| cu_stage := 3; cu_objid := cu_objid st; cu_target := cu_target st; cu_iface := cu_iface st;
                                         cu_meth := Some n; cu_ms := Some ms; cu_args := None |}
                    end
                | None => CuGo {| cu_stage := 3; cu_objid := cu_objid st; cu_target := cu_target st; cu_iface := cu_iface st;
                                  cu_meth := Some n; cu_ms := None; cu_args := None |}
                end
            else CuStop QAbort
        | _ => CuStop QAbort      (* a sequence that is not `arguments` where the arguments are expected: setConstraint(methodSchema)
                                     on its unslicer / `assert isinstance(token, ArgumentUnslicer)` *)
        end
  end.

Definition lift_cv (clid : Z) (meth : option Z) (ms : mschema) (r : cv) : callv :=
  match r with CInvoke a kw => QInvoke clid meth ms a kw | CViol => QViol | CAbort => QAbort | CFail => QFail end.

(* receiveClose ("'call' sequence ended too early" unless every stage is done) and the delivery through Broker._doCall *)
Definition cu_close (st : custate) : callv :=
  if negb (cu_close_ok (cu_stage st)) then QAbort
  else match cu_ms st, cu_args st with
       | Some ms, Some (a, kw) => lift_cv (cu_objid st) (cu_meth st) ms (doCall ms a kw)
       | _, _ => QNoSchema
       end.

Fixpoint cu_run (env : benv) (st : custate) (kids : list citem) {struct kids} : callv :=
  match kids with
  | [] => cu_close st
  | k :: rest => match cu_child env st k with CuGo st' => cu_run env st' rest | CuStop r => r end
  end.

(* an inbound `call` sequence with the children kids *)
Definition recv_call_stream (env : benv) (kids : list citem) : callv := cu_run env cu_init kids.

(* ---- RemoteCopy state under a declared stateSchema (copyable.py: AttributeDictConstraint, RemoteCopyUnslicer).
   The children of OPEN copyable <typename> are attribute names and values in turn; each value is received under the
   constraint getAttrConstraint hands out for its name; receiveClose builds the object from whatever was collected. *)
Record attrschema := { as_keys : list argspec; as_ignore : bool; as_accept : bool }.

Definition getAttrConstraint (s : attrschema) (n : Z) : gac :=
  match lookup n (as_keys s) with
  | Some a => GC true (Some (a_ctr a))                      (* an Optional is unwrapped *)
  | None => if as_ignore s then GC false None else if as_accept s then GC true None else GViol
  end.

Inductive arv := ADeliver (state : list (Z * obj)) | AViol | AAbort.

(* what AttributeDictConstraint.checkObject says about a state (acceptUnknown is not consulted there).
   STRICTER than the code for Optional attributes: the code checks obj[k] against self.keys[k], which for an Optional
   attribute is the Optional wrapper itself (it accepts anything); here the value is checked against the constraint the
   Optional wraps (a_ctr).  attr_state_ok is used only in the `_refuted` witnesses of C02_remotecopy_state_refuted (none
   of which gives an Optional attribute a non-conforming value) and, through rc_close, under rc_close_checks_state, which
   is false on the current tree. *)
Definition attr_state_ok (s : attrschema) (d : list (Z * obj)) : bool :=
  forallb (fun nv => match lookup (fst nv) (as_keys s) with
                     | Some a => checkObject (a_ctr a) (snd nv)
                     | None => as_ignore s end) d &&
  forallb (fun a => a_opt a || memZ (a_name a) (map fst d)) (as_keys s).

(* receiveClose: obj = self.factory(self.d) -- the state is not checked against the schema (read from the source) *)
Definition rc_close (s : option attrschema) (d : list (Z * obj)) : arv :=
  match s with
  | Some sc => if rc_close_checks_state && negb (attr_state_ok sc d) then AViol else ADeliver d
  | None => ADeliver d
  end.

Fixpoint rc_run (s : option attrschema) (d : list (Z * obj)) (items : list wobj) {struct items} : arv :=
  match items with
  | [] => rc_close s d
  | nametok :: rest =>
      match nametok with
      | WStr _ _ bs =>
          if negb (utf8_valid bs) then (if rc_nontext_name_violation then AViol else AAbort)   (* six.ensure_str(obj) *)
          else
            let n := name_code bs in
            if memZ n (map fst d) then AAbort                        (* BananaError: duplicate attribute name *)
            else
              let g := match s with Some sc => getAttrConstraint sc n | None => GC true None end in
              match g with
              | GViol => AViol
              | GOther => AAbort
              | GC accept oc =>
                  if rc_asserts_accept && negb accept then AAbort    (* assert accept *)
                  else match rest with
                       | [] => rc_close s d                          (* a name without value: dropped at close *)
                       | w :: rest' =>
                           match recvw oc w with
                           | RDeliver x => rc_run s (d ++ [(n, x)]) rest'
                           | RViol => AViol
                           | RAbort => AAbort
                           end
                       end
              end
      | _ => AAbort                                                  (* BananaError: keys must be STRINGs *)
      end
  end.

(* an inbound `answer` for a request whose result constraint is oc *)
Inductive av := Callback (v : obj) | Errback | ConnLost.

Definition recv_answer (oc : option ctr) (w : wobj) : av :=
  match recvw oc w with
  | RDeliver v =>
      if answer_checks_object
      then match oc with Some c => if checkObject c v then Callback v else Errback | None => Callback v end
      else Callback v
  | RViol => Errback
  | RAbort => ConnLost
  end.

(* the sender of a result: Broker._callFinished applies methodSchema.checkResults(res, False) and then slices the answer *)
(* UnicodeSlicer.sliceBody: text without a UTF-8 form fails that one object with a Violation while it is being
   serialized (the sequence is ABORTed; nothing is delivered, the connection stays up) -- None below *)
Definition sendable (o : obj) : bool := negb unicode_slicer_refuses_unencodable || encodable o.

Definition send_answer (voc : list (list Z)) (ms : mschema) (res : obj) : option wobj :=
  if negb (sendable res) then None else
  match ms_resp ms with
  | Some c => if callFinished_checks_results && negb (checkObject c res) then None else Some (slice voc res)
  | None => Some (slice voc res)
  end.

(* the sender: callRemote checks (outbound) and then slices *)
Definition send_call (voc : list (list Z)) (ms : mschema) (args : list obj) (kwargs : list (Z * obj))
  : option (list wobj * list (Z * wobj)) :=
  match checkAllArgs ms args kwargs with
  | Ok _ => if forallb sendable args && forallb (fun nv => sendable (snd nv)) kwargs
            then Some (map (slice voc) args, map (fun nv => (fst nv, slice voc (snd nv))) kwargs)
            else None                                  (* refused locally while serializing *)
  | Exc _ => None
  end.

(* the sender in full generality.  Within ONE call a list / tuple / set / dict object that occurs again is sent as OPEN
   reference (ArgumentSlicer is a ScopedSlicer and these slicers track references): for m(l, l) the second argument
   travels as a reference to the first, and a container shared between members of two arguments likewise.  So the wire
   trees of a call are SOME serialization (ser) of its arguments, not necessarily the tree one (send_call above is the
   special case without repeats).  ser lets ANY occurrence of a refable object be a reference: a superset of what a
   sender emits. *)
Definition sent_call (voc : list (list Z)) (ms : mschema) (args : list obj) (kwargs : list (Z * obj))
                     (p : list wobj) (k : list (Z * wobj)) : Prop :=
  checkAllArgs ms args kwargs = Ok tt /\
  forallb sendable args && forallb (fun nv => sendable (snd nv)) kwargs = true /\
  Forall2 (ser voc) args p /\
  Forall2 (fun (nv : Z * obj) (nw : Z * wobj) => fst nv = fst nw /\ ser voc (snd nv) (snd nw)) kwargs k.

(* ---- well-formed constraints (what the constructors' own assertions allow) *)
Definition mb_wf (mb : option Z) (allow32 : bool) : bool :=
  match mb with None => true | Some m => (allow32 && (m =? -1)) || (int_maxBytes_min <=? m) end.

Fixpoint wf (c : ctr) : bool :=
  match c with
  | CInt mb => mb_wf mb true
  | CNumber mb => mb_wf mb false
  | CList ci _ _ => wf ci
  | CTuple cs => forallb wf cs
  | CDict k v _ => wf k && wf v
  | CSet ci _ _ => wf ci
  | CChoice cs => forallb wf cs
  | COpt ci => wf ci
  | _ => true
  end.

(* ---- C12: the region in which sender-accepted implies receiver-accepted.  It excludes exactly:
   (a) a value sent as an OPEN sequence other than `none` in a slot governed by ChoiceOf / a nested Optional
       (setConstraint assertion -> connection lost)                                   [D7a, optional-container]
   (b) an integer whose LONGINT/LONGNEG body exceeds SIZE_LIMIT in a slot governed by Any   [any-rejects-huge-int]
       (also under ChoiceOf/Optional when no bounded alternative exists: they taste with everythingTaster too) *)
Definition is_token_or_none (o : obj) : bool :=
  match o with OInt _ | OFloat _ | OBytes _ | ONone => true | _ => false end.

Definition any_int_ok (o : obj) : bool :=
  match o with OInt z => tv_ok (let '(tb, size) := int_token z in checkToken_base everythingTaster false tb size) | _ => true end.

Fixpoint c12_guard (c : ctr) (o : obj) {struct c} : bool :=
  match c with
  | CAny => any_int_ok o
  | COpt _ => is_token_or_none o && any_int_ok o
  | CChoice cs =>
      is_token_or_none o && existsb (fun c1 => checkObject c1 o && c12_guard c1 o) cs
  | CList ci _ _ => match o with OList l => forallb (c12_guard ci) l | _ => true end
  | CTuple cs =>
      match o with
      | OTuple l => all2 c12_guard cs l
      | _ => true
      end
  | CDict k v _ => match o with ODict ks vs => forallb (c12_guard k) ks && forallb (c12_guard v) vs | _ => true end
  | CSet ci _ _ => match o with OSet l | OFset l => forallb (c12_guard ci) l | _ => true end
  | _ => true
  end.

(* a Python dict has as many values as keys; a wire integer token has one of the four integer type bytes *)
Fixpoint owf (o : obj) : bool :=
  match o with
  | OList l | OTuple l | OSet l | OFset l => forallb owf l
  | ODict ks vs => (List.length ks =? List.length vs)%nat && forallb owf ks && forallb owf vs
  | OText cps => text_encodable cps          (* text without a UTF-8 form is refused locally by the sender: C12_unencodable_* *)
  | OPending _ => false                      (* cyclic values are outside the honest-sender theorems *)
  | ORemote _ => false                       (* the outbound side of RemoteInterfaceConstraint (Referenceables) is not modelled *)
  | _ => true
  end.

Fixpoint wwf (w : wobj) : bool :=
  match w with
  | WInt tb _ _ => (tb =? tok_INT) || (tb =? tok_NEG) || (tb =? tok_LONGINT) || (tb =? tok_LONGNEG)
  | WOpen _ kids => forallb wwf kids
  | WRefOpen _ _ => false       (* a reference to a still-open mutable container is checked against its PARTIAL state only:
                                   outside the result-side partial theorem, see C02_result_refuted_open_reference *)
  | _ => true
  end.

(* ---- C02, result side: constraints whose token-level enforcement is complete (no minimum sizes, no arity, no
   value that only the object-level check knows about) *)
Definition bound_nonneg (mx : option Z) : bool := match mx with Some m => 0 <=? m | None => true end.

Fixpoint complete (c : ctr) : bool :=
  match c with
  | CAny | CNone => true
  | COpt _ => true                                   (* Optional below the argument level accepts everything *)
  | CInt None | CNumber None => true
  | CBytes None mn => mn <=? 0
  (* ANY maxLength / maxKeys >= 0: the unslicer's "the list / set / dict is full" test IS the size check *)
  | CList ci mx mn => (mn <=? 0) && bound_nonneg mx && complete ci
  | CSet ci mx None => bound_nonneg mx && complete ci       (* mutable= is only known to checkObject *)
  | CDict k v mk => bound_nonneg mk && complete k && complete v
  | CRemote None => true
  | _ => false
  end.
