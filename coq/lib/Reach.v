(* C06: model of what an inbound message can reach on the serving side.

   One Tub (name table, process-wide copyable registry) with two connections A and B, each with its
   own Broker: export table clid -> (object, refcount) (Broker.myReferenceByCLID / ReferenceableTracker)
   and clid counter (Broker.nextCLID).  Inbound `call` sequences are dispatched as
   call.py CallUnslicer.receiveChild (stage 1: clid lookup, stage 2: method name / interface),
   the argument unslicers (your-reference, copyable, other open types: slicers/root.py RootUnslicer.open),
   Broker._doCall and Referenceable.doRemoteCall do.  Constants, tables and the small functions come from
   gen/ReachGen.v (translated from the source on every run).  No proofs in this file. *)
From Coq Require Import ZArith List String Bool Lia Ascii NArith.
Import ListNotations.
Require Import Verif.lib.PyLite Verif.gen.ReachGen.
Local Open Scope Z_scope.

(* ---------- Python dicts as association lists (at most one entry per key: zset deletes first) *)
Fixpoint zget {V} (k : Z) (l : list (Z * V)) : option V :=
  match l with [] => None | (k', v) :: r => if k =? k' then Some v else zget k r end.
Fixpoint zdel {V} (k : Z) (l : list (Z * V)) : list (Z * V) :=
  match l with [] => [] | (k', v) :: r => if k =? k' then zdel k r else (k', v) :: zdel k r end.
Definition zset {V} (k : Z) (v : V) (l : list (Z * V)) : list (Z * V) := (k, v) :: zdel k l.

Fixpoint sget {V} (k : string) (l : list (string * V)) : option V :=
  match l with [] => None | (k', v) :: r => if String.eqb k k' then Some v else sget k r end.
Fixpoint sdel {V} (k : string) (l : list (string * V)) : list (string * V) :=
  match l with [] => [] | (k', v) :: r => if String.eqb k k' then sdel k r else (k', v) :: sdel k r end.
Definition sset {V} (k : string) (v : V) (l : list (string * V)) : list (string * V) := (k, v) :: sdel k l.

Definition mem_str (s : string) (l : list string) : bool := existsb (String.eqb s) l.
Fixpoint lstr_eqb (a b : list string) : bool :=
  match a, b with
  | [], [] => true
  | x :: a', y :: b' => String.eqb x y && lstr_eqb a' b'
  | _, _ => false
  end.
Definition mem_type (t : list string) (l : list (list string)) : bool := existsb (lstr_eqb t) l.
Definition is_some {T} (o : option T) : bool := match o with Some _ => true | None => false end.
Definition str_empty (s : string) : bool := match s with EmptyString => true | _ => false end.
Definition sb (s : string) : list N := map N_of_ascii (list_ascii_of_string s).

(* ---------- the serving application: which objects exist, what attributes they have *)
Inductive kind := KObj | KCallable.     (* a Referenceable | a bound method / function (sent by CallableSlicer) *)
Record objinfo := { o_kind : kind;
                    o_attrs : list string;              (* every attribute name getattr() would find *)
                    o_iface : option (list string) }.   (* method names of the RemoteInterface its CLASS declares, if any *)
Record world := { w_obj : Z -> objinfo }.

(* ---------- state *)
Record conn := { c_alive : bool;
                 c_exports : list (Z * (Z * Z));        (* clid -> (object, refcount) *)
                 c_next : Z }.                          (* next value of Broker.nextCLID *)
Record state := { s_n2r : list (string * Z);            (* Tub.nameToReference *)
                  s_r2n : list (Z * string);            (* Tub.referenceToName *)
                  s_copy : list (string * Z);           (* copyable.CopyableRegistry: type name -> class *)
                  s_h : list (string * Z);              (* what the application's name lookup handler currently serves *)
                  s_decl : list (Z * list string);      (* RemoteInterface declared on an INSTANCE (directlyProvides / alsoProvides):
                                                           object -> its method names *)
                  s_a : conn; s_b : conn }.
Inductive cid := CA | CB.

Definition get_conn (st : state) (c : cid) : conn := match c with CA => s_a st | CB => s_b st end.
Definition set_conn (st : state) (c : cid) (x : conn) : state :=
  match c with
  | CA => {| s_n2r := s_n2r st; s_r2n := s_r2n st; s_copy := s_copy st; s_h := s_h st; s_decl := s_decl st; s_a := x; s_b := s_b st |}
  | CB => {| s_n2r := s_n2r st; s_r2n := s_r2n st; s_copy := s_copy st; s_h := s_h st; s_decl := s_decl st; s_a := s_a st; s_b := x |}
  end.
Definition set_names (st : state) (n2r : list (string * Z)) (r2n : list (Z * string)) : state :=
  {| s_n2r := n2r; s_r2n := r2n; s_copy := s_copy st; s_h := s_h st; s_decl := s_decl st; s_a := s_a st; s_b := s_b st |}.
Definition set_copy (st : state) (cp : list (string * Z)) : state :=
  {| s_n2r := s_n2r st; s_r2n := s_r2n st; s_copy := cp; s_h := s_h st; s_decl := s_decl st; s_a := s_a st; s_b := s_b st |}.

Definition new_conn : conn := {| c_alive := true; c_exports := []; c_next := first_clid |}.
(* classes registered by importing foolscap get the ids -1, -2, ... in the order of the translated key list *)
Fixpoint number_from (k : Z) (l : list string) : list (string * Z) :=
  match l with [] => [] | n :: r => (n, k) :: number_from (k - 1) r end.
Definition init : state :=
  {| s_n2r := []; s_r2n := []; s_copy := number_from (-1) copyable_names; s_h := []; s_decl := []; s_a := new_conn; s_b := new_conn |}.

(* ---------- inbound messages *)
Inductive mname := MStr (s : string) | MBad.            (* the bytes of a STRING token: UTF-8 text | undecodable *)
Inductive arg :=
| AInt (v : Z)
| ABytes (s : mname)
| AYourRef (clid : Z)                                   (* (your-reference clid) *)
| ACopyable (n : string)                                (* (copyable n) with no attributes *)
| AOpen (t : string).                                   (* (t ...) any other OPEN type, body valid for t *)

Inductive entered :=
| EBroker (attr : string)                               (* that attribute of this connection's Broker is called *)
| EObj (o : Z) (attr : string)                          (* getattr(o, attr) is called *)
| ECallable (o : Z).                                    (* the callable o is called; the method name is ignored *)
Inductive outcome :=
| Enter (e : entered)
| Reject                                                (* that request fails (Violation / exception -> error answer) *)
| Aborted                                                 (* the connection is dropped *)
| Dead                                                  (* the connection was already gone: nothing happens *)
| Local.                                                (* the event is not an inbound message *)
Record result := { r_inst : list Z;                     (* classes instantiated while the message was parsed *)
                   r_out : outcome;
                   r_sent : list (cid * Z * Z) }.       (* my-reference sequences emitted: (connection, clid, object) *)
Definition res0 (o : outcome) : result := {| r_inst := []; r_out := o; r_sent := [] |}.

Definition refuse (r : refusal) : outcome := match r with RejectR => Reject | AbortR => Aborted end.

(* Tub.getReferenceForName *)
Definition lookup_name (w : world) (st : state) (n : string) : option Z :=
  match sget n (s_n2r st) with
  | Some o => Some o
  | None => sget n (s_h st)
  end.

(* ... which also records the name under which a handler-provided object was found *)
Definition found_name (w : world) (st : state) (n : string) : option (Z * state) :=
  match sget n (s_n2r st) with
  | Some o => Some (o, st)
  | None => match sget n (s_h st) with
            | Some o => Some (o, if is_some (zget o (s_r2n st)) then st
                                 else set_names st (if handler_answers_cached then sset n o (s_n2r st) else s_n2r st)
                                                (zset o n (s_r2n st)))
            | None => None
            end
  end.

(* arguments are unsliced left to right; the first failing one ends the request (or the connection) *)
Inductive argres := ArgsOk (inst : list Z) | ArgsFail (inst : list Z) (r : refusal).
Fixpoint do_args (copy : list (string * Z)) (ex : list (Z * (Z * Z))) (args : list arg) (inst : list Z) : argres :=
  match args with
  | [] => ArgsOk inst
  | a :: r =>
    match a with
    | AInt _ | ABytes _ => do_args copy ex r inst
    | AYourRef k =>
      if (k <? 0) && negb yourref_accepts_neg then ArgsFail inst AbortR      (* NEG token: BananaError *)
      else if (k =? broker_clid) || is_some (zget k ex) then do_args copy ex r inst
      else match clid_lookup with
           | LookupRaises => ArgsFail inst yourref_unknown_clid
           | LookupDefault => ArgsFail inst RejectR
           end
    | ACopyable n =>
      match sget n copy with
      | Some c => do_args copy ex r (inst ++ [c])
      | None => ArgsFail inst copyable_unknown
      end
    | AOpen t => if mem_type [t] open_types then do_args copy ex r inst else ArgsFail inst open_unknown
    end
  end.

(* what a delivered call does to the tables *)
Inductive effect := FxNone | FxDrop | FxLookup (n : string) | FxDecref (clid k : Z).

(* a call addressed to clid 0: the Broker itself, restricted to RIBroker, arguments checked by RIBroker's schema
   while they are parsed (so nothing is instantiated for a call that does not fit) *)
Definition broker_call (m : mname) (args : list arg) : outcome * effect :=
  match m with
  | MBad => match methodname_undecodable with AbortR => (Aborted, FxDrop) | RejectR => (Reject, FxNone) end
  | MStr s =>
    if iface_enforced && negb (mem_str s broker_methods) then (Reject, FxNone)
    else if negb (mem_str (remote_prefix ++ s) broker_remote_attrs) then (Reject, FxNone)
    else if String.eqb s "getReferenceByName" then
      match args with
      | [ABytes n] =>
        (Enter (EBroker (remote_prefix ++ s)), match n with MStr nm => FxLookup nm | MBad => FxNone end)
      | _ => (Reject, FxNone)
      end
    else if String.eqb s "decref" then
      match args with
      | [AInt k; AInt n] => (Enter (EBroker (remote_prefix ++ s)), FxDecref k n)
      | _ => (Reject, FxNone)
      end
    else if String.eqb s "decgift" then
      match args with
      | [AInt _; AInt _] => (Enter (EBroker (remote_prefix ++ s)), FxNone)
      | _ => (Reject, FxNone)
      end
    else (Reject, FxNone)
  end.

(* a call addressed to any other clid *)
Definition obj_call (w : world) (copy : list (string * Z)) (cn : conn) (clid : Z) (m : mname) (args : list arg)
  : list Z * outcome :=
  match zget clid (c_exports cn) with
  | None => ([], match clid_lookup with LookupRaises => refuse call_unknown_clid | LookupDefault => Reject end)
  | Some (o, _) =>
    if (clid <? 0) && negative_clid_ignores_name then
      match do_args copy (c_exports cn) args [] with
      | ArgsOk inst => (inst, Enter (ECallable o))
      | ArgsFail inst r => (inst, refuse r)
      end
    else
      match m with
      | MBad => ([], refuse methodname_undecodable)
      | MStr s =>
        if iface_enforced && match o_iface (w_obj w o) with Some l => negb (mem_str s l) | None => false end
        then ([], Reject)
        else match do_args copy (c_exports cn) args [] with
             | ArgsFail inst r => (inst, refuse r)
             | ArgsOk inst =>
               let a := (remote_prefix ++ s)%string in
               if mem_str a (o_attrs (w_obj w o)) then (inst, Enter (EObj o a)) else (inst, Reject)
             end
      end
  end.

(* the RemoteInterface an object exposes (remoteinterface.getRemoteInterface: the one RemoteInterface among providedBy(obj)):
   the one its class declares (inherited by subclasses), else the one declared on the instance.  Looked up per instance. *)
Definition iface_of (w : world) (decl : list (Z * list string)) (o : Z) : option (list string) :=
  match o_iface (w_obj w o) with
  | Some l => Some l
  | None => match interface_lookup with PerInstance => zget o decl | PerClass => None end
  end.
Definition eff (w : world) (decl : list (Z * list string)) : world :=
  {| w_obj := fun o => {| o_kind := o_kind (w_obj w o); o_attrs := o_attrs (w_obj w o); o_iface := iface_of w decl o |} |}.

(* ---------- state changes *)
Fixpoint find_obj (o : Z) (l : list (Z * (Z * Z))) : option (Z * Z) :=      (* myReferenceByPUID: -> (clid, rc) *)
  match l with
  | [] => None
  | (k, (o', rc)) :: r => if o =? o' then Some (k, rc) else find_obj o r
  end.

(* Tub._assignName(ref, preferred_name); sw is what generateSwissnumber would return *)
Definition assign_name (st : state) (o : Z) (pref sw : string) : state :=
  match zget o (s_r2n st) with
  | Some _ => st
  | None => let name := if str_empty pref then sw else pref in
            set_names st (sset name o (s_n2r st)) (zset o name (s_r2n st))
  end.

Definition drop_conn (cn : conn) : conn := {| c_alive := false; c_exports := []; c_next := c_next cn |}.

(* ReferenceableSlicer.slice / CallableSlicer.sliceBody: o is serialised towards the peer of c *)
Definition grant (w : world) (st : state) (c : cid) (o : Z) (sw : string) : state * list (cid * Z * Z) :=
  let cn := get_conn st c in
  if negb (c_alive cn) then (st, [])
  else
    let '(clid, rc, nxt) :=
      match find_obj o (c_exports cn) with
      | Some (k, rc) => (k, rc, c_next cn)
      | None => let k := c_next cn in
                (match o_kind (w_obj w o) with KObj => k | KCallable => if callable_clid_negated then - k else k end,
                 tracker_initial_refcount, k + 1)
      end in
    let rc' := rc + tracker_send_incr in
    let cn' := {| c_alive := true; c_exports := zset clid (o, rc') (c_exports cn); c_next := nxt |} in
    let st1 := set_conn st c cn' in
    (if rc' =? 1 then assign_name st1 o "" sw else st1, [(c, clid, o)]).

(* Broker.remote_decref *)
Definition decref (cn : conn) (k n : Z) : conn :=
  if k =? 0 then cn
  else match zget k (c_exports cn) with
       | None => cn
       | Some (o, rc) =>
         match tracker_decref n rc with
         | Exc _ => cn
         | Ok (done, rc') =>
           {| c_alive := c_alive cn;
              c_exports := if done then zdel k (c_exports cn) else zset k (o, rc') (c_exports cn);
              c_next := c_next cn |}
         end
       end.

Inductive event :=
| Register (n : string) (o : Z) (sw : string)           (* tub.registerReference(o, name=n) *)
| Unregister (o : Z)                                    (* tub.unregisterReference(o) *)
| RegisterCopy (n : string) (cls : Z)                   (* registerRemoteCopy(n, cls) *)
| RegisterCopyPriv (n : string) (cls : Z) (empty : bool) (* registerRemoteCopy*(n, cls, registry=<a private dict>); empty: that dict
                                                           has no entry yet (an input: the private dict is application state) *)
| Declare (o : Z) (d : option (list string))            (* directlyProvides / alsoProvides / noLongerProvides on the instance o,
                                                           before o is first sent or called *)
| Serve (n : string) (o : Z)                            (* the application's lookup handler starts answering n with o *)
| Revoke (n : string)                                   (* ... stops answering n *)
| HandlerOff                                            (* tub.unregisterNameLookupHandler: nothing is served any more *)
| Grant (c : cid) (o : Z) (sw : string)                 (* the application sends o to the peer of c *)
| Msg (c : cid) (req clid : Z) (m : mname) (args : list arg)   (* inbound (call req clid m (arguments ...)) *)
| TopMsg (c : cid) (t : string)                         (* any other top-level sequence, e.g. an unsolicited answer *)
| Drop (c : cid).                                       (* connection lost *)

Definition step (w : world) (st : state) (e : event) : state * result :=
  match e with
  | Register n o sw => (assign_name st o n sw, res0 Local)
  | Unregister o =>
    (match zget o (s_r2n st) with
     | None => st
     | Some n => if is_some (sget n (s_n2r st)) then set_names st (sdel n (s_n2r st)) (zdel o (s_r2n st)) else st
     end, res0 Local)
  | RegisterCopy n cls =>
    (if is_some (sget n (s_copy st)) then st else set_copy st (sset n cls (s_copy st)), res0 Local)
  | RegisterCopyPriv n cls empty =>
    (* the connection-level unslicer consults only the global registry: a private registration is invisible to peers,
       unless the default-registry test of registerRemoteCopyUnslicerFactory mistakes an empty dict for "none given" *)
    (match default_registry_test with
     | DefaultIfNone => st
     | DefaultIfFalsy => if empty then (if is_some (sget n (s_copy st)) then st else set_copy st (sset n cls (s_copy st))) else st
     end, res0 Local)
  | Declare o d =>
    ({| s_n2r := s_n2r st; s_r2n := s_r2n st; s_copy := s_copy st; s_h := s_h st;
        s_decl := match d with Some l => zset o l (s_decl st) | None => zdel o (s_decl st) end; s_a := s_a st; s_b := s_b st |}, res0 Local)
  | Serve n o => ({| s_n2r := s_n2r st; s_r2n := s_r2n st; s_copy := s_copy st; s_h := sset n o (s_h st); s_decl := s_decl st; s_a := s_a st; s_b := s_b st |}, res0 Local)
  | Revoke n => ({| s_n2r := s_n2r st; s_r2n := s_r2n st; s_copy := s_copy st; s_h := sdel n (s_h st); s_decl := s_decl st; s_a := s_a st; s_b := s_b st |}, res0 Local)
  | HandlerOff => ({| s_n2r := s_n2r st; s_r2n := s_r2n st; s_copy := s_copy st; s_h := []; s_decl := s_decl st; s_a := s_a st; s_b := s_b st |}, res0 Local)
  | Grant c o sw => let '(st', sent) := grant w st c o sw in (st', {| r_inst := []; r_out := Local; r_sent := sent |})
  | Drop c => (set_conn st c (drop_conn (get_conn st c)), res0 Local)
  | TopMsg c t => (st, res0 (if c_alive (get_conn st c) then Reject else Dead))
  | Msg c req clid m args =>
    let cn := get_conn st c in
    if negb (c_alive cn) then (st, res0 Dead)
    else if clid =? broker_clid then
      let '(out, fx) := broker_call m args in
      match fx with
      | FxNone => (st, res0 out)
      | FxDrop => (set_conn st c (drop_conn cn), res0 out)
      | FxDecref k n => (set_conn st c (decref cn k n), res0 out)
      | FxLookup nm =>
        (* Tub.getReferenceForName, then (if an answer is wanted) the result is serialised towards the peer *)
        match found_name w st nm with
        | None => (st, res0 out)
        | Some (o, st0) =>
          if req =? 0 then (st0, res0 out)
          else let '(st', sent) := grant w st0 c o "" in (st', {| r_inst := []; r_out := out; r_sent := sent |})
        end
      end
    else
      let '(inst, out) := obj_call (eff w (s_decl st)) (s_copy st) cn clid m args in
      (match out with Aborted => set_conn st c (drop_conn cn) | _ => st end,
       {| r_inst := inst; r_out := out; r_sent := [] |})
  end.

Fixpoint run (w : world) (st : state) (h : list event) : state * list result :=
  match h with
  | [] => (st, [])
  | e :: r => let '(st1, x) := step w st e in let '(st2, xs) := run w st1 r in (st2, x :: xs)
  end.

(* ---------- the DEFINITION of an application class (round 7): `class X(<Copyable,> RemoteCopy): copytype = ...; typeToCopy = ...;
   <copyableRegistry = private dict>` runs the metaclass RemoteCopyClass.__init__ (translated: metaclass_registers).  It is the
   registration events it amounts to -- none when the class opts out (copytype = None or ""), or when the definition fails
   (no copytype at all: RuntimeError). *)
Definition define_class (ct : ctattr) (ttc : option string) (priv empty : bool) (cls : Z) : list event :=
  match metaclass_registers ct ttc with
  | McRegister n => [if priv then RegisterCopyPriv n cls empty else RegisterCopy n cls]
  | McSkip | McError => []
  end.

Definition sent_of (rs : list result) : list (cid * Z * Z) := List.concat (map r_sent rs).

(* ---------- projections used by the locality theorems *)
Definition cid_eqb (a b : cid) : bool := match a, b with CA, CA | CB, CB => true | _, _ => false end.
Definition other (c : cid) : cid := match c with CA => CB | CB => CA end.
Definition on_conn (e : event) : option cid :=
  match e with
  | Grant c _ _ | Msg c _ _ _ _ | TopMsg c _ | Drop c => Some c
  | _ => None
  end.
(* the only inbound message whose effect on the connection's own table depends on the Tub's name table *)
Definition is_lookup (e : event) : bool :=
  match e with
  | Msg _ _ clid (MStr s) _ => (clid =? broker_clid) && String.eqb s "getReferenceByName"
  | _ => false
  end.
(* what connection c and the copyable registry can see: c's own events and RegisterCopy *)
Definition relevant (c : cid) (e : event) : bool :=
  match e with
  | RegisterCopy _ _ | RegisterCopyPriv _ _ _ | Declare _ _ => true
  | Register _ _ _ | Unregister _ | Serve _ _ | Revoke _ | HandlerOff => false
  | _ => match on_conn e with Some c' => cid_eqb c c' | None => false end
  end.
Definition proj (c : cid) (h : list event) : list event := filter (relevant c) h.
(* the results of c's own events, in order *)
Fixpoint results_on (c : cid) (h : list event) (rs : list result) : list result :=
  match h, rs with
  | e :: h', r :: rs' => if relevant c e then r :: results_on c h' rs' else results_on c h' rs'
  | _, _ => []
  end.
