(* C08 / C09: theorems about the three-party introduction model lib/Gifts.v (translated pieces: gen/RefsGen.v). *)
From Coq Require Import ZArith List Bool Lia Arith.
Import ListNotations.
Require Import Verif.lib.PyLite Verif.gen.RefsGen Verif.lib.Gifts.
Local Open Scope Z_scope.

(* ------------------------------------------------------------------ *)
(* the translated pieces, characterised once; everything below uses only these facts *)
Lemma gift_key_spec k : gift_key k = k.
Proof. reflexivity. Qed.
Lemma makeGift_again_spec c : makeGift_again c = c + 1.
Proof. reflexivity. Qed.
Lemma makeGift_first_spec : makeGift_first = 1.
Proof. reflexivity. Qed.
Lemma decgift_sub_spec g n : decgift_sub g n = g - n.
Proof. reflexivity. Qed.
Lemma decgift_done_spec g : decgift_done g = (g =? 0).
Proof. reflexivity. Qed.
Lemma gift_ack_point_spec : gift_ack_point = AckAfterLookup.
Proof. reflexivity. Qed.
Lemma ack_msgs_spec id : first_giftid <= id -> ack_msgs id = [(id, 1)].
Proof.
  intros H. unfold ack_msgs. assert (E : ackGift_sends id = true).
  { unfold ackGift_sends. apply Bool.negb_true_iff. apply Z.eqb_neq. unfold first_giftid in H. lia. }
  rewrite E. reflexivity.
Qed.
Lemma pins_spec : gift_table_pins_proxy = true.
Proof. reflexivity. Qed.
Lemma assign_existing_spec : assign_existing = KeepName.
Proof. reflexivity. Qed.

(* ------------------------------------------------------------------ *)
(* keys *)
Lemma key_eqb_eq a b : key_eqb a b = true <-> a = b.
Proof.
  unfold key_eqb. destruct a as [a1 a2], b as [b1 b2]. cbn [fst snd]. rewrite Bool.andb_true_iff, !Z.eqb_eq.
  split; [intros [-> ->]; reflexivity | intros E; inversion E; auto].
Qed.
Lemma key_eqb_refl a : key_eqb a a = true.
Proof. apply key_eqb_eq. reflexivity. Qed.
Lemma objid_eqb_eq a b : objid_eqb a b = true <-> a = b.
Proof. apply key_eqb_eq. Qed.

(* ------------------------------------------------------------------ *)
(* counting *)
Lemma occ_tr_app l m id : occ_tr (l ++ [m]) id = occ_tr l id + (if tr_id m =? id then 1 else 0).
Proof. induction l as [|a l IH]; cbn [app occ_tr]; lia. Qed.
Lemma occ_an_app l a id : occ_an (l ++ [a]) id = occ_an l id + (if an_id a =? id then 1 else 0).
Proof. induction l as [|b l IH]; cbn [app occ_an]; lia. Qed.
Lemma occ_cb_app l m id : occ_cb (l ++ [m]) id = occ_cb l id + (if fst m =? id then snd m else 0).
Proof. induction l as [|[k n] l IH]; cbn [app occ_cb]; [destruct m; cbn; lia | lia]. Qed.
Lemma occ_tr_nonneg l id : 0 <= occ_tr l id.
Proof. induction l as [|a l IH]; cbn [occ_tr]; [lia | destruct (_ =? _); lia]. Qed.
Lemma occ_an_nonneg l id : 0 <= occ_an l id.
Proof. induction l as [|a l IH]; cbn [occ_an]; [lia | destruct (_ =? _); lia]. Qed.
Lemma occ_cb_nonneg l id : Forall (fun m => snd m = 1) l -> 0 <= occ_cb l id.
Proof. induction 1 as [|[k n] l H _ IH]; cbn [occ_cb]; [lia|]. cbn in H. destruct (_ =? _); lia. Qed.
Lemma occ_tr_remove l : forall i m id, nth_error l i = Some m ->
  occ_tr (remove_nth l i) id = occ_tr l id - (if tr_id m =? id then 1 else 0).
Proof.
  induction l as [|a l IH]; intros [|i] m id; cbn [nth_error remove_nth occ_tr]; try discriminate.
  - intros E; inversion E; subst. lia.
  - intros E. rewrite (IH _ _ _ E). lia.
Qed.
Lemma occ_an_remove l : forall i a id, nth_error l i = Some a ->
  occ_an (remove_nth l i) id = occ_an l id - (if an_id a =? id then 1 else 0).
Proof.
  induction l as [|b l IH]; intros [|i] a id; cbn [nth_error remove_nth occ_an]; try discriminate.
  - intros E; inversion E; subst. lia.
  - intros E. rewrite (IH _ _ _ E). lia.
Qed.
Lemma occ_tr_in l m : In m l -> 1 <= occ_tr l (tr_id m).
Proof.
  induction l as [|a l IH]; cbn [In occ_tr]; [tauto|]. intros [->|H].
  - rewrite Z.eqb_refl. pose proof (occ_tr_nonneg l (tr_id m)). lia.
  - specialize (IH H). destruct (_ =? _); lia.
Qed.
Lemma occ_an_in l a : In a l -> 1 <= occ_an l (an_id a).
Proof.
  induction l as [|b l IH]; cbn [In occ_an]; [tauto|]. intros [->|H].
  - rewrite Z.eqb_refl. pose proof (occ_an_nonneg l (an_id a)). lia.
  - specialize (IH H). destruct (_ =? _); lia.
Qed.
Lemma In_remove_nth {A} (l : list A) : forall i x, In x (remove_nth l i) -> In x l.
Proof.
  induction l as [|a l IH]; intros [|i] x; cbn [remove_nth In]; auto. intros [H|H]; [auto | right; eapply IH; eauto].
Qed.

(* ------------------------------------------------------------------ *)
(* the gift table *)
Lemma find_gift_id_some g id e : find_gift_id g id = Some e -> In e g /\ ge_id e = id.
Proof. unfold find_gift_id. intros H. apply find_some in H as [H1 H2]. apply Z.eqb_eq in H2. auto. Qed.
Lemma find_gift_id_none g id : find_gift_id g id = None -> forall e, In e g -> ge_id e <> id.
Proof. unfold find_gift_id. intros H e He E. pose proof (find_none _ _ H e He) as F. cbn in F. apply Z.eqb_neq in F. auto. Qed.
Lemma find_gift_id_in g e : NoDup (map ge_id g) -> In e g -> find_gift_id g (ge_id e) = Some e.
Proof.
  unfold find_gift_id. induction g as [|a g IH]; cbn [map In find]; [tauto|]. intros N. inversion N as [|? ? Hn Hd]; subst.
  intros [->|H]; [rewrite Z.eqb_refl; reflexivity|].
  destruct (ge_id a =? ge_id e) eqn:E; [|auto]. apply Z.eqb_eq in E. exfalso. apply Hn. rewrite E. apply in_map. exact H.
Qed.
Lemma gcount_cons e g id : gcount (e :: g) id = if ge_id e =? id then ge_count e else gcount g id.
Proof. unfold gcount, find_gift_id. cbn [find]. destruct (ge_id e =? id); reflexivity. Qed.

Definition upd_gift (id v : Z) (e : gentry) : gentry :=
  if ge_id e =? id then {| ge_key := ge_key e; ge_pin := ge_pin e; ge_id := ge_id e; ge_count := v |} else e.
Lemma upd_gift_id id v e : ge_id (upd_gift id v e) = ge_id e.
Proof. unfold upd_gift. destruct (_ =? _); reflexivity. Qed.
Lemma upd_gift_pin id v e : ge_pin (upd_gift id v e) = ge_pin e.
Proof. unfold upd_gift. destruct (_ =? _); reflexivity. Qed.
Lemma upd_gift_key id v e : ge_key (upd_gift id v e) = ge_key e.
Proof. unfold upd_gift. destruct (_ =? _); reflexivity. Qed.
Lemma set_gift_count_eq g id v : set_gift_count g id v = map (upd_gift id v) g.
Proof. reflexivity. Qed.
Lemma find_gift_id_set g id v k : find_gift_id (set_gift_count g id v) k = option_map (upd_gift id v) (find_gift_id g k).
Proof.
  unfold find_gift_id. rewrite set_gift_count_eq. induction g as [|e g IH]; cbn [map find option_map]; [reflexivity|].
  rewrite upd_gift_id. destruct (ge_id e =? k); [reflexivity | exact IH].
Qed.
Lemma gcount_set g id v k :
  gcount (set_gift_count g id v) k = if k =? id then match find_gift_id g id with Some _ => v | None => 0 end else gcount g k.
Proof.
  unfold gcount. rewrite find_gift_id_set. destruct (k =? id) eqn:Ek.
  - apply Z.eqb_eq in Ek. subst k. destruct (find_gift_id g id) as [e|] eqn:F; cbn [option_map]; [|reflexivity].
    apply find_gift_id_some in F as [_ F]. unfold upd_gift. rewrite F, Z.eqb_refl. reflexivity.
  - destruct (find_gift_id g k) as [e|] eqn:F; cbn [option_map]; [|reflexivity].
    apply find_gift_id_some in F as [_ F]. unfold upd_gift. rewrite F, Ek. reflexivity.
Qed.
Lemma gcount_del g id k : gcount (del_gift_id g id) k = if k =? id then 0 else gcount g k.
Proof.
  induction g as [|e g IH].
  - cbn. destruct (k =? id); reflexivity.
  - unfold del_gift_id. cbn [filter]. fold (del_gift_id g id). destruct (ge_id e =? id) eqn:Ec; cbn [negb].
    + rewrite IH, gcount_cons. destruct (k =? id) eqn:Ek; [reflexivity|].
      destruct (ge_id e =? k) eqn:E2; [|reflexivity]. apply Z.eqb_eq in E2, Ec. apply Z.eqb_neq in Ek. congruence.
    + rewrite !gcount_cons, IH. destruct (k =? id) eqn:Ek; [|reflexivity]. apply Z.eqb_eq in Ek. subst. rewrite Ec. reflexivity.
Qed.
Lemma NoDup_map_filter' {A B} (f : A -> B) (p : A -> bool) l : NoDup (map f l) -> NoDup (map f (filter p l)).
Proof.
  induction l as [|a l IH]; cbn; [auto|]. intros H. inversion H as [|? ? Hn Hd]; subst.
  destruct (p a); cbn; [constructor; [|auto] | auto].
  intros Hin. apply Hn. apply in_map_iff in Hin as (x & E & Hx). apply filter_In in Hx as [Hx _]. apply in_map_iff. eauto.
Qed.

(* an entry that holds proxy b keeps b through a purge *)
Lemma purge_keeps g bp e b : In e g -> In b bp -> bp_key b = ge_pin e -> In b (purge g bp).
Proof.
  intros He Hb Hk. unfold purge. apply filter_In. split; [exact Hb|]. unfold bp_alive, pinned. rewrite pins_spec. cbn [andb].
  apply Bool.orb_true_iff. right. apply existsb_exists. exists e. split; [exact He|]. rewrite Hk. apply key_eqb_refl.
Qed.

(* names *)
Lemma find_obj_of_in n u x : NoDup (map fst n) -> In (u, x) n -> find_obj_of n u = Some x.
Proof.
  unfold find_obj_of. induction n as [|[u0 x0] n IH]; cbn [map In find fst snd option_map]; [tauto|]. intros N.
  inversion N as [|? ? Hn Hd]; subst. intros [E|H].
  - inversion E; subst. rewrite !Z.eqb_refl. reflexivity.
  - destruct ((fst u0 =? fst u) && (snd u0 =? snd u)) eqn:E; [|auto]. exfalso.
    apply Bool.andb_true_iff in E as [E1 E2]. apply Z.eqb_eq in E1, E2. apply Hn.
    assert (u0 = u) by (destruct u0, u; cbn in *; congruence). subst. apply in_map_iff. exists (u, x). auto.
Qed.
Lemma find_name_of_some n o x nm : find_name_of n o x = Some nm -> In ((o, nm), x) n.
Proof.
  unfold find_name_of. match goal with |- context [find ?f n] => destruct (find f n) as [[[o0 n0] x0]|] eqn:F end; cbn [option_map]; [|discriminate].
  intros E; inversion E; subst. apply find_some in F as [H1 H2]. cbn [fst snd] in H2.
  apply Bool.andb_true_iff in H2 as [E1 E2]. apply Z.eqb_eq in E1, E2. subst. exact H1.
Qed.

(* ------------------------------------------------------------------ *)
(* the invariant of every reachable state *)
Definition msg_ok (s : tstate) (m : tref) : Prop :=
  exists e b, In e (gifts s) /\ ge_id e = tr_id m /\ In b (bprox s) /\ bp_key b = ge_pin e /\
              (fst (bp_key b), bp_obj b) = tr_want m /\ bp_url b = tr_url m.

Record TInv (s : tstate) : Prop := {
  (* the count of a gift-table entry = their-references not yet acknowledged + acknowledgements on their way *)
  ti_count : forall id, gcount (gifts s) id = outstanding s id;
  ti_pos : Forall (fun e => 1 <= ge_count e /\ first_giftid <= ge_id e < nextgift s) (gifts s);
  ti_ng : first_giftid <= nextgift s;
  ti_ids : NoDup (map ge_id (gifts s));
  ti_keys : Forall (fun e => ge_key e = gift_key (ge_pin e)) (gifts s);
  ti_cb : Forall (fun m => snd m = 1) (ch_cb s);
  ti_pin : Forall (fun e => exists b, In b (bprox s) /\ bp_key b = ge_pin e) (gifts s);
  ti_msg : forall m, In m (ch_bc s) \/ In m (lookups s) -> msg_ok s m;
  ti_nn : Forall (fun e => snd (fst e) < nextname s) (names s);
  ti_nofail : gfail s = false
}.

Ltac same I :=
  first [exact (ti_pos _ I) | exact (ti_ng _ I) | exact (ti_ids _ I) | exact (ti_keys _ I) | exact (ti_cb _ I) | exact (ti_pin _ I)
        | exact (ti_nn _ I) | exact (ti_nofail _ I)
        | exact (ti_count _ I) | exact (ti_msg _ I)].

Lemma TInv_init : TInv tinit.
Proof.
  constructor; cbn; auto; try (constructor; fail); try lia.
  all: try (intros m [H|H]; destruct H).
Qed.

Lemma outstanding_nonneg s id : TInv s -> 0 <= outstanding s id.
Proof.
  intros I. unfold outstanding. pose proof (occ_tr_nonneg (ch_bc s) id). pose proof (occ_tr_nonneg (lookups s) id).
  pose proof (occ_an_nonneg (answers s) id). pose proof (occ_cb_nonneg _ id (ti_cb s I)). lia.
Qed.

Lemma outstanding_has_entry s id : TInv s -> 1 <= outstanding s id ->
  exists e, find_gift_id (gifts s) id = Some e /\ In e (gifts s) /\ ge_id e = id /\ ge_count e = outstanding s id /\
            first_giftid <= id.
Proof.
  intros I H. pose proof (ti_count s I id) as C. unfold gcount in C.
  destruct (find_gift_id (gifts s) id) as [e|] eqn:F; [|lia].
  pose proof (find_gift_id_some _ _ _ F) as [Hin Hid]. exists e. repeat split; auto.
  pose proof (ti_pos s I) as P. rewrite Forall_forall in P. specialize (P e Hin). lia.
Qed.

(* ---- Export *)
Lemma TInv_export s o x c w : TInv s -> TInv (do_export s o x c w).
Proof.
  intros I. unfold do_export.
  destruct (find _ (bprox s)) as [b0|] eqn:F.
  - (* B holds a proxy of the object: held again *)
    set (f := fun b : bproxy => if objid_eqb (fst (bp_key b), bp_obj b) (o, x)
                      then {| bp_key := bp_key b; bp_obj := bp_obj b; bp_url := bp_url b; bp_app := true |} else b).
    assert (Fk : forall b, bp_key (f b) = bp_key b /\ bp_obj (f b) = bp_obj b /\ bp_url (f b) = bp_url b).
    { intros b. unfold f. destruct (objid_eqb _ _); auto. }
    constructor; cbn [upd names nextname bprox gifts nextgift ch_bc lookups answers ch_cb cprox gfail]; try (same I).
    + pose proof (ti_pin s I) as P. rewrite Forall_forall in *. intros e He. destruct (P e He) as (b & Hb & Hk).
      exists (f b). split; [apply in_map; exact Hb|]. destruct (Fk b) as (-> & _). exact Hk.
    + intros m Hm. destruct (ti_msg s I m Hm) as (e & b & H1 & H2 & H3 & H4 & H5 & H6).
      exists e, (f b). destruct (Fk b) as (K1 & K2 & K3). rewrite K1, K2, K3. repeat split; auto. apply in_map; exact H3.
  - destruct (_ || _); [exact I|]. destruct w.
    + destruct (if assign_reuses_name then find_name_of (names s) o x else None) as [n|] eqn:Fn.
      * (* the object has a name already *)
        constructor; cbn [upd names nextname bprox gifts nextgift ch_bc lookups answers ch_cb cprox gfail]; try (same I).
        -- pose proof (ti_pin s I) as P. rewrite Forall_forall in *. intros e He. destruct (P e He) as (b & Hb & Hk).
           exists b. split; [right; exact Hb | exact Hk].
        -- intros m Hm. destruct (ti_msg s I m Hm) as (e & b & H1 & H2 & H3 & H4 & H5 & H6).
           exists e, b. repeat split; auto. right; exact H3.
      * (* a fresh name *)
        constructor; cbn [upd names nextname bprox gifts nextgift ch_bc lookups answers ch_cb cprox gfail]; try (same I).
        -- pose proof (ti_pin s I) as P. rewrite Forall_forall in *. intros e He. destruct (P e He) as (b & Hb & Hk).
           exists b. split; [right; exact Hb | exact Hk].
        -- intros m Hm. destruct (ti_msg s I m Hm) as (e & b & H1 & H2 & H3 & H4 & H5 & H6).
           exists e, b. repeat split; auto. right; exact H3.
        -- constructor; [cbn; lia|]. apply Forall_impl with (2 := ti_nn s I). intros e He. lia.
    + (* the short form: a proxy without FURL, no name is assigned *)
      constructor; cbn [upd names nextname bprox gifts nextgift ch_bc lookups answers ch_cb cprox gfail]; try (same I).
      * pose proof (ti_pin s I) as P. rewrite Forall_forall in *. intros e He. destruct (P e He) as (b & Hb & Hk).
        exists b. split; [right; exact Hb | exact Hk].
      * intros m Hm. destruct (ti_msg s I m Hm) as (e & b & H1 & H2 & H3 & H4 & H5 & H6).
        exists e, b. repeat split; auto. right; exact H3.
Qed.

(* ---- Give *)
Lemma TInv_give s k : TInv s -> TInv (do_give s k).
Proof.
  intros I. unfold do_give. destruct (find_bp (bprox s) k) as [b|] eqn:Fb; [|exact I].
  apply find_some in Fb as [Hb Kb]. apply key_eqb_eq in Kb.
  destruct (find_gift (gifts s) (gift_key k)) as [e|] eqn:Fg.
  - (* the entry exists: count + 1 *)
    apply find_some in Fg as [He Ke]. apply key_eqb_eq in Ke.
    assert (Hpin : ge_pin e = k).
    { pose proof (ti_keys s I) as P. rewrite Forall_forall in P. specialize (P e He). rewrite P, !gift_key_spec in Ke. exact Ke. }
    pose proof (find_gift_id_in _ _ (ti_ids s I) He) as Fe.
    constructor; cbn [upd names nextname bprox gifts nextgift ch_bc lookups answers ch_cb cprox gfail]; try (same I).
    + intros id. rewrite gcount_set, Fe, makeGift_again_spec. unfold outstanding.
      cbn [upd ch_bc lookups answers ch_cb]. rewrite occ_tr_app. cbn [tr_id].
      pose proof (ti_count s I id) as C. unfold outstanding in C. rewrite (Z.eqb_sym id). destruct (ge_id e =? id) eqn:E.
      * apply Z.eqb_eq in E. subst id. unfold gcount in C. rewrite Fe in C. lia.
      * lia.
    + pose proof (ti_pos s I) as P. rewrite Forall_forall in *. intros a Ha. rewrite set_gift_count_eq in Ha.
      apply in_map_iff in Ha as (a' & <- & Ha'). specialize (P a' Ha'). unfold upd_gift. rewrite makeGift_again_spec.
      destruct (ge_id a' =? ge_id e) eqn:E; cbn [ge_count ge_id]; [|exact P].
      apply Z.eqb_eq in E. pose proof (find_gift_id_in _ _ (ti_ids s I) Ha') as Fa. rewrite E, Fe in Fa. inversion Fa; subst a'. lia.
    + rewrite set_gift_count_eq, map_map. erewrite map_ext; [apply (ti_ids s I)|]. intros a. apply upd_gift_id.
    + pose proof (ti_keys s I) as P. rewrite Forall_forall in *. intros a Ha. rewrite set_gift_count_eq in Ha.
      apply in_map_iff in Ha as (a' & <- & Ha'). rewrite upd_gift_key, upd_gift_pin. apply P; exact Ha'.
    + pose proof (ti_pin s I) as P. rewrite Forall_forall in *. intros a Ha. rewrite set_gift_count_eq in Ha.
      apply in_map_iff in Ha as (a' & <- & Ha'). rewrite upd_gift_pin. apply P; exact Ha'.
    + intros m Hm.
      assert (Old : forall m, msg_ok s m -> msg_ok (upd s (names s) (nextname s) (bprox s)
                 (set_gift_count (gifts s) (ge_id e) (makeGift_again (ge_count e))) (nextgift s)
                 (ch_bc s ++ [{| tr_id := ge_id e; tr_url := bp_url b; tr_want := (fst k, bp_obj b) |}])
                 (lookups s) (answers s) (ch_cb s) (cprox s) (gfail s)) m).
      { intros m0 (e0 & b0 & H1 & H2 & H3 & H4 & H5 & H6). exists (upd_gift (ge_id e) (makeGift_again (ge_count e)) e0), b0.
        cbn [upd gifts bprox]. rewrite upd_gift_id, upd_gift_pin. repeat split; auto.
        rewrite set_gift_count_eq. apply in_map. exact H1. }
      cbn [upd ch_bc lookups] in Hm. destruct Hm as [Hm|Hm].
      * apply in_app_or in Hm as [Hm|[<-|[]]]; [apply Old, (ti_msg s I); left; exact Hm|].
        apply Old. exists e, b. cbn [tr_id tr_want tr_url]. rewrite Hpin, Kb. repeat split; auto.
      * apply Old, (ti_msg s I). right; exact Hm.
  - (* a new entry *)
    assert (Fresh : find_gift_id (gifts s) (nextgift s) = None).
    { destruct (find_gift_id (gifts s) (nextgift s)) as [a|] eqn:F; [|reflexivity]. apply find_gift_id_some in F as [Ha Ea].
      pose proof (ti_pos s I) as P. rewrite Forall_forall in P. specialize (P a Ha). lia. }
    constructor; cbn [upd names nextname bprox gifts nextgift ch_bc lookups answers ch_cb cprox gfail]; try (same I).
    + intros id. rewrite gcount_cons. cbn [ge_id ge_count]. rewrite makeGift_first_spec. unfold outstanding.
      cbn [upd ch_bc lookups answers ch_cb]. rewrite occ_tr_app. cbn [tr_id].
      pose proof (ti_count s I id) as C. unfold outstanding in C. destruct (nextgift s =? id) eqn:E; [|lia].
      apply Z.eqb_eq in E. subst id. unfold gcount in C. rewrite Fresh in C. lia.
    + constructor; [cbn [ge_count ge_id]; rewrite makeGift_first_spec; pose proof (ti_ng s I); lia|].
      apply Forall_impl with (2 := ti_pos s I). intros a Ha. lia.
    + pose proof (ti_ng s I). lia.
    + cbn [map ge_id]. constructor; [|apply (ti_ids s I)]. intros Hin. apply in_map_iff in Hin as (a & Ea & Ha).
      pose proof (ti_pos s I) as P. rewrite Forall_forall in P. specialize (P a Ha). lia.
    + constructor; [reflexivity | apply (ti_keys s I)].
    + constructor; [exists b; cbn; auto | apply (ti_pin s I)].
    + intros m Hm.
      assert (Old : forall m0, msg_ok s m0 -> exists e0 b0,
                 In e0 ({| ge_key := gift_key k; ge_pin := k; ge_id := nextgift s; ge_count := makeGift_first |} :: gifts s) /\
                 ge_id e0 = tr_id m0 /\ In b0 (bprox s) /\ bp_key b0 = ge_pin e0 /\
                 (fst (bp_key b0), bp_obj b0) = tr_want m0 /\ bp_url b0 = tr_url m0).
      { intros m0 (e0 & b0 & H1 & H2 & H3 & H4 & H5 & H6). exists e0, b0. repeat split; auto. right; exact H1. }
      unfold msg_ok. cbn [upd gifts bprox]. cbn [upd ch_bc lookups] in Hm. destruct Hm as [Hm|Hm].
      * apply in_app_or in Hm as [Hm|[<-|[]]]; [apply Old, (ti_msg s I); left; exact Hm|].
        eexists; exists b. split; [left; reflexivity|]. cbn [ge_id ge_pin tr_id tr_want tr_url]. rewrite Kb. repeat split; auto.
      * apply Old, (ti_msg s I). right; exact Hm.
Qed.

(* ---- C receives a their-reference *)
Lemma TInv_recv_bc s : TInv s -> TInv (do_recv_bc s).
Proof.
  intros I. unfold do_recv_bc. destruct (ch_bc s) as [|m rest] eqn:Hch; [exact I|]. rewrite gift_ack_point_spec, !app_nil_r.
  destruct (tr_url m) as [u|].
  - constructor; cbn [upd names nextname bprox gifts nextgift ch_bc lookups answers ch_cb cprox gfail]; try (same I).
    + intros id. pose proof (ti_count s I id) as C. unfold outstanding in *. cbn [upd ch_bc lookups answers ch_cb].
      rewrite Hch in C. cbn [occ_tr] in C. rewrite occ_tr_app. lia.
    + intros m0 Hm. assert (H : msg_ok s m0).
      { apply (ti_msg s I). rewrite Hch. destruct Hm as [Hm|Hm]; [left; right; exact Hm|].
        apply in_app_or in Hm as [Hm|[<-|[]]]; [right; exact Hm | left; left; reflexivity]. }
      exact H.
  - (* the empty FURL: getReference fails at once, the failure is queued like an answer *)
    constructor; cbn [upd names nextname bprox gifts nextgift ch_bc lookups answers ch_cb cprox gfail]; try (same I).
    + intros id. pose proof (ti_count s I id) as C. unfold outstanding in *. cbn [upd ch_bc lookups answers ch_cb].
      rewrite Hch in C. cbn [occ_tr] in C. rewrite occ_an_app. cbn [an_id]. lia.
    + intros m0 Hm. assert (H : msg_ok s m0).
      { apply (ti_msg s I). rewrite Hch. destruct Hm as [Hm|Hm]; [left; right; exact Hm | right; exact Hm]. }
      exact H.
Qed.

Lemma TInv_lookup s i : TInv s -> TInv (do_lookup s i).
Proof.
  intros I. unfold do_lookup. destruct (nth_error (lookups s) i) as [m|] eqn:Hn; [|exact I].
  pose proof (nth_error_In _ _ Hn) as Hin.
  constructor; cbn [upd names nextname bprox gifts nextgift ch_bc lookups answers ch_cb cprox gfail]; try (same I).
  - intros id. pose proof (ti_count s I id) as C. unfold outstanding in *. cbn [upd ch_bc lookups answers ch_cb].
    rewrite (occ_tr_remove _ _ _ id Hn), occ_an_app. cbn [an_id]. lia.
  - intros m0 Hm. assert (H : msg_ok s m0).
    { apply (ti_msg s I). destruct Hm as [Hm|Hm]; [left; exact Hm | right; eapply In_remove_nth; eauto]. }
    exact H.
Qed.

(* ---- C receives the answer: acknowledgement *)
Lemma TInv_answer s i : TInv s -> TInv (fst (do_answer s i)).
Proof.
  intros I. unfold do_answer. destruct (nth_error (answers s) i) as [a|] eqn:Hn; [|exact I]. cbn [fst].
  pose proof (nth_error_In _ _ Hn) as Hin. rewrite gift_ack_point_spec.
  assert (Hid : first_giftid <= an_id a).
  { destruct (outstanding_has_entry s (an_id a) I) as (e & _ & _ & _ & _ & H); [|exact H].
    unfold outstanding. pose proof (occ_an_in _ _ Hin). pose proof (occ_tr_nonneg (ch_bc s) (an_id a)).
    pose proof (occ_tr_nonneg (lookups s) (an_id a)). pose proof (occ_cb_nonneg _ (an_id a) (ti_cb s I)). lia. }
  rewrite (ack_msgs_spec _ Hid).
  constructor; cbn [upd names nextname bprox gifts nextgift ch_bc lookups answers ch_cb cprox gfail]; try (same I).
  - intros id. pose proof (ti_count s I id) as C. unfold outstanding in *. cbn [upd ch_bc lookups answers ch_cb].
    rewrite (occ_an_remove _ _ _ id Hn), occ_cb_app. cbn [fst snd]. lia.
  - apply Forall_app. split; [apply (ti_cb s I) | constructor; [reflexivity | constructor]].
Qed.

(* ---- B receives a decgift *)
Lemma TInv_recv_cb s : TInv s -> TInv (fst (do_recv_cb s)).
Proof.
  intros I. unfold do_recv_cb. destruct (ch_cb s) as [|[id n] rest] eqn:Hch; [exact I|].
  pose proof (ti_cb s I) as Cb. rewrite Hch in Cb. inversion Cb as [|? ? Hn1 Cb']; subst. cbn [snd] in Hn1. subst n.
  assert (Out : outstanding s id = occ_tr (ch_bc s) id + occ_tr (lookups s) id + occ_an (answers s) id + 1 + occ_cb rest id).
  { unfold outstanding. rewrite Hch. cbn [occ_cb]. rewrite Z.eqb_refl. lia. }
  pose proof (occ_tr_nonneg (ch_bc s) id) as N1. pose proof (occ_tr_nonneg (lookups s) id) as N2.
  pose proof (occ_an_nonneg (answers s) id) as N3. pose proof (occ_cb_nonneg _ id Cb') as N4.
  destruct (outstanding_has_entry s id I) as (e & Fe & He & Eid & Ec & _); [lia|]. rewrite Fe. cbn [fst].
  rewrite decgift_sub_spec, decgift_done_spec.
  set (g' := if ge_count e - 1 =? 0 then del_gift_id (gifts s) id else set_gift_count (gifts s) id (ge_count e - 1)).
  assert (Gc : forall k, gcount g' k = if k =? id then ge_count e - 1 else gcount (gifts s) k).
  { intros k. subst g'. destruct (ge_count e - 1 =? 0) eqn:Ez.
    - rewrite gcount_del. apply Z.eqb_eq in Ez. destruct (k =? id); lia.
    - rewrite gcount_set, Fe. reflexivity. }
  assert (Sub : forall a, In a g' -> exists a', In a' (gifts s) /\ ge_id a = ge_id a' /\ ge_pin a = ge_pin a' /\ ge_key a = ge_key a' /\
                                         (ge_id a' <> id -> a = a') /\ (ge_id a' = id -> ge_count a = ge_count e - 1 /\ ge_count e - 1 <> 0)).
  { intros a Ha. subst g'. destruct (ge_count e - 1 =? 0) eqn:Ez.
    - apply filter_In in Ha as [Ha Hne]. apply Bool.negb_true_iff, Z.eqb_neq in Hne. exists a.
      split; [exact Ha|]. split; [reflexivity|]. split; [reflexivity|]. split; [reflexivity|]. split; [intros; reflexivity | intros; contradiction].
    - apply Z.eqb_neq in Ez. rewrite set_gift_count_eq in Ha. apply in_map_iff in Ha as (a' & <- & Ha'). exists a'.
      rewrite upd_gift_id, upd_gift_pin, upd_gift_key.
      split; [exact Ha'|]. split; [reflexivity|]. split; [reflexivity|]. split; [reflexivity|]. split.
      + intros Hne. unfold upd_gift. apply Z.eqb_neq in Hne. rewrite Hne. reflexivity.
      + intros Eq. split; [|exact Ez]. unfold upd_gift. apply Z.eqb_eq in Eq. rewrite Eq. reflexivity. }
  assert (Keep : forall a', In a' (gifts s) -> ge_id a' <> id -> exists a, In a g' /\ ge_id a = ge_id a' /\ ge_pin a = ge_pin a').
  { intros a' Ha' Hne. subst g'. destruct (ge_count e - 1 =? 0).
    - exists a'. repeat split; auto. apply filter_In. split; [exact Ha'|]. apply Bool.negb_true_iff, Z.eqb_neq. exact Hne.
    - exists (upd_gift id (ge_count e - 1) a'). rewrite upd_gift_id, upd_gift_pin. repeat split; auto.
      rewrite set_gift_count_eq. apply in_map. exact Ha'. }
  assert (Keep2 : ge_count e - 1 <> 0 -> forall a', In a' (gifts s) -> exists a, In a g' /\ ge_id a = ge_id a' /\ ge_pin a = ge_pin a').
  { intros Hnz a' Ha'. subst g'. apply Z.eqb_neq in Hnz. rewrite Hnz.
    exists (upd_gift id (ge_count e - 1) a'). rewrite upd_gift_id, upd_gift_pin. repeat split; auto.
    rewrite set_gift_count_eq. apply in_map. exact Ha'. }
  constructor; cbn [upd names nextname bprox gifts nextgift ch_bc lookups answers ch_cb cprox gfail]; try (same I).
  - intros k. rewrite Gc. pose proof (ti_count s I k) as C. unfold outstanding in *. cbn [upd ch_bc lookups answers ch_cb].
    rewrite Hch in C. cbn [occ_cb] in C. rewrite (Z.eqb_sym k id). destruct (id =? k) eqn:E; [|lia].
    apply Z.eqb_eq in E. subst k. unfold gcount in C. rewrite Fe in C. lia.
  - pose proof (ti_pos s I) as P. rewrite Forall_forall in *. intros a Ha. destruct (Sub a Ha) as (a' & Ha' & E1 & E2 & E3 & E4 & E5).
    specialize (P a' Ha'). rewrite E1. split; [|lia]. destruct (Z.eq_dec (ge_id a') id) as [Eq|Ne].
    + destruct (E5 Eq) as [-> Hnz]. lia.
    + rewrite (E4 Ne). lia.
  - subst g'. destruct (_ =? _); [apply NoDup_map_filter', (ti_ids s I)|].
    rewrite set_gift_count_eq, map_map. erewrite map_ext; [apply (ti_ids s I)|]. intros a. apply upd_gift_id.
  - pose proof (ti_keys s I) as P. rewrite Forall_forall in *. intros a Ha. destruct (Sub a Ha) as (a' & Ha' & E1 & E2 & E3 & _).
    rewrite E2, E3. apply P; exact Ha'.
  - exact Cb'.
  - pose proof (ti_pin s I) as P. rewrite Forall_forall in *. intros a Ha. destruct (Sub a Ha) as (a' & Ha' & E1 & E2 & _).
    destruct (P a' Ha') as (b & Hb & Hk). exists b. split; [|congruence]. eapply purge_keeps; eauto. congruence.
  - intros m Hm. destruct (ti_msg s I m Hm) as (e0 & b0 & H1 & H2 & H3 & H4 & H5 & H6).
    assert (Ex : exists a, In a g' /\ ge_id a = ge_id e0 /\ ge_pin a = ge_pin e0).
    { destruct (Z.eq_dec (ge_id e0) id) as [Eq|Ne]; [|apply Keep; assumption]. apply Keep2; [|exact H1].
      (* a their-reference of this gift is still on its way: the count stays positive *)
      assert (1 <= occ_tr (ch_bc s) id + occ_tr (lookups s) id).
      { rewrite <- Eq, H2. destruct Hm as [Hm|Hm]; [pose proof (occ_tr_in _ _ Hm); pose proof (occ_tr_nonneg (lookups s) (tr_id m))
                                                   | pose proof (occ_tr_in _ _ Hm); pose proof (occ_tr_nonneg (ch_bc s) (tr_id m))]; lia. }
      lia. }
    destruct Ex as (a & Ha & Ea1 & Ea2). exists a, b0. repeat split; auto; try congruence.
    eapply purge_keeps; eauto. congruence.
Qed.

(* ---- B's application lets go of a proxy *)
Lemma TInv_appdrop s k : TInv s -> TInv (do_appdrop s k).
Proof.
  intros I. unfold do_appdrop.
  set (f := fun b : bproxy => if key_eqb (bp_key b) k
                    then {| bp_key := bp_key b; bp_obj := bp_obj b; bp_url := bp_url b; bp_app := false |} else b).
  assert (Fk : forall b, bp_key (f b) = bp_key b /\ bp_obj (f b) = bp_obj b /\ bp_url (f b) = bp_url b).
  { intros b. unfold f. destruct (key_eqb _ _); auto. }
  constructor; cbn [upd names nextname bprox gifts nextgift ch_bc lookups answers ch_cb cprox gfail]; try (same I).
  - pose proof (ti_pin s I) as P. rewrite Forall_forall in *. intros e He. destruct (P e He) as (b & Hb & Hk).
    exists (f b). destruct (Fk b) as (K1 & _). split; [|congruence]. eapply purge_keeps; [exact He | apply in_map; exact Hb | congruence].
  - intros m Hm. destruct (ti_msg s I m Hm) as (e & b & H1 & H2 & H3 & H4 & H5 & H6).
    exists e, (f b). destruct (Fk b) as (K1 & K2 & K3). rewrite K1, K2, K3. repeat split; auto.
    eapply purge_keeps; [exact H1 | apply in_map; exact H3 | congruence].
Qed.

Lemma TInv_cdrop s ox : TInv s -> TInv (do_cdrop s ox).
Proof.
  intros I. constructor; cbn [do_cdrop upd names nextname bprox gifts nextgift ch_bc lookups answers ch_cb cprox gfail]; try (same I).
Qed.

Lemma TInv_register s o x n : TInv s -> TInv (do_register s o x n).
Proof.
  intros I. unfold do_register. destruct (n <? nextname s) eqn:Hn; cbn [negb]; [|exact I]. apply Z.ltb_lt in Hn.
  destruct (find_name_of (names s) o x); [rewrite assign_existing_spec; exact I|].
  constructor; cbn [upd names nextname bprox gifts nextgift ch_bc lookups answers ch_cb cprox gfail]; try (same I).
  constructor; [cbn; exact Hn | apply (ti_nn s I)].
Qed.

Theorem TInv_step s o : TInv s -> TInv (fst (tstep s o)).
Proof.
  intros I. destruct o; cbn [tstep fst];
    [apply TInv_export | apply TInv_give | apply TInv_recv_bc | apply TInv_lookup | apply TInv_answer | apply TInv_recv_cb
     | apply TInv_appdrop | apply TInv_cdrop | apply TInv_register]; exact I.
Qed.

Theorem TInv_run ops : forall s, TInv s -> TInv (trun s ops).
Proof. induction ops as [|o r IH]; intros s I; cbn [trun]; [exact I | apply IH, TInv_step, I]. Qed.

Corollary TInv_reachable ops : TInv (trun tinit ops).
Proof. apply TInv_run, TInv_init. Qed.

(* ------------------------------------------------------------------ *)
(* the part of the invariant that needs the guard (faithful_op): names are unambiguous, every proxy's FURL (if it has one)
   names its object, every gift under way has a FURL, every answer under way is the object the giver meant *)
Record TFaith (s : tstate) : Prop := {
  tf_names : Forall (fun b => forall u, bp_url b = Some u -> In (u, bp_obj b) (names s) /\ fst u = fst (bp_key b)) (bprox s);
  tf_nodup : NoDup (map fst (names s));
  tf_ans : Forall (fun a => an_got a = Some (an_want a)) (answers s);
  tf_url : forall m, In m (ch_bc s) \/ In m (lookups s) -> tr_url m <> None
}.

Lemma TFaith_init : TFaith tinit.
Proof. constructor; cbn; try constructor. intros m [[]|[]]. Qed.

(* ---- the owner answers a lookup: the name resolves, to the object the giver's proxy designates *)
Lemma lookup_resolves s m : TInv s -> TFaith s -> In m (lookups s) -> resolve_opt s (tr_url m) = Some (tr_want m).
Proof.
  intros I T Hm. destruct (ti_msg s I m (or_intror Hm)) as (e & b & H1 & H2 & H3 & H4 & H5 & H6).
  destruct (tr_url m) as [u|] eqn:Eu; [|exfalso; apply (tf_url s T m (or_intror Hm)); exact Eu]. cbn [resolve_opt].
  pose proof (tf_names s T) as P. rewrite Forall_forall in P. destruct (P b H3 u H6) as [P1 P2].
  unfold resolve. rewrite (find_obj_of_in _ _ _ (tf_nodup s T) P1).
  assert (A : obj_alive s (fst u, bp_obj b) = true).
  { unfold obj_alive. apply Bool.orb_true_iff. left. apply Bool.orb_true_iff. left. apply existsb_exists. exists b.
    split; [exact H3|]. rewrite P2. apply objid_eqb_eq. reflexivity. }
  rewrite A, P2, H5. reflexivity.
Qed.

Lemma TFaith_step s o : TInv s -> TFaith s -> faithful_op s o = true -> TFaith (fst (tstep s o)).
Proof.
  intros I T G. destruct o as [o x c w|k| |i|i| |k|ox|o x n]; cbn [tstep fst].
  - (* Export *)
    unfold do_export. destruct (find _ (bprox s)) as [b0|] eqn:F.
    + set (f := fun b : bproxy => if objid_eqb (fst (bp_key b), bp_obj b) (o, x)
                        then {| bp_key := bp_key b; bp_obj := bp_obj b; bp_url := bp_url b; bp_app := true |} else b).
      assert (Fk : forall b, bp_key (f b) = bp_key b /\ bp_obj (f b) = bp_obj b /\ bp_url (f b) = bp_url b).
      { intros b. unfold f. destruct (objid_eqb _ _); auto. }
      constructor; cbn [upd names bprox answers ch_bc lookups]; try apply T.
      pose proof (tf_names s T) as P. rewrite Forall_forall in *. intros b Hb. apply in_map_iff in Hb as (b' & <- & Hb').
      destruct (Fk b') as (K1 & K2 & K3). rewrite K1, K2, K3. apply P; exact Hb'.
    + destruct (_ || _); [exact T|]. destruct w.
      * destruct (if assign_reuses_name then find_name_of (names s) o x else None) as [n|] eqn:Fn.
        -- assert (Hn : In ((o, n), x) (names s)).
           { destruct assign_reuses_name; [apply find_name_of_some; exact Fn | discriminate]. }
           constructor; cbn [upd names bprox answers ch_bc lookups]; try apply T.
           constructor; [cbn [bp_url bp_obj bp_key]; intros u Eu; inversion Eu; subst u; auto | apply (tf_names s T)].
        -- constructor; cbn [upd names bprox answers ch_bc lookups]; try apply T.
           ++ constructor; [cbn [bp_url bp_obj bp_key]; intros u Eu; inversion Eu; subst u; split; [left; reflexivity | reflexivity]|].
              pose proof (tf_names s T) as P. rewrite Forall_forall in *. intros b Hb u Eu.
              destruct (P b Hb u Eu) as [P1 P2]. split; [right; exact P1 | exact P2].
           ++ cbn [map fst]. constructor; [|apply (tf_nodup s T)]. intros Hin. apply in_map_iff in Hin as (e & Ee & He).
              pose proof (ti_nn s I) as N. rewrite Forall_forall in N. specialize (N e He). cbv beta in N. unfold url in *. rewrite Ee in N. cbn in N. lia.
      * constructor; cbn [upd names bprox answers ch_bc lookups]; try apply T.
        constructor; [cbn [bp_url]; intros u Eu; discriminate | apply (tf_names s T)].
  - (* Give: the proxy has a FURL *)
    cbn [faithful_op] in G. unfold do_give. destruct (find_bp (bprox s) k) as [b|] eqn:Fb; [|exact T].
    destruct (bp_url b) as [u|] eqn:Eu; [|discriminate].
    assert (U : forall id m, In m (ch_bc s ++ [{| tr_id := id; tr_url := Some u; tr_want := (fst k, bp_obj b) |}]) \/ In m (lookups s) ->
                             tr_url m <> None).
    { intros id m [Hm|Hm]; [|apply (tf_url s T); right; exact Hm].
      apply in_app_or in Hm as [Hm|[<-|[]]]; [apply (tf_url s T); left; exact Hm | cbn; discriminate]. }
    destruct (find_gift (gifts s) (gift_key k)) as [e|]; constructor; cbn [upd names bprox answers ch_bc lookups]; try apply T;
      apply U.
  - (* RecvBC: the gift has a FURL, a lookup goes out *)
    unfold do_recv_bc. destruct (ch_bc s) as [|m rest] eqn:Hch; [exact T|].
    assert (Um : tr_url m <> None) by (apply (tf_url s T); left; rewrite Hch; left; reflexivity).
    destruct (tr_url m) as [u|] eqn:Eu; [|contradiction].
    constructor; cbn [upd names bprox answers ch_bc lookups]; try apply T.
    intros m0 Hm. destruct Hm as [Hm|Hm]; [apply (tf_url s T); left; rewrite Hch; right; exact Hm|].
    apply in_app_or in Hm as [Hm|[<-|[]]]; [apply (tf_url s T); right; exact Hm | rewrite Eu; discriminate].
  - (* Lookup *)
    unfold do_lookup. destruct (nth_error (lookups s) i) as [m|] eqn:Hn; [|exact T].
    pose proof (nth_error_In _ _ Hn) as Hin.
    constructor; cbn [upd names bprox answers ch_bc lookups]; try apply T.
    + apply Forall_app. split; [apply (tf_ans s T)|]. constructor; [|constructor]. cbn [an_got an_want].
      apply lookup_resolves; assumption.
    + intros m0 Hm. apply (tf_url s T). destruct Hm as [Hm|Hm]; [left; exact Hm | right; eapply In_remove_nth; eauto].
  - (* Answer *)
    unfold do_answer. destruct (nth_error (answers s) i) as [a|] eqn:Hn; [|exact T]. cbn [fst].
    constructor; cbn [upd names bprox answers ch_bc lookups]; try apply T.
    pose proof (tf_ans s T) as P. rewrite Forall_forall in *. intros b Hb. apply P. eapply In_remove_nth; eauto.
  - (* RecvCB *)
    unfold do_recv_cb. destruct (ch_cb s) as [|[id n] rest]; [exact T|].
    destruct (find_gift_id (gifts s) id) as [e|]; cbn [fst]; constructor; cbn [upd names bprox answers ch_bc lookups]; try apply T.
    pose proof (tf_names s T) as P. rewrite Forall_forall in *. intros b Hb. apply filter_In in Hb as [Hb _]. apply P; exact Hb.
  - (* AppDrop *)
    unfold do_appdrop.
    set (f := fun b : bproxy => if key_eqb (bp_key b) k
                      then {| bp_key := bp_key b; bp_obj := bp_obj b; bp_url := bp_url b; bp_app := false |} else b).
    assert (Fk : forall b, bp_key (f b) = bp_key b /\ bp_obj (f b) = bp_obj b /\ bp_url (f b) = bp_url b).
    { intros b. unfold f. destruct (key_eqb _ _); auto. }
    constructor; cbn [upd names bprox answers ch_bc lookups]; try apply T.
    pose proof (tf_names s T) as P. rewrite Forall_forall in *. intros b Hb. apply filter_In in Hb as [Hb _].
    apply in_map_iff in Hb as (b' & <- & Hb'). destruct (Fk b') as (K1 & K2 & K3). rewrite K1, K2, K3. apply P; exact Hb'.
  - constructor; cbn [do_cdrop upd names bprox answers ch_bc lookups]; apply T.
  - (* Register: the name is not in use *)
    cbn [faithful_op] in G. unfold do_register. destruct (n <? nextname s) eqn:Hn; cbn [negb orb] in *; [|exact T].
    apply Bool.negb_true_iff in G.
    destruct (find_name_of (names s) o x); [rewrite assign_existing_spec; exact T|].
    constructor; cbn [upd names bprox answers ch_bc lookups]; try apply T.
    + pose proof (tf_names s T) as P. rewrite Forall_forall in *. intros b Hb u Eu. destruct (P b Hb u Eu) as [P1 P2].
      split; [right; exact P1 | exact P2].
    + cbn [map fst]. constructor; [|apply (tf_nodup s T)]. intros Hin. apply in_map_iff in Hin as (e & Ee & He).
      assert (name_used (names s) o n = true); [|congruence]. unfold name_used. apply existsb_exists. exists e. split; [exact He|].
      unfold url in *. rewrite Ee. cbn [fst snd]. rewrite !Z.eqb_refl. reflexivity.
Qed.

Lemma TFaith_run ops : forall s, TInv s -> TFaith s -> faithful_run s ops -> TFaith (trun s ops).
Proof.
  induction ops as [|o r IH]; intros s I T G; cbn [trun]; [exact T|]. destruct G as [G1 G2].
  apply IH; [apply TInv_step, I | apply TFaith_step; assumption | exact G2].
Qed.

Corollary TFaith_reachable ops : faithful_run tinit ops -> TFaith (trun tinit ops).
Proof. apply TFaith_run; [apply TInv_init | apply TFaith_init]. Qed.

(* ------------------------------------------------------------------ *)
(* C08: after introduction the recipient's proxy designates the same original object *)

(* what B puts on the wire for its proxy: the gift's FURL is the proxy's (the empty one if its tracker has none), the (ghost)
   intention is the object the proxy's (connection, clid) was allocated for *)
Theorem give_names_object ops k b :
  let s := trun tinit ops in
  find_bp (bprox s) k = Some b ->
  exists id, ch_bc (fst (tstep s (TGive k))) = ch_bc s ++ [{| tr_id := id; tr_url := bp_url b; tr_want := (fst k, bp_obj b) |}].
Proof.
  intros s F. cbn [tstep fst]. unfold do_give. rewrite F. destruct (find_gift _ _); eexists; reflexivity.
Qed.

(* GUARDED (faithful_run): every lookup of a gift's name, whenever the owner processes it, resolves -- to the object the giver's
   proxy designates *)
Theorem lookup_finds_original ops i m :
  faithful_run tinit ops ->
  let s := trun tinit ops in
  nth_error (lookups s) i = Some m ->
  exists rest, answers (fst (tstep s (TLookup i))) = rest ++ [{| an_id := tr_id m; an_got := Some (tr_want m); an_want := tr_want m |}].
Proof.
  intros G s Hn. cbn [tstep fst]. unfold do_lookup. rewrite Hn. cbn [upd answers].
  rewrite (lookup_resolves s m (TInv_reachable ops) (TFaith_reachable ops G) (nth_error_In _ _ Hn)). eexists; reflexivity.
Qed.

(* GUARDED: every introduction completes with a proxy for the object the giver meant *)
Theorem intro_same_object ops i a :
  faithful_run tinit ops ->
  let s := trun tinit ops in
  nth_error (answers s) i = Some a ->
  snd (tstep s (TAnswer i)) = [EvIntro (an_id a) (Some (an_want a)) (an_want a)] /\
  In (an_want a) (cprox (fst (tstep s (TAnswer i)))).
Proof.
  intros G s Hn. pose proof (TFaith_reachable ops G) as T. fold s in T.
  pose proof (tf_ans s T) as P. rewrite Forall_forall in P. specialize (P a (nth_error_In _ _ Hn)).
  cbn [tstep]. unfold do_answer. rewrite Hn. cbn [fst snd upd cprox]. rewrite P. split; [reflexivity|].
  destruct (existsb (objid_eqb (an_want a)) (cprox s)) eqn:E; [|left; reflexivity].
  apply existsb_exists in E as (y & Hy & Ey). apply objid_eqb_eq in Ey. subst y. exact Hy.
Qed.

Definition good_event (e : tevent) : Prop := exists id w, e = EvIntro id (Some w) w.

Lemma events_good ops : forall s, TInv s -> TFaith s -> faithful_run s ops -> Forall good_event (trun_events s ops).
Proof.
  induction ops as [|o r IH]; intros s I T G; cbn [trun_events]; [constructor|]. destruct G as [G1 G2].
  apply Forall_app. split; [|apply IH; [apply TInv_step, I | apply TFaith_step; assumption | exact G2]].
  destruct o; cbn [tstep snd]; try constructor.
  - unfold do_answer. destruct (nth_error (answers s) i) as [a|] eqn:Hn; cbn [snd]; [|constructor].
    pose proof (tf_ans s T) as P. rewrite Forall_forall in P. specialize (P a (nth_error_In _ _ Hn)).
    constructor; [|constructor]. exists (an_id a), (an_want a). rewrite P. reflexivity.
  - pose proof (TInv_recv_cb s I) as I'. unfold do_recv_cb in *. destruct (ch_cb s) as [|[id n] rest]; cbn [snd]; [constructor|].
    destruct (find_gift_id (gifts s) id) as [e|]; cbn [snd]; [constructor|].
    cbn [fst] in I'. pose proof (ti_nofail _ I') as F. cbn in F. discriminate.
Qed.

(* PARTIAL.  Full statement: in EVERY history no introduction fails or yields another object.  Proved under the guard
   faithful_run: every proxy the giver hands on has a FURL, and no owner registers a second object under a name in use.
   What is missing is refuted below, once per clause of the guard. *)
Theorem all_introductions_faithful_partial ops : faithful_run tinit ops -> Forall good_event (trun_events tinit ops).
Proof. apply events_good; [apply TInv_init | apply TFaith_init]. Qed.

(* REFUTED without the first clause: the giver's proxy has no FURL (its tracker was re-created from the short form of a
   my-reference: RefsProofs.live_proxy_without_url); what it sends is `their-reference <id> ""`, the recipient's getReference
   fails, the call carrying the gift is flunked *)
Definition urlless_gift_ops : list top := [TExport 0 5 1 false; TGive (0, 1); TRecvBC; TAnswer 0].

Theorem all_introductions_faithful_refuted :
  exists ops, ~ Forall good_event (trun_events tinit ops) /\ trun_events tinit ops = [EvIntro 1 None (0, 5)].
Proof.
  exists urlless_gift_ops. split; [|vm_compute; reflexivity].
  intros H. assert (E : trun_events tinit urlless_gift_ops = [EvIntro 1 None (0, 5)]) by (vm_compute; reflexivity).
  rewrite E in H. inversion H as [|? ? (id & w & Hg) _]; subst. discriminate.
Qed.

(* REFUTED without the second clause: the owner's application registers object 20 under the name object 10 is known by; the
   giver's proxy of 10 carries that name; the introduction yields a proxy of 20 *)
Definition name_takeover_ops : list top :=
  [TExport 0 10 1 true; TExport 0 20 2 false; TRegister 0 20 0; TGive (0, 1); TRecvBC; TLookup 0; TAnswer 0].

Theorem introduction_refuted_by_name_takeover :
  trun_events tinit name_takeover_ops = [EvIntro 1 (Some (0, 20)) (0, 10)] /\ ~ faithful_run tinit name_takeover_ops.
Proof. split; [vm_compute; reflexivity|]. vm_compute. intuition discriminate. Qed.

(* the guard is satisfiable by non-trivial histories (two_owner_ops below), and the counting theorems (C09) need no guard *)

(* ------------------------------------------------------------------ *)
(* C09, three parties *)

Theorem gift_count_invariant ops id :
  let s := trun tinit ops in gcount (gifts s) id = outstanding s id.
Proof. intros s. apply (ti_count s (TInv_reachable ops)). Qed.

(* a release of the giver's pin is never for more than was given: remote_decgift finds its entry, with a sufficient count *)
Theorem decgift_bounded ops :
  let s := trun tinit ops in
  gfail s = false /\
  forall id n rest, ch_cb s = (id, n) :: rest ->
    exists e, find_gift_id (gifts s) id = Some e /\ 0 < n <= ge_count e /\ snd (tstep s TRecvCB) = [].
Proof.
  intros s. pose proof (TInv_reachable ops) as I. fold s in I. split; [apply (ti_nofail s I)|].
  intros id n rest Hch. pose proof (ti_cb s I) as Cb. rewrite Hch in Cb. inversion Cb as [|? ? Hn1 Cb']; subst. cbn [snd] in Hn1. subst n.
  pose proof (occ_tr_nonneg (ch_bc s) id). pose proof (occ_tr_nonneg (lookups s) id).
  pose proof (occ_an_nonneg (answers s) id). pose proof (occ_cb_nonneg _ id Cb').
  assert (Out : 1 <= outstanding s id).
  { unfold outstanding. rewrite Hch. cbn [occ_cb]. rewrite Z.eqb_refl. lia. }
  destruct (outstanding_has_entry s id I Out) as (e & Fe & He & Eid & Ec & _). exists e. split; [exact Fe|]. split; [lia|].
  cbn [tstep]. unfold do_recv_cb. rewrite Hch, Fe. reflexivity.
Qed.

(* while a their-reference, its lookup, or its answer is on the way: the giver's table entry exists, the proxy it holds is
   alive at the giver, and the owner's object lives (so the lookup will find it) *)
Theorem gift_in_flight_pins ops m :
  let s := trun tinit ops in
  In m (ch_bc s) \/ In m (lookups s) ->
  exists e b, find_gift_id (gifts s) (tr_id m) = Some e /\ In b (bprox s) /\ bp_key b = ge_pin e /\ bp_alive (gifts s) b = true /\
              (fst (bp_key b), bp_obj b) = tr_want m /\ obj_alive s (tr_want m) = true.
Proof.
  intros s Hm. pose proof (TInv_reachable ops) as I. fold s in I.
  destruct (ti_msg s I m Hm) as (e & b & H1 & H2 & H3 & H4 & H5 & H6). exists e, b.
  split; [rewrite <- H2; apply find_gift_id_in; [apply (ti_ids s I) | exact H1]|]. repeat split; auto.
  - unfold bp_alive, pinned. rewrite pins_spec. apply Bool.orb_true_iff. right. cbn [andb]. apply existsb_exists.
    exists e. split; [exact H1|]. rewrite H4. apply key_eqb_refl.
  - unfold obj_alive. apply Bool.orb_true_iff. left. apply Bool.orb_true_iff. left. apply existsb_exists. exists b.
    split; [exact H3|]. rewrite H5. apply objid_eqb_eq. reflexivity.
Qed.

(* every entry of the gift table holds a living proxy of the giver, whatever the giver's application dropped *)
Theorem gift_entry_holds_proxy ops e :
  let s := trun tinit ops in In e (gifts s) -> exists b, In b (bprox s) /\ bp_key b = ge_pin e /\ 1 <= ge_count e.
Proof.
  intros s He. pose proof (TInv_reachable ops) as I. fold s in I.
  pose proof (ti_pin s I) as P. rewrite Forall_forall in P. destruct (P e He) as (b & Hb & Hk).
  pose proof (ti_pos s I) as Q. rewrite Forall_forall in Q. specialize (Q e He). exists b. repeat split; auto. lia.
Qed.

(* the statement is about REACHABLE states: an arbitrary state record may well have an entry without a proxy *)
Example entry_without_proxy_is_not_reachable :
  exists s e, In e (gifts s) /\ ~ (exists b, In b (bprox s) /\ bp_key b = ge_pin e).
Proof.
  exists (upd tinit [] 0 [] [{| ge_key := (0, 1); ge_pin := (0, 1); ge_id := 1; ge_count := 1 |}] 2 [] [] [] [] [] false).
  eexists. split; [left; reflexivity|]. intros (b & H & _). destruct H.
Qed.

(* no leak: once every their-reference has been resolved and acknowledged, the gift table is empty *)
Theorem no_gift_leak ops :
  let s := trun tinit ops in tquiescent s -> gifts s = [].
Proof.
  intros s (Q1 & Q2 & Q3 & Q4). pose proof (TInv_reachable ops) as I. fold s in I.
  destruct (gifts s) as [|e g] eqn:Eg; [reflexivity|]. exfalso.
  pose proof (ti_count s I (ge_id e)) as C. unfold outstanding in C. rewrite Q1, Q2, Q3, Q4, Eg, gcount_cons, Z.eqb_refl in C. cbn in C.
  pose proof (ti_pos s I) as P. rewrite Eg in P. inversion P; subst. lia.
Qed.

(* ------------------------------------------------------------------ *)
(* non-vacuity: two owners whose proxies carry the SAME clid, both given in one call, the giver drops both at once,
   lookups answered in the opposite order; then everything drains *)
Definition two_owner_ops : list top :=
  [TExport 0 10 2 true; TExport 1 20 2 true; TRegister 0 10 (-1); TRegister 1 30 (-1); TGive (0, 2); TGive (1, 2); TGive (0, 2); TAppDrop (0, 2); TAppDrop (1, 2);
   TRecvBC; TRecvBC; TRecvBC; TLookup 1; TLookup 0; TLookup 0; TAnswer 0; TAnswer 0; TAnswer 0].

Example two_owner_events :
  trun_events tinit two_owner_ops = [EvIntro 2 (Some (1, 20)) (1, 20); EvIntro 1 (Some (0, 10)) (0, 10); EvIntro 1 (Some (0, 10)) (0, 10)].
Proof. vm_compute. reflexivity. Qed.

Example two_owner_midway :
  let s := trun tinit [TExport 0 10 2 true; TExport 1 20 2 true; TRegister 0 10 (-1); TRegister 1 30 (-1); TGive (0, 2); TGive (1, 2); TGive (0, 2);
                       TAppDrop (0, 2); TAppDrop (1, 2); TRecvBC] in
  map (fun e => (ge_key e, ge_id e, ge_count e)) (gifts s) = [((1, 2), 2, 1); ((0, 2), 1, 2)] /\
  List.length (bprox s) = 2%nat /\ List.length (ch_bc s) = 2%nat /\ List.length (lookups s) = 1%nat /\
  names s = [((1, -1), 30); ((1, 1), 20); ((0, 0), 10)].
Proof. vm_compute. repeat split. Qed.

Example two_owner_drains :
  let s := trun tinit (two_owner_ops ++ [TRecvCB; TRecvCB; TRecvCB]) in
  tquiescent s /\ gifts s = [] /\ bprox s = [] /\ cprox s = [(0, 10); (1, 20)] /\ gfail s = false.
Proof. vm_compute. repeat split. Qed.

Example two_owner_faithful : faithful_run tinit (two_owner_ops ++ [TRecvCB; TRecvCB; TRecvCB]).
Proof. vm_compute. repeat split. Qed.
