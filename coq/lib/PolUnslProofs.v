(* The hypothesis `closing_violation_propagates` of lib/UnslProofs.v cannot be dropped: an unslicer that absorbs violations
   (reportViolation returns None) AND raises a Violation from its own receiveClose stays on the stack after its CLOSE, so the
   receiver's depth no longer follows the stream.  No unslicer of the package does this (only roots absorb); the witness is
   replayed on the real Banana class with such a third-party unslicer by harness/c07.py (`absorbing_closer_note`). *)
From Coq Require Import ZArith List Bool Lia.
Import ListNotations.
Require Import Verif.lib.PyLite Verif.gen.BananaGen Verif.gen.RecvGen Verif.lib.Token Verif.lib.Recv Verif.lib.BananaRecv Verif.lib.Unsl
               Verif.lib.UnslProofs Verif.lib.PolUnsl.
Local Open Scope Z_scope.

Theorem unsl_depth_refuted_absorbing_closer :
  exists c ts c' es, uat_top pfr c /\ uwfc pfr pol_report c /\ udelta_sum ts = 0 /\ papply_all c ts = UOk pfr c' es /\ ~ uat_top pfr c'.
Proof.
  exists (pctx0 0 []), [(tok_OPEN, 0, []); (tok_STRING, 1, [kY]); (tok_CLOSE, 0, [])].
  eexists. eexists. split; [repeat split|]. split; [apply uctx0_wf; unfold absorbs; cbn; discriminate|].
  split; [reflexivity|]. split; [vm_compute; reflexivity|]. intros (_ & _ & L). cbn in L. discriminate.
Qed.

(* the policy unslicers without kind Y satisfy the hypotheses *)
Lemma pol_child_keeps_absorbing : forall f v es f', pol_child f v = (es, OOk f') -> absorbs pfr pol_report f -> absorbs pfr pol_report f'.
Proof.
  intros f v es f' H A. unfold pol_child in H. destruct (p_kind f =? kR) eqn:R; [inversion H; subst; exact A|].
  destruct (_ && _); [discriminate|]. inversion H; subst. unfold absorbs, pol_report in *. cbn [p_kind]. exact A.
Qed.
