(* lib/BananaRecv.v (policy instance): while a rejected object is being discarded nothing is delivered or reported, and a PING
   is answered by exactly one PONG without any other effect.  (The same for every unslicer semantics: lib/UnslProofs.v.) *)
From Coq Require Import ZArith List Bool Lia.
Import ListNotations.
Require Import Verif.lib.PyLite Verif.gen.BananaGen Verif.lib.Token Verif.lib.Recv Verif.lib.RecvProofs Verif.lib.BananaRecv Verif.lib.BananaRecvProofs.
Local Open Scope Z_scope.

Definition pongs_only (es : list event) : Prop := forall e, In e es -> exists n, e = EPong n.

Lemma pongs_only_app a b : pongs_only a -> pongs_only b -> pongs_only (a ++ b).
Proof. intros A B e H. apply in_app_or in H as [H|H]; auto. Qed.

Lemma banana_discarding_token c ty hdr body c' es : 0 < discard c -> inOpen c = false -> tok_apply c ty hdr body = Ok' c' es ->
  stack c' = stack c /\ inOpen c' = false /\ discard c' = discard c + tok_delta ty /\ vocab c' = vocab c /\ rootmode c' = rootmode c /\ pongs_only es.
Proof.
  intros Hd IO E. unfold tok_apply in E. destruct (has_body ty) eqn:HB.
  - unfold begin_body in E. destruct (Z.ltb_spec 0 (discard c)); [|lia]. inversion E; subst.
    rewrite (has_body_delta ty HB). repeat split; auto; try lia. intros e [].
  - unfold step_nobody_hr in E. rewrite IO, andb_false_r in E.
    destruct (Z.ltb_spec 0 (discard c)); [|lia]. cbn [orb] in E. unfold tok_delta.
    destruct (ty =? tok_OPEN) eqn:EO.
    + cbn [inOpen discard stack with_inOpen with_stack] in E. inversion E; subst.
      cbn [inOpen discard stack vocab rootmode with_inOpen with_stack]. repeat split; auto. intros e [].
    + destruct (ty =? tok_CLOSE).
      { rewrite IO in E. cbn [andb] in E. destruct (Z.ltb_spec 0 (discard c)); [|lia]. inversion E; subst. cbn [inOpen discard stack vocab rootmode with_stack].
        repeat split; auto; try lia. intros e []. }
      assert (same : forall es0, Ok' c es0 = Ok' c' es -> es0 = [] ->
                stack c' = stack c /\ inOpen c' = false /\ discard c' = discard c + 0 /\ vocab c' = vocab c /\ rootmode c' = rootmode c /\ pongs_only es).
      { intros es0 HH ->. inversion HH; subst. repeat split; auto; try lia. intros e []. }
      destruct (ty =? tok_ABORT); [apply (same _ E eq_refl)|].
      destruct (ty =? tok_INT); [apply (same _ E eq_refl)|].
      destruct (ty =? tok_NEG); [apply (same _ E eq_refl)|].
      destruct (ty =? tok_VOCAB). { destruct (vocab_get (vocab c) hdr); [apply (same _ E eq_refl)|discriminate]. }
      destruct (ty =? tok_PING).
      { inversion E; subst. repeat split; auto; try lia. intros e [<-|[]]. eauto. }
      destruct (ty =? tok_PONG); [apply (same _ E eq_refl)|discriminate].
Qed.

Fixpoint keeps_discarding (d : Z) (ts : list (Z * Z * list Z)) : Prop :=
  match ts with [] => True | (ty, _, _) :: r => 0 < d /\ keeps_discarding (d + tok_delta ty) r end.

(* "A schema violation discards exactly the offending top-level object": once the rest of an object is being discarded
   (discardCount > 0), every token up to and including the CLOSE that brings discardCount back to 0 changes nothing but
   discardCount -- no unslicer is touched, nothing is delivered, no further violation is reported; only PINGs are answered *)
Theorem banana_discard_silent ts : forall c c' es, inOpen c = false -> keeps_discarding (discard c) ts -> apply_all c ts = Ok' c' es ->
  stack c' = stack c /\ inOpen c' = false /\ discard c' = discard c + delta_sum ts /\ vocab c' = vocab c /\ rootmode c' = rootmode c /\ pongs_only es.
Proof.
  induction ts as [|[[ty hdr] body] ts IH]; intros c c' es IO S E; cbn [apply_all delta_sum keeps_discarding] in *.
  - inversion E; subst. repeat split; auto; try lia. intros e [].
  - destruct S as (Hd & S). destruct (tok_apply c ty hdr body) as [c1 es1|] eqn:E1; [|discriminate].
    destruct (apply_all c1 ts) as [c2 es2|] eqn:E2; [|discriminate]. inversion E; subst.
    destruct (banana_discarding_token _ _ _ _ _ _ Hd IO E1) as (S1 & I1 & D1 & V1 & M1 & P1).
    rewrite <- D1 in S. destruct (IH _ _ _ I1 S E2) as (S2 & I2 & D2 & V2 & M2 & P2).
    split; [congruence|]. split; [exact I2|]. split; [lia|]. split; [congruence|]. split; [congruence|]. apply pongs_only_app; assumption.
Qed.

(* ... so when the root has absorbed a violation inside an object (only the root is left on the stack), the receiver is at top
   level again exactly at the end of that object, with the root unslicer untouched *)
Corollary banana_rejected_object_ends_at_top ts c c' es :
  stack c = [root_frame] -> inOpen c = false -> keeps_discarding (discard c) ts -> discard c + delta_sum ts = 0 ->
  apply_all c ts = Ok' c' es -> at_top c' /\ pongs_only es /\ vocab c' = vocab c.
Proof.
  intros St IO K Z E. destruct (banana_discard_silent ts c c' es IO K E) as (S & I & D & V & _ & P).
  split; [split; [lia|split; [exact I|congruence]]|auto].
Qed.

(* a PING anywhere is answered by exactly one PONG carrying the same number and changes nothing at all *)
Theorem banana_ping_exact c n : tok_apply c tok_PING n [] = Ok' c [EPong n].
Proof.
  unfold tok_apply. change (has_body tok_PING) with false. cbv iota.
  unfold step_nobody_hr. change (tok_PING =? tok_OPEN) with false. cbn [andb].
  change (tok_PING =? tok_PING) with true. cbn [orb]. rewrite !orb_true_r. cbn [orb].
  change (tok_PING =? tok_CLOSE) with false. change (tok_PING =? tok_ABORT) with false.
  change (tok_PING =? tok_INT) with false. change (tok_PING =? tok_NEG) with false. change (tok_PING =? tok_VOCAB) with false.
  cbv iota. reflexivity.
Qed.
