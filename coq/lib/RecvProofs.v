(* Chunk independence of the generic receive tokenizer of lib/Recv.v:
   feeding c1 then c2 is the same as feeding c1 ++ c2 -- for every handler semantics. *)
From Coq Require Import ZArith List Bool Lia.
Import ListNotations.
Require Import Verif.lib.PyLite Verif.gen.BananaGen Verif.lib.Token Verif.lib.Recv.
Local Open Scope Z_scope.

(* ---------- header scan is monotone in the available bytes ---------- *)

Lemma scan_ok_app l : forall room acc m ds ty r,
  scan_header room acc l = HOk ds ty r -> scan_header room acc (l ++ m) = HOk ds ty (r ++ m).
Proof.
  induction l as [|b l IH]; intros room acc m ds ty r; cbn [scan_header app]; [discriminate|].
  destruct (128 <=? b); [intros H; inversion H; subst; reflexivity|].
  destruct room; [discriminate|]. apply IH.
Qed.

Lemma scan_bad_app l : forall room acc m, scan_header room acc l = HBad -> scan_header room acc (l ++ m) = HBad.
Proof.
  induction l as [|b l IH]; intros room acc m; cbn [scan_header app]; [discriminate|].
  destruct (128 <=? b); [discriminate|]. destruct room; [reflexivity|]. apply IH.
Qed.

Lemma scan_ok_length l : forall room acc ds ty r,
  scan_header room acc l = HOk ds ty r -> (List.length r < List.length l)%nat.
Proof.
  induction l as [|b l IH]; intros room acc ds ty r; cbn [scan_header]; [discriminate|].
  destruct (128 <=? b); [intros H; inversion H; subst; cbn [List.length]; lia|].
  destruct room; [discriminate|]. intros H; apply IH in H; cbn [List.length]; lia.
Qed.

Lemma scan_need_length l : forall room acc, scan_header room acc l = HNeed -> (List.length l <= room)%nat.
Proof.
  induction l as [|b l IH]; intros room acc; cbn [scan_header List.length]; [lia|].
  destruct (128 <=? b); [discriminate|]. destruct room; [discriminate|]. intros H; apply IH in H; lia.
Qed.

Lemma scan_ok_total_length l : forall room acc ds ty r,
  scan_header room acc l = HOk ds ty r -> (List.length l <= room + 1 + List.length r)%nat.
Proof.
  induction l as [|b l IH]; intros room acc ds ty r; cbn [scan_header]; [discriminate|].
  destruct (128 <=? b); [intros H; inversion H; subst; cbn [List.length]; lia|].
  destruct room; [discriminate|]. intros H; apply IH in H; cbn [List.length]; lia.
Qed.

(* ---------- list facts ---------- *)

Lemma lenZ_app {A} (x y : list A) : lenZ (x ++ y) = lenZ x + lenZ y.
Proof. unfold lenZ. rewrite app_length. lia. Qed.

Lemma lenZ_nonneg {A} (x : list A) : 0 <= lenZ x.
Proof. unfold lenZ. lia. Qed.

Lemma firstn_app_enough {A} (x y : list A) n : 0 <= n <= lenZ x -> firstn (Z.to_nat n) (x ++ y) = firstn (Z.to_nat n) x.
Proof.
  unfold lenZ. intros H. rewrite firstn_app.
  replace (Z.to_nat n - List.length x)%nat with 0%nat by lia. cbn. apply app_nil_r.
Qed.

Lemma skipn_app_enough {A} (x y : list A) n : 0 <= n <= lenZ x -> skipn (Z.to_nat n) (x ++ y) = skipn (Z.to_nat n) x ++ y.
Proof.
  unfold lenZ. intros H. rewrite skipn_app.
  replace (Z.to_nat n - List.length x)%nat with 0%nat by lia. reflexivity.
Qed.

Lemma skipn_app_beyond {A} (x y : list A) n : lenZ x <= n ->
  skipn (Z.to_nat n) (x ++ y) = skipn (Z.to_nat (n - lenZ x)) y.
Proof.
  unfold lenZ. intros H. rewrite skipn_app. rewrite skipn_all2 by lia. cbn [app].
  f_equal. lia.
Qed.

Section Proofs.
Variables ctx ev : Type.
Variable begin_body : ctx -> Z -> Z -> bres ctx ev.
Variable finish_body : ctx -> Z -> Z -> list Z -> hres2 ctx ev.
Variable step_nobody : ctx -> Z -> Z -> hres2 ctx ev.
Variables ev_hdr_too_long ev_error_oversize : list ev.
Variable ev_error_token : list Z -> list ev.

Notation tok_step := (tok_step ctx ev begin_body finish_body step_nobody ev_hdr_too_long ev_error_oversize ev_error_token).
Notation loop := (loop ctx ev begin_body finish_body step_nobody ev_hdr_too_long ev_error_oversize ev_error_token).
Notation feed := (feed ctx ev begin_body finish_body step_nobody ev_hdr_too_long ev_error_oversize ev_error_token).
Notation feed_all := (feed_all ctx ev begin_body finish_body step_nobody ev_hdr_too_long ev_error_oversize ev_error_token).
Notation run := (run ctx ev begin_body finish_body step_nobody ev_hdr_too_long ev_error_oversize ev_error_token).

(* header values are non-negative when the digits are (always true for bytes < 128) *)
Definition nonneg_bytes (l : list Z) : Prop := Forall (fun b => 0 <= b) l.

Lemma tok_step_cont_length c b c' es rest : tok_step c b = TCont ctx ev c' es rest -> (List.length rest < List.length b)%nat.
Proof.
  unfold tok_step. destruct (scan_header 64 [] b) as [| |ds ty r] eqn:S; try discriminate.
  pose proof (scan_ok_length _ _ _ _ _ _ S) as L.
  destruct (ty =? tok_ERROR).
  { destruct (SIZE_LIMIT <? le128 ds); [discriminate|]. destruct (lenZ r <? le128 ds); discriminate. }
  destruct (has_body ty).
  - destruct (begin_body c ty (le128 ds)) as [|c1 es1|es1]; [| |discriminate].
    + destruct (lenZ r <? blen ty (le128 ds)); [discriminate|].
      destruct (finish_body c ty (le128 ds) _); [|discriminate].
      intros E; inversion E; subst. rewrite skipn_length. lia.
    + destruct (lenZ r <? blen ty (le128 ds)); [discriminate|].
      intros E; inversion E; subst. rewrite skipn_length. lia.
  - destruct (step_nobody c ty (le128 ds)); [|discriminate]. intros E; inversion E; subst. exact L.
Qed.

(* fuel only has to exceed the buffer length *)
Lemma loop_fuel f1 : forall f2 c b, (List.length b < f1)%nat -> (List.length b < f2)%nat -> loop f1 c b = loop f2 c b.
Proof.
  induction f1 as [|f1 IH]; intros f2 c b H1 H2; [lia|].
  destruct f2 as [|f2]; [lia|]. cbn [Recv.loop].
  destruct b as [|x b]; [reflexivity|].
  destruct (tok_step c (x :: b)) as [|c' es n|c' es rest|es] eqn:T; try reflexivity.
  pose proof (tok_step_cont_length _ _ _ _ _ T) as L.
  rewrite (IH f2 c' rest); [reflexivity| |]; cbn [List.length] in *; lia.
Qed.

(* one token step on a longer buffer *)
Lemma tok_step_app_cont c x y c' es rest :
  tok_step c x = TCont ctx ev c' es rest -> tok_step c (x ++ y) = TCont ctx ev c' es (rest ++ y).
Proof.
  unfold tok_step. destruct (scan_header 64 [] x) as [| |ds ty r] eqn:S; try discriminate.
  rewrite (scan_ok_app _ _ _ y _ _ _ S).
  destruct (ty =? tok_ERROR).
  { destruct (SIZE_LIMIT <? le128 ds); [discriminate|]. destruct (lenZ r <? le128 ds); discriminate. }
  destruct (has_body ty).
  - destruct (begin_body c ty (le128 ds)) as [|c1 es1|es1]; [| |discriminate].
    + destruct (Z.ltb_spec (lenZ r) (blen ty (le128 ds))) as [|Hge]; [discriminate|].
      destruct (Z.ltb_spec (lenZ (r ++ y)) (blen ty (le128 ds))) as [Hlt|_].
      { rewrite lenZ_app in Hlt. pose proof (lenZ_nonneg y). lia. }
      destruct (Z.le_gt_cases 0 (blen ty (le128 ds))) as [Hn|Hneg].
      * rewrite firstn_app_enough by lia.
        destruct (finish_body c ty (le128 ds) _); [|discriminate].
        intros E; inversion E; subst. rewrite skipn_app_enough by lia. reflexivity.
      * replace (Z.to_nat (blen ty (le128 ds))) with 0%nat by lia. cbn [firstn skipn].
        destruct (finish_body c ty (le128 ds) []); [|discriminate]. intros E; inversion E; subst. reflexivity.
    + destruct (Z.ltb_spec (lenZ r) (blen ty (le128 ds))) as [|Hge]; [discriminate|].
      destruct (Z.ltb_spec (lenZ (r ++ y)) (blen ty (le128 ds))) as [Hlt|_].
      { rewrite lenZ_app in Hlt. pose proof (lenZ_nonneg y). lia. }
      intros E; inversion E; subst.
      destruct (Z.le_gt_cases 0 (blen ty (le128 ds))) as [Hn|Hneg].
      * rewrite skipn_app_enough by lia. reflexivity.
      * replace (Z.to_nat (blen ty (le128 ds))) with 0%nat by lia. reflexivity.
  - destruct (step_nobody c ty (le128 ds)); [|discriminate]. intros E; inversion E; subst. reflexivity.
Qed.

Lemma tok_step_app_dead c x y es : tok_step c x = TDead ctx ev es -> tok_step c (x ++ y) = TDead ctx ev es.
Proof.
  unfold tok_step. destruct (scan_header 64 [] x) as [| |ds ty r] eqn:S; try discriminate.
  - rewrite (scan_bad_app _ _ _ y S). auto.
  - rewrite (scan_ok_app _ _ _ y _ _ _ S).
    destruct (ty =? tok_ERROR).
    { destruct (SIZE_LIMIT <? le128 ds); [auto|].
      destruct (Z.ltb_spec (lenZ r) (le128 ds)) as [|Hge]; [discriminate|].
      destruct (Z.ltb_spec (lenZ (r ++ y)) (le128 ds)) as [Hlt|_].
      { rewrite lenZ_app in Hlt. pose proof (lenZ_nonneg y). lia. }
      destruct (Z.le_gt_cases 0 (le128 ds)) as [Hn|Hneg].
      - rewrite firstn_app_enough by lia. auto.
      - replace (Z.to_nat (le128 ds)) with 0%nat by lia. cbn [firstn]. auto. }
    destruct (has_body ty).
    + destruct (begin_body c ty (le128 ds)) as [|c1 es1|es1]; [| |auto].
      * destruct (Z.ltb_spec (lenZ r) (blen ty (le128 ds))) as [|Hge]; [discriminate|].
        destruct (Z.ltb_spec (lenZ (r ++ y)) (blen ty (le128 ds))) as [Hlt|_].
        { rewrite lenZ_app in Hlt. pose proof (lenZ_nonneg y). lia. }
        destruct (Z.le_gt_cases 0 (blen ty (le128 ds))) as [Hn|Hneg].
        -- rewrite firstn_app_enough by lia. destruct (finish_body c ty (le128 ds) _); [discriminate|auto].
        -- replace (Z.to_nat (blen ty (le128 ds))) with 0%nat by lia. cbn [firstn].
           destruct (finish_body c ty (le128 ds) []); [discriminate|auto].
      * destruct (lenZ r <? blen ty (le128 ds)); discriminate.
    + destruct (step_nobody c ty (le128 ds)); [discriminate|auto].
Qed.

(* a rejected, incomplete body: what happens when more bytes are appended *)
Lemma tok_step_app_skip c x y c' es n :
  tok_step c x = TSkip ctx ev c' es n ->
  0 < n /\
  (lenZ y < n -> tok_step c (x ++ y) = TSkip ctx ev c' es (n - lenZ y)) /\
  (n <= lenZ y -> tok_step c (x ++ y) = TCont ctx ev c' es (skipn (Z.to_nat n) y)).
Proof.
  unfold tok_step. destruct (scan_header 64 [] x) as [| |ds ty r] eqn:S; try discriminate.
  rewrite (scan_ok_app _ _ _ y _ _ _ S).
  destruct (ty =? tok_ERROR).
  { destruct (SIZE_LIMIT <? le128 ds); [discriminate|]. destruct (lenZ r <? le128 ds); discriminate. }
  destruct (has_body ty).
  - destruct (begin_body c ty (le128 ds)) as [|c1 es1|es1]; [| |discriminate].
    + destruct (lenZ r <? blen ty (le128 ds)); [discriminate|]. destruct (finish_body c ty (le128 ds) _); discriminate.
    + destruct (Z.ltb_spec (lenZ r) (blen ty (le128 ds))) as [Hlt|]; [|discriminate].
      intros E; inversion E; subst. pose proof (lenZ_nonneg r). split; [lia|]. rewrite lenZ_app. split; intros Hy.
      * destruct (Z.ltb_spec (lenZ r + lenZ y) (blen ty (le128 ds))); [|lia]. f_equal. lia.
      * destruct (Z.ltb_spec (lenZ r + lenZ y) (blen ty (le128 ds))); [lia|]. f_equal.
        rewrite skipn_app_beyond by lia. reflexivity.
  - destruct (step_nobody c ty (le128 ds)); discriminate.
Qed.

(* ---------- the composition lemma ---------- *)

Definition snd_app {A} (p : rstate ctx * list A) (es : list A) := (fst p, es ++ snd p).

Lemma feed_dead s y : r_dead s = true -> feed s y = (s, []).
Proof. intros H. unfold Recv.feed. rewrite H. reflexivity. Qed.

Lemma loop_cons f c b x :
  loop (S f) c (b :: x) =
  match tok_step c (b :: x) with
  | TNeed _ _ => (mk c (b :: x) 0 false, [])
  | TSkip _ _ c' es n => (mk c' [] n false, es)
  | TCont _ _ c' es rest => let '(s, es') := loop f c' rest in (s, es ++ es')
  | TDead _ _ es => (mk c [] 0 true, es)
  end.
Proof. reflexivity. Qed.

Lemma feed_fresh c b y : (* feeding y to the state "buffer b kept, nothing skipped" *)
  feed (mk c b 0 false) y = loop (S (List.length (b ++ y))) c (b ++ y).
Proof. unfold Recv.feed, mk. cbn [r_dead r_skip r_buf r_ctx]. reflexivity. Qed.

Lemma loop_app : forall n x y c f1 f2, (List.length x <= n)%nat ->
  (List.length x < f1)%nat -> (List.length (x ++ y) < f2)%nat ->
  loop f2 c (x ++ y) = let '(s1, e1) := loop f1 c x in let '(s2, e2) := feed s1 y in (s2, e1 ++ e2).
Proof.
  induction n as [|n IH]; intros x y c f1 f2 Hn H1 H2.
  - destruct x; [|cbn in Hn; lia]. destruct f1; [lia|]. cbn [Recv.loop]. rewrite feed_fresh. cbn [app] in *.
    rewrite (loop_fuel f2 (S (List.length y)) c y) by lia.
    destruct (loop (S (List.length y)) c y). reflexivity.
  - destruct x as [|b x]; [apply (IH [] y c f1 f2); cbn in *; lia|].
    destruct f1 as [|f1]; [lia|]. destruct f2 as [|f2]; [lia|].
    rewrite (loop_cons f1 c b x).
    destruct (tok_step c (b :: x)) as [|c' es k|c' es rest|es] eqn:T.
    + (* need more: the buffer is kept and the next feed re-scans it *)
      rewrite feed_fresh.
      rewrite (loop_fuel (S f2) (S (List.length ((b :: x) ++ y))) c ((b :: x) ++ y)) by lia.
      destruct (loop (S (List.length ((b :: x) ++ y))) c ((b :: x) ++ y)). reflexivity.
    + (* rejected body, incomplete in x *)
      destruct (tok_step_app_skip _ _ y _ _ _ T) as (Kpos & Hlt & Hge).
      change ((b :: x) ++ y) with (b :: (x ++ y)). rewrite loop_cons. change (b :: (x ++ y)) with ((b :: x) ++ y).
      unfold Recv.feed, mk. cbn [r_dead r_skip r_buf r_ctx].
      destruct (Z.ltb_spec 0 k) as [_|]; [|lia]. cbn [andb].
      destruct (Z.leb_spec (lenZ y) k) as [Hle|Hgt].
      * destruct (Z.eq_dec (lenZ y) k) as [Heq|Hne].
        -- rewrite (Hge ltac:(lia)). rewrite <- Heq. unfold lenZ. rewrite Nat2Z.id, skipn_all.
           destruct f2; cbn [Recv.loop]; rewrite app_nil_r; unfold mk; f_equal; f_equal; lia.
        -- rewrite (Hlt ltac:(lia)). rewrite app_nil_r. reflexivity.
      * rewrite (Hge ltac:(lia)). cbn [app].
        rewrite (loop_fuel f2 (S (List.length (skipn (Z.to_nat k) y))) c' (skipn (Z.to_nat k) y)).
        -- destruct (loop (S (List.length (skipn (Z.to_nat k) y))) c' (skipn (Z.to_nat k) y)). reflexivity.
        -- rewrite skipn_length. cbn [app List.length] in H2. rewrite app_length in H2. lia.
        -- lia.
    + (* token complete in x: continue with the rest *)
      change ((b :: x) ++ y) with (b :: (x ++ y)). rewrite loop_cons. change (b :: (x ++ y)) with ((b :: x) ++ y).
      rewrite (tok_step_app_cont _ _ y _ _ _ T).
      pose proof (tok_step_cont_length _ _ _ _ _ T) as L. cbn [List.length] in L, Hn, H1, H2.
      rewrite (IH rest y c' f1 f2); [| lia | lia | rewrite app_length in *; cbn [List.length] in H2; lia].
      destruct (loop f1 c' rest) as [s1 e1]. destruct (feed s1 y) as [s2 e2]. rewrite app_assoc. reflexivity.
    + change ((b :: x) ++ y) with (b :: (x ++ y)). rewrite loop_cons. change (b :: (x ++ y)) with ((b :: x) ++ y).
      rewrite (tok_step_app_dead _ _ y _ T). rewrite feed_dead by reflexivity. rewrite app_nil_r. reflexivity.
Qed.

(* states that the loop leaves behind are stable: re-scanning the kept buffer changes nothing *)
Definition stable (s : rstate ctx) : Prop :=
  r_dead s = true \/
  (r_dead s = false /\ 0 < r_skip s /\ r_buf s = []) \/
  (r_dead s = false /\ r_skip s = 0 /\ (r_buf s = [] \/ tok_step (r_ctx s) (r_buf s) = TNeed ctx ev)).

Lemma loop_stable f : forall c b, (List.length b < f)%nat -> stable (fst (loop f c b)).
Proof.
  induction f as [|f IH]; intros c b H; [lia|]. cbn [Recv.loop].
  destruct b as [|x b]; [right; right; cbn; auto|].
  destruct (tok_step c (x :: b)) as [|c' es k|c' es rest|es] eqn:T.
  - right; right. cbn. auto.
  - right; left. cbn. destruct (tok_step_app_skip _ _ [] _ _ _ T) as (Kpos & _). auto.
  - pose proof (tok_step_cont_length _ _ _ _ _ T) as L.
    specialize (IH c' rest ltac:(cbn [List.length] in *; lia)). destruct (loop f c' rest). exact IH.
  - left. reflexivity.
Qed.

Lemma feed_stable s y : stable s -> stable (fst (feed s y)).
Proof.
  intros St. unfold Recv.feed. destruct (r_dead s) eqn:D; [left; exact D|].
  destruct ((0 <? r_skip s) && (lenZ y <=? r_skip s)) eqn:K.
  - apply andb_true_iff in K as [K1 K2]. apply Z.ltb_lt in K1. apply Z.leb_le in K2. cbn [fst].
    destruct St as [St|[(_ & _ & Hb)|(_ & Hs & _)]]; [congruence| |lia].
    destruct (Z.eq_dec (lenZ y) (r_skip s)).
    + right; right. cbn. rewrite Hb. split; [reflexivity|split; [lia|auto]].
    + right; left. cbn. rewrite Hb. split; [reflexivity|split; [lia|reflexivity]].
  - apply loop_stable. lia.
Qed.

(* re-feeding nothing to a stable state changes nothing *)
Lemma feed_nil s : stable s -> feed s [] = (s, []).
Proof.
  intros St. unfold Recv.feed. destruct (r_dead s) eqn:D; [reflexivity|].
  destruct St as [St|[(_ & Hs & Hb)|(_ & Hs & Hb)]]; [congruence| |].
  - destruct (Z.ltb_spec 0 (r_skip s)); [|lia]. cbn [andb lenZ List.length Z.of_nat].
    destruct (Z.leb_spec 0 (r_skip s)); [|lia]. destruct s; cbn in *. subst. unfold mk. f_equal. f_equal; lia.
  - rewrite Hs. cbn [Z.ltb Z.compare andb Z.to_nat skipn]. rewrite app_nil_r.
    destruct s as [c b k d]; cbn in *. subst.
    destruct Hb as [->|Hb]; [reflexivity|]. cbn [Recv.loop]. destruct b; [reflexivity|]. rewrite Hb. reflexivity.
Qed.

Ltac fin := repeat match goal with |- context [let '(_, _) := ?p in _] => destruct p end; reflexivity.

(* THE COMPOSITION THEOREM: two chunks behave like their concatenation *)
Theorem feed_app s x y : stable s ->
  feed s (x ++ y) = let '(s1, e1) := feed s x in let '(s2, e2) := feed s1 y in (s2, e1 ++ e2).
Proof.
  intros St. unfold Recv.feed at 1 2. destruct (r_dead s) eqn:D.
  { rewrite feed_dead by exact D. reflexivity. }
  destruct St as [St|[(_ & Hs & Hb)|(_ & Hs & Hb)]]; [congruence| |].
  - (* skipping *)
    destruct (Z.ltb_spec 0 (r_skip s)) as [_|]; [|lia]. cbn [andb]. rewrite lenZ_app.
    pose proof (lenZ_nonneg x). pose proof (lenZ_nonneg y).
    destruct (Z.leb_spec (lenZ x) (r_skip s)) as [Hx|Hx].
    + (* x entirely skipped *)
      unfold Recv.feed, mk. cbn [r_dead r_skip r_buf r_ctx].
      destruct (Z.leb_spec (lenZ x + lenZ y) (r_skip s)) as [Hxy|Hxy].
      * destruct (Z.ltb_spec 0 (r_skip s - lenZ x)) as [Hp|Hp]; cbn [andb].
        -- destruct (Z.leb_spec (lenZ y) (r_skip s - lenZ x)); [|lia]. unfold mk. f_equal. f_equal. lia.
        -- assert (lenZ y = 0) by lia. assert (y = []) by (destruct y; [reflexivity|unfold lenZ in *; cbn in *; lia]). subst y.
           cbn [skipn Z.to_nat]. replace (Z.to_nat (r_skip s - lenZ x)) with 0%nat by lia. cbn [skipn]. rewrite Hb. cbn [app].
           cbn [Recv.loop]. unfold mk. f_equal. f_equal. lia.
      * destruct (Z.ltb_spec 0 (r_skip s - lenZ x)) as [Hp|Hp]; cbn [andb].
        -- destruct (Z.leb_spec (lenZ y) (r_skip s - lenZ x)); [lia|].
           rewrite Hb. cbn [app]. rewrite skipn_app_beyond by lia. fin.
        -- assert (r_skip s = lenZ x) by lia. rewrite Hb. cbn [app].
           rewrite skipn_app_beyond by lia. replace (r_skip s - lenZ x) with 0 by lia. fin.
    + destruct (Z.leb_spec (lenZ x + lenZ y) (r_skip s)); [lia|].
      rewrite Hb. cbn [app].
      rewrite skipn_app_enough by lia.
      set (x' := skipn (Z.to_nat (r_skip s)) x).
      apply (loop_app (List.length x') x' y (r_ctx s) (S (List.length x')) (S (List.length (x' ++ y)))); lia.
  - rewrite Hs. cbn [Z.ltb Z.compare andb Z.to_nat skipn].
    rewrite app_assoc.
    apply (loop_app (List.length (r_buf s ++ x)) (r_buf s ++ x) y (r_ctx s) _ _); lia.
Qed.

(* any partition into chunks is equivalent to the whole byte string *)
Theorem feed_all_concat cs : forall s, stable s -> feed_all s cs = feed s (concat cs).
Proof.
  induction cs as [|c cs IH]; intros s St; cbn [Recv.feed_all concat].
  - rewrite feed_nil by exact St. reflexivity.
  - rewrite feed_app by exact St. destruct (feed s c) as [s1 e1] eqn:F.
    assert (St1 : stable s1) by (pose proof (feed_stable s c St) as X; rewrite F in X; exact X).
    rewrite (IH s1 St1). reflexivity.
Qed.

Lemma init_stable c : stable (init c).
Proof. right; right. cbn. auto. Qed.

(* C07: the behaviour is a function of the byte sequence alone *)
Theorem chunk_independent c cs cs' : concat cs = concat cs' -> feed_all (init c) cs = feed_all (init c) cs'.
Proof.
  intros E. rewrite !feed_all_concat by apply init_stable. rewrite E. reflexivity.
Qed.

Theorem feed_all_is_run c cs : feed_all (init c) cs = run c (concat cs).
Proof. unfold Recv.run. apply feed_all_concat. apply init_stable. Qed.

(* once abandoned, all further input is ignored *)
Theorem dead_is_final s cs : r_dead s = true -> feed_all s cs = (s, []).
Proof.
  revert s; induction cs as [|c cs IH]; intros s D; cbn [Recv.feed_all]; [reflexivity|].
  rewrite feed_dead by exact D. rewrite IH by exact D. reflexivity.
Qed.


(* ------------------------------------------------------------------ *)
(* C11: what is held in memory                                          *)

(* a rejected body is never buffered: what has arrived is dropped and the rest is skipped *)
Theorem rejected_never_buffered f c b c' es n s' evs :
  tok_step c b = TSkip ctx ev c' es n -> b <> [] -> loop (S f) c b = (s', evs) ->
  r_buf s' = [] /\ r_skip s' = n /\ 0 < n /\ evs = es.
Proof.
  intros T Hb L. destruct b as [|x b]; [congruence|]. rewrite loop_cons, T in L. inversion L; subst.
  destruct (tok_step_app_skip _ _ [] _ _ _ T) as (Kpos & _). cbn. auto.
Qed.

(* skipped bytes are discarded without being looked at or stored *)
Theorem skipping_stores_nothing s chunk : r_dead s = false -> 0 < r_skip s -> lenZ chunk <= r_skip s ->
  feed s chunk = (mk (r_ctx s) (r_buf s) (r_skip s - lenZ chunk) false, []).
Proof.
  intros D K L. unfold Recv.feed. rewrite D.
  destruct (Z.ltb_spec 0 (r_skip s)); [|lia]. destruct (Z.leb_spec (lenZ chunk) (r_skip s)); [|lia]. reflexivity.
Qed.

Section Bound.
Variable B : Z.
Hypothesis B_nonneg : 0 <= B.
(* the schema in force accepts a token with a body only if the announced body fits B *)
Hypothesis accept_bound : forall c ty hdr, has_body ty = true -> begin_body c ty hdr = BAccept -> blen ty hdr <= B.

Lemma need_bound c b : tok_step c b = TNeed ctx ev -> lenZ b < 65 + Z.max B SIZE_LIMIT.
Proof.
  unfold tok_step. destruct (scan_header 64 [] b) as [| |ds ty r] eqn:S; try discriminate.
  - intros _. pose proof (scan_need_length _ _ _ S). unfold lenZ. unfold SIZE_LIMIT. lia.
  - pose proof (scan_ok_total_length _ _ _ _ _ _ S) as L.
    destruct (ty =? tok_ERROR).
    { destruct (SIZE_LIMIT <? le128 ds) eqn:O; [discriminate|]. apply Z.ltb_ge in O.
      destruct (Z.ltb_spec (lenZ r) (le128 ds)) as [Hlt|]; [|discriminate]. intros _. unfold lenZ in *. lia. }
    destruct (has_body ty) eqn:HB.
    + destruct (begin_body c ty (le128 ds)) as [|c1 es1|es1] eqn:BB; [| |discriminate].
      * pose proof (accept_bound _ _ _ HB BB) as AB.
        destruct (Z.ltb_spec (lenZ r) (blen ty (le128 ds))) as [Hlt|]; [|destruct (finish_body c ty (le128 ds) _); discriminate].
        intros _. unfold lenZ in *. lia.
      * destruct (lenZ r <? blen ty (le128 ds)); discriminate.
    + destruct (step_nobody c ty (le128 ds)); discriminate.
Qed.

Definition held_ok (s : rstate ctx) : Prop := lenZ (r_buf s) < 65 + Z.max B SIZE_LIMIT.

Lemma loop_held f : forall c b, (List.length b < f)%nat -> held_ok (fst (loop f c b)).
Proof.
  assert (Z0 : 0 < 65 + Z.max B SIZE_LIMIT) by (unfold SIZE_LIMIT; lia).
  induction f as [|f IH]; intros c b H; [lia|].
  destruct b as [|x b]; [cbn; unfold held_ok; cbn; exact Z0|]. rewrite loop_cons.
  destruct (tok_step c (x :: b)) as [|c' es k|c' es rest|es] eqn:T.
  - unfold held_ok. cbn [fst r_buf mk]. apply (need_bound c). exact T.
  - unfold held_ok. cbn. exact Z0.
  - pose proof (tok_step_cont_length _ _ _ _ _ T) as L.
    specialize (IH c' rest ltac:(cbn [List.length] in *; lia)). destruct (loop f c' rest). exact IH.
  - unfold held_ok. cbn. exact Z0.
Qed.

Lemma feed_held s y : held_ok s -> held_ok (fst (feed s y)).
Proof.
  intros Hh. unfold Recv.feed. destruct (r_dead s); [exact Hh|].
  destruct ((0 <? r_skip s) && (lenZ y <=? r_skip s)); [exact Hh|]. apply loop_held. lia.
Qed.

(* C11: however the stream is chunked and whatever it claims, the bytes held never exceed
   65 (header + type byte) + the largest body the schema accepts (or an ERROR message) *)
Theorem buffer_bounded cs : forall s, held_ok s -> held_ok (fst (feed_all s cs)).
Proof.
  induction cs as [|c cs IH]; intros s Hh; cbn [Recv.feed_all]; [exact Hh|].
  pose proof (feed_held s c Hh) as H1. destruct (feed s c) as [s1 e1]. cbn [fst] in H1.
  specialize (IH s1 H1). destruct (feed_all s1 cs). exact IH.
Qed.
End Bound.

(* C11: the accept/reject decision is taken on the header and type byte alone: at most 65 bytes *)
Definition verdict (c : ctx) (b : list Z) : option (option (bres ctx ev)) :=
  match scan_header 64 [] b with
  | HNeed => None
  | HBad => Some None
  | HOk ds ty _ => Some (Some (begin_body c ty (le128 ds)))
  end.

Lemma scan_header_firstn l : forall room acc,
  scan_header room acc l <> HNeed ->
  match scan_header room acc l, scan_header room acc (firstn (S room) l) with
  | HOk ds ty _, HOk ds' ty' _ => ds = ds' /\ ty = ty'
  | HBad, HBad => True
  | _, _ => False
  end.
Proof.
  induction l as [|b l IH]; intros room acc; cbn [scan_header firstn]; [congruence|].
  destruct (128 <=? b); [intros _; auto|].
  destruct room; [auto|]. intros H. apply (IH room (b :: acc)) in H. exact H.
Qed.

Theorem decided_by_65_bytes c b : verdict c b <> None -> verdict c b = verdict c (firstn 65 b).
Proof.
  unfold verdict. intros H.
  assert (N : scan_header 64 [] b <> HNeed) by (destruct (scan_header 64 [] b); congruence).
  pose proof (scan_header_firstn b 64 [] N) as Sc. change (firstn 65 b) with (firstn (S 64) b).
  destruct (scan_header 64 [] b), (scan_header 64 [] (firstn (S 64) b)); try contradiction; try reflexivity.
  destruct Sc as [-> ->]. reflexivity.
Qed.

(* C11/C07: 65 bytes without a type byte end the connection *)
Theorem header_cap c b m : List.length b = 65%nat -> Forall (fun x => x < 128) b ->
  tok_step c (b ++ m) = TDead ctx ev ev_hdr_too_long.
Proof.
  intros L F. unfold tok_step.
  assert (HS : forall l room acc, Forall (fun x => x < 128) l -> List.length l = S room -> scan_header room acc l = HBad).
  { induction l as [|x l IH]; intros room acc Fl Ll; [discriminate|]. cbn [scan_header].
    inversion Fl; subst. destruct (Z.leb_spec 128 x); [lia|].
    destruct room; [reflexivity|]. apply IH; [assumption|cbn in Ll; lia]. }
  rewrite (scan_bad_app _ _ _ m (HS b 64%nat [] F L)). reflexivity.
Qed.

End Proofs.
