(* C13: theorems about lib/NegWire.v -- one block across the wire (sendBlock, splitter, parseLines composed), out-of-order
   blocks, and the phase machine read from Negotiation.dataReceived. *)
From Coq Require Import ZArith List String Bool Lia Arith.
Import ListNotations.
Require Import Verif.lib.PyLite Verif.gen.NegotiateGen Verif.lib.Negotiate Verif.lib.NegotiateProofs Verif.lib.NegCodec
  Verif.gen.NegCodecGen Verif.lib.NegSplit Verif.lib.NegSplitProofs Verif.lib.NegCodecProofs Verif.lib.NegWire.
Local Open Scope Z_scope.

(* ---- every key the sender stores in a hello / decision block is one the receiving methods look up (both sides read from the
   source; HOW the value is taken apart is the hand-written part of lib/NegWire.v, tied by running the real methods) *)
Theorem keys_written_are_read :
  In hello_key_version_range_written hello_keys_read /\
  In hello_key_vocab_range_written hello_keys_read /\
  In hello_key_tubid_written hello_keys_read /\
  In error_key hello_keys_read /\
  In decision_key_version_written decision_keys_read /\
  In decision_key_vocab_written decision_keys_read /\
  In error_key decision_keys_read.
Proof. repeat split; vm_compute; auto 20. Qed.

(* ---- one block across the wire, composed from sendBlock, the splitter's terminator search and cap, and parseLines:
   any well-formed block whose text fits the header cap arrives as itself, and the bytes sent behind it are left over
   untouched for the next phase *)
Theorem deliver_round_trip d rest :
  d <> [] -> canonical d -> Forall wf_pair d -> (List.length (header_of d) <= cap)%nat ->
  deliver d rest = Ok (d, rest).
Proof.
  intros NE C W L. destruct (block_round_trip d rest NE C W) as (wire & S & F & P1 & P2 & P3).
  unfold deliver, bind. rewrite S, F.
  destruct (Nat.ltb_spec cap (List.length (header_of d))); [lia|]. rewrite P1, P3, P2. reflexivity.
Qed.

Lemma drain_zero (ok : list Z -> bool) f buf : drain ok f buf 0 = (NPass, [], buf).
Proof. destruct f; reflexivity. Qed.

(* the same through the packet-level splitter of lib/NegSplit.v, for EVERY packetisation of the stream: the phase handler
   is given exactly the header of the block, once *)
Theorem deliver_any_chunking (ok : list Z -> bool) d rest (cs : list (list Z)) :
  d <> [] -> canonical d -> Forall wf_pair d -> (List.length (header_of d) <= cap)%nat ->
  List.concat cs = wire_of d ++ rest ->
  nfeed_all ok (NWait [] 1) cs =
    if ok (header_of d) then (NPass, [header_of d], rest) else (NDead, [header_of d], []).
Proof.
  intros NE C W L E. rewrite (nfeed_all_concat ok cs (NWait [] 1) (init_stable 0)). rewrite E.
  destruct (block_round_trip d rest NE C W) as (wire & S & F & P1 & P2 & P3).
  rewrite (send_canonical d C W) in S. inversion S; subst wire.
  cbn [nfeed app]. cbn [drain]. rewrite F.
  destruct (Nat.ltb_spec cap (List.length (header_of d))); [lia|]. rewrite P1, P2.
  destruct (ok (header_of d)); [rewrite drain_zero|]; reflexivity.
Qed.

(* ---- dict facts for concrete keys *)
Lemma dget_dset_same d : forall k v, dget (dset d k v) k = Some v.
Proof.
  induction d as [|[k' v'] r IH]; intros k v; cbn [dset dget]; [rewrite list_eqb_refl; reflexivity|].
  destruct (list_eqb k k') eqn:E; [cbn [dget]; rewrite list_eqb_refl; reflexivity|].
  destruct (bytes_ltb k k'); cbn [dget]; [rewrite list_eqb_refl; reflexivity|]. rewrite E. apply IH.
Qed.

Lemma dget_dset_other d : forall k v k2, list_eqb k2 k = false -> dget (dset d k v) k2 = dget d k2.
Proof.
  induction d as [|[k' v'] r IH]; intros k v k2 N; cbn [dset dget]; [rewrite N; reflexivity|].
  destruct (list_eqb k k') eqn:E.
  - apply list_eqb_eq in E. subst k'. cbn [dget]. rewrite N. reflexivity.
  - destruct (bytes_ltb k k'); cbn [dget]; [rewrite N; reflexivity|].
    destruct (list_eqb k2 k'); [reflexivity|]. apply IH. exact N.
Qed.

Section WireFacts.
Variable hf : Z -> list Z.

(* ---- out-of-order input, by content: a decision block that arrives where a hello is expected (phase ENCRYPTED,
   handleENCRYPTED) is refused with the negotiation error, whatever it decides ... *)
Theorem decision_where_hello_expected me m offer ver dec :
  decide_wire hf m offer ver = Ok dec -> eval_hello_wire me (fst dec) = Exc "NegotiationError".
Proof.
  unfold decide_wire, bind. destruct (parse_pair_lax _) as [p|]; [|discriminate].
  destruct (best_overlap _ _ _ _) as [idx|]; [|discriminate]. intros E; inversion E; subst; cbn [fst].
  unfold eval_hello_wire. first [reflexivity | rewrite !dget_dset_other by reflexivity; reflexivity].
Qed.

(* ... and a hello block that arrives where the decision is expected (phase DECIDING, handleDECIDING: a second hello, or
   the hello of a peer that believes it is not the decider) is refused with the negotiation error *)
Theorem hello_where_decision_expected me e : accept_wire hf me (hello_block e) = Exc "NegotiationError".
Proof. unfold accept_wire, hello_block. rewrite !dget_dset_other by reflexivity. reflexivity. Qed.

(* an error block is understood in both phases, by every receiver that has the accept method of the version stamped on it *)
Theorem error_block_understood me (msg : list Z) :
  let blk := dset (dset [] decision_key_version_written (fmt_d error_block_version)) error_key msg in
  eval_hello_wire me blk = Exc "RemoteNegotiationError" /\
  (ep_accepts me error_block_version = true -> accept_wire hf me blk = Exc "RemoteNegotiationError").
Proof.
  cbv zeta. split.
  - unfold eval_hello_wire. rewrite dget_dset_same. reflexivity.
  - intros A. unfold accept_wire. rewrite dget_dset_other by reflexivity. rewrite dget_dset_same.
    change (fmt_d error_block_version) with [49]. cbn [list_is_nil]. change (py_int [49]) with (@Ok Z 1). unfold bind.
    change error_block_version with 1 in A. rewrite A. cbn [negb]. rewrite dget_dset_same. reflexivity.
Qed.

End WireFacts.

(* every class of this tree has the accept method for the version stamped on error blocks *)
Theorem error_block_version_has_accept_method : In error_block_version class_accept_versions.
Proof. vm_compute. auto. Qed.

(* ------------------------------------------------------------------------------------------------------------ *)
(* the phase machine *)

(* the (receive_phase, send_phase) pairs a live Negotiation object can be in *)
Definition legal (s : nstate) : Prop :=
  In (ns_recv s, ns_send s, ns_switched s, ns_client s)
     [(0, 0, false, false); (0, 1, false, true);
      (1, 1, false, false); (1, 1, false, true); (2, 3, false, false); (2, 3, false, true);
      (1, 3, true, false); (1, 3, true, true); (2, 3, true, false); (2, 3, true, true)]
  \/ ns_dead s = true.

Ltac legal_cases L :=
  cbn [In] in L; repeat (destruct L as [L|L]; [inversion L; subst; clear L|]); try contradiction.

Ltac phases s :=
  destruct s as [r sd cl sw dd rp]; cbn [ns_recv ns_send ns_client ns_switched ns_dead ns_report] in *.

Lemma dead_absorbs s v : ns_dead s = true -> on_block s v = s.
Proof. intros H. unfold on_block. rewrite H. reflexivity. Qed.

Lemma switched_absorbs s v : ns_switched s = true -> on_block s v = s.
Proof. intros H. unfold on_block. rewrite H, orb_true_r. reflexivity. Qed.

Lemma legal_init c : legal (init_state c).
Proof. left. destruct c; cbn; auto 12. Qed.

(* C13, "out-of-order ... input only ever ends that connection attempt": a header block in ANY legal state, whatever the
   handler makes of its content, either
     (a) is not looked at (the object is dead, has switched to Banana, or is ABANDONED), or
     (b) advances along the legal order: no phase goes back, and the receive phase goes forward or the connection switches, or
     (c) ends the attempt: the object is dead, nothing else about it changes except the record of how the refusal is
         reported, which is the report that dataReceived's catch-all makes for the send phase reached. *)
Theorem block_advances_or_ends s v : legal s ->
  let s' := on_block s v in
  s' = s \/
  (ns_dead s' = false /\ ns_recv s <= ns_recv s' /\ ns_send s <= ns_send s' /\ (ns_recv s < ns_recv s' \/ ns_switched s' = true)
   /\ ns_client s' = ns_client s) \/
  (ns_dead s' = true /\ ns_switched s' = ns_switched s /\ ns_recv s' = ns_recv s /\ ns_client s' = ns_client s /\
   ns_send s <= ns_send s' /\ ns_report s' = error_report (ns_send s')).
Proof.
  intros L. cbv zeta. phases s.
  destruct dd; [left; reflexivity|]. destruct sw; [left; reflexivity|].
  destruct L as [L|L]; [|discriminate].
  legal_cases L; destruct v; vm_compute;
    try (left; reflexivity);
    try (right; left; repeat split; try discriminate; auto; fail);
    try (right; right; repeat split; try discriminate; auto; fail).
Qed.

Theorem legal_preserved s v : legal s -> legal (on_block s v).
Proof.
  intros L. phases s. destruct dd; [right; reflexivity|]. destruct sw; [rewrite switched_absorbs by reflexivity; exact L|].
  destruct L as [L|L]; [|discriminate].
  legal_cases L; destruct v; vm_compute; auto 20.
Qed.

Theorem legal_run vs : forall s, legal s -> legal (run_blocks s vs).
Proof. induction vs as [|v vs IH]; intros s L; [exact L|]. cbn [run_blocks fold_left]. apply IH. apply legal_preserved. exact L. Qed.

(* every state reached from a fresh client or server object by any sequence of blocks is legal *)
Theorem legal_run_from_init c vs : legal (run_blocks (init_state c) vs).
Proof. apply legal_run. apply legal_init. Qed.

(* the `assert 0` arm of the dispatch is never taken *)
Theorem dispatch_total_on_legal s : legal s -> ns_dead s = false -> dispatch (ns_recv s) (ns_client s) <> 4.
Proof.
  intros L D. phases s. destruct L as [L|L]; [|cbn [ns_dead] in L; congruence].
  legal_cases L; vm_compute; discriminate.
Qed.

(* once the attempt has ended, nothing that arrives later changes anything, and after connectionLost the object ignores input
   by the translated guard alone *)
Theorem ended_stays_ended s vs : ns_dead s = true -> run_blocks s vs = s.
Proof. intros D. induction vs as [|v vs IH]; [reflexivity|]. cbn [run_blocks fold_left]. rewrite (dead_absorbs s v D). exact IH. Qed.

Theorem abandoned_ignores_input s : ns_switched s = false -> input_ignored (ns_recv (on_lost s)) (ns_client (on_lost s)) = true.
Proof. intros H. unfold on_lost. rewrite H. reflexivity. Qed.

(* every store to receive_phase / send_phase in the class (read from the source) is one the machine knows: the receive phase
   is only ever set to ENCRYPTED, DECIDING or ABANDONED, the send phase to ENCRYPTED, DECIDING or BANANA *)
Theorem phase_stores_known :
  Forall (fun mv => In (snd mv) [ph_ENCRYPTED; ph_DECIDING; ph_ABANDONED]) receive_phase_stores /\
  Forall (fun mv => In (snd mv) [ph_ENCRYPTED; ph_DECIDING; ph_BANANA]) send_phase_stores.
Proof.
  split; rewrite Forall_forall; intros x H; cbn in H;
    repeat (destruct H as [H|H]; [subst; cbn; auto 6|]); contradiction.
Qed.

(* non-vacuity: the four life stories of a compatible pair, and a refusal *)
Example story_client_waits : state_code (run_blocks (init_state true) [VGood; VHelloIWait; VGood]) = [2; 3; 1; 0; 3].
Proof. vm_compute. reflexivity. Qed.
Example story_server_decides : state_code (run_blocks (init_state false) [VGood; VHelloIDecide]) = [1; 3; 1; 0; 3].
Proof. vm_compute. reflexivity. Qed.
Example story_decider_refuses : state_code (run_blocks (init_state false) [VGood; VHelloIRefuse; VGood]) = [1; 2; 0; 1; 1].
Proof. vm_compute. reflexivity. Qed.
Example story_bad_decision : state_code (run_blocks (init_state true) [VGood; VHelloIWait; VBad]) = [2; 3; 0; 1; 2].
Proof. vm_compute. reflexivity. Qed.
