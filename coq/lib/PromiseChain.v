(* C17: a promise that was resolved with a promise ends with the outcome of that promise -- for every program
   (chains of any length follow by transitivity of equality). *)
From Coq Require Import ZArith List Bool Lia Arith.
Import ListNotations.
Require Import Verif.gen.EventualGen Verif.lib.Promise Verif.lib.PromiseProofs.
Local Open Scope Z_scope.

Definition ne (s : ps) (p : nat) : Prop := exists pp, tbl s p = Some pp /\ pstate pp <> SEventual.
Definition lw (s : ps) (q p : nat) : Prop := exists qq, tbl s q = Some qq /\ In (Chain p) (pwatch qq).
Definition lq (s : ps) (q p : nat) : Prop := exists o, In (TCallback q (Chain p) o) (queue s).
Definition res (s : ps) (p : nat) (o : outcome) : Prop := exists pp, tbl s p = Some pp /\ resolved pp o.
Definition nochained (e : list pev) : Prop := forall p q, ~ In (EChained p q) e.

Definition J (s : ps) (log : list pev) : Prop :=
  (forall p q, In (EChained p q) log -> ne s p) /\
  (forall p q, lw s q p \/ lq s q p -> In (EChained p q) log) /\
  (forall p q o, In (EChained p q) log -> res s p o -> res s q o) /\
  (forall p q q', In (EChained p q) log -> In (EChained p q') log -> q = q').

(* a step that resolves nobody, creates no link and moves no promise back to EVENTUAL *)
Definition Frame (s s' : ps) : Prop :=
  (forall p, ne s p -> ne s' p) /\
  (forall q p, lw s' q p \/ lq s' q p -> lw s q p \/ lq s q p) /\
  (forall p o, res s' p o -> res s p o) /\
  (forall p o, res s p o -> res s' p o).

Lemma in_app_nochained p q log e : nochained e -> In (EChained p q) (log ++ e) -> In (EChained p q) log.
Proof. intros N H. apply in_app_or in H as [H|H]; [exact H|]. exfalso. eapply N; eauto. Qed.

Lemma frame_J s s' log e : Frame s s' -> nochained e -> J s log -> J s' (log ++ e).
Proof.
  intros (F1 & F2 & F3 & F4) N (J1 & J3 & J4 & J2). split; [|split; [|split]].
  - intros p q H. apply in_app_nochained in H; [|exact N]. apply F1. eapply J1; eauto.
  - intros p q H. apply in_or_app. left. apply J3. apply F2. exact H.
  - intros p q o H R. apply in_app_nochained in H; [|exact N]. apply F4. eapply J4; [exact H|]. apply F3. exact R.
  - intros p q q' H H'. apply in_app_nochained in H; [|exact N]. apply in_app_nochained in H'; [|exact N]. eapply J2; eauto.
Qed.

Lemma frame_refl s : Frame s s.
Proof. split; [auto|]. split; [auto|]. split; auto. Qed.
Lemma frame_trans s s1 s2 : Frame s s1 -> Frame s1 s2 -> Frame s s2.
Proof.
  intros (A1 & A2 & A3 & A4) (B1 & B2 & B3 & B4). split; [auto|]. split; [auto|]. split; auto.
Qed.

Lemma nochained_nil : nochained [].
Proof. intros p q []. Qed.
Lemma nochained_app a b : nochained a -> nochained b -> nochained (a ++ b).
Proof. intros A B p q H. apply in_app_or in H as [H|H]; [eapply A|eapply B]; eauto. Qed.
Lemma nochained_one e : (forall p q, e <> EChained p q) -> nochained [e].
Proof. intros H p q [E|[]]. eapply H; eauto. Qed.

(* promise q changes, keeping its state class, its resolvedness and its links *)
Lemma frame_setp s q pr0 pr' :
  tbl s q = Some pr0 ->
  (pstate pr0 <> SEventual -> pstate pr' <> SEventual) ->
  (forall x, In (Chain x) (pwatch pr') -> In (Chain x) (pwatch pr0)) ->
  (forall o, resolved pr' o <-> resolved pr0 o) ->
  Frame s (setp s q pr').
Proof.
  intros H Hs Hl Hr. split; [|split; [|split]].
  - intros p (pp & A & B). unfold ne. cbn [setp tbl]. destruct (Nat.eq_dec p q) as [->|Hn].
    + rewrite upd_same. rewrite H in A. injection A as <-. eauto.
    + rewrite upd_other by exact Hn. eauto.
  - intros r p [(qq & A & B)|C]; [|right; exact C]. left. cbn [setp tbl] in A. destruct (Nat.eq_dec r q) as [->|Hn].
    + rewrite upd_same in A. injection A as <-. exists pr0. auto.
    + rewrite upd_other in A by exact Hn. exists qq. auto.
  - intros p o (pp & A & B). cbn [setp tbl] in A. destruct (Nat.eq_dec p q) as [->|Hn].
    + rewrite upd_same in A. injection A as <-. exists pr0. split; [exact H|apply Hr; exact B].
    + rewrite upd_other in A by exact Hn. exists pp. auto.
  - intros p o (pp & A & B). unfold res. cbn [setp tbl]. destruct (Nat.eq_dec p q) as [->|Hn].
    + rewrite upd_same. rewrite H in A. injection A as <-. exists pr'. split; [reflexivity|apply Hr; exact B].
    + rewrite upd_other by exact Hn. eauto.
Qed.

Lemma frame_queue s s' :
  tbl s' = tbl s -> (forall q p o, In (TCallback q (Chain p) o) (queue s') -> In (TCallback q (Chain p) o) (queue s)) ->
  Frame s s'.
Proof.
  intros T Hq. unfold Frame, ne, lw, lq, res. rewrite T. split; [auto|]. split; [|split; auto].
  intros q p [A|(o & B)]; [left; exact A|right; exists o; apply Hq; exact B].
Qed.

Lemma frame_set_def s m d : Frame s (set_def s m d).
Proof. apply frame_queue; [reflexivity|auto]. Qed.

Lemma frame_alloc s : Inv s -> Frame s (fst (alloc s)).
Proof.
  intros [W _].
  assert (Hnone : tbl s (next s) = None).
  { destruct (tbl s (next s)) as [pr|] eqn:E; [|reflexivity]. destruct (W _ _ E) as [Hl _]. lia. }
  split; [|split; [|split]].
  - intros p (pp & A & B). exists pp. split; [|exact B]. cbn [alloc fst tbl]. rewrite upd_other; [exact A|]. congruence.
  - intros q p [(qq & A & B)|C]; [|right; exact C]. left. cbn [alloc fst tbl] in A.
    destruct (Nat.eq_dec q (next s)) as [->|Hn].
    + rewrite upd_same in A. injection A as <-. destruct B.
    + rewrite upd_other in A by exact Hn. exists qq. auto.
  - intros p o (pp & A & B). cbn [alloc fst tbl] in A. destruct (Nat.eq_dec p (next s)) as [->|Hn].
    + rewrite upd_same in A. injection A as <-. destruct B as (C & _). discriminate.
    + rewrite upd_other in A by exact Hn. exists pp. auto.
  - intros p o (pp & A & B). exists pp. split; [|exact B]. cbn [alloc fst tbl]. rewrite upd_other; [exact A|]. congruence.
Qed.

Lemma resolved_iff_keep pr pr' :
  ptarget pr' = ptarget pr -> plive pr' = plive pr -> pstate pr' = pstate pr -> unresolved pr ->
  forall o, resolved pr' o <-> resolved pr o.
Proof.
  intros A B C (U1 & U2 & U3) o. split; intros (R1 & R2 & _).
  - rewrite B in R2. congruence.
  - congruence.
Qed.

Lemma frame_send_op s p m b wr s' e :
  Inv s -> send_op good_pcfg s p m b wr = (s', e) -> Frame s s' /\ nochained e.
Proof.
  intros I. pose proof I as [W Q]. unfold send_op. destruct (tbl s p) as [pr|] eqn:Hp.
  2:{ intros H; injection H as <- <-. split; [apply frame_refl|apply nochained_nil]. }
  destruct (W _ _ Hp) as [Hl Wp].
  assert (GA : forall s1 r, (if wr then let '(s1, r) := alloc s in (s1, Some r) else (s, None)) = (s1, r) ->
                            Frame s s1 /\ tbl s1 p = Some pr).
  { intros s1 r. destruct wr.
    - intros H. injection H as <- <-. split; [apply frame_alloc; exact I|].
      cbn [alloc fst tbl]. rewrite upd_other by lia. exact Hp.
    - intros H. injection H as <- <-. split; [apply frame_refl|exact Hp]. }
  destruct (if wr then let '(s1, r) := alloc s in (s1, Some r) else (s, None)) as [s1 r] eqn:Ea.
  destruct (GA s1 r eq_refl) as [F1 Hp1].
  cbn [good_pcfg pc_queue_on pc_pending_pos put].
  destruct (pending_state (pstate pr)) eqn:Hs.
  - pose proof (wf_unresolved _ Wp Hs) as Hu. pose proof Hu as (_ & U2 & _). rewrite U2.
    intros H; injection H as <- <-. split; [|apply nochained_one; discriminate].
    eapply frame_trans; [exact F1|]. eapply frame_setp; [exact Hp1|auto|auto|].
    apply resolved_iff_keep; auto.
  - intros H; injection H as <- <-. split; [|apply nochained_one; discriminate].
    eapply frame_trans; [exact F1|]. apply frame_queue; [reflexivity|].
    intros q x o H. cbn [enq queue] in H. apply in_app_or in H as [H|[H|[]]]; [exact H|discriminate].
Qed.

Lemma frame_when_op s p w s' e :
  Inv s -> when_op good_pcfg s p w = (s', e) -> Frame s s' /\ nochained e.
Proof.
  intros I. pose proof I as [W0 Q]. unfold when_op. destruct (tbl s p) as [pr|] eqn:Hp.
  2:{ intros H; injection H as <- <-. split; [apply frame_refl|apply nochained_nil]. }
  destruct (W0 _ _ Hp) as [Hl Wp]. cbn [good_pcfg pc_wait_on].
  destruct (pending_state (pstate pr)) eqn:Hs.
  - pose proof (wf_unresolved _ Wp Hs) as Hu. pose proof Hu as (_ & U2 & _). rewrite U2.
    intros H; injection H as <- <-. split; [|apply nochained_one; discriminate].
    eapply frame_setp; [exact Hp|auto| |apply resolved_iff_keep; auto].
    intros x H. cbn [pwatch] in H. apply in_app_or in H as [H|[H|[]]]; [exact H|discriminate].
  - destruct (wf_resolved _ Wp Hs) as (o & T & _). rewrite T. intros H; injection H as <- <-.
    split; [apply frame_refl|]. intros a b [E|[E|[]]]; discriminate.
Qed.

(* _resolve2 (also the refused / crashing entries): J is kept when every promise that p was resolved with already
   has the outcome o *)
Lemma J_resolve2 top s p o s' e log :
  Inv s -> J s log -> (forall q, In (EChained p q) log -> res s q o) ->
  resolve2 good_pcfg top s p o = (s', e) -> J s' (log ++ e) /\ nochained e.
Proof.
  intros I Jx Hq. pose proof I as [W Q]. unfold resolve2. destruct (tbl s p) as [pr|] eqn:Hp.
  2:{ intros H; injection H as <- <-. split; [rewrite app_nil_r; exact Jx|apply nochained_nil]. }
  destruct (W _ _ Hp) as [Hl Wp].
  cbn [good_pcfg pc_break_guard pc_sets_near pc_break_assigns pc_drain_order pc_watch_order].
  match goal with |- (if ?c then _ else _) = _ -> _ => destruct c end.
  { intros H; injection H as <- <-. split; [|apply nochained_one; discriminate].
    apply (frame_J s s); [apply frame_refl|apply nochained_one; discriminate|exact Jx]. }
  destruct (plive pr) eqn:Hlive; cbn [negb].
  - pose proof (wf_live _ Wp Hlive) as Hu.
    intros H; injection H as <- <-. split; [|apply nochained_nil]. rewrite app_nil_r.
    match goal with |- J (enq (setp s p ?x) ?ts) _ => set (pr' := x); set (ts' := ts) end.
    assert (R' : resolved pr' o) by (repeat split).
    destruct Jx as (J1 & J3 & J4 & J2).
    assert (Tp : tbl (enq (setp s p pr') ts') p = Some pr') by (cbn [enq setp tbl]; apply upd_same).
    assert (To : forall r, r <> p -> tbl (enq (setp s p pr') ts') r = tbl s r).
    { intros r Hn. cbn [enq setp tbl]. apply upd_other. exact Hn. }
    assert (Rk : forall r o', res s r o' -> res (enq (setp s p pr') ts') r o').
    { intros r o' (pp & A & B). destruct (Nat.eq_dec r p) as [->|Hn].
      - rewrite Hp in A. injection A as <-. exfalso. eapply unres_not_res; eauto.
      - exists pp. rewrite To by exact Hn. auto. }
    split; [|split; [|split]].
    + intros a b H. destruct (J1 _ _ H) as (pp & A & B). destruct (Nat.eq_dec a p) as [->|Hn].
      * exists pr'. split; [exact Tp|]. cbn [pr' pstate]. destruct o; discriminate.
      * exists pp. rewrite To by exact Hn. auto.
    + intros x q [(qq & A & B)|(o' & C)].
      * destruct (Nat.eq_dec q p) as [->|Hn].
        -- rewrite Tp in A. injection A as <-. destruct B.
        -- rewrite To in A by exact Hn. apply J3. left. exists qq. auto.
      * cbn [enq queue] in C. apply in_app_or in C as [C|C]; [apply J3; right; exists o'; exact C|].
        unfold ts', drain_tasks in C. cbn [ord] in C. apply in_app_or in C as [C|C].
        -- apply in_map_iff in C as (m & E & _). discriminate.
        -- apply in_map_iff in C as (wt & E & Hin). injection E as E1 E2 E3; subst. apply J3. left. exists pr. auto.
    + intros a b o' H (pp & A & B). destruct (Nat.eq_dec a p) as [->|Hn].
      * rewrite Tp in A. injection A as <-. assert (o' = o) by (eapply resolved_fun; eauto). subst o'.
        apply Rk. apply Hq. exact H.
      * rewrite To in A by exact Hn. apply Rk. eapply J4; [exact H|]. exists pp. auto.
    + exact J2.
  - destruct (wf_notlive _ Wp Hlive) as (o' & R).
    assert (Hps : pending_state (pstate pr) = false) by (destruct R as (_ & _ & _ & _ & ->); destruct o'; reflexivity).
    rewrite Hps. intros H; injection H as <- <-. split; [|apply nochained_one; discriminate].
    apply (frame_J s s); [apply frame_refl|apply nochained_one; discriminate|exact Jx].
Qed.

(* the same with one new link q <- p, which is accounted for in the log *)
Lemma J_new_link s q qr p log :
  Inv s -> J s log -> tbl s q = Some qr -> unresolved qr -> In (EChained p q) log ->
  J (setp s q {| pstate := pstate qr; ptarget := ptarget qr; plive := true; ppending := ppending qr;
                 pwatch := pwatch qr ++ [Chain p] |}) log.
Proof.
  intros I (J1 & J3 & J4 & J2) Hq Hu Hin.
  match goal with |- J (setp s q ?x) _ => set (qr' := x) end.
  assert (Tq : tbl (setp s q qr') q = Some qr') by (cbn [setp tbl]; apply upd_same).
  assert (To : forall r, r <> q -> tbl (setp s q qr') r = tbl s r) by (intros r Hn; cbn [setp tbl]; apply upd_other; exact Hn).
  assert (Hr : forall o, resolved qr' o <-> resolved qr o).
  { apply resolved_iff_keep; try reflexivity; [|exact Hu]. destruct Hu as (_ & U2 & _). cbn [qr' plive]. congruence. }
  assert (Rk : forall r o, res (setp s q qr') r o <-> res s r o).
  { intros r o. split; intros (pp & A & B).
    - destruct (Nat.eq_dec r q) as [->|Hn].
      + rewrite Tq in A. injection A as <-. exists qr. split; [exact Hq|apply Hr; exact B].
      + rewrite To in A by exact Hn. exists pp. auto.
    - destruct (Nat.eq_dec r q) as [->|Hn].
      + rewrite Hq in A. injection A as <-. exists qr'. split; [exact Tq|apply Hr; exact B].
      + exists pp. rewrite To by exact Hn. auto. }
  split; [|split; [|split]].
  - intros a b H. destruct (J1 _ _ H) as (pp & A & B). destruct (Nat.eq_dec a q) as [->|Hn].
    + exists qr'. split; [exact Tq|]. rewrite Hq in A. injection A as <-. exact B.
    + exists pp. rewrite To by exact Hn. auto.
  - intros x r [(qq & A & B)|C]; [|apply J3; right; exact C].
    destruct (Nat.eq_dec r q) as [->|Hn].
    + rewrite Tq in A. injection A as <-. cbn [qr' pwatch] in B. apply in_app_or in B as [B|[B|[]]].
      * apply J3. left. exists qr. auto.
      * injection B as <-. exact Hin.
    + rewrite To in A by exact Hn. apply J3. left. exists qq. auto.
  - intros a b o H R. apply Rk. eapply J4; [exact H|]. apply Rk. exact R.
  - exact J2.
Qed.

Lemma J_chain_to top s p q pp s' e log :
  Inv s -> J s log -> In (EChained p q) log -> tbl s p = Some pp -> tbl s q <> None ->
  chain_to good_pcfg top s p q = (s', e) -> J s' (log ++ e) /\ nochained e.
Proof.
  intros I Jx Hin Hp Hq. pose proof I as [W Q]. unfold chain_to. destruct (tbl s q) as [qr|] eqn:Eq; [|contradiction].
  destruct (W _ _ Eq) as [Hl Wq]. cbn [good_pcfg pc_wait_on].
  destruct (pending_state (pstate qr)) eqn:Hqs.
  - pose proof (wf_unresolved _ Wq Hqs) as Hu. pose proof Hu as (_ & U2 & _). rewrite U2.
    intros H; injection H as <- <-. split; [|apply nochained_nil]. rewrite app_nil_r.
    apply J_new_link; assumption.
  - destruct (wf_resolved _ Wq Hqs) as (o & R). pose proof R as (T & _). rewrite T.
    apply J_resolve2; [exact I|exact Jx|].
    intros q' H'. destruct Jx as (_ & _ & _ & J2). rewrite (J2 _ _ _ H' Hin). exists qr. auto.
Qed.

Lemma J_resolve_call top s p x s' e log :
  Inv s -> J s log -> resolve_call good_pcfg top s p x = (s', e) -> J s' (log ++ e).
Proof.
  intros I Jx. pose proof I as [W Q]. unfold resolve_call. destruct (tbl s p) as [pr|] eqn:Hp.
  2:{ intros H; injection H as <- <-. rewrite app_nil_r; exact Jx. }
  destruct (W _ _ Hp) as [Hl Wp]. cbn [good_pcfg pc_resolve_guarded andb].
  destruct (is_eventual (pstate pr)) eqn:He; cbn [negb].
  2:{ intros H; injection H as <- <-. apply (frame_J s s); [apply frame_refl|apply nochained_one; discriminate|exact Jx]. }
  assert (Hse : pstate pr = SEventual) by (destruct (pstate pr); try discriminate; reflexivity).
  assert (Hno : forall q, ~ In (EChained p q) log).
  { intros q H. destruct Jx as (J1 & _). destruct (J1 _ _ H) as (pp & A & B). rewrite Hp in A. injection A as <-. contradiction. }
  destruct x as [v|f|q];
    try (intros H; destruct (J_resolve2 _ _ _ _ _ _ log I Jx (fun q0 Hc => False_ind _ (Hno q0 Hc)) H) as [A _]; exact A).
  destruct (tbl s q) as [qr|] eqn:Hq.
  2:{ intros H; injection H as <- <-. rewrite app_nil_r; exact Jx. }
  assert (Hps : pending_state (pstate pr) = true) by (rewrite Hse; reflexivity).
  pose proof (wf_unresolved _ Wp Hps) as Hu. pose proof Hu as (U1 & U2 & U3).
  match goal with |- (let '(_, _) := chain_to _ _ (setp s p ?x) _ _ in _) = _ -> _ => set (pr1 := x) end.
  assert (G1 : Good s (setp s p pr1) []).
  { eapply setp_good; eauto; left; repeat split; assumption. }
  assert (U1' : unresolved pr1) by (repeat split; assumption).
  assert (F1 : Frame s (setp s p pr1)).
  { apply (frame_setp s p pr pr1 Hp).
    - intros Hx. cbn [pr1 pstate]. discriminate.
    - auto.
    - intros o. split; intros R; exfalso; [apply (unres_not_res pr1 o)|apply (unres_not_res pr o)]; assumption. }
  assert (J1' : J (setp s p pr1) (log ++ [EChained p q])).
  { pose proof (frame_J _ _ log [] F1 nochained_nil Jx) as Jy. rewrite app_nil_r in Jy.
    destruct Jy as (A & B & C & D).
    assert (Tp : tbl (setp s p pr1) p = Some pr1) by (cbn [setp tbl]; apply upd_same).
    split; [|split; [|split]].
    - intros a b H. apply in_app_or in H as [H|[H|[]]]; [eapply A; eauto|]. injection H as <- <-.
      exists pr1. split; [exact Tp|]. cbn [pr1 pstate]. discriminate.
    - intros a b H. apply in_or_app. left. apply B. exact H.
    - intros a b o H R. apply in_app_or in H as [H|[H|[]]]; [eapply C; eauto|]. injection H as <- <-.
      destruct R as (pp & E & R). rewrite Tp in E. injection E as <-. exfalso. eapply unres_not_res; eauto.
    - intros a b b' H H'. apply in_app_or in H as [H|[H|[]]]; apply in_app_or in H' as [H'|[H'|[]]].
      + eapply D; eauto.
      + injection H' as <- <-. exfalso. eapply Hno; eauto.
      + injection H as <- <-. exfalso. eapply Hno; eauto.
      + injection H as <- <-. injection H' as <-. reflexivity. }
  destruct (chain_to good_pcfg top (setp s p pr1) p q) as [s2 e2] eqn:Ec.
  intros H; injection H as <- <-.
  eapply J_chain_to in Ec; [| eapply good_inv; exact G1 | exact J1' | apply in_or_app; right; left; reflexivity
                            | cbn [setp tbl]; apply upd_same |].
  - destruct Ec as [A _]. change (EChained p q :: e2) with ([EChained p q] ++ e2). rewrite app_assoc. exact A.
  - cbn [setp tbl]. unfold upd. destruct (Nat.eqb q p); [discriminate|]. rewrite Hq. discriminate.
Qed.

Lemma J_resolver s r x s' e log : Inv s -> J s log -> resolver good_pcfg s r x = (s', e) -> J s' (log ++ e).
Proof.
  intros I Jx. unfold resolver. destruct r; [apply J_resolve_call; assumption|].
  intros H; injection H as <- <-. rewrite app_nil_r. exact Jx.
Qed.

Lemma J_resolver_opt s r x s' e log : Inv s -> J s log -> resolver_opt good_pcfg s r x = (s', e) -> J s' (log ++ e).
Proof.
  intros I Jx. unfold resolver_opt. destruct x; [apply J_resolver; assumption|].
  intros H; injection H as <- <-. rewrite app_nil_r. exact Jx.
Qed.

Lemma J_meth_send s m s0 e0 log : Inv s -> J s log -> meth_send good_pcfg s m = (s0, e0) -> J s0 (log ++ e0).
Proof.
  intros I Jx. unfold meth_send.
  destruct (mbeh m); try (intros H; injection H as <- <-; rewrite app_nil_r; exact Jx).
  intros H. apply frame_send_op in H as [F N]; [|exact I]. eapply frame_J; eauto.
Qed.

Lemma J_meth_result nx s0 m s1 x log : J s0 log -> meth_result nx s0 m = (s1, x) -> J s1 log.
Proof.
  intros Jx. unfold meth_result. destruct (mbeh m); try (intros H; injection H as <- _; exact Jx).
  destruct (dget (defs s0) (mid m)) as [[r|x0|]|]; intros H; injection H as <- _; try exact Jx;
    rewrite <- (app_nil_r log); (eapply frame_J; [apply frame_set_def|apply nochained_nil|exact Jx]).
Qed.

Lemma J_run_one s s' e log : Inv s -> J s log -> run_one good_pcfg s = (s', e) -> J s' (log ++ e).
Proof.
  intros I Jx. pose proof I as [W Q]. unfold run_one. destruct (queue s) as [|t q'] eqn:Eq.
  { intros H; injection H as <- <-. rewrite app_nil_r. exact Jx. }
  set (s0 := {| tbl := tbl s; next := next s; queue := q'; defs := defs s |}).
  assert (I0 : Inv s0) by (split; [exact W|]; inversion Q; assumption).
  assert (T0 : task_ok s0 t) by (inversion Q; assumption).
  assert (F0 : Frame s s0).
  { apply frame_queue; [reflexivity|]. intros q p o H. rewrite Eq. right. exact H. }
  assert (J0 : J s0 log).
  { rewrite <- (app_nil_r log). eapply frame_J; [exact F0|apply nochained_nil|exact Jx]. }
  destruct t as [p m|p [w|p'] o]; cbn [run_task].
  - destruct T0 as (pr & o & Hp & R). rewrite Hp. pose proof R as (T & _). rewrite T.
    destruct o as [v|f].
    + destruct (meth_send good_pcfg s0 m) as [s1 e1] eqn:E1.
      destruct (meth_result (next s0) s1 m) as [s2 x] eqn:E2.
      destruct (resolver_opt good_pcfg s2 (mres m) x) as [s3 e3] eqn:E3.
      intros H; injection H as <- <-.
      assert (J0' : J s0 (log ++ [dev p m (Val v)])).
      { eapply frame_J; [apply frame_refl|apply nochained_one; intros a b; apply dev_not_chained|exact J0]. }
      pose proof (meth_send_good _ _ _ _ I0 E1) as G1. eapply J_meth_send in E1; [|exact I0|exact J0'].
      pose proof (meth_result_good _ _ _ _ _ (good_inv _ _ _ G1) E2) as G2. eapply J_meth_result in E2; [|exact E1].
      eapply J_resolver_opt in E3; [|eapply good_inv; exact G2|exact E2].
      change (dev p m (Val v) :: e1 ++ e3) with ([dev p m (Val v)] ++ (e1 ++ e3)).
      rewrite !app_assoc. rewrite <- !app_assoc in E3. rewrite <- !app_assoc. exact E3.
    + destruct (resolver good_pcfg s0 (mres m) (RFail f)) as [s1 e1] eqn:E1.
      intros H; injection H as <- <-.
      assert (J0' : J s0 (log ++ [EDelivered p (mid m) (Fail f)])).
      { eapply frame_J; [apply frame_refl|apply nochained_one; discriminate|exact J0]. }
      eapply J_resolver in E1; [|exact I0|exact J0'].
      change (EDelivered p (mid m) (Fail f) :: e1) with ([EDelivered p (mid m) (Fail f)] ++ e1).
      rewrite app_assoc. exact E1.
  - intros H; injection H as <- <-. eapply frame_J; [apply frame_refl|apply nochained_one; discriminate|exact J0].
  - (* a chain link fires: the log says p' was resolved with p, and only with p; p is resolved with o *)
    intros H. eapply J_resolve2 in H; [apply H|exact I0|exact J0|].
    intros q Hc. destruct Jx as (_ & J3 & _ & J2).
    assert (Hin : In (EChained p' p) log).
    { apply J3. right. exists o. rewrite Eq. left. reflexivity. }
    rewrite (J2 _ _ _ Hc Hin). destruct T0 as (pr & A & B). exists pr. auto.
Qed.

Lemma J_run_n n : forall s s' e log, Inv s -> J s log -> run_n good_pcfg n s = (s', e) -> J s' (log ++ e).
Proof.
  induction n as [|n IH]; intros s s' e log I Jx; cbn [run_n].
  - intros H; injection H as <- <-. rewrite app_nil_r. exact Jx.
  - destruct (run_one good_pcfg s) as [s1 t1] eqn:E1. destruct (run_n good_pcfg n s1) as [s2 t2] eqn:E2.
    intros H; injection H as <- <-. pose proof (run_one_good _ _ _ I E1) as G1.
    eapply J_run_one in E1; [|exact I|exact Jx]. eapply IH in E2; [|eapply good_inv; exact G1|exact E1].
    rewrite app_assoc. exact E2.
Qed.

Lemma J_fire_def s m x s' e log : Inv s -> J s log -> fire_def good_pcfg s m x = (s', e) -> J s' (log ++ e).
Proof.
  intros I Jx. unfold fire_def.
  match goal with |- (if ?c then _ else _) = _ -> _ => destruct c end.
  { intros H; injection H as <- <-. rewrite app_nil_r. exact Jx. }
  assert (Jd : forall d, J (set_def s m d) log).
  { intros d. rewrite <- (app_nil_r log). eapply frame_J; [apply frame_set_def|apply nochained_nil|exact Jx]. }
  destruct (dget (defs s) m) as [[r|x0|]|].
  - apply J_resolver; [eapply good_inv; apply set_def_good; exact I|apply Jd].
  - intros H; injection H as <- <-. rewrite app_nil_r. exact Jx.
  - intros H; injection H as <- <-. rewrite app_nil_r. exact Jx.
  - intros H; injection H as <- <-. rewrite app_nil_r. apply Jd.
Qed.

Lemma J_pstep s o s' e log : Inv s -> J s log -> pstep good_pcfg s o = (s', e) -> J s' (log ++ e).
Proof.
  intros I Jx. destruct o as [|p m b|p m b|p w|p x|m x|]; cbn [pstep].
  - intros H; injection H as <- <-. eapply frame_J; [apply frame_alloc; exact I|apply nochained_nil|exact Jx].
  - intros H. apply frame_send_op in H as [F N]; [|exact I]. eapply frame_J; eauto.
  - intros H. apply frame_send_op in H as [F N]; [|exact I]. eapply frame_J; eauto.
  - intros H. apply frame_when_op in H as [F N]; [|exact I]. eapply frame_J; eauto.
  - destruct x as [v|f|q]; try (apply J_resolve_call; assumption).
    destruct (Nat.ltb q (next s)); [apply J_resolve_call; assumption|].
    intros H; injection H as <- <-. rewrite app_nil_r. exact Jx.
  - apply J_fire_def; assumption.
  - apply J_run_n; assumption.
Qed.

Lemma J_prun ops : forall s s' e log, Inv s -> J s log -> prun good_pcfg s ops = (s', e) -> J s' (log ++ e).
Proof.
  induction ops as [|o ops IH]; intros s s' e log I Jx; cbn [prun].
  - intros H; injection H as <- <-. rewrite app_nil_r. exact Jx.
  - destruct (pstep good_pcfg s o) as [s1 t1] eqn:E1. destruct (prun good_pcfg s1 ops) as [s2 t2] eqn:E2.
    intros H; injection H as <- <-. pose proof (pstep_good _ _ _ _ I E1) as G1.
    eapply J_pstep in E1; [|exact I|exact Jx]. eapply IH in E2; [|eapply good_inv; exact G1|exact E1].
    rewrite app_assoc. exact E2.
Qed.

Lemma J_ps0 : J ps0 [].
Proof.
  split; [intros p q []|]. split; [|split; [intros p q o []|intros p q q' []]].
  intros p q [(qq & A & _)|(o & [])]. discriminate.
Qed.

(* "... including chains of promises resolved to promises": for every program, a promise p that was (acceptedly)
   resolved with the promise q -- directly, through a method that returned q, or through a Deferred that fired with
   q -- and that is now NEAR / BROKEN has exactly the outcome of q, which is NEAR / BROKEN too; and p is never
   resolved with two different promises.  (Chains of any length: apply it link by link.) *)
Theorem pr_chained_same_outcome : forall ops s t p q pp o,
  prun src_pcfg ps0 ops = (s, t) -> In (EChained p q) t ->
  tbl s p = Some pp -> ptarget pp = Some o -> (pstate pp = SNear \/ pstate pp = SBroken) ->
  (exists qq, tbl s q = Some qq /\ ptarget qq = Some o /\
              pstate qq = match o with Val _ => SNear | Fail _ => SBroken end) /\
  pstate pp = match o with Val _ => SNear | Fail _ => SBroken end /\
  forall q', In (EChained p q') t -> q' = q.
Proof.
  rewrite src_is_good. intros ops s t p q pp o H Hin Hp Ht Hs.
  pose proof (prun_good _ _ _ _ inv_ps0 H) as ([W _] & _ & _).
  apply (J_prun ops ps0 s t [] inv_ps0 J_ps0) in H. cbn [app] in H. destruct H as (_ & _ & J4 & J2).
  destruct (W _ _ Hp) as [_ Wp].
  assert (Hps : pending_state (pstate pp) = false) by (destruct Hs as [-> | ->]; reflexivity).
  destruct (wf_resolved _ Wp Hps) as (o' & R). assert (o' = o) by (destruct R as (A & _); congruence). subst o'.
  destruct (J4 p q o Hin) as (qq & A & B); [exists pp; auto|].
  split; [exists qq; destruct B as (B1 & _ & _ & _ & B5); auto|].
  split; [destruct R as (_ & _ & _ & _ & R5); exact R5|].
  intros q' H'. eapply J2; eauto.
Qed.

(* non-vacuity: a chain of two hops built back to front and through a method result *)
Example pr_chained_example :
  let ops := [PNew; PNew; PNew; PResolve 1 (RProm 2); PResolve 0 (RProm 1); PSend 0 1 (BRetP 0);
              PResolve 2 (RVal 9); PTurn; PTurn; PTurn; PTurn] in
  let '(s, t) := prun src_pcfg ps0 ops in
  (filter (fun e => match e with EChained _ _ => true | _ => false end) t,
   map (fun i => match tbl s i with Some pr => ptarget pr | None => None end) [0; 1; 2; 3]%nat)
  = ([EChained 1 2; EChained 0 1; EChained 3 0], [Some (Val 9); Some (Val 9); Some (Val 9); Some (Val 9)]).
Proof. vm_compute. reflexivity. Qed.
