(* C06: proofs about lib/Reach.v *)
From Coq Require Import ZArith List String Bool Lia Ascii NArith.
Import ListNotations.
Require Import Verif.lib.PyLite Verif.gen.ReachGen Verif.lib.Reach.
Local Open Scope Z_scope.

(* ------------------------------------------------------------------ facts read off the translated source *)
Lemma swissnum_bits : 128 <= NAMEBITS /\ swissnum_source = OsEntropy.
Proof. split; [unfold NAMEBITS; lia | reflexivity]. Qed.

Lemma remote_prefix_is : remote_prefix = "remote_"%string.
Proof. reflexivity. Qed.

Lemma broker_clid_is : broker_clid = 0.
Proof. reflexivity. Qed.

Lemma broker_methods_pinned :
  broker_methods = ["getReferenceByName"; "decref"; "decgift"]%string /\
  broker_remote_attrs = map (fun m => remote_prefix ++ m)%string ["decref"; "decgift"; "getReferenceByName"]%string.
Proof. split; reflexivity. Qed.

Lemma top_types_pinned : top_types = [["answer"]; ["call"]; ["error"]]%string.
Proof. reflexivity. Qed.

(* every OPEN type accepted below the top level builds plain data or one of the four reference forms *)
Definition data_types : list (list string) :=
  [["arguments"]; ["boolean"]; ["decimal"]; ["dict"]; ["immutable-set"]; ["list"]; ["my-reference"]; ["none"];
   ["reference"]; ["set"]; ["their-reference"]; ["tuple"]; ["unicode"]; ["your-reference"]]%string.
Lemma open_types_closed : forallb (fun k => mem_type k data_types) open_types = true.
Proof. reflexivity. Qed.
Lemma no_code_types :
  forallb (fun t => negb (mem_type [t] open_types))
          ["instance"; "class"; "module"; "function"; "method"; "call"; "answer"; "error"; "copyable"]%string = true.
Proof. reflexivity. Qed.

(* ------------------------------------------------------------------ association lists *)
Lemma zget_In {V} k (v : V) l : zget k l = Some v -> In (k, v) l.
Proof.
  induction l as [|[k' v'] l IH]; cbn [zget]; [discriminate|].
  destruct (k =? k') eqn:E; intros H.
  - apply Z.eqb_eq in E. inversion H; subst. left; reflexivity.
  - right; auto.
Qed.

Lemma In_zdel {V} k (x : Z * V) l : In x (zdel k l) -> In x l.
Proof.
  induction l as [|[k' v'] l IH]; cbn [zdel]; [tauto|].
  destruct (k =? k'); cbn [In]; intros H; [right; auto | destruct H; [left; auto | right; auto]].
Qed.

Lemma In_zset {V} k (v : V) x l : In x (zset k v l) -> x = (k, v) \/ In x l.
Proof. unfold zset. cbn [In]. intros [H|H]; [left; auto | right; eapply In_zdel; eauto]. Qed.

Lemma sget_In {V} k (v : V) l : sget k l = Some v -> In (k, v) l.
Proof.
  induction l as [|[k' v'] l IH]; cbn [sget]; [discriminate|].
  destruct (String.eqb k k') eqn:E; intros H.
  - apply String.eqb_eq in E. inversion H; subst. left; reflexivity.
  - right; auto.
Qed.

Lemma In_sdel {V} k (x : string * V) l : In x (sdel k l) -> In x l.
Proof.
  induction l as [|[k' v'] l IH]; cbn [sdel]; [tauto|].
  destruct (String.eqb k k'); cbn [In]; intros H; [right; auto | destruct H; [left; auto | right; auto]].
Qed.

Lemma In_sset {V} k (v : V) x l : In x (sset k v l) -> x = (k, v) \/ In x l.
Proof. unfold sset. cbn [In]. intros [H|H]; [left; auto | right; eapply In_sdel; eauto]. Qed.

Lemma mem_str_In s l : mem_str s l = true <-> In s l.
Proof.
  unfold mem_str. rewrite existsb_exists. split.
  - intros [x [H1 H2]]. apply String.eqb_eq in H2. subst; auto.
  - intros H. exists s. split; auto. apply String.eqb_refl.
Qed.

Lemma find_obj_In o l k rc : find_obj o l = Some (k, rc) -> In (k, (o, rc)) l.
Proof.
  induction l as [|[k' [o' rc']] l IH]; cbn [find_obj]; [discriminate|].
  destruct (o =? o') eqn:E; intros H.
  - apply Z.eqb_eq in E. inversion H; subst. left; reflexivity.
  - right; auto.
Qed.

Lemma prefix_app p s : String.prefix p (p ++ s) = true.
Proof.
  induction p as [|a p IH]; cbn.
  - destruct s; reflexivity.
  - destruct (ascii_dec a a); [exact IH | congruence].
Qed.

(* the translated ReferenceableTracker.decref *)
Lemma tracker_decref_spec n rc done rc' :
  tracker_decref n rc = Ok (done, rc') -> rc' = rc - n /\ 0 <= rc' /\ (done = true <-> rc' = 0).
Proof.
  unfold tracker_decref. destruct (Z.geb rc n) eqn:G; [|discriminate].
  rewrite Z.geb_leb in G. apply Z.leb_le in G.
  destruct (Z.eqb (rc - n) 0) eqn:E; intros H; inversion H; subst.
  - apply Z.eqb_eq in E. repeat split; try lia; auto.
  - apply Z.eqb_neq in E. repeat split; try lia; intros; try discriminate; lia.
Qed.

(* ------------------------------------------------------------------ argument processing *)
Lemma do_args_inst copy ex args : forall inst0 inst,
  (do_args copy ex args inst0 = ArgsOk inst \/ exists r, do_args copy ex args inst0 = ArgsFail inst r) ->
  forall cls, In cls inst -> In cls inst0 \/ exists n, In (ACopyable n) args /\ sget n copy = Some cls.
Proof.
  induction args as [|a args IH]; intros inst0 inst H cls Hin.
  - cbn [do_args] in H. destruct H as [H|[r H]]; [inversion H; subst; auto | discriminate].
  - cbn [do_args] in H. destruct a as [v|s|k|n|t].
    + destruct (IH _ _ H cls Hin) as [?|[n [? ?]]]; [auto | right; exists n; split; [right; auto | auto]].
    + destruct (IH _ _ H cls Hin) as [?|[n [? ?]]]; [auto | right; exists n; split; [right; auto | auto]].
    + destruct ((k <? 0) && negb yourref_accepts_neg).
      { destruct H as [H|[r H]]; [discriminate | inversion H; subst; auto]. }
      destruct ((k =? broker_clid) || is_some (zget k ex)).
      * destruct (IH _ _ H cls Hin) as [?|[n [? ?]]]; [auto | right; exists n; split; [right; auto | auto]].
      * destruct clid_lookup; destruct H as [H|[r H]]; try discriminate; inversion H; subst; auto.
    + destruct (sget n copy) as [c|] eqn:E.
      * destruct (IH _ _ H cls Hin) as [Hc|[n' [? ?]]].
        -- apply in_app_or in Hc. destruct Hc as [?|[?|[]]]; [auto|]. subst.
           right; exists n; split; [left; auto | auto].
        -- right; exists n'; split; [right; auto | auto].
      * destruct H as [H|[r H]]; [discriminate | inversion H; subst; auto].
    + destruct (mem_type [t] open_types).
      * destruct (IH _ _ H cls Hin) as [?|[n [? ?]]]; [auto | right; exists n; split; [right; auto | auto]].
      * destruct H as [H|[r H]]; [discriminate | inversion H; subst; auto].
Qed.

(* a call whose arguments were all accepted used only open types of the closed registry, only registered copyable
   names and only your-references this connection's table (or 0) resolves *)
Lemma do_args_ok copy ex args : forall inst0 inst, do_args copy ex args inst0 = ArgsOk inst ->
  (forall t, In (AOpen t) args -> mem_type [t] open_types = true) /\
  (forall n, In (ACopyable n) args -> exists c, sget n copy = Some c) /\
  (forall k, In (AYourRef k) args -> k = broker_clid \/ exists v, zget k ex = Some v).
Proof.
  induction args as [|a args IH]; intros inst0 inst H.
  - split; [|split]; intros ? [].
  - cbn [do_args] in H. destruct a as [v|s|k|n|t].
    + destruct (IH _ _ H) as [A [B C]]. split; [|split]; intros x [Hx|Hx]; try discriminate; auto.
    + destruct (IH _ _ H) as [A [B C]]. split; [|split]; intros x [Hx|Hx]; try discriminate; auto.
    + destruct ((k <? 0) && negb yourref_accepts_neg); [discriminate|].
      destruct ((k =? broker_clid) || is_some (zget k ex)) eqn:E; [|destruct clid_lookup; discriminate].
      destruct (IH _ _ H) as [A [B C]]. split; [|split]; intros x [Hx|Hx]; try discriminate; auto.
      inversion Hx; subst. apply orb_true_iff in E. destruct E as [E|E].
      * left. apply Z.eqb_eq; auto.
      * right. destruct (zget x ex) as [v|]; [exists v; auto | discriminate].
    + destruct (sget n copy) as [c|] eqn:E; [|discriminate].
      destruct (IH _ _ H) as [A [B C]]. split; [|split]; intros x [Hx|Hx]; try discriminate; auto.
      inversion Hx; subst. exists c; auto.
    + destruct (mem_type [t] open_types) eqn:E; [|discriminate].
      destruct (IH _ _ H) as [A [B C]]. split; [|split]; intros x [Hx|Hx]; try discriminate; auto.
      inversion Hx; subst. auto.
Qed.

(* ------------------------------------------------------------------ dispatch *)
Lemma broker_call_enter m args e fx :
  broker_call m args = (Enter e, fx) ->
  exists s, m = MStr s /\ In s broker_methods /\ e = EBroker (remote_prefix ++ s) /\
            In (remote_prefix ++ s)%string broker_remote_attrs.
Proof.
  unfold broker_call. destruct m as [s|]; [|discriminate].
  destruct (iface_enforced && negb (mem_str s broker_methods)) eqn:E1; [discriminate|].
  destruct (negb (mem_str (remote_prefix ++ s) broker_remote_attrs)) eqn:E2; [discriminate|].
  apply negb_false_iff in E2. apply mem_str_In in E2.
  assert (Hin : In s broker_methods).
  { unfold iface_enforced in E1. cbn [andb] in E1. apply negb_false_iff in E1. apply mem_str_In; auto. }
  intros H. exists s. split; [reflexivity|]. split; [exact Hin|]. split; [|exact E2].
  destruct (String.eqb s "getReferenceByName").
  { destruct args as [|[v|b|k|n|t] [|? ?]]; try discriminate. inversion H; reflexivity. }
  destruct (String.eqb s "decref").
  { destruct args as [|[v|b|k|n|t] [|[v2|b2|k2|n2|t2] [|? ?]]]; try discriminate. inversion H; reflexivity. }
  destruct (String.eqb s "decgift").
  { destruct args as [|[v|b|k|n|t] [|[v2|b2|k2|n2|t2] [|? ?]]]; try discriminate. inversion H; reflexivity. }
  discriminate.
Qed.

Lemma broker_call_fx m args out fx :
  broker_call m args = (out, fx) ->
  (out = Reject -> fx = FxNone) /\ (out = Aborted <-> fx = FxDrop) /\ out <> Dead /\ out <> Local.
Proof.
  unfold broker_call. destruct m as [s|].
  2:{ intros H; inversion H; subst. repeat split; auto; discriminate. }
  destruct (iface_enforced && negb (mem_str s broker_methods)).
  { intros H; inversion H; subst. repeat split; auto; discriminate. }
  destruct (negb (mem_str (remote_prefix ++ s) broker_remote_attrs)).
  { intros H; inversion H; subst. repeat split; auto; discriminate. }
  destruct (String.eqb s "getReferenceByName").
  { destruct args as [|[v|[nm|]|k|n|t] [|? ?]]; intros H; inversion H; subst; repeat split; auto; discriminate. }
  destruct (String.eqb s "decref").
  { destruct args as [|[v|b|k|n|t] [|[v2|b2|k2|n2|t2] [|? ?]]]; intros H; inversion H; subst; repeat split; auto; discriminate. }
  destruct (String.eqb s "decgift").
  { destruct args as [|[v|b|k|n|t] [|[v2|b2|k2|n2|t2] [|? ?]]]; intros H; inversion H; subst; repeat split; auto; discriminate. }
  intros H; inversion H; subst. repeat split; auto; discriminate.
Qed.

Lemma obj_call_enter w copy cn clid m args inst e :
  obj_call w copy cn clid m args = (inst, Enter e) ->
  exists o rc, zget clid (c_exports cn) = Some (o, rc) /\
  ((clid < 0 /\ e = ECallable o) \/
   (0 <= clid /\ exists s, m = MStr s /\ e = EObj o (remote_prefix ++ s) /\
      In (remote_prefix ++ s)%string (o_attrs (w_obj w o)) /\
      (forall l, o_iface (w_obj w o) = Some l -> In s l))) /\
  do_args copy (c_exports cn) args [] = ArgsOk inst.
Proof.
  unfold obj_call. destruct (zget clid (c_exports cn)) as [[o rc]|] eqn:G.
  2:{ destruct clid_lookup; [destruct call_unknown_clid|]; discriminate. }
  intros H. exists o, rc. split; [reflexivity|].
  unfold negative_clid_ignores_name in H. rewrite andb_true_r in H.
  destruct (clid <? 0) eqn:S.
  - apply Z.ltb_lt in S. destruct (do_args copy (c_exports cn) args []) as [i|i r] eqn:D.
    + inversion H; subst. split; [left; auto | reflexivity].
    + destruct r; discriminate.
  - apply Z.ltb_ge in S. destruct m as [s|]; [|discriminate].
    unfold iface_enforced in H. cbn [andb] in H.
    destruct (match o_iface (w_obj w o) with Some l => negb (mem_str s l) | None => false end) eqn:I; [discriminate|].
    destruct (do_args copy (c_exports cn) args []) as [i|i r] eqn:D; [|destruct r; discriminate].
    destruct (mem_str (remote_prefix ++ s) (o_attrs (w_obj w o))) eqn:A; [|discriminate].
    inversion H; subst. split; [|reflexivity]. right. split; [auto|]. exists s.
    split; [reflexivity|]. split; [reflexivity|]. split; [apply mem_str_In; auto|].
    intros l Hl. rewrite Hl in I. apply negb_false_iff in I. apply mem_str_In; auto.
Qed.

Lemma obj_call_kinds w copy cn clid m args inst out : obj_call w copy cn clid m args = (inst, out) -> out <> Dead /\ out <> Local.
Proof.
  unfold obj_call. destruct (zget clid (c_exports cn)) as [[o rc]|].
  2:{ destruct clid_lookup; [destruct call_unknown_clid|]; intros H; inversion H; split; discriminate. }
  destruct ((clid <? 0) && negative_clid_ignores_name).
  { destruct (do_args copy (c_exports cn) args []) as [i|i r]; [|destruct r]; intros H; inversion H; split; discriminate. }
  destruct m as [s|]; [|intros H; inversion H; split; discriminate].
  destruct (iface_enforced && _); [intros H; inversion H; split; discriminate|].
  destruct (do_args copy (c_exports cn) args []) as [i|i r]; [|destruct r; intros H; inversion H; split; discriminate].
  destruct (mem_str _ _); intros H; inversion H; split; discriminate.
Qed.

(* ------------------------------------------------------------------ one inbound call *)
Definition exported (st : state) (c : cid) (clid o : Z) : Prop :=
  exists rc, zget clid (c_exports (get_conn st c)) = Some (o, rc).

Theorem calls_sound : forall w st c req clid m args st' r e,
  step w st (Msg c req clid m args) = (st', r) -> r_out r = Enter e ->
  c_alive (get_conn st c) = true /\
  ((clid = 0 /\ exists s, m = MStr s /\ In s broker_methods /\ e = EBroker (remote_prefix ++ s)) \/
   (clid < 0 /\ exists o, exported st c clid o /\ e = ECallable o) \/
   (0 < clid /\ exists o s, exported st c clid o /\ m = MStr s /\ e = EObj o (remote_prefix ++ s) /\
        In (remote_prefix ++ s)%string (o_attrs (w_obj w o)) /\
        (forall l, iface_of w (s_decl st) o = Some l -> In s l))).
Proof.
  intros w st c req clid m args st' r e H Hout. cbn [step] in H.
  destruct (negb (c_alive (get_conn st c))) eqn:AL.
  { inversion H; subst. discriminate. }
  apply negb_false_iff in AL. split; [exact AL|].
  destruct (clid =? broker_clid) eqn:BC.
  - apply Z.eqb_eq in BC. unfold broker_clid in BC. left. split; [exact BC|].
    destruct (broker_call m args) as [out fx] eqn:B.
    assert (out = Enter e).
    { destruct fx; try (inversion H; subst; exact Hout).
      destruct (found_name w st n) as [[o st0]|]; [|inversion H; subst; exact Hout].
      destruct (req =? 0); [inversion H; subst; exact Hout|].
      destruct (grant w st0 c o "") as [s2 sent]. inversion H; subst. exact Hout. }
    subst out. destruct (broker_call_enter _ _ _ _ B) as [s [? [? [? ?]]]]. exists s; auto.
  - apply Z.eqb_neq in BC. unfold broker_clid in BC.
    destruct (obj_call (eff w (s_decl st)) (s_copy st) (get_conn st c) clid m args) as [inst out] eqn:O.
    inversion H; subst. cbn [r_out] in Hout. subst out.
    destruct (obj_call_enter _ _ _ _ _ _ _ _ O) as [o [rc [G [[[S E]|[S [s [M [E [A I]]]]]] D]]]].
    + right; left. split; [exact S|]. exists o. split; [exists rc; exact G | exact E].
    + right; right. split; [lia|]. exists o, s. split; [exists rc; exact G|]. auto.
Qed.

(* only attributes carrying the "remote_" prefix are ever looked up on an application object or on the broker *)
Theorem entered_attr_prefixed : forall w st c req clid m args st' r,
  step w st (Msg c req clid m args) = (st', r) ->
  (forall o a, r_out r = Enter (EObj o a) -> String.prefix "remote_" a = true) /\
  (forall a, r_out r = Enter (EBroker a) -> String.prefix "remote_" a = true).
Proof.
  intros w st c req clid m args st' r H. split.
  - intros o a Hout. destruct (calls_sound _ _ _ _ _ _ _ _ _ _ H Hout) as [_ [[_ [s [_ [_ E]]]]|[[_ [o' [_ E]]]|[_ [o' [s [_ [_ [E _]]]]]]]]];
      try discriminate. inversion E; subst. exact (prefix_app "remote_" s).
  - intros a Hout. destruct (calls_sound _ _ _ _ _ _ _ _ _ _ H Hout) as [_ [[_ [s [_ [_ E]]]]|[[_ [o' [_ E]]]|[_ [o' [s [_ [_ [E _]]]]]]]]];
      try discriminate. inversion E; subst. exact (prefix_app "remote_" s).
Qed.

(* instances are created only of classes registered for pass-by-copy, under the names the message carries *)
Theorem classes_sound : forall w st c req clid m args st' r cls,
  step w st (Msg c req clid m args) = (st', r) -> In cls (r_inst r) ->
  exists n, In (ACopyable n) args /\ sget n (s_copy st) = Some cls.
Proof.
  intros w st c req clid m args st' r cls H Hin. cbn [step] in H.
  destruct (negb (c_alive (get_conn st c))). { inversion H; subst. destruct Hin. }
  destruct (clid =? broker_clid).
  - destruct (broker_call m args) as [out fx].
    destruct fx; try (inversion H; subst; destruct Hin).
    destruct (found_name w st n) as [[o st0]|]; [|inversion H; subst; destruct Hin].
    destruct (req =? 0); [inversion H; subst; destruct Hin|].
    destruct (grant w st0 c o "") as [s2 sent]. inversion H; subst. destruct Hin.
  - destruct (obj_call (eff w (s_decl st)) (s_copy st) (get_conn st c) clid m args) as [inst out] eqn:O.
    inversion H; subst. cbn [r_inst] in Hin. clear H.
    unfold obj_call in O. destruct (zget clid (c_exports (get_conn st c))) as [[o rc]|].
    2:{ inversion O; subst. destruct Hin. }
    assert (D : forall i x, (do_args (s_copy st) (c_exports (get_conn st c)) args [] = ArgsOk i \/
                             exists r, do_args (s_copy st) (c_exports (get_conn st c)) args [] = ArgsFail i r) ->
                            In x i -> exists n, In (ACopyable n) args /\ sget n (s_copy st) = Some x).
    { intros i x Hd Hx. destruct (do_args_inst _ _ _ _ _ Hd x Hx) as [[]|?]; auto. }
    destruct ((clid <? 0) && negative_clid_ignores_name).
    { destruct (do_args (s_copy st) (c_exports (get_conn st c)) args []) as [i|i r0] eqn:E; inversion O; subst.
      - eapply D; eauto.
      - eapply D; eauto. }
    destruct m as [s|]; [|inversion O; subst; destruct Hin].
    destruct (iface_enforced && _); [inversion O; subst; destruct Hin|].
    destruct (do_args (s_copy st) (c_exports (get_conn st c)) args []) as [i|i r0] eqn:E.
    + destruct (mem_str _ _); inversion O; subst; eapply D; eauto.
    + inversion O; subst. eapply D; eauto.
Qed.

(* the shape of one inbound call, used by the theorems below *)
Lemma step_msg_shape : forall w st c req clid m args st' r,
  step w st (Msg c req clid m args) = (st', r) ->
  (c_alive (get_conn st c) = false /\ st' = st /\ r = res0 Dead) \/
  (c_alive (get_conn st c) = true /\ clid = broker_clid /\ exists out fx, broker_call m args = (out, fx) /\
     r_out r = out /\ r_inst r = [] /\
     match fx with
     | FxNone => st' = st /\ r_sent r = []
     | FxDrop => st' = set_conn st c (drop_conn (get_conn st c)) /\ r_sent r = []
     | FxDecref k n => st' = set_conn st c (decref (get_conn st c) k n) /\ r_sent r = []
     | FxLookup nm =>
       match found_name w st nm with
       | None => st' = st /\ r_sent r = []
       | Some (o, st0) => if req =? 0 then st' = st0 /\ r_sent r = [] else grant w st0 c o "" = (st', r_sent r)
       end
     end) \/
  (c_alive (get_conn st c) = true /\ clid <> broker_clid /\ exists inst out,
     obj_call (eff w (s_decl st)) (s_copy st) (get_conn st c) clid m args = (inst, out) /\
     r = {| r_inst := inst; r_out := out; r_sent := [] |} /\
     st' = match out with Aborted => set_conn st c (drop_conn (get_conn st c)) | _ => st end).
Proof.
  intros w st c req clid m args st' r H. cbn [step] in H.
  destruct (c_alive (get_conn st c)) eqn:AL; cbn [negb] in H.
  2:{ left. inversion H; subst. auto. }
  right. destruct (clid =? broker_clid) eqn:BC.
  - left. apply Z.eqb_eq in BC. split; [reflexivity|]. split; [exact BC|].
    destruct (broker_call m args) as [out fx] eqn:B. exists out, fx. split; [reflexivity|].
    destruct fx.
    + inversion H; subst. cbn. auto.
    + inversion H; subst. cbn. auto.
    + destruct (found_name w st n) as [[o st0]|].
      * destruct (req =? 0).
        -- inversion H; subst. cbn. auto.
        -- destruct (grant w st0 c o "") as [s2 sent]. inversion H; subst. cbn. auto.
      * inversion H; subst. cbn. auto.
    + inversion H; subst. cbn. auto.
  - right. apply Z.eqb_neq in BC. split; [reflexivity|]. split; [exact BC|].
    destruct (obj_call (eff w (s_decl st)) (s_copy st) (get_conn st c) clid m args) as [inst out] eqn:O.
    exists inst, out. split; [reflexivity|]. inversion H; subst. auto.
Qed.

(* a refused request has no side effects *)
Theorem refusal_pure : forall w st c req clid m args st' r,
  step w st (Msg c req clid m args) = (st', r) -> r_out r = Reject \/ r_out r = Dead -> st' = st /\ r_sent r = [].
Proof.
  intros w st c req clid m args st' r H Hout.
  destruct (step_msg_shape _ _ _ _ _ _ _ _ _ H) as [[_ [E R]]|[[_ [_ [out [fx [B [Ho [_ F]]]]]]]|[_ [_ [inst [out [O [R E]]]]]]]].
  - subst. auto.
  - destruct (broker_call_fx _ _ _ _ B) as [F1 [F2 [F3 F4]]]. rewrite Ho in Hout.
    destruct Hout as [Hout|Hout]; [|contradiction]. rewrite (F1 Hout) in F. exact F.
  - subst r. cbn [r_out r_sent] in *. destruct (obj_call_kinds _ _ _ _ _ _ _ _ O) as [K1 K2].
    destruct Hout as [Hout|Hout]; [|contradiction]. subst out. auto.
Qed.

(* a dropped connection loses its own table; the other connection and the Tub's tables are untouched *)
Theorem aborted_local : forall w st c req clid m args st' r,
  step w st (Msg c req clid m args) = (st', r) -> r_out r = Aborted ->
  st' = set_conn st c (drop_conn (get_conn st c)) /\ r_sent r = [].
Proof.
  intros w st c req clid m args st' r H Hout.
  destruct (step_msg_shape _ _ _ _ _ _ _ _ _ H) as [[_ [E R]]|[[_ [_ [out [fx [B [Ho [_ F]]]]]]]|[_ [_ [inst [out [O [R E]]]]]]]].
  - subst. discriminate.
  - destruct (broker_call_fx _ _ _ _ B) as [F1 [F2 [F3 F4]]]. rewrite Ho in Hout.
    apply F2 in Hout. rewrite Hout in F. exact F.
  - subst r. cbn [r_out r_sent] in *. subst out. auto.
Qed.

(* a call that enters an application object or a callable changes no table *)
Theorem plain_call_pure : forall w st c req clid m args st' r,
  step w st (Msg c req clid m args) = (st', r) ->
  (exists o a, r_out r = Enter (EObj o a)) \/ (exists o, r_out r = Enter (ECallable o)) -> st' = st /\ r_sent r = [].
Proof.
  intros w st c req clid m args st' r H Hout.
  destruct (step_msg_shape _ _ _ _ _ _ _ _ _ H) as [[_ [E R]]|[[_ [_ [out [fx [B [Ho [_ F]]]]]]]|[_ [_ [inst [out [O [R E]]]]]]]].
  - subst. cbn in Hout. destruct Hout as [[o [a X]]|[o X]]; discriminate.
  - exfalso. rewrite Ho in Hout. destruct Hout as [[o [a X]]|[o X]]; subst out;
      destruct (broker_call_enter _ _ _ _ B) as [s [_ [_ [X _]]]]; discriminate.
  - subst r. cbn [r_out r_sent] in *. destruct Hout as [[o [a X]]|[o X]]; subst out; auto.
Qed.

(* an id this connection's table does not hold is refused, whatever the other connection's table contains *)
Theorem foreign_clid_refused : forall w st c req clid m args,
  clid <> 0 -> c_alive (get_conn st c) = true -> zget clid (c_exports (get_conn st c)) = None ->
  step w st (Msg c req clid m args) = (st, res0 Reject).
Proof.
  intros w st c req clid m args NZ AL G. cbn [step]. rewrite AL. cbn [negb].
  destruct (clid =? broker_clid) eqn:E; [apply Z.eqb_eq in E; unfold broker_clid in E; contradiction|].
  unfold obj_call. rewrite G. reflexivity.
Qed.

(* an argument of an OPEN type outside the closed registry, an unregistered copyable name or a your-reference this
   connection cannot resolve keeps the call from entering anything *)
Theorem bad_argument_never_enters : forall w st c req clid m args st' r e,
  step w st (Msg c req clid m args) = (st', r) -> r_out r = Enter e -> clid <> 0 ->
  (forall t, In (AOpen t) args -> mem_type [t] open_types = true) /\
  (forall n, In (ACopyable n) args -> exists cls, sget n (s_copy st) = Some cls) /\
  (forall k, In (AYourRef k) args -> k = 0 \/ exists o, exported st c k o).
Proof.
  intros w st c req clid m args st' r e H Hout NZ. cbn [step] in H.
  destruct (negb (c_alive (get_conn st c))). { inversion H; subst. discriminate. }
  destruct (clid =? broker_clid) eqn:BC. { apply Z.eqb_eq in BC. unfold broker_clid in BC. contradiction. }
  destruct (obj_call (eff w (s_decl st)) (s_copy st) (get_conn st c) clid m args) as [inst out] eqn:O.
  inversion H; subst. cbn [r_out] in Hout. subst out.
  destruct (obj_call_enter _ _ _ _ _ _ _ _ O) as [o [rc [_ [_ D]]]].
  destruct (do_args_ok _ _ _ _ _ D) as [A [B C]]. split; [exact A|]. split; [exact B|].
  intros k Hk. destruct (C k Hk) as [E|[[o' rc'] E]]; [left; exact E | right; exists o', rc'; exact E].
Qed.

Theorem top_level_pure : forall w st c t st' r,
  step w st (TopMsg c t) = (st', r) -> st' = st /\ r_inst r = [] /\ r_sent r = [] /\ (r_out r = Reject \/ r_out r = Dead).
Proof.
  intros w st c t st' r H. cbn [step] in H. inversion H. cbn.
  destruct (c_alive (get_conn st' c)); auto.
Qed.

(* name lookup yields only what the name table holds, or what a registered handler provides *)
Theorem names_sound : forall w st n o,
  lookup_name w st n = Some o ->
  In (n, o) (s_n2r st) \/ (sget n (s_n2r st) = None /\ sget n (s_h st) = Some o).
Proof.
  intros w st n o. unfold lookup_name. destruct (sget n (s_n2r st)) as [o'|] eqn:E; intros H.
  - inversion H; subst. left. apply sget_In; auto.
  - right; auto.
Qed.

Lemma found_name_lookup w st n : 
  match found_name w st n with
  | Some (o, st0) => lookup_name w st n = Some o /\ s_n2r st0 = s_n2r st /\ s_copy st0 = s_copy st /\
                     s_a st0 = s_a st /\ s_b st0 = s_b st
  | None => lookup_name w st n = None
  end.
Proof.
  unfold found_name, lookup_name. destruct (sget n (s_n2r st)); [auto|].
  destruct (sget n (s_h st)); [|auto]. unfold handler_answers_cached. destruct (is_some _); cbn; auto.
Qed.

(* ------------------------------------------------------------------ invariants of reachable states *)
Lemma get_set_same st c x : get_conn (set_conn st c x) c = x.
Proof. destruct c; reflexivity. Qed.
Lemma get_set_other st c c' x : c <> c' -> get_conn (set_conn st c x) c' = get_conn st c'.
Proof. destruct c, c'; intros H; try reflexivity; contradiction. Qed.
Lemma get_assign st o p sw c : get_conn (assign_name st o p sw) c = get_conn st c.
Proof. unfold assign_name. destruct (zget o (s_r2n st)); destruct c; reflexivity. Qed.
Lemma cid_dec (a b : cid) : {a = b} + {a <> b}.
Proof. decide equality. Qed.

Definition conn_ok (cn : conn) : Prop :=
  0 < c_next cn /\
  forall k o rc, In (k, (o, rc)) (c_exports cn) -> 0 < rc /\ k <> 0 /\ Z.abs k < c_next cn.
Definition logged (c : cid) (cn : conn) (log : list (cid * Z * Z)) : Prop :=
  forall k o rc, In (k, (o, rc)) (c_exports cn) -> In (c, k, o) log.
Definition inv (st : state) (log : list (cid * Z * Z)) : Prop :=
  forall c, conn_ok (get_conn st c) /\ logged c (get_conn st c) log.

Lemma logged_mono c cn log more : logged c cn log -> logged c cn (log ++ more).
Proof. intros H k o rc Hin. apply in_or_app. left. eapply H; eauto. Qed.

Lemma inv_same_conns st st' log more :
  (forall c, get_conn st' c = get_conn st c) -> inv st log -> inv st' (log ++ more).
Proof.
  intros E H c. rewrite E. destruct (H c) as [A B]. split; [exact A | apply logged_mono; exact B].
Qed.

Lemma inv_one_conn st log c cn' more :
  inv st log -> conn_ok cn' -> logged c cn' (log ++ more) -> inv (set_conn st c cn') (log ++ more).
Proof.
  intros H A B c'. destruct (cid_dec c c') as [E|E].
  - subst c'. rewrite get_set_same. split; assumption.
  - rewrite (get_set_other _ _ _ _ E). destruct (H c') as [A' B']. split; [exact A' | apply logged_mono; exact B'].
Qed.

Lemma grant_inv w st c o sw st' sent log :
  inv st log -> grant w st c o sw = (st', sent) -> inv st' (log ++ sent).
Proof.
  intros H G. unfold grant in G.
  destruct (negb (c_alive (get_conn st c))).
  { inversion G; subst. rewrite app_nil_r. exact H. }
  destruct (H c) as [[Nx Ok] Lg].
  set (cn := get_conn st c) in *.
  destruct (match find_obj o (c_exports cn) with
            | Some (k, rc) => (k, rc, c_next cn)
            | None => (match o_kind (w_obj w o) with KObj => c_next cn | KCallable => if callable_clid_negated then - c_next cn else c_next cn end,
                       tracker_initial_refcount, c_next cn + 1)
            end) as [[clid rc] nxt] eqn:F.
  assert (NEW : 0 <= rc /\ clid <> 0 /\ Z.abs clid < nxt /\ c_next cn <= nxt /\
                (rc = 0 \/ In (clid, (o, rc)) (c_exports cn))).
  { destruct (find_obj o (c_exports cn)) as [[k rc0]|] eqn:FO.
    - inversion F; subst. apply find_obj_In in FO. destruct (Ok _ _ _ FO) as [? [? ?]].
      repeat split; try lia; auto.
    - unfold tracker_initial_refcount, callable_clid_negated in F.
      destruct (o_kind (w_obj w o)); inversion F; subst; repeat split; try lia; auto. }
  destruct NEW as [R0 [C0 [C1 [N1 OLD]]]].
  unfold tracker_send_incr in G.
  set (cn' := {| c_alive := true; c_exports := zset clid (o, rc + 1) (c_exports cn); c_next := nxt |}) in *.
  assert (I' : inv (set_conn st c cn') (log ++ [(c, clid, o)])).
  { apply inv_one_conn; [exact H| |].
    - split; [cbn; lia|]. cbn [c_exports c_next cn']. intros k o' rc' Hin.
      apply In_zset in Hin. destruct Hin as [E|Hin].
      + inversion E; subst. repeat split; try lia; auto.
      + destruct (Ok _ _ _ Hin) as [? [? ?]]. repeat split; try lia; auto.
    - cbn [c_exports cn']. intros k o' rc' Hin. apply In_zset in Hin. apply in_or_app. destruct Hin as [E|Hin].
      + inversion E; subst. right. left. reflexivity.
      + left. eapply Lg; eauto. }
  destruct (rc + 1 =? 1); inversion G; subst; [|exact I'].
  intros c'. rewrite get_assign. apply I'.
Qed.

Lemma decref_ok cn k n : conn_ok cn -> conn_ok (decref cn k n) /\
  (forall k' o rc, In (k', (o, rc)) (c_exports (decref cn k n)) -> exists rc0, In (k', (o, rc0)) (c_exports cn)).
Proof.
  intros [Nx Ok]. unfold decref. destruct (k =? 0). { split; [split; auto|]. intros; eauto. }
  destruct (zget k (c_exports cn)) as [[o rc]|] eqn:G. 2:{ split; [split; auto|]. intros; eauto. }
  destruct (tracker_decref n rc) as [[done rc']|] eqn:T. 2:{ split; [split; auto|]. intros; eauto. }
  apply tracker_decref_spec in T. destruct T as [T1 [T2 T3]]. apply zget_In in G.
  destruct (Ok _ _ _ G) as [? [? ?]].
  destruct done; cbn [c_exports c_next].
  - split; [split; [exact Nx|]|].
    + intros k' o' rc0 Hin. apply In_zdel in Hin. eapply Ok; eauto.
    + intros k' o' rc0 Hin. apply In_zdel in Hin. eauto.
  - assert (rc' <> 0) by (intros E; apply T3 in E; discriminate).
    split; [split; [exact Nx|]|].
    + intros k' o' rc0 Hin. apply In_zset in Hin. destruct Hin as [E|Hin].
      * inversion E; subst. repeat split; try lia; auto.
      * eapply Ok; eauto.
    + intros k' o' rc0 Hin. apply In_zset in Hin. destruct Hin as [E|Hin].
      * inversion E; subst. eauto.
      * eauto.
Qed.

Lemma drop_ok cn : conn_ok cn -> conn_ok (drop_conn cn).
Proof. intros [Nx _]. split; [exact Nx|]. cbn. intros ? ? ? []. Qed.

Lemma step_inv w st e st' r log : inv st log -> step w st e = (st', r) -> inv st' (log ++ r_sent r).
Proof.
  intros H S. destruct e as [n o sw|o|n cls|n cls em|o d|n o|n| |c o sw|c req clid m args|c t|c].
  - cbn [step] in S. inversion S; subst. cbn [r_sent res0]. apply inv_same_conns with (st := st); [|exact H]. intros c; apply get_assign.
  - cbn [step] in S. inversion S; subst. cbn [r_sent res0]. apply inv_same_conns with (st := st); [|exact H].
    intros c. destruct (zget o (s_r2n st)); [|reflexivity]. destruct (is_some _); destruct c; reflexivity.
  - cbn [step] in S. inversion S; subst. cbn [r_sent res0]. apply inv_same_conns with (st := st); [|exact H].
    intros c. destruct (is_some _); destruct c; reflexivity.
  - cbn [step] in S.
    destruct default_registry_test; [|destruct em; [destruct (is_some (sget n (s_copy st)))|]];
      inversion S; subst; cbn [r_sent res0];
      first [ rewrite app_nil_r; exact H
            | apply inv_same_conns with (st := st); [intros c; destruct c; reflexivity | exact H] ].
  - cbn [step] in S. inversion S; subst. cbn [r_sent res0]. apply inv_same_conns with (st := st); [|exact H]. intros c; destruct c; reflexivity.
  - cbn [step] in S. inversion S; subst. cbn [r_sent res0]. apply inv_same_conns with (st := st); [|exact H]. intros c; destruct c; reflexivity.
  - cbn [step] in S. inversion S; subst. cbn [r_sent res0]. apply inv_same_conns with (st := st); [|exact H]. intros c; destruct c; reflexivity.
  - cbn [step] in S. inversion S; subst. cbn [r_sent res0]. apply inv_same_conns with (st := st); [|exact H]. intros c; destruct c; reflexivity.
  - cbn [step] in S. destruct (grant w st c o sw) as [s2 sent] eqn:G. inversion S; subst. cbn [r_sent].
    eapply grant_inv; eauto.
  - destruct (step_msg_shape _ _ _ _ _ _ _ _ _ S) as [[_ [E R]]|[[_ [_ [out [fx [B [Ho [_ F]]]]]]]|[_ [_ [inst [out [O [R E]]]]]]]].
    + subst. cbn. rewrite app_nil_r. exact H.
    + destruct fx.
      * destruct F as [E1 E2]. subst. rewrite E2, app_nil_r. exact H.
      * destruct F as [E1 E2]. subst. rewrite E2. apply inv_one_conn; [exact H | apply drop_ok; apply H | intros ? ? ? []].
      * pose proof (found_name_lookup w st n) as FN. destruct (found_name w st n) as [[o st0]|].
        -- destruct FN as [_ [_ [_ [EA EB]]]].
           assert (I0 : inv st0 log). { intros c'. destruct (H c') as [X Y]. destruct c'; cbn [get_conn] in *; rewrite ?EA, ?EB; auto. }
           destruct (req =? 0).
           ++ destruct F as [E1 E2]. subst. rewrite E2, app_nil_r. exact I0.
           ++ eapply grant_inv; eauto.
        -- destruct F as [E1 E2]. subst. rewrite E2, app_nil_r. exact H.
      * destruct F as [E1 E2]. subst. rewrite E2. destruct (H c) as [X Y].
        destruct (decref_ok (get_conn st c) clid0 k X) as [D1 D2].
        apply inv_one_conn; [exact H | exact D1 |].
        intros k' o' rc' Hin. destruct (D2 _ _ _ Hin) as [rc0 Hin0]. apply in_or_app. left. eapply Y; eauto.
    + subst r. cbn [r_sent]. destruct out; subst st'; try (rewrite app_nil_r; exact H).
      apply inv_one_conn; [exact H | apply drop_ok; apply H | intros ? ? ? []].
  - cbn [step] in S. inversion S; subst. cbn [r_sent res0]. rewrite app_nil_r. exact H.
  - cbn [step] in S. inversion S; subst. cbn [r_sent res0].
    apply inv_one_conn; [exact H | apply drop_ok; apply H | intros ? ? ? []].
Qed.

Lemma run_inv w h : forall st st' rs log, inv st log -> run w st h = (st', rs) -> inv st' (log ++ sent_of rs).
Proof.
  induction h as [|e h IH]; intros st st' rs log H R; cbn [run] in R.
  - inversion R; subst. unfold sent_of. cbn. rewrite app_nil_r. exact H.
  - destruct (step w st e) as [st1 x] eqn:S. destruct (run w st1 h) as [st2 xs] eqn:R2. inversion R; subst.
    unfold sent_of. cbn [map List.concat]. rewrite app_assoc. eapply IH; [|exact R2]. eapply step_inv; eauto.
Qed.

Lemma init_inv : inv init [].
Proof.
  intros c. unfold conn_ok, logged.
  destruct c; cbn [get_conn init s_a s_b new_conn c_next c_exports In];
    (split; [split; [unfold first_clid; lia | intros ? ? ? []] | intros ? ? ? []]).
Qed.

(* whatever this connection's table holds after any history was sent over this very connection (as a my-reference
   with that id), is referenced a positive number of times, and its id is neither 0 nor one the counter has yet to reach *)
Theorem exports_were_granted : forall w h st rs c clid o rc,
  run w init h = (st, rs) -> zget clid (c_exports (get_conn st c)) = Some (o, rc) ->
  0 < rc /\ clid <> 0 /\ Z.abs clid < c_next (get_conn st c) /\ In (c, clid, o) (sent_of rs).
Proof.
  intros w h st rs c clid o rc R G. pose proof (run_inv w h _ _ _ _ init_inv R) as I. cbn [app] in I.
  destruct (I c) as [[Nx Ok] Lg]. apply zget_In in G. destruct (Ok _ _ _ G) as [? [? ?]].
  repeat split; auto. eapply Lg; eauto.
Qed.

(* a my-reference is emitted only when the application sends the object on that connection, or when that connection's
   peer asked for a name the Tub resolves to it *)
Theorem sent_justified : forall w st e st' r c clid o,
  step w st e = (st', r) -> In (c, clid, o) (r_sent r) ->
  (exists sw, e = Grant c o sw) \/
  (exists req n, e = Msg c req broker_clid (MStr "getReferenceByName") [ABytes (MStr n)] /\ req <> 0 /\
                 lookup_name w st n = Some o).
Proof.
  assert (GS : forall w st c o sw st' sent c' k o', grant w st c o sw = (st', sent) -> In (c', k, o') sent -> c' = c /\ o' = o).
  { intros w st c o sw st' sent c' k o' G Hin. unfold grant in G.
    destruct (negb (c_alive (get_conn st c))); [inversion G; subst; destruct Hin|].
    destruct (match find_obj o (c_exports (get_conn st c)) with Some (k0, rc) => _ | None => _ end) as [[clid rc] nxt].
    inversion G; subst. destruct Hin as [E|[]]. inversion E; subst. auto. }
  intros w st e st' r c clid o S Hin. destruct e as [n o0 sw|o0|n cls|n cls em|o0 d|n o0|n| |c0 o0 sw|c0 req clid0 m args|c0 t|c0];
    try (cbn [step] in S; inversion S; subst; destruct Hin; fail).
  - cbn [step] in S. destruct (grant w st c0 o0 sw) as [s2 sent] eqn:G. inversion S; subst. cbn [r_sent] in Hin.
    destruct (GS _ _ _ _ _ _ _ _ _ _ G Hin) as [? ?]. subst. left. eexists; reflexivity.
  - destruct (step_msg_shape _ _ _ _ _ _ _ _ _ S) as [[_ [E R]]|[[_ [BC [out [fx [B [Ho [_ F]]]]]]]|[_ [_ [inst [out [O [R E]]]]]]]].
    + subst. destruct Hin.
    + destruct fx; try (destruct F as [_ F]; rewrite F in Hin; destruct Hin; fail).
      pose proof (found_name_lookup w st n) as FN. destruct (found_name w st n) as [[o1 st0]|].
      2:{ destruct F as [_ F]; rewrite F in Hin; destruct Hin. }
      destruct (req =? 0) eqn:RQ. { destruct F as [_ F]; rewrite F in Hin; destruct Hin. }
      destruct (GS _ _ _ _ _ _ _ _ _ _ F Hin) as [? ?]. subst. right.
      (* the message was getReferenceByName with one byte-string argument *)
      unfold broker_call in B. destruct m as [s|]; [|discriminate].
      destruct (iface_enforced && negb (mem_str s broker_methods)); [discriminate|].
      destruct (negb (mem_str (remote_prefix ++ s) broker_remote_attrs)); [discriminate|].
      destruct (String.eqb s "getReferenceByName") eqn:SN.
      * apply String.eqb_eq in SN. subst s.
        destruct args as [|[v|[nm|]|k|n0|t] [|? ?]]; try discriminate. inversion B; subst.
        exists req, n. split; [reflexivity|]. split; [apply Z.eqb_neq; exact RQ | apply FN].
      * destruct (String.eqb s "decref").
        { destruct args as [|[v|b|k|n0|t] [|[v2|b2|k2|n2|t2] [|? ?]]]; discriminate. }
        destruct (String.eqb s "decgift").
        { destruct args as [|[v|b|k|n0|t] [|[v2|b2|k2|n2|t2] [|? ?]]]; discriminate. }
        discriminate.
    + subst r. destruct Hin.
Qed.

(* ------------------------------------------------------------------ locality *)
Ltac split_matches :=
  repeat (cbn [get_conn set_conn set_names set_copy s_n2r s_r2n s_copy s_h s_decl s_a s_b fst snd res0 r_inst r_out r_sent
                c_alive c_exports c_next drop_conn];
          match goal with
          | |- context [match ?x with _ => _ end] => destruct x eqn:?
          end);
  cbn [get_conn set_conn set_names set_copy s_n2r s_r2n s_copy s_h s_decl s_a s_b fst snd res0 r_inst r_out r_sent
       c_alive c_exports c_next drop_conn]; try reflexivity; try congruence.

Lemma grant_frame w st c c' x o sw : c <> c' ->
  grant w (set_conn st c' x) c o sw = (set_conn (fst (grant w st c o sw)) c' x, snd (grant w st c o sw)).
Proof.
  intros NC. destruct st as [n2r r2n cp hh dc a b].
  destruct c, c'; try congruence; unfold grant, assign_name; split_matches.
Qed.

Lemma found_frame w st c' x n :
  found_name w (set_conn st c' x) n =
  match found_name w st n with Some (o, s0) => Some (o, set_conn s0 c' x) | None => None end.
Proof. destruct st as [n2r r2n cp hh dc a b]. destruct c'; unfold found_name; split_matches. Qed.

(* the other connection's table is a frame for everything that does not happen on it: it is neither read nor written *)
Theorem step_frame : forall w st e c' x,
  on_conn e <> Some c' ->
  step w (set_conn st c' x) e = (set_conn (fst (step w st e)) c' x, snd (step w st e)).
Proof.
  intros w st e c' x NC.
  destruct e as [n o sw|o|n cls|n cls em|o d|n o|n| |c o sw|c req clid m args|c t|c]; cbn [on_conn] in NC.
  - destruct st as [n2r r2n cp hh dc a b]. destruct c'; unfold step, assign_name; split_matches.
  - destruct st as [n2r r2n cp hh dc a b]. destruct c'; unfold step; split_matches.
  - destruct st as [n2r r2n cp hh dc a b]. destruct c'; unfold step; split_matches.
  - destruct st as [n2r r2n cp hh dc a b]. destruct c'; unfold step; split_matches.
  - destruct st as [n2r r2n cp hh dc a b]. destruct c'; reflexivity.
  - destruct st as [n2r r2n cp hh dc a b]. destruct c'; reflexivity.
  - destruct st as [n2r r2n cp hh dc a b]. destruct c'; reflexivity.
  - destruct st as [n2r r2n cp hh dc a b]. destruct c'; reflexivity.
  - assert (c <> c') by congruence. cbn [step]. rewrite grant_frame by assumption.
    destruct (grant w st c o sw); reflexivity.
  - assert (NE : c <> c') by congruence. cbn [step].
    rewrite (get_set_other _ _ _ _ (not_eq_sym NE)).
    destruct (negb (c_alive (get_conn st c))); [reflexivity|].
    destruct (clid =? broker_clid).
    + destruct (broker_call m args) as [out fx]. destruct fx.
      * reflexivity.
      * cbn [fst snd]. f_equal. destruct st, c, c'; try congruence; reflexivity.
      * rewrite found_frame. destruct (found_name w st n) as [[o s0]|]; [|reflexivity].
        destruct (req =? 0); [reflexivity|]. rewrite grant_frame by assumption.
        destruct (grant w s0 c o ""); reflexivity.
      * cbn [fst snd]. f_equal. destruct st, c, c'; try congruence; reflexivity.
    + replace (s_copy (set_conn st c' x)) with (s_copy st) by (destruct c'; reflexivity).
      replace (s_decl (set_conn st c' x)) with (s_decl st) by (destruct c'; reflexivity).
      destruct (obj_call (eff w (s_decl st)) (s_copy st) (get_conn st c) clid m args) as [inst out].
      cbn [fst snd]. f_equal. destruct out; try reflexivity. destruct st, c, c'; try congruence; reflexivity.
  - assert (NE : c <> c') by congruence. cbn [step]. rewrite (get_set_other _ _ _ _ (not_eq_sym NE)). reflexivity.
  - assert (NE : c <> c') by congruence. cbn [step]. rewrite (get_set_other _ _ _ _ (not_eq_sym NE)).
    cbn [fst snd]. f_equal. destruct st, c, c'; try congruence; reflexivity.
Qed.

(* ... for whole histories: whatever the other connection's table holds, a history of events elsewhere behaves the same *)
Theorem run_frame : forall w h st c' x,
  (forall e, In e h -> on_conn e <> Some c') ->
  run w (set_conn st c' x) h = (set_conn (fst (run w st h)) c' x, snd (run w st h)).
Proof.
  induction h as [|e h IH]; intros st c' x NC; cbn [run].
  - reflexivity.
  - rewrite step_frame by (apply NC; left; reflexivity).
    destruct (step w st e) as [st1 r1]. cbn [fst snd].
    rewrite IH by (intros e' He'; apply NC; right; exact He').
    destruct (run w st1 h) as [st2 rs]. reflexivity.
Qed.

Lemma set_get_id st c : set_conn st c (get_conn st c) = st.
Proof. destruct st, c; reflexivity. Qed.

(* an event that does not happen on c leaves c's table alone *)
Lemma step_other_conn w st e c : on_conn e <> Some c -> get_conn (fst (step w st e)) c = get_conn st c.
Proof.
  intros NC. pose proof (step_frame w st e c (get_conn st c) NC) as F. rewrite set_get_id in F.
  rewrite F at 1. cbn [fst]. apply get_set_same.
Qed.

Definition same_view (c : cid) (s1 s2 : state) : Prop :=
  get_conn s1 c = get_conn s2 c /\ s_copy s1 = s_copy s2 /\ s_decl s1 = s_decl s2.

Lemma copy_assign st o p sw : s_copy (assign_name st o p sw) = s_copy st.
Proof. unfold assign_name. destruct (zget o (s_r2n st)); reflexivity. Qed.
Lemma copy_set_conn st c x : s_copy (set_conn st c x) = s_copy st.
Proof. destruct c; reflexivity. Qed.
Lemma copy_grant w st c o sw : s_copy (fst (grant w st c o sw)) = s_copy st.
Proof.
  unfold grant. destruct (negb (c_alive (get_conn st c))); [reflexivity|].
  destruct (match find_obj o (c_exports (get_conn st c)) with Some (k, rc) => _ | None => _ end) as [[clid rc] nxt].
  destruct (rc + tracker_send_incr =? 1); cbn [fst]; rewrite ?copy_assign, ?copy_set_conn; reflexivity.
Qed.
Lemma copy_found w st n o s0 : found_name w st n = Some (o, s0) -> s_copy s0 = s_copy st.
Proof. intros H. pose proof (found_name_lookup w st n) as F. rewrite H in F. tauto. Qed.

Lemma step_copy w st e : (forall n cls, e <> RegisterCopy n cls) /\ (forall n cls em, e <> RegisterCopyPriv n cls em) ->
  s_copy (fst (step w st e)) = s_copy st.
Proof.
  intros [NR NP]. destruct e as [n o sw|o|n cls|n cls em|o d|n o|n| |c o sw|c req clid m args|c t|c]; cbn [step].
  - cbn [fst]. apply copy_assign.
  - cbn [fst]. destruct (zget o (s_r2n st)); [|reflexivity]. destruct (is_some _); reflexivity.
  - exfalso. eapply NR; reflexivity.
  - exfalso. eapply NP; reflexivity.
  - reflexivity.
  - reflexivity.
  - reflexivity.
  - reflexivity.
  - pose proof (copy_grant w st c o sw) as G. destruct (grant w st c o sw). exact G.
  - destruct (negb (c_alive (get_conn st c))); [reflexivity|].
    destruct (clid =? broker_clid).
    + destruct (broker_call m args) as [out fx]. destruct fx; cbn [fst]; rewrite ?copy_set_conn; try reflexivity.
      destruct (found_name w st n) as [[o s0]|] eqn:F; [|reflexivity].
      destruct (req =? 0); [cbn [fst]; eapply copy_found; eauto|].
      pose proof (copy_grant w s0 c o "") as G. destruct (grant w s0 c o ""). cbn [fst] in *.
      rewrite G. eapply copy_found; eauto.
    + destruct (obj_call (eff w (s_decl st)) (s_copy st) (get_conn st c) clid m args) as [inst out]. cbn [fst].
      destruct out; rewrite ?copy_set_conn; reflexivity.
  - reflexivity.
  - cbn [fst]. apply copy_set_conn.
Qed.

Lemma decl_assign st o p sw : s_decl (assign_name st o p sw) = s_decl st.
Proof. unfold assign_name. destruct (zget o (s_r2n st)); reflexivity. Qed.
Lemma decl_set_conn st c x : s_decl (set_conn st c x) = s_decl st.
Proof. destruct c; reflexivity. Qed.
Lemma decl_grant w st c o sw : s_decl (fst (grant w st c o sw)) = s_decl st.
Proof.
  unfold grant. destruct (negb (c_alive (get_conn st c))); [reflexivity|].
  destruct (match find_obj o (c_exports (get_conn st c)) with Some (k, rc) => _ | None => _ end) as [[clid rc] nxt].
  destruct (rc + tracker_send_incr =? 1); cbn [fst]; rewrite ?decl_assign, ?decl_set_conn; reflexivity.
Qed.
Lemma decl_found w st n o s0 : found_name w st n = Some (o, s0) -> s_decl s0 = s_decl st.
Proof.
  unfold found_name. destruct (sget n (s_n2r st)); [intros H; inversion H; reflexivity|].
  destruct (sget n (s_h st)); [|discriminate]. destruct (is_some _); intros H; inversion H; reflexivity.
Qed.

Lemma step_decl w st e : (forall o d, e <> Declare o d) -> s_decl (fst (step w st e)) = s_decl st.
Proof.
  intros ND. destruct e as [n o sw|o|n cls|n cls em|o d|n o|n| |c o sw|c req clid m args|c t|c]; cbn [step].
  - cbn [fst]. apply decl_assign.
  - cbn [fst]. destruct (zget o (s_r2n st)); [|reflexivity]. destruct (is_some _); reflexivity.
  - cbn [fst]. destruct (is_some _); reflexivity.
  - cbn [fst]. destruct default_registry_test; [reflexivity|]. destruct em; [|reflexivity]. destruct (is_some _); reflexivity.
  - exfalso. eapply ND; reflexivity.
  - reflexivity.
  - reflexivity.
  - reflexivity.
  - pose proof (decl_grant w st c o sw) as G. destruct (grant w st c o sw). exact G.
  - destruct (negb (c_alive (get_conn st c))); [reflexivity|].
    destruct (clid =? broker_clid).
    + destruct (broker_call m args) as [out fx]. destruct fx; cbn [fst]; rewrite ?decl_set_conn; try reflexivity.
      destruct (found_name w st n) as [[o s0]|] eqn:F; [|reflexivity].
      destruct (req =? 0); [cbn [fst]; eapply decl_found; eauto|].
      pose proof (decl_grant w s0 c o "") as G. destruct (grant w s0 c o ""). cbn [fst] in *.
      rewrite G. eapply decl_found; eauto.
    + destruct (obj_call (eff w (s_decl st)) (s_copy st) (get_conn st c) clid m args) as [inst out]. cbn [fst].
      destruct out; rewrite ?decl_set_conn; reflexivity.
  - reflexivity.
  - cbn [fst]. apply decl_set_conn.
Qed.

Lemma cid_eqb_eq a b : cid_eqb a b = true <-> a = b.
Proof. destruct a, b; cbn; split; intros; congruence. Qed.

(* events that are not c's own (and do not change the copyable registry) preserve what c can see *)
Lemma irrelevant_preserves w c st e : relevant c e = false -> same_view c st (fst (step w st e)).
Proof.
  intros R. split.
  - symmetry. apply step_other_conn. intros E.
    destruct e; cbn [on_conn] in E; try discriminate; inversion E; subst;
      cbn [relevant on_conn] in R; rewrite (proj2 (cid_eqb_eq c c) eq_refl) in R; discriminate.
  - split.
    + symmetry. apply step_copy. split; [intros n cls E | intros n cls em E]; subst e; discriminate.
    + symmetry. apply step_decl. intros o d E. subst e. discriminate.
Qed.

Lemma grant_local w s1 s2 c o sw : get_conn s1 c = get_conn s2 c ->
  snd (grant w s1 c o sw) = snd (grant w s2 c o sw) /\
  get_conn (fst (grant w s1 c o sw)) c = get_conn (fst (grant w s2 c o sw)) c.
Proof.
  intros E. unfold grant. rewrite E. destruct (negb (c_alive (get_conn s2 c))); [cbn [fst snd]; auto|].
  destruct (match find_obj o (c_exports (get_conn s2 c)) with Some (k, rc) => _ | None => _ end) as [[clid rc] nxt].
  destruct (rc + tracker_send_incr =? 1); cbn [fst snd]; rewrite ?get_assign, ?get_set_same; auto.
Qed.

Lemma broker_call_lookup m args out n : broker_call m args = (out, FxLookup n) -> m = MStr "getReferenceByName".
Proof.
  unfold broker_call. destruct m as [s|]; [|discriminate].
  destruct (iface_enforced && negb (mem_str s broker_methods)); [discriminate|].
  destruct (negb (mem_str (remote_prefix ++ s) broker_remote_attrs)); [discriminate|].
  destruct (String.eqb s "getReferenceByName") eqn:SN. { apply String.eqb_eq in SN. subst; reflexivity. }
  destruct (String.eqb s "decref").
  { destruct args as [|[v|b|k|n0|t] [|[v2|b2|k2|n2|t2] [|? ?]]]; discriminate. }
  destruct (String.eqb s "decgift").
  { destruct args as [|[v|b|k|n0|t] [|[v2|b2|k2|n2|t2] [|? ?]]]; discriminate. }
  discriminate.
Qed.

(* c's own events other than a name lookup: the result and c's new table are a function of c's table (and the registry) *)
Lemma relevant_deterministic w c s1 s2 e :
  same_view c s1 s2 -> relevant c e = true -> is_lookup e = false ->
  same_view c (fst (step w s1 e)) (fst (step w s2 e)) /\ snd (step w s1 e) = snd (step w s2 e).
Proof.
  intros [EC [EK ED]] R NL.
  assert (ON : forall c0, on_conn e = Some c0 -> c0 = c).
  { intros c0 E. unfold relevant in R. destruct e; cbn [on_conn] in E; try discriminate; inversion E; subst;
      symmetry; apply cid_eqb_eq; exact R. }
  assert (SV : forall x, same_view c (set_conn s1 c x) (set_conn s2 c x)).
  { intros x. split; [rewrite !get_set_same; reflexivity | split; [rewrite !copy_set_conn; exact EK | rewrite !decl_set_conn; exact ED]]. }
  assert (V0 : same_view c s1 s2) by (split; [exact EC | split; [exact EK | exact ED]]).
  destruct e as [n o sw|o|n cls|n cls em|o d|n o|n| |c0 o sw|c0 req clid m args|c0 t|c0]; try discriminate.
  - (* RegisterCopy *) cbn [step]. rewrite EK. destruct (is_some (sget n (s_copy s2))); cbn [fst snd].
    + split; [exact V0 | reflexivity].
    + split; [|reflexivity]. split; [|split].
      * destruct c; cbn [get_conn set_copy s_a s_b] in *; exact EC.
      * cbn [set_copy s_copy]. rewrite ?EK. reflexivity.
      * exact ED.
  - (* RegisterCopyPriv *) cbn [step]. destruct default_registry_test; cbn [fst snd]; [split; [exact V0 | reflexivity]|].
    destruct em; [|split; [exact V0 | reflexivity]].
    rewrite EK. destruct (is_some (sget n (s_copy s2))); cbn [fst snd].
    + split; [exact V0 | reflexivity].
    + split; [|reflexivity]. split; [|split].
      * destruct c; cbn [get_conn set_copy s_a s_b] in *; exact EC.
      * cbn [set_copy s_copy]. rewrite ?EK. reflexivity.
      * exact ED.
  - (* Declare *) cbn [step fst snd]. split; [|reflexivity]. split; [|split].
    + destruct c; cbn [get_conn s_a s_b] in *; exact EC.
    + exact EK.
    + cbn [s_decl]. rewrite ED. reflexivity.
  - (* Grant *) rewrite (ON c0 eq_refl) in *. cbn [step].
    destruct (grant_local w s1 s2 c o sw EC) as [G1 G2].
    pose proof (copy_grant w s1 c o sw) as K1. pose proof (copy_grant w s2 c o sw) as K2.
    pose proof (decl_grant w s1 c o sw) as D1. pose proof (decl_grant w s2 c o sw) as D2.
    destruct (grant w s1 c o sw) as [t1 l1]. destruct (grant w s2 c o sw) as [t2 l2]. cbn [fst snd] in *.
    subst l2. split; [split; [exact G2 | split; congruence] | reflexivity].
  - (* Msg *) rewrite (ON c0 eq_refl) in *. cbn [step]. rewrite EC.
    destruct (negb (c_alive (get_conn s2 c))). { cbn [fst snd]. split; [exact V0 | reflexivity]. }
    destruct (clid =? broker_clid) eqn:BC.
    + destruct (broker_call m args) as [out fx] eqn:B. destruct fx; cbn [fst snd].
      * split; [exact V0 | reflexivity].
      * split; [apply SV | reflexivity].
      * exfalso. apply broker_call_lookup in B. subst m. cbn [is_lookup] in NL. rewrite BC in NL. discriminate.
      * split; [apply SV | reflexivity].
    + rewrite EK, ED. destruct (obj_call (eff w (s_decl s2)) (s_copy s2) (get_conn s2 c) clid m args) as [inst out]. cbn [fst snd].
      split; [|reflexivity]. destruct out; try exact V0. apply SV.
  - (* TopMsg *) rewrite (ON c0 eq_refl) in *. cbn [step]. rewrite EC. cbn [fst snd]. split; [exact V0 | reflexivity].
  - (* Drop *) rewrite (ON c0 eq_refl) in *. cbn [step]. rewrite EC. cbn [fst snd]. split; [apply SV | reflexivity].
Qed.

Definition no_lookup_on (c : cid) (h : list event) : Prop :=
  forall e, In e h -> relevant c e = true -> is_lookup e = false.

Lemma same_view_trans c s1 s2 s3 : same_view c s1 s2 -> same_view c s2 s3 -> same_view c s1 s3.
Proof. intros [A [B B']] [C [D D']]. split; [|split]; congruence. Qed.
Lemma same_view_sym c s1 s2 : same_view c s1 s2 -> same_view c s2 s1.
Proof. intros [A [B B']]. split; [|split]; congruence. Qed.

Lemma run_vs_projection w c h : forall s1 s2,
  same_view c s1 s2 -> no_lookup_on c h ->
  same_view c (fst (run w s1 h)) (fst (run w s2 (proj c h))) /\
  results_on c h (snd (run w s1 h)) = snd (run w s2 (proj c h)).
Proof.
  induction h as [|e h IH]; intros s1 s2 V NL.
  - cbn. split; [exact V | reflexivity].
  - assert (NL' : no_lookup_on c h) by (intros e' He' R'; apply NL; [right; exact He' | exact R']).
    cbn [run proj filter]. destruct (relevant c e) eqn:R.
    + cbn [run].
      destruct (relevant_deterministic w c s1 s2 e V R (NL e (or_introl eq_refl) R)) as [V1 E1].
      destruct (step w s1 e) as [t1 x1]. destruct (step w s2 e) as [t2 x2]. cbn [fst snd] in *. subst x2.
      specialize (IH t1 t2 V1 NL'). fold (proj c h) in *.
      destruct (run w t1 h) as [u1 xs1]. destruct (run w t2 (proj c h)) as [u2 xs2]. cbn [fst snd] in *.
      cbn [results_on]. rewrite R. destruct IH as [IH1 IH2]. split; [exact IH1 | rewrite IH2; reflexivity].
    + pose proof (irrelevant_preserves w c s1 e R) as V1.
      destruct (step w s1 e) as [t1 x1]. cbn [fst] in V1.
      specialize (IH t1 s2 (same_view_trans _ _ _ _ (same_view_sym _ _ _ V1) V) NL'). fold (proj c h) in *.
      destruct (run w t1 h) as [u1 xs1]. cbn [fst snd] in *. cbn [results_on]. rewrite R. exact IH.
Qed.

(* Connection-locality of object ids over all interleaved histories: two histories -- with arbitrary, different activity
   on the other connection (grants, releases, inbound messages, drops) and in the Tub's name table -- that agree on c's
   own events give c the same export table and the same outcome for every one of c's messages.  (A name lookup is the one
   message that reads Tub-wide state: the name table is shared by design.) *)
Theorem id_locality : forall w c h1 h2 s1 s2,
  same_view c s1 s2 -> no_lookup_on c h1 -> no_lookup_on c h2 -> proj c h1 = proj c h2 ->
  same_view c (fst (run w s1 h1)) (fst (run w s2 h2)) /\
  results_on c h1 (snd (run w s1 h1)) = results_on c h2 (snd (run w s2 h2)).
Proof.
  intros w c h1 h2 s1 s2 V N1 N2 P.
  destruct (run_vs_projection w c h1 s1 s2 V N1) as [A1 B1].
  destruct (run_vs_projection w c h2 s2 s2 (conj eq_refl (conj eq_refl eq_refl)) N2) as [A2 B2].
  rewrite P in A1, B1. split.
  - eapply same_view_trans; [exact A1 | apply same_view_sym; exact A2].
  - congruence.
Qed.

(* ------------------------------------------------------------------ the copyable registry *)
Lemma copy_origin_step w st e : forall n cls,
  In (n, cls) (s_copy (fst (step w st e))) -> In (n, cls) (s_copy st) \/ e = RegisterCopy n cls.
Proof.
  intros n cls Hin. destruct e as [n0 o sw|o|n0 cls0|n0 cls0 em|o d|n0 o|n0| |c o sw|c req clid m args|c t|c];
    try (left; rewrite step_copy in Hin by (split; intros; discriminate); exact Hin).
  - cbn [step fst] in Hin. destruct (is_some (sget n0 (s_copy st))); [left; exact Hin|].
    cbn [set_copy s_copy] in Hin. apply In_sset in Hin. destruct Hin as [E|Hin]; [right; inversion E; reflexivity | left; exact Hin].
  - (* a registration into a private registry never reaches the registry peers can name: this is where the translated
       default-registry test (`registry == None`) is used *)
    left. cbn [step fst] in Hin. unfold default_registry_test in Hin. exact Hin.
Qed.

Theorem copy_origin : forall w h st n cls,
  sget n (s_copy (fst (run w st h))) = Some cls ->
  In (n, cls) (s_copy st) \/ In (RegisterCopy n cls) h.
Proof.
  intros w h. induction h as [|e h IH]; intros st n cls G.
  - cbn in G. left. apply sget_In; exact G.
  - cbn [run] in G. pose proof (copy_origin_step w st e n cls) as S.
    destruct (step w st e) as [st1 x]. specialize (IH st1 n cls).
    destruct (run w st1 h) as [st2 xs]. cbn [fst] in *.
    destruct (IH G) as [H|H]; [|right; right; exact H].
    destruct (S H) as [H'|H']; [left; exact H' | right; left; exact H'].
Qed.

Lemma init_copy_names : forall n cls, In (n, cls) (s_copy init) -> In n copyable_names.
Proof.
  intros n cls. cbn [init s_copy]. generalize (-1). induction copyable_names as [|a l IH]; intros k H; cbn [number_from] in H.
  - destruct H.
  - destruct H as [E|H]; [inversion E; left; reflexivity | right; eapply IH; eauto].
Qed.

(* ------------------------------------------------------------------ where name-table entries come from *)
Definition names_event (n : string) (o : Z) (e : event) : Prop :=
  match e with
  | Register p o' sw => o' = o /\ n = (if str_empty p then sw else p)     (* registerReference *)
  | Grant _ o' sw => o' = o /\ n = sw                                      (* first send: getOrCreateURLForReference *)
  | Msg _ _ clid (MStr m) _ => n = ""%string /\ clid = broker_clid /\ m = "getReferenceByName"%string
       (* the reference sent back by a lookup: the object already has a name in every run observed; the model's
          placeholder for the swissnum it would otherwise draw is the empty string.
          CONSEQUENCE (review 2, item 3): as far as names_origin knows, the name "" may enter the table through ANY name
          lookup.  names_origin quantifies over arbitrary start states, and from a start state whose two name tables
          disagree that really happens in the model (empty_name_enters_by_lookup below), so the clause cannot be dropped
          there; this is the only reason why revoked_name_refused / unregistered_name_stays_refused carry the guard
          n <> "" (for n = "" their hypothesis "no names_event" would have to exclude every lookup message).
          Nothing is claimed about the name "". *)
  | _ => False
  end.

Lemma n2r_set_conn st c x : s_n2r (set_conn st c x) = s_n2r st.
Proof. destruct c; reflexivity. Qed.

Lemma assign_n2r st o p sw n o' :
  In (n, o') (s_n2r (assign_name st o p sw)) -> In (n, o') (s_n2r st) \/ (o = o' /\ n = (if str_empty p then sw else p)).
Proof.
  unfold assign_name. destruct (zget o (s_r2n st)); [auto|]. cbn [set_names s_n2r]. intros H.
  apply In_sset in H. destruct H as [E|H]; [right; inversion E; auto | left; exact H].
Qed.

Lemma grant_n2r w st c o sw n o' :
  In (n, o') (s_n2r (fst (grant w st c o sw))) -> In (n, o') (s_n2r st) \/ (o = o' /\ n = sw).
Proof.
  unfold grant. destruct (negb (c_alive (get_conn st c))); [auto|].
  destruct (match find_obj o (c_exports (get_conn st c)) with Some (k, rc) => _ | None => _ end) as [[clid rc] nxt].
  destruct (rc + tracker_send_incr =? 1); cbn [fst]; intros H.
  - apply assign_n2r in H. rewrite n2r_set_conn in H. cbn [str_empty] in H. exact H.
  - rewrite n2r_set_conn in H. auto.
Qed.

Lemma names_origin_step w st e n o :
  In (n, o) (s_n2r (fst (step w st e))) -> In (n, o) (s_n2r st) \/ names_event n o e.
Proof.
  destruct e as [p o' sw|o'|n0 cls|n0 cls em|o' d|n0 o'|n0| |c o' sw|c req clid m args|c t|c]; cbn [names_event].
  - cbn [step fst]. apply assign_n2r.
  - cbn [step fst]. intros H. left. destruct (zget o' (s_r2n st)); [|exact H].
    destruct (is_some _); [|exact H]. cbn [set_names s_n2r] in H. eapply In_sdel; eauto.
  - cbn [step fst]. intros H. left. destruct (is_some _); exact H.
  - cbn [step fst]. intros H. left. destruct default_registry_test; [exact H|]. destruct em; [|exact H]. destruct (is_some _); exact H.
  - cbn [step fst]. auto.
  - cbn [step fst]. auto.
  - cbn [step fst]. auto.
  - cbn [step fst]. auto.
  - cbn [step]. pose proof (grant_n2r w st c o' sw n o) as G. destruct (grant w st c o' sw). cbn [fst] in *. exact G.
  - destruct (step w st (Msg c req clid m args)) as [st' r] eqn:S. cbn [fst]. intros H.
    destruct (step_msg_shape _ _ _ _ _ _ _ _ _ S) as [[_ [E R]]|[[_ [BC [out [fx [B [Ho [_ F]]]]]]]|[_ [_ [inst [out [O [R E]]]]]]]].
    + subst. auto.
    + destruct fx as [| |nm|k0 cnt0].
      * destruct F as [E _]. subst. auto.
      * destruct F as [E _]. subst. rewrite n2r_set_conn in H. auto.
      * pose proof (found_name_lookup w st nm) as FN. apply broker_call_lookup in B. subst m.
        destruct (found_name w st nm) as [[o1 st0]|].
        -- destruct FN as [_ [EN _]]. destruct (req =? 0).
           ++ destruct F as [E _]. subst. rewrite EN in H. auto.
           ++ pose proof (grant_n2r w st0 c o1 "" n o) as G. rewrite F in G. cbn [fst] in G.
              destruct (G H) as [G1|[_ G2]]; [left; rewrite <- EN; exact G1 | right; auto].
        -- destruct F as [E _]. subst. auto.
      * destruct F as [E _]. subst. rewrite n2r_set_conn in H. auto.
    + subst st'. left. destruct out; try exact H. rewrite n2r_set_conn in H. exact H.
  - cbn [step fst]. auto.
  - cbn [step fst]. rewrite n2r_set_conn. auto.
Qed.

(* every entry of the name table was put there by registerReference or by the first send of the object: in particular a
   name that only a lookup handler ever answered is never in the table, so it stops resolving when the handler stops *)
Theorem names_origin : forall w h st n o,
  In (n, o) (s_n2r (fst (run w st h))) -> In (n, o) (s_n2r st) \/ exists e, In e h /\ names_event n o e.
Proof.
  intros w h. induction h as [|e h IH]; intros st n o H.
  - cbn in H. auto.
  - cbn [run] in H. pose proof (names_origin_step w st e n o) as S.
    destruct (step w st e) as [st1 x]. specialize (IH st1 n o).
    destruct (run w st1 h) as [st2 xs]. cbn [fst] in *.
    destruct (IH H) as [H1|[e' [He' Ne']]].
    + destruct (S H1) as [H2|H2]; [left; exact H2 | right; exists e; split; [left; reflexivity | exact H2]].
    + right. exists e'. split; [right; exact He' | exact Ne'].
Qed.

Theorem revoked_name_refused : forall w h st n,
  st = fst (run w init h) -> n <> ""%string ->
  (forall e, In e h -> forall o, ~ names_event n o e) -> sget n (s_h st) = None ->
  lookup_name w st n = None.
Proof.
  intros w h st n E NE NN HS. unfold lookup_name. destruct (sget n (s_n2r st)) as [o|] eqn:G; [|exact HS].
  exfalso. apply sget_In in G. subst st. destruct (names_origin w h init n o G) as [[]|[e [He Ne]]].
  eapply NN; eauto.
Qed.

(* ------------------------------------------------------------------ per-instance RemoteInterfaces *)
Lemma iface_of_spec w decl o :
  iface_of w decl o = match o_iface (w_obj w o) with Some l => Some l | None => zget o decl end.
Proof. unfold iface_of, interface_lookup. destruct (o_iface (w_obj w o)); reflexivity. Qed.

(* an object that exposes a RemoteInterface -- declared by its class or on the instance itself -- is entered only through
   the methods of that interface, whatever other instances of its class expose *)
Theorem instance_interface_enforced : forall w st c req clid m args st' r o a l,
  step w st (Msg c req clid m args) = (st', r) -> r_out r = Enter (EObj o a) ->
  match o_iface (w_obj w o) with Some l' => Some l' | None => zget o (s_decl st) end = Some l ->
  exists s, m = MStr s /\ a = (remote_prefix ++ s)%string /\ In s l.
Proof.
  intros w st c req clid m args st' r o a l H Hout HI. rewrite <- iface_of_spec in HI.
  destruct (calls_sound _ _ _ _ _ _ _ _ _ _ H Hout) as [_ [[_ [s [_ [_ E]]]]|[[_ [o' [_ E]]]|[_ [o' [s [_ [M [E [_ I]]]]]]]]]];
    try discriminate.
  inversion E; subst. exists s. split; [reflexivity|]. split; [reflexivity|]. apply I. exact HI.
Qed.

(* the declaration table is changed by Declare events on that very object only: using, sending or calling any other
   object -- in particular another instance of the same class -- never changes what an object exposes *)
Lemma decl_origin_step w st e o l :
  In (o, l) (s_decl (fst (step w st e))) -> In (o, l) (s_decl st) \/ e = Declare o (Some l).
Proof.
  intros H. destruct e as [n o0 sw|o0|n cls|n cls em|o0 d|n o0|n| |c o0 sw|c req clid m args|c t|c];
    try (left; rewrite step_decl in H by (intros; discriminate); exact H).
  cbn [step fst s_decl] in H. destruct d as [l0|].
  - apply In_zset in H. destruct H as [E|H]; [right; inversion E; reflexivity | left; exact H].
  - left. eapply In_zdel; eauto.
Qed.

Theorem decl_origin : forall w h st o l,
  zget o (s_decl (fst (run w st h))) = Some l -> In (o, l) (s_decl st) \/ In (Declare o (Some l)) h.
Proof.
  intros w h. induction h as [|e h IH]; intros st o l G.
  - cbn in G. left. apply zget_In; exact G.
  - cbn [run] in G. pose proof (decl_origin_step w st e o l) as S.
    destruct (step w st e) as [st1 x]. specialize (IH st1 o l).
    destruct (run w st1 h) as [st2 xs]. cbn [fst] in *.
    destruct (IH G) as [H|H]; [|right; right; exact H].
    destruct (S H) as [H'|H']; [left; exact H' | right; left; exact H'].
Qed.

(* ------------------------------------------------------------------ non-vacuity: the hypotheses above are met by real runs *)
Definition ex_world : world :=
  {| w_obj := fun o => if o =? 1 then {| o_kind := KObj; o_attrs := ["remote_hi"; "secret"]%string; o_iface := None |}
                       else if o =? 2 then {| o_kind := KObj; o_attrs := ["remote_hi"; "remote_x"]%string; o_iface := Some ["hi"%string] |}
                       else {| o_kind := KCallable; o_attrs := []; o_iface := None |} |}.
Definition ex_hist : list event :=
  [Register "pub" 2 "sw0"; RegisterCopy "my.rc" 7; Grant CA 1 "sw0"; Grant CB 3 "sw1";
   Msg CA 1 1 (MStr "hi") [ACopyable "my.rc"; AYourRef 0; AOpen "list"];      (* enters remote_hi of 1, instantiates 7 *)
   Msg CA 2 1 (MStr "secret") [];                                            (* refused: no remote_secret *)
   Msg CB 1 1 (MStr "hi") [];                                                (* refused: 1 is A's id; on B it is unknown *)
   Msg CB 2 (-1) (MStr "anything") [];                                       (* enters the callable 3 *)
   Msg CA 3 0 (MStr "getReferenceByName") [ABytes (MStr "pub")];             (* grants 2 on A as clid 2 *)
   Msg CA 4 2 (MStr "x") [];                                                 (* refused: x is not in 2's interface *)
   Msg CA 5 0 (MStr "decref") [AInt 1; AInt 1];                              (* releases clid 1 *)
   Msg CA 6 1 (MStr "hi") [];                                                (* refused: stale *)
   Msg CA 7 2 (MStr "hi") [AYourRef 9];                                      (* unknown your-reference: that request is refused *)
   Msg CA 8 2 (MStr "hi") [AYourRef (-3)]]%string.                           (* a NEG token in a your-reference: protocol error, dropped *)
Definition codes (rs : list result) : list (Z * list Z) :=
  map (fun r => (match r_out r with Enter (EBroker _) => 1 | Enter (EObj o _) => 10 + o | Enter (ECallable o) => 20 + o
                                   | Reject => 4 | Aborted => 5 | Dead => 6 | Local => 7 end, r_inst r)) rs.
Example ex_run :
  codes (snd (run ex_world init ex_hist)) =
  [(7, []); (7, []); (7, []); (7, []); (11, [7]); (4, []); (4, []); (23, []); (1, []); (4, []); (1, []); (4, []); (4, []); (5, [])] /\
  c_exports (s_b (fst (run ex_world init ex_hist))) = [(-1, (3, 1))] /\
  c_alive (s_a (fst (run ex_world init ex_hist))) = false.
Proof. vm_compute. repeat split. Qed.

(* two histories with different traffic on B and in the name table, same events on A: id_locality applies non-trivially *)
Definition ex_h1 : list event :=
  [Grant CA 1 "s0"; Grant CB 2 "s1"; Msg CB 1 1 (MStr "hi") []; Msg CA 1 1 (MStr "hi") []; Msg CA 2 0 (MStr "decref") [AInt 1; AInt 1]]%string.
Definition ex_h2 : list event :=
  [Register "pub" 2 "s9"; Grant CA 1 "s0"; Drop CB; Msg CA 1 1 (MStr "hi") []; Unregister 2; Msg CA 2 0 (MStr "decref") [AInt 1; AInt 1]]%string.
Example ex_locality_hyps :
  proj CA ex_h1 = proj CA ex_h2 /\ List.length (proj CA ex_h1) = 3%nat /\
  forallb (fun e => negb (relevant CA e && is_lookup e)) (ex_h1 ++ ex_h2) = true /\
  codes (results_on CA ex_h1 (snd (run ex_world init ex_h1))) = [(7, []); (11, []); (1, [])].
Proof. vm_compute. repeat split. Qed.

(* ------------------------------------------------------------------ unregisterReference revokes the name (review 2, item 2) *)
Lemma sget_sdel_same {V} n (l : list (string * V)) : sget n (sdel n l) = None.
Proof.
  induction l as [|[k v] l IH]; [reflexivity|]. cbn [sdel]. destruct (String.eqb n k) eqn:E; [exact IH|].
  cbn [sget]. rewrite E. exact IH.
Qed.
Lemma sget_sdel_other {V} n n' (l : list (string * V)) : n' <> n -> sget n' (sdel n l) = sget n' l.
Proof.
  intros NE. induction l as [|[k v] l IH]; [reflexivity|]. cbn [sdel]. destruct (String.eqb n k) eqn:E.
  - apply String.eqb_eq in E. subst k. cbn [sget]. destruct (String.eqb n' n) eqn:E2; [apply String.eqb_eq in E2; contradiction|exact IH].
  - cbn [sget]. destruct (String.eqb n' k); [reflexivity|exact IH].
Qed.
Lemma zget_zdel_same' {V} k (l : list (Z * V)) : zget k (zdel k l) = None.
Proof.
  induction l as [|[k' v] l IH]; [reflexivity|]. cbn [zdel]. destruct (k =? k') eqn:E; [exact IH|]. cbn [zget]. rewrite E. exact IH.
Qed.
Lemma sget_none_not_in {V} n (v : V) l : sget n l = None -> ~ In (n, v) l.
Proof.
  induction l as [|[k v'] l IH]; intros G H; [destruct H|]. cbn [sget] in G. destruct (String.eqb n k) eqn:E; [discriminate|].
  destruct H as [H|H]; [inversion H; subst; rewrite String.eqb_refl in E; discriminate | exact (IH G H)].
Qed.

(* tub.unregisterReference(o), for an object registered under n (both tables know it): afterwards the name table has no
   entry for n, the object has no name, only the application's lookup handler could still answer n, every other name resolves
   as before.  (A model whose Unregister does nothing violates the first three conjuncts.) *)
Theorem unregister_revokes : forall w st o n,
  zget o (s_r2n st) = Some n -> is_some (sget n (s_n2r st)) = true ->
  let st' := fst (step w st (Unregister o)) in
  sget n (s_n2r st') = None /\ zget o (s_r2n st') = None /\ lookup_name w st' n = sget n (s_h st) /\ (forall n', n' <> n -> lookup_name w st' n' = lookup_name w st n') /\ s_a st' = s_a st /\ s_b st' = s_b st.
Proof.
  intros w st o n R N. cbn [step fst]. rewrite R, N. cbn [set_names s_n2r s_r2n s_h s_a s_b]. unfold lookup_name. cbn [set_names s_n2r s_h].
  rewrite sget_sdel_same, zget_zdel_same'. repeat split; auto.
  intros n' NE. rewrite (sget_sdel_other n n' _ NE). reflexivity.
Qed.

(* ... and it STAYS revoked, on every connection, whatever happens afterwards, until the application publishes that name again
   (registerReference / a first send that draws it) or its handler serves it.  n <> "": see names_event. *)
Theorem unregistered_name_stays_refused : forall w st o n h,
  zget o (s_r2n st) = Some n -> is_some (sget n (s_n2r st)) = true -> n <> ""%string ->
  (forall e, In e h -> forall o', ~ names_event n o' e) ->
  let st2 := fst (run w (fst (step w st (Unregister o))) h) in
  sget n (s_h st2) = None -> lookup_name w st2 n = None.
Proof.
  intros w st o n h R N NE NN st2 HS. destruct (unregister_revokes w st o n R N) as [G _].
  unfold lookup_name. destruct (sget n (s_n2r st2)) as [o2|] eqn:G2; [|exact HS].
  exfalso. apply sget_In in G2. destruct (names_origin w h _ n o2 G2) as [H|[e [He Ne]]].
  - exact (sget_none_not_in _ _ _ G H).
  - exact (NN e He o2 Ne).
Qed.

(* the region the guard excludes: an object that only the lookup HANDLER ever answered has a name in referenceToName but none in
   nameToReference; unregisterReference then does nothing (in the code: KeyError at `del self.nameToReference[name]`) and
   the name keeps resolving for as long as the handler serves it -- revoking it is the handler's business (revoked_name_refused) *)
Theorem unregister_handler_name_refuted :
  exists w st o n, zget o (s_r2n st) = Some n /\ is_some (sget n (s_n2r st)) = false /\                  lookup_name w (fst (step w st (Unregister o))) n = Some o.
Proof.
  exists ex_world,
    (fst (run ex_world init [Serve "dyn" 1; Msg CA 1 0 (MStr "getReferenceByName") [ABytes (MStr "dyn")]]%string)), 1, "dyn"%string.
  vm_compute. auto.
Qed.

Example ex_unregister_revokes :
  let st := fst (run ex_world init [Register "pub" 2 "sw0"]%string) in
  zget 2 (s_r2n st) = Some "pub"%string /\ is_some (sget "pub"%string (s_n2r st)) = true /\ lookup_name ex_world st "pub" = Some 2 /\ lookup_name ex_world (fst (step ex_world st (Unregister 2))) "pub" = None.
Proof. vm_compute. auto. Qed.

(* why names_event needs its third clause (and the theorems above their guard n <> ""): from a start state whose name tables
   disagree -- "pub" -> 1 in nameToReference, nothing in referenceToName -- a lookup of "pub" with an answer wanted sends object 1
   for the first time, and the model's placeholder name "" enters the table.  No such state is reached from init in any run
   observed (the correspondence compares the name table after every history). *)
Example empty_name_enters_by_lookup :
  let st := set_names init [("pub"%string, 1)] [] in
  In (""%string, 1) (s_n2r (fst (step ex_world st (Msg CA 1 0 (MStr "getReferenceByName") [ABytes (MStr "pub")])))).
Proof. vm_compute. auto. Qed.

(* ---------- round 7: class DEFINITIONS (metaclass RemoteCopyClass.__init__, translated: metaclass_registers) *)
(* a class that opts out of being received -- copytype = None, copytype = "" -- or whose definition fails (no copytype) amounts to
   no registration at all, whatever its typeToCopy, whatever registry it names *)
Theorem optout_class_not_registered : forall ttc priv em cls,
  define_class CtNone ttc priv em cls = [] /\ define_class CtAbsent ttc priv em cls = [] /\
  define_class (CtStr ""%string) ttc priv em cls = [].
Proof. intros. split; [|split]; reflexivity. Qed.

(* a class definition registers the class under its (non-empty) copytype and under nothing else -- in particular not under
   its typeToCopy -- and in the registry it names *)
Theorem class_definition_registers_copytype_only : forall ct ttc priv em cls e,
  In e (define_class ct ttc priv em cls) ->
  exists n, ct = CtStr n /\ n <> ""%string /\ e = (if priv then RegisterCopyPriv n cls em else RegisterCopy n cls).
Proof.
  intros ct ttc priv em cls e H. unfold define_class, metaclass_registers in H.
  destruct ct as [| |s]; cbn [In] in H; try contradiction.
  destruct s as [|a s']; cbn [str_truthy In] in H; try contradiction.
  destruct H as [H|H]; [|contradiction].
  exists (String a s'). split; [reflexivity|]. split; [discriminate|]. symmetry. exact H.
Qed.

(* so an opted-out class leaves every state as it is *)
Theorem optout_class_inert : forall w st ttc priv em cls,
  run w st (define_class CtNone ttc priv em cls) = (st, []).
Proof. intros. reflexivity. Qed.

Example ex_define_class_registers :
  define_class (CtStr "my.rc") (Some "my.sent-as"%string) false false 1 = [RegisterCopy "my.rc" 1] /\
  define_class (CtStr "my.rc") None true true 2 = [RegisterCopyPriv "my.rc" 2 true] /\
  define_class CtNone (Some "my.sent-as"%string) false false 1 = [].
Proof. vm_compute. auto. Qed.
