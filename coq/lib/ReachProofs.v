(* C06: proofs about lib/Reach.v *)
From Coq Require Import ZArith List String Bool Lia Ascii NArith.
Import ListNotations.
Require Import Verif.lib.PyLite Verif.gen.ReachGen Verif.lib.Reach.
Local Open Scope Z_scope.

Lemma swissnum_bits : 128 <= NAMEBITS.
Proof. unfold NAMEBITS. lia. Qed.
