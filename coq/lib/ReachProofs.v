(* C06: proofs about lib/Reach.v *)
From Coq Require Import ZArith List String Bool Lia Ascii NArith.
Import ListNotations.
Require Import Verif.lib.PyLite Verif.gen.ReachGen Verif.lib.Reach.
Local Open Scope Z_scope.

(* ------------------------------------------------------------------ facts read off the translated source *)
Lemma swissnum_bits : 128 <= NAMEBITS.
Proof. unfold NAMEBITS. lia. Qed.

Lemma remote_prefix_is : remote_prefix = "remote_"%string.
Proof. reflexivity. Qed.

Lemma broker_clid_is : broker_clid = 0.
Proof. reflexivity. Qed.

Lemma broker_methods_pinned :
  broker_methods = ["getReferenceByName"; "decref"; "decgift"]%string /\
  broker_remote_attrs = map (fun m => remote_prefix ++ m)%string ["decref"; "decgift"; "getReferenceByName"]%string.
Proof. split; reflexivity. Qed.

Lemma top_types_pinned : top_types = [["answer"]; ["call"]; ["error"]]%string.
Proof. reflexivity. Qed.

(* every OPEN type accepted below the top level builds plain data or one of the four reference forms *)
Definition data_types : list (list string) :=
  [["arguments"]; ["boolean"]; ["decimal"]; ["dict"]; ["immutable-set"]; ["list"]; ["my-reference"]; ["none"];
   ["reference"]; ["set"]; ["their-reference"]; ["tuple"]; ["unicode"]; ["your-reference"]]%string.
Lemma open_types_closed : forallb (fun k => mem_type k data_types) open_types = true.
Proof. reflexivity. Qed.
Lemma no_code_types :
  forallb (fun t => negb (mem_type [t] open_types))
          ["instance"; "class"; "module"; "function"; "method"; "call"; "answer"; "error"; "copyable"]%string = true.
Proof. reflexivity. Qed.

(* ------------------------------------------------------------------ association lists *)
Lemma zget_In {V} k (v : V) l : zget k l = Some v -> In (k, v) l.
Proof.
  induction l as [|[k' v'] l IH]; cbn [zget]; [discriminate|].
  destruct (k =? k') eqn:E; intros H.
  - apply Z.eqb_eq in E. inversion H; subst. left; reflexivity.
  - right; auto.
Qed.

Lemma In_zdel {V} k (x : Z * V) l : In x (zdel k l) -> In x l.
Proof.
  induction l as [|[k' v'] l IH]; cbn [zdel]; [tauto|].
  destruct (k =? k'); cbn [In]; intros H; [right; auto | destruct H; [left; auto | right; auto]].
Qed.

Lemma In_zset {V} k (v : V) x l : In x (zset k v l) -> x = (k, v) \/ In x l.
Proof. unfold zset. cbn [In]. intros [H|H]; [left; auto | right; eapply In_zdel; eauto]. Qed.

Lemma sget_In {V} k (v : V) l : sget k l = Some v -> In (k, v) l.
Proof.
  induction l as [|[k' v'] l IH]; cbn [sget]; [discriminate|].
  destruct (String.eqb k k') eqn:E; intros H.
  - apply String.eqb_eq in E. inversion H; subst. left; reflexivity.
  - right; auto.
Qed.

Lemma In_sdel {V} k (x : string * V) l : In x (sdel k l) -> In x l.
Proof.
  induction l as [|[k' v'] l IH]; cbn [sdel]; [tauto|].
  destruct (String.eqb k k'); cbn [In]; intros H; [right; auto | destruct H; [left; auto | right; auto]].
Qed.

Lemma In_sset {V} k (v : V) x l : In x (sset k v l) -> x = (k, v) \/ In x l.
Proof. unfold sset. cbn [In]. intros [H|H]; [left; auto | right; eapply In_sdel; eauto]. Qed.

Lemma mem_str_In s l : mem_str s l = true <-> In s l.
Proof.
  unfold mem_str. rewrite existsb_exists. split.
  - intros [x [H1 H2]]. apply String.eqb_eq in H2. subst; auto.
  - intros H. exists s. split; auto. apply String.eqb_refl.
Qed.

Lemma find_obj_In o l k rc : find_obj o l = Some (k, rc) -> In (k, (o, rc)) l.
Proof.
  induction l as [|[k' [o' rc']] l IH]; cbn [find_obj]; [discriminate|].
  destruct (o =? o') eqn:E; intros H.
  - apply Z.eqb_eq in E. inversion H; subst. left; reflexivity.
  - right; auto.
Qed.

Lemma prefix_app p s : String.prefix p (p ++ s) = true.
Proof.
  induction p as [|a p IH]; cbn.
  - destruct s; reflexivity.
  - destruct (ascii_dec a a); [exact IH | congruence].
Qed.

(* the translated ReferenceableTracker.decref *)
Lemma tracker_decref_spec n rc done rc' :
  tracker_decref n rc = Ok (done, rc') -> rc' = rc - n /\ 0 <= rc' /\ (done = true <-> rc' = 0).
Proof.
  unfold tracker_decref. destruct (Z.geb rc n) eqn:G; [|discriminate].
  rewrite Z.geb_leb in G. apply Z.leb_le in G.
  destruct (Z.eqb (rc - n) 0) eqn:E; intros H; inversion H; subst.
  - apply Z.eqb_eq in E. repeat split; try lia; auto.
  - apply Z.eqb_neq in E. repeat split; try lia; intros; try discriminate; lia.
Qed.

(* ------------------------------------------------------------------ argument processing *)
Lemma do_args_inst copy ex args : forall inst0 inst,
  (do_args copy ex args inst0 = ArgsOk inst \/ exists r, do_args copy ex args inst0 = ArgsFail inst r) ->
  forall cls, In cls inst -> In cls inst0 \/ exists n, In (ACopyable n) args /\ sget n copy = Some cls.
Proof.
  induction args as [|a args IH]; intros inst0 inst H cls Hin.
  - cbn [do_args] in H. destruct H as [H|[r H]]; [inversion H; subst; auto | discriminate].
  - cbn [do_args] in H. destruct a as [v|s|k|n|t].
    + destruct (IH _ _ H cls Hin) as [?|[n [? ?]]]; [auto | right; exists n; split; [right; auto | auto]].
    + destruct (IH _ _ H cls Hin) as [?|[n [? ?]]]; [auto | right; exists n; split; [right; auto | auto]].
    + destruct ((k <? 0) && negb yourref_accepts_neg).
      { destruct H as [H|[r H]]; [discriminate | inversion H; subst; auto]. }
      destruct ((k =? broker_clid) || is_some (zget k ex)).
      * destruct (IH _ _ H cls Hin) as [?|[n [? ?]]]; [auto | right; exists n; split; [right; auto | auto]].
      * destruct clid_lookup; destruct H as [H|[r H]]; try discriminate; inversion H; subst; auto.
    + destruct (sget n copy) as [c|] eqn:E.
      * destruct (IH _ _ H cls Hin) as [Hc|[n' [? ?]]].
        -- apply in_app_or in Hc. destruct Hc as [?|[?|[]]]; [auto|]. subst.
           right; exists n; split; [left; auto | auto].
        -- right; exists n'; split; [right; auto | auto].
      * destruct H as [H|[r H]]; [discriminate | inversion H; subst; auto].
    + destruct (mem_type [t] open_types).
      * destruct (IH _ _ H cls Hin) as [?|[n [? ?]]]; [auto | right; exists n; split; [right; auto | auto]].
      * destruct H as [H|[r H]]; [discriminate | inversion H; subst; auto].
Qed.

(* a call whose arguments were all accepted used only open types of the closed registry, only registered copyable
   names and only your-references this connection's table (or 0) resolves *)
Lemma do_args_ok copy ex args : forall inst0 inst, do_args copy ex args inst0 = ArgsOk inst ->
  (forall t, In (AOpen t) args -> mem_type [t] open_types = true) /\
  (forall n, In (ACopyable n) args -> exists c, sget n copy = Some c) /\
  (forall k, In (AYourRef k) args -> k = broker_clid \/ exists v, zget k ex = Some v).
Proof.
  induction args as [|a args IH]; intros inst0 inst H.
  - split; [|split]; intros ? [].
  - cbn [do_args] in H. destruct a as [v|s|k|n|t].
    + destruct (IH _ _ H) as [A [B C]]. split; [|split]; intros x [Hx|Hx]; try discriminate; auto.
    + destruct (IH _ _ H) as [A [B C]]. split; [|split]; intros x [Hx|Hx]; try discriminate; auto.
    + destruct ((k <? 0) && negb yourref_accepts_neg); [discriminate|].
      destruct ((k =? broker_clid) || is_some (zget k ex)) eqn:E; [|destruct clid_lookup; discriminate].
      destruct (IH _ _ H) as [A [B C]]. split; [|split]; intros x [Hx|Hx]; try discriminate; auto.
      inversion Hx; subst. apply orb_true_iff in E. destruct E as [E|E].
      * left. apply Z.eqb_eq; auto.
      * right. destruct (zget x ex) as [v|]; [exists v; auto | discriminate].
    + destruct (sget n copy) as [c|] eqn:E; [|discriminate].
      destruct (IH _ _ H) as [A [B C]]. split; [|split]; intros x [Hx|Hx]; try discriminate; auto.
      inversion Hx; subst. exists c; auto.
    + destruct (mem_type [t] open_types) eqn:E; [|discriminate].
      destruct (IH _ _ H) as [A [B C]]. split; [|split]; intros x [Hx|Hx]; try discriminate; auto.
      inversion Hx; subst. auto.
Qed.

(* ------------------------------------------------------------------ dispatch *)
Lemma broker_call_enter m args e fx :
  broker_call m args = (Enter e, fx) ->
  exists s, m = MStr s /\ In s broker_methods /\ e = EBroker (remote_prefix ++ s) /\
            In (remote_prefix ++ s)%string broker_remote_attrs.
Proof.
  unfold broker_call. destruct m as [s|]; [|discriminate].
  destruct (iface_enforced && negb (mem_str s broker_methods)) eqn:E1; [discriminate|].
  destruct (negb (mem_str (remote_prefix ++ s) broker_remote_attrs)) eqn:E2; [discriminate|].
  apply negb_false_iff in E2. apply mem_str_In in E2.
  assert (Hin : In s broker_methods).
  { unfold iface_enforced in E1. cbn [andb] in E1. apply negb_false_iff in E1. apply mem_str_In; auto. }
  intros H. exists s. split; [reflexivity|]. split; [exact Hin|]. split; [|exact E2].
  destruct (String.eqb s "getReferenceByName").
  { destruct args as [|[v|b|k|n|t] [|? ?]]; try discriminate. inversion H; reflexivity. }
  destruct (String.eqb s "decref").
  { destruct args as [|[v|b|k|n|t] [|[v2|b2|k2|n2|t2] [|? ?]]]; try discriminate. inversion H; reflexivity. }
  destruct (String.eqb s "decgift").
  { destruct args as [|[v|b|k|n|t] [|[v2|b2|k2|n2|t2] [|? ?]]]; try discriminate. inversion H; reflexivity. }
  discriminate.
Qed.

Lemma broker_call_fx m args out fx :
  broker_call m args = (out, fx) ->
  (out = Reject -> fx = FxNone) /\ (out = Aborted <-> fx = FxDrop) /\ out <> Dead /\ out <> Local.
Proof.
  unfold broker_call. destruct m as [s|].
  2:{ intros H; inversion H; subst. repeat split; auto; discriminate. }
  destruct (iface_enforced && negb (mem_str s broker_methods)).
  { intros H; inversion H; subst. repeat split; auto; discriminate. }
  destruct (negb (mem_str (remote_prefix ++ s) broker_remote_attrs)).
  { intros H; inversion H; subst. repeat split; auto; discriminate. }
  destruct (String.eqb s "getReferenceByName").
  { destruct args as [|[v|[nm|]|k|n|t] [|? ?]]; intros H; inversion H; subst; repeat split; auto; discriminate. }
  destruct (String.eqb s "decref").
  { destruct args as [|[v|b|k|n|t] [|[v2|b2|k2|n2|t2] [|? ?]]]; intros H; inversion H; subst; repeat split; auto; discriminate. }
  destruct (String.eqb s "decgift").
  { destruct args as [|[v|b|k|n|t] [|[v2|b2|k2|n2|t2] [|? ?]]]; intros H; inversion H; subst; repeat split; auto; discriminate. }
  intros H; inversion H; subst. repeat split; auto; discriminate.
Qed.

Lemma obj_call_enter w copy cn clid m args inst e :
  obj_call w copy cn clid m args = (inst, Enter e) ->
  exists o rc, zget clid (c_exports cn) = Some (o, rc) /\
  ((clid < 0 /\ e = ECallable o) \/
   (0 <= clid /\ exists s, m = MStr s /\ e = EObj o (remote_prefix ++ s) /\
      In (remote_prefix ++ s)%string (o_attrs (w_obj w o)) /\
      (forall l, o_iface (w_obj w o) = Some l -> In s l))) /\
  do_args copy (c_exports cn) args [] = ArgsOk inst.
Proof.
  unfold obj_call. destruct (zget clid (c_exports cn)) as [[o rc]|] eqn:G.
  2:{ destruct clid_lookup; [destruct call_unknown_clid|]; discriminate. }
  intros H. exists o, rc. split; [reflexivity|].
  unfold negative_clid_ignores_name in H. rewrite andb_true_r in H.
  destruct (clid <? 0) eqn:S.
  - apply Z.ltb_lt in S. destruct (do_args copy (c_exports cn) args []) as [i|i r] eqn:D.
    + inversion H; subst. split; [left; auto | reflexivity].
    + destruct r; discriminate.
  - apply Z.ltb_ge in S. destruct m as [s|]; [|discriminate].
    unfold iface_enforced in H. cbn [andb] in H.
    destruct (match o_iface (w_obj w o) with Some l => negb (mem_str s l) | None => false end) eqn:I; [discriminate|].
    destruct (do_args copy (c_exports cn) args []) as [i|i r] eqn:D; [|destruct r; discriminate].
    destruct (mem_str (remote_prefix ++ s) (o_attrs (w_obj w o))) eqn:A; [|discriminate].
    inversion H; subst. split; [|reflexivity]. right. split; [auto|]. exists s.
    split; [reflexivity|]. split; [reflexivity|]. split; [apply mem_str_In; auto|].
    intros l Hl. rewrite Hl in I. apply negb_false_iff in I. apply mem_str_In; auto.
Qed.

Lemma obj_call_kinds w copy cn clid m args inst out : obj_call w copy cn clid m args = (inst, out) -> out <> Dead /\ out <> Local.
Proof.
  unfold obj_call. destruct (zget clid (c_exports cn)) as [[o rc]|].
  2:{ destruct clid_lookup; [destruct call_unknown_clid|]; intros H; inversion H; split; discriminate. }
  destruct ((clid <? 0) && negative_clid_ignores_name).
  { destruct (do_args copy (c_exports cn) args []) as [i|i r]; [|destruct r]; intros H; inversion H; split; discriminate. }
  destruct m as [s|]; [|intros H; inversion H; split; discriminate].
  destruct (iface_enforced && _); [intros H; inversion H; split; discriminate|].
  destruct (do_args copy (c_exports cn) args []) as [i|i r]; [|destruct r; intros H; inversion H; split; discriminate].
  destruct (mem_str _ _); intros H; inversion H; split; discriminate.
Qed.

(* ------------------------------------------------------------------ one inbound call *)
Definition exported (st : state) (c : cid) (clid o : Z) : Prop :=
  exists rc, zget clid (c_exports (get_conn st c)) = Some (o, rc).

Theorem calls_sound : forall w st c req clid m args st' r e,
  step w st (Msg c req clid m args) = (st', r) -> r_out r = Enter e ->
  c_alive (get_conn st c) = true /\
  ((clid = 0 /\ exists s, m = MStr s /\ In s broker_methods /\ e = EBroker (remote_prefix ++ s)) \/
   (clid < 0 /\ exists o, exported st c clid o /\ e = ECallable o) \/
   (0 < clid /\ exists o s, exported st c clid o /\ m = MStr s /\ e = EObj o (remote_prefix ++ s) /\
        In (remote_prefix ++ s)%string (o_attrs (w_obj w o)) /\
        (forall l, o_iface (w_obj w o) = Some l -> In s l))).
Proof.
  intros w st c req clid m args st' r e H Hout. cbn [step] in H.
  destruct (negb (c_alive (get_conn st c))) eqn:AL.
  { inversion H; subst. discriminate. }
  apply negb_false_iff in AL. split; [exact AL|].
  destruct (clid =? broker_clid) eqn:BC.
  - apply Z.eqb_eq in BC. unfold broker_clid in BC. left. split; [exact BC|].
    destruct (broker_call m args) as [out fx] eqn:B.
    assert (out = Enter e).
    { destruct fx; try (inversion H; subst; exact Hout).
      destruct (found_name w st n) as [[o st0]|]; [|inversion H; subst; exact Hout].
      destruct (req =? 0); [inversion H; subst; exact Hout|].
      destruct (grant w st0 c o "") as [s2 sent]. inversion H; subst. exact Hout. }
    subst out. destruct (broker_call_enter _ _ _ _ B) as [s [? [? [? ?]]]]. exists s; auto.
  - apply Z.eqb_neq in BC. unfold broker_clid in BC.
    destruct (obj_call w (s_copy st) (get_conn st c) clid m args) as [inst out] eqn:O.
    inversion H; subst. cbn [r_out] in Hout. subst out.
    destruct (obj_call_enter _ _ _ _ _ _ _ _ O) as [o [rc [G [[[S E]|[S [s [M [E [A I]]]]]] D]]]].
    + right; left. split; [exact S|]. exists o. split; [exists rc; exact G | exact E].
    + right; right. split; [lia|]. exists o, s. split; [exists rc; exact G|]. auto.
Qed.

(* only attributes carrying the "remote_" prefix are ever looked up on an application object or on the broker *)
Theorem entered_attr_prefixed : forall w st c req clid m args st' r,
  step w st (Msg c req clid m args) = (st', r) ->
  (forall o a, r_out r = Enter (EObj o a) -> String.prefix "remote_" a = true) /\
  (forall a, r_out r = Enter (EBroker a) -> String.prefix "remote_" a = true).
Proof.
  intros w st c req clid m args st' r H. split.
  - intros o a Hout. destruct (calls_sound _ _ _ _ _ _ _ _ _ _ H Hout) as [_ [[_ [s [_ [_ E]]]]|[[_ [o' [_ E]]]|[_ [o' [s [_ [_ [E _]]]]]]]]];
      try discriminate. inversion E; subst. exact (prefix_app "remote_" s).
  - intros a Hout. destruct (calls_sound _ _ _ _ _ _ _ _ _ _ H Hout) as [_ [[_ [s [_ [_ E]]]]|[[_ [o' [_ E]]]|[_ [o' [s [_ [_ [E _]]]]]]]]];
      try discriminate. inversion E; subst. exact (prefix_app "remote_" s).
Qed.

(* instances are created only of classes registered for pass-by-copy, under the names the message carries *)
Theorem classes_sound : forall w st c req clid m args st' r cls,
  step w st (Msg c req clid m args) = (st', r) -> In cls (r_inst r) ->
  exists n, In (ACopyable n) args /\ sget n (s_copy st) = Some cls.
Proof.
  intros w st c req clid m args st' r cls H Hin. cbn [step] in H.
  destruct (negb (c_alive (get_conn st c))). { inversion H; subst. destruct Hin. }
  destruct (clid =? broker_clid).
  - destruct (broker_call m args) as [out fx].
    destruct fx; try (inversion H; subst; destruct Hin).
    destruct (found_name w st n) as [[o st0]|]; [|inversion H; subst; destruct Hin].
    destruct (req =? 0); [inversion H; subst; destruct Hin|].
    destruct (grant w st0 c o "") as [s2 sent]. inversion H; subst. destruct Hin.
  - destruct (obj_call w (s_copy st) (get_conn st c) clid m args) as [inst out] eqn:O.
    inversion H; subst. cbn [r_inst] in Hin. clear H.
    unfold obj_call in O. destruct (zget clid (c_exports (get_conn st c))) as [[o rc]|].
    2:{ inversion O; subst. destruct Hin. }
    assert (D : forall i x, (do_args (s_copy st) (c_exports (get_conn st c)) args [] = ArgsOk i \/
                             exists r, do_args (s_copy st) (c_exports (get_conn st c)) args [] = ArgsFail i r) ->
                            In x i -> exists n, In (ACopyable n) args /\ sget n (s_copy st) = Some x).
    { intros i x Hd Hx. destruct (do_args_inst _ _ _ _ _ Hd x Hx) as [[]|?]; auto. }
    destruct ((clid <? 0) && negative_clid_ignores_name).
    { destruct (do_args (s_copy st) (c_exports (get_conn st c)) args []) as [i|i r0] eqn:E; inversion O; subst.
      - eapply D; eauto.
      - eapply D; eauto. }
    destruct m as [s|]; [|inversion O; subst; destruct Hin].
    destruct (iface_enforced && _); [inversion O; subst; destruct Hin|].
    destruct (do_args (s_copy st) (c_exports (get_conn st c)) args []) as [i|i r0] eqn:E.
    + destruct (mem_str _ _); inversion O; subst; eapply D; eauto.
    + inversion O; subst. eapply D; eauto.
Qed.

(* the shape of one inbound call, used by the theorems below *)
Lemma step_msg_shape : forall w st c req clid m args st' r,
  step w st (Msg c req clid m args) = (st', r) ->
  (c_alive (get_conn st c) = false /\ st' = st /\ r = res0 Dead) \/
  (c_alive (get_conn st c) = true /\ clid = broker_clid /\ exists out fx, broker_call m args = (out, fx) /\
     r_out r = out /\ r_inst r = [] /\
     match fx with
     | FxNone => st' = st /\ r_sent r = []
     | FxDrop => st' = set_conn st c (drop_conn (get_conn st c)) /\ r_sent r = []
     | FxDecref k n => st' = set_conn st c (decref (get_conn st c) k n) /\ r_sent r = []
     | FxLookup nm =>
       match found_name w st nm with
       | None => st' = st /\ r_sent r = []
       | Some (o, st0) => if req =? 0 then st' = st0 /\ r_sent r = [] else grant w st0 c o "" = (st', r_sent r)
       end
     end) \/
  (c_alive (get_conn st c) = true /\ clid <> broker_clid /\ exists inst out,
     obj_call w (s_copy st) (get_conn st c) clid m args = (inst, out) /\
     r = {| r_inst := inst; r_out := out; r_sent := [] |} /\
     st' = match out with Aborted => set_conn st c (drop_conn (get_conn st c)) | _ => st end).
Proof.
  intros w st c req clid m args st' r H. cbn [step] in H.
  destruct (c_alive (get_conn st c)) eqn:AL; cbn [negb] in H.
  2:{ left. inversion H; subst. auto. }
  right. destruct (clid =? broker_clid) eqn:BC.
  - left. apply Z.eqb_eq in BC. split; [reflexivity|]. split; [exact BC|].
    destruct (broker_call m args) as [out fx] eqn:B. exists out, fx. split; [reflexivity|].
    destruct fx.
    + inversion H; subst. cbn. auto.
    + inversion H; subst. cbn. auto.
    + destruct (found_name w st n) as [[o st0]|].
      * destruct (req =? 0).
        -- inversion H; subst. cbn. auto.
        -- destruct (grant w st0 c o "") as [s2 sent]. inversion H; subst. cbn. auto.
      * inversion H; subst. cbn. auto.
    + inversion H; subst. cbn. auto.
  - right. apply Z.eqb_neq in BC. split; [reflexivity|]. split; [exact BC|].
    destruct (obj_call w (s_copy st) (get_conn st c) clid m args) as [inst out] eqn:O.
    exists inst, out. split; [reflexivity|]. inversion H; subst. auto.
Qed.

(* a refused request has no side effects *)
Theorem refusal_pure : forall w st c req clid m args st' r,
  step w st (Msg c req clid m args) = (st', r) -> r_out r = Reject \/ r_out r = Dead -> st' = st /\ r_sent r = [].
Proof.
  intros w st c req clid m args st' r H Hout.
  destruct (step_msg_shape _ _ _ _ _ _ _ _ _ H) as [[_ [E R]]|[[_ [_ [out [fx [B [Ho [_ F]]]]]]]|[_ [_ [inst [out [O [R E]]]]]]]].
  - subst. auto.
  - destruct (broker_call_fx _ _ _ _ B) as [F1 [F2 [F3 F4]]]. rewrite Ho in Hout.
    destruct Hout as [Hout|Hout]; [|contradiction]. rewrite (F1 Hout) in F. exact F.
  - subst r. cbn [r_out r_sent] in *. destruct (obj_call_kinds _ _ _ _ _ _ _ _ O) as [K1 K2].
    destruct Hout as [Hout|Hout]; [|contradiction]. subst out. auto.
Qed.

(* a dropped connection loses its own table; the other connection and the Tub's tables are untouched *)
Theorem aborted_local : forall w st c req clid m args st' r,
  step w st (Msg c req clid m args) = (st', r) -> r_out r = Aborted ->
  st' = set_conn st c (drop_conn (get_conn st c)) /\ r_sent r = [].
Proof.
  intros w st c req clid m args st' r H Hout.
  destruct (step_msg_shape _ _ _ _ _ _ _ _ _ H) as [[_ [E R]]|[[_ [_ [out [fx [B [Ho [_ F]]]]]]]|[_ [_ [inst [out [O [R E]]]]]]]].
  - subst. discriminate.
  - destruct (broker_call_fx _ _ _ _ B) as [F1 [F2 [F3 F4]]]. rewrite Ho in Hout.
    apply F2 in Hout. rewrite Hout in F. exact F.
  - subst r. cbn [r_out r_sent] in *. subst out. auto.
Qed.

(* a call that enters an application object or a callable changes no table *)
Theorem plain_call_pure : forall w st c req clid m args st' r,
  step w st (Msg c req clid m args) = (st', r) ->
  (exists o a, r_out r = Enter (EObj o a)) \/ (exists o, r_out r = Enter (ECallable o)) -> st' = st /\ r_sent r = [].
Proof.
  intros w st c req clid m args st' r H Hout.
  destruct (step_msg_shape _ _ _ _ _ _ _ _ _ H) as [[_ [E R]]|[[_ [_ [out [fx [B [Ho [_ F]]]]]]]|[_ [_ [inst [out [O [R E]]]]]]]].
  - subst. cbn in Hout. destruct Hout as [[o [a X]]|[o X]]; discriminate.
  - exfalso. rewrite Ho in Hout. destruct Hout as [[o [a X]]|[o X]]; subst out;
      destruct (broker_call_enter _ _ _ _ B) as [s [_ [_ [X _]]]]; discriminate.
  - subst r. cbn [r_out r_sent] in *. destruct Hout as [[o [a X]]|[o X]]; subst out; auto.
Qed.

(* an id this connection's table does not hold is refused, whatever the other connection's table contains *)
Theorem foreign_clid_refused : forall w st c req clid m args,
  clid <> 0 -> c_alive (get_conn st c) = true -> zget clid (c_exports (get_conn st c)) = None ->
  step w st (Msg c req clid m args) = (st, res0 Reject).
Proof.
  intros w st c req clid m args NZ AL G. cbn [step]. rewrite AL. cbn [negb].
  destruct (clid =? broker_clid) eqn:E; [apply Z.eqb_eq in E; unfold broker_clid in E; contradiction|].
  unfold obj_call. rewrite G. reflexivity.
Qed.

(* an argument of an OPEN type outside the closed registry, an unregistered copyable name or a your-reference this
   connection cannot resolve keeps the call from entering anything *)
Theorem bad_argument_never_enters : forall w st c req clid m args st' r e,
  step w st (Msg c req clid m args) = (st', r) -> r_out r = Enter e -> clid <> 0 ->
  (forall t, In (AOpen t) args -> mem_type [t] open_types = true) /\
  (forall n, In (ACopyable n) args -> exists cls, sget n (s_copy st) = Some cls) /\
  (forall k, In (AYourRef k) args -> k = 0 \/ exists o, exported st c k o).
Proof.
  intros w st c req clid m args st' r e H Hout NZ. cbn [step] in H.
  destruct (negb (c_alive (get_conn st c))). { inversion H; subst. discriminate. }
  destruct (clid =? broker_clid) eqn:BC. { apply Z.eqb_eq in BC. unfold broker_clid in BC. contradiction. }
  destruct (obj_call w (s_copy st) (get_conn st c) clid m args) as [inst out] eqn:O.
  inversion H; subst. cbn [r_out] in Hout. subst out.
  destruct (obj_call_enter _ _ _ _ _ _ _ _ O) as [o [rc [_ [_ D]]]].
  destruct (do_args_ok _ _ _ _ _ D) as [A [B C]]. split; [exact A|]. split; [exact B|].
  intros k Hk. destruct (C k Hk) as [E|[[o' rc'] E]]; [left; exact E | right; exists o', rc'; exact E].
Qed.

Theorem top_level_pure : forall w st c t st' r,
  step w st (TopMsg c t) = (st', r) -> st' = st /\ r_inst r = [] /\ r_sent r = [] /\ (r_out r = Reject \/ r_out r = Dead).
Proof.
  intros w st c t st' r H. cbn [step] in H. inversion H. cbn.
  destruct (c_alive (get_conn st' c)); auto.
Qed.

(* name lookup yields only what the name table holds, or what a registered handler provides *)
Theorem names_sound : forall w st n o,
  lookup_name w st n = Some o ->
  In (n, o) (s_n2r st) \/ (sget n (s_n2r st) = None /\ w_handler w n = Some o).
Proof.
  intros w st n o. unfold lookup_name. destruct (sget n (s_n2r st)) as [o'|] eqn:E; intros H.
  - inversion H; subst. left. apply sget_In; auto.
  - right; auto.
Qed.

Lemma found_name_lookup w st n : 
  match found_name w st n with
  | Some (o, st0) => lookup_name w st n = Some o /\ s_n2r st0 = s_n2r st /\ s_copy st0 = s_copy st /\
                     s_a st0 = s_a st /\ s_b st0 = s_b st
  | None => lookup_name w st n = None
  end.
Proof.
  unfold found_name, lookup_name. destruct (sget n (s_n2r st)); [auto|].
  destruct (w_handler w n); [|auto]. destruct (is_some _); cbn; auto.
Qed.
