(* C05: proofs about lib/Identity.v (and therefore about the translated fragments of gen/IdentityGen.v). *)
From Coq Require Import ZArith List String Bool Lia.
Import ListNotations.
Require Import Verif.lib.PyLite Verif.gen.NegotiateGen Verif.lib.Negotiate Verif.lib.NegotiateProofs
               Verif.gen.IdentityGen Verif.lib.Identity.
Local Open Scope Z_scope.

Lemma list_eqb_refl a : list_eqb a a = true.
Proof. apply list_eqb_eq. reflexivity. Qed.

Lemma list_eqb_false a b : list_eqb a b = false <-> a <> b.
Proof.
  split.
  - intros H E. apply list_eqb_eq in E. congruence.
  - intros H. destruct (list_eqb a b) eqn:E; [|reflexivity]. apply list_eqb_eq in E. contradiction.
Qed.

Lemma ostr_eqb_eq a b : ostr_eqb a b = true <-> a = b.
Proof.
  destruct a as [x|], b as [y|]; cbn [ostr_eqb]; split; intros H; try discriminate; try reflexivity.
  - apply list_eqb_eq in H. congruence.
  - inversion H; subst. apply list_eqb_refl.
Qed.

Lemma ostr_eqb_false a b : ostr_eqb a b = false <-> a <> b.
Proof.
  split.
  - intros H E. apply ostr_eqb_eq in E. congruence.
  - intros H. destruct (ostr_eqb a b) eqn:E; [|reflexivity]. apply ostr_eqb_eq in E. contradiction.
Qed.

(* case analysis on every string comparison left in the goal; keeps the proofs about the TRANSLATED ev1_identity independent
   of the order / nesting in which the source performs its tests *)
Ltac split_eqb :=
  repeat match goal with
  | |- context [list_eqb ?a ?b] =>
      let E := fresh "E" in destruct (list_eqb a b) eqn:E; [apply list_eqb_eq in E|apply list_eqb_false in E];
      cbn [negb andb orb]
  end.

Section IdentityProofs.
Variable cert : Type.
Variable tubid_of : cert -> id.

Notation ev1 := (ev1_identity cert tubid_of).
Notation evaluate := (evaluate cert tubid_of).
Notation handle_hello := (handle_hello cert tubid_of).
Notation session := (session cert tubid_of).
Notation step := (step cert tubid_of).
Notation run := (run cert tubid_of).

(* ------------------------------------------------------------------ the translated checks *)

(* soundness: the checks pass only if a certificate was presented, it hashes to the claimed id, the claimed id is a
   non-empty string, and (client) it is the id that was dialled *)
Lemma ev1_sound ic target c claimed r :
  ev1 ic target c claimed = Ok r ->
  exists crt t, c = Some crt /\ tubid_of crt = t /\ claimed = Some t /\ r = Some t /\ t <> [] /\
                (ic = true -> t = target).
Proof.
  unfold ev1_identity, ostr_eqb, ostr_truthy, opt_is_some, opt_is_none.
  destruct c as [crt|], claimed as [[|x t]|], ic; cbv zeta; cbn [negb andb orb]; split_eqb;
    intros H; try discriminate H; inversion H; subst; clear H;
    exists crt, (x :: t); (split; [reflexivity|split; [congruence|split; [reflexivity|split; [reflexivity|split; [discriminate|]]]]]);
    first [intros _; congruence | discriminate].
Qed.

(* completeness: when all of that holds the checks pass *)
Lemma ev1_complete ic target crt :
  tubid_of crt <> [] -> (ic = true -> tubid_of crt = target) ->
  ev1 ic target (Some crt) (Some (tubid_of crt)) = Ok (Some (tubid_of crt)).
Proof.
  intros Hne Ht.
  unfold ev1_identity, ostr_eqb, ostr_truthy, opt_is_some, opt_is_none. cbv zeta.
  destruct (tubid_of crt) as [|x t] eqn:Et; [contradiction Hne; reflexivity|].
  destruct ic; cbn [negb andb orb]; split_eqb; try reflexivity; try congruence;
    try (specialize (Ht eq_refl)); congruence.
Qed.

Lemma ev1_never_anonymous ic target c claimed : ev1 ic target c claimed <> Ok None.
Proof.
  intros H. apply ev1_sound in H. destruct H as (crt & t & _ & _ & _ & H & _). discriminate.
Qed.

(* ------------------------------------------------------------------ what the `assert theirTubID` is needed for
   python -O does not execute assert statements.  The same translated statements without them: the ONLY additional
   acceptance is the anonymous peer on a listener (no certificate, no my-tub-id), stored as TubRef(None), which names no
   Tub; every accepted id is still the hash of the presented certificate and, on a client, the dialled id.  (An empty
   claim is then accepted only from a certificate whose hash is the empty string.) *)
Lemma ev1_noassert_sound ic target c claimed r :
  ev1_identity_noassert cert tubid_of ic target c claimed = Ok r ->
  (r = None /\ c = None /\ claimed = None /\ ic = false) \/
  (exists crt t, c = Some crt /\ tubid_of crt = t /\ claimed = Some t /\ r = Some t /\ (ic = true -> t = target)).
Proof.
  unfold ev1_identity_noassert, ostr_eqb, ostr_truthy, opt_is_some, opt_is_none.
  destruct c as [crt|], claimed as [cl|], ic; cbv zeta; cbn [negb andb orb]; split_eqb;
    intros H; try discriminate H; inversion H; subst; clear H;
    first [ left; repeat split; reflexivity
          | right; eexists _, _; repeat split; try reflexivity; intros; congruence ].
Qed.

Lemma ev1_noassert_anonymous_accepted target :
  ev1_identity_noassert cert tubid_of false target None None = Ok None.
Proof. reflexivity. Qed.

(* with the asserts in place nothing is lost: whatever the checked version accepts, the unchecked one accepts identically *)
Lemma ev1_assert_only_removes ic target c claimed r :
  ev1 ic target c claimed = Ok r -> ev1_identity_noassert cert tubid_of ic target c claimed = Ok r.
Proof.
  unfold ev1_identity, ev1_identity_noassert, ostr_eqb, ostr_truthy, opt_is_some, opt_is_none.
  destruct c as [crt|], claimed as [[|x t]|], ic; cbv zeta; cbn [negb andb orb]; split_eqb;
    intros H; try discriminate H; exact H.
Qed.

(* ... and with the certificate coming from crypto.peerFromTransport (which raises when there is none) even the unchecked
   statements accept only the proven id: the assert is a second line of defence behind twisted's CertificateError *)
Lemma ev1_noassert_with_certificate ic target crt claimed r :
  ev1_identity_noassert cert tubid_of ic target (Some crt) claimed = Ok r ->
  r = Some (tubid_of crt) /\ claimed = Some (tubid_of crt) /\ (ic = true -> tubid_of crt = target).
Proof.
  intros H. apply ev1_noassert_sound in H. destruct H as [(_ & H & _)|(c0 & t & Hc & Ht & Hcl & Hr & Htg)]; [discriminate H|].
  inversion Hc; subst c0. subst t. auto.
Qed.

(* the two facts about the translated attach_key that the rest relies on *)
Lemma ak_client tgt : attach_key true tgt tgt = tgt.
Proof. reflexivity. Qed.
Lemma ak_server x t : attach_key false x t = t.
Proof. reflexivity. Qed.

(* ------------------------------------------------------------------ one end *)

Theorem evaluate_bound r me tgt c claimed t m :
  evaluate r me tgt c claimed = Accept t m ->
  exists crt, c = Some crt /\ tubid_of crt = t /\ claimed = Some t /\ (r = Client -> t = tgt) /\ t <> [] /\
              m = i_am_master me t.
Proof.
  unfold Identity.evaluate. intros H.
  destruct (ev1 (is_client r) tgt c claimed) as [[t'|]|w] eqn:E; try discriminate.
  inversion H; subst t' m. clear H.
  apply ev1_sound in E. destruct E as (crt & t0 & Hc & Hh & Hcl & Hr & Hne & Htgt).
  inversion Hr; subst t0.
  exists crt. repeat split; try assumption.
  intros Hrole; subst r. apply Htgt. reflexivity.
Qed.

(* the key under which the connection is registered is the hash of the presented certificate *)
Theorem attach_key_proven r me tgt c claimed t m :
  evaluate r me tgt c claimed = Accept t m ->
  exists crt, c = Some crt /\ tubid_of crt = attach_key (is_client r) tgt t /\
              (r = Client -> attach_key (is_client r) tgt t = tgt).
Proof.
  intros H. apply evaluate_bound in H. destruct H as (crt & Hc & Hh & _ & Htgt & _ & _).
  exists crt. destruct r; cbn [is_client].
  - specialize (Htgt eq_refl). subst tgt. rewrite ak_client. auto.
  - rewrite ak_server. split; [assumption|split; [assumption|discriminate]].
Qed.

Definition mismatch (r : role) (tgt : id) (c : option cert) (claimed : option id) : Prop :=
  c = None \/ claimed = None \/ claimed = Some [] \/
  (exists crt, c = Some crt /\ claimed <> Some (tubid_of crt)) \/
  (r = Client /\ claimed <> Some tgt).

(* any mismatch between presented certificate, claimed identity and expected identity rejects *)
Theorem mismatch_rejects r me tgt c claimed :
  mismatch r tgt c claimed -> exists w, evaluate r me tgt c claimed = Reject w.
Proof.
  intros Hm.
  destruct (evaluate r me tgt c claimed) as [w|t m] eqn:E; [exists w; reflexivity|exfalso].
  apply evaluate_bound in E. destruct E as (crt & Hc & Hh & Hcl & Htgt & Hne & _).
  destruct Hm as [H|[H|[H|[H|H]]]].
  - congruence.
  - congruence.
  - rewrite Hcl in H. inversion H. contradiction.
  - destruct H as (crt' & Hc' & Hn). rewrite Hc in Hc'. inversion Hc'; subst crt'. apply Hn. congruence.
  - destruct H as (Hr & Hn). apply Hn. rewrite Hcl. f_equal. apply Htgt. exact Hr.
Qed.

(* ... and conversely only a mismatch does: honest peers are accepted *)
Theorem consistent_accepts r me tgt crt :
  tubid_of crt <> [] -> (r = Client -> tubid_of crt = tgt) ->
  evaluate r me tgt (Some crt) (Some (tubid_of crt)) = Accept (tubid_of crt) (i_am_master me (tubid_of crt)).
Proof.
  intros Hne Ht. unfold Identity.evaluate.
  rewrite ev1_complete; [reflexivity|assumption|].
  intros Hc. apply Ht. destruct r; [reflexivity|discriminate].
Qed.

Theorem accept_iff_no_mismatch r me tgt c claimed :
  (exists t m, evaluate r me tgt c claimed = Accept t m) <-> ~ mismatch r tgt c claimed.
Proof.
  split.
  - intros (t & m & H) Hm. destruct (mismatch_rejects r me tgt c claimed Hm) as (w & Hw). congruence.
  - intros Hn.
    destruct c as [crt|]; [|exfalso; apply Hn; left; reflexivity].
    destruct claimed as [t|]; [|exfalso; apply Hn; right; left; reflexivity].
    destruct (list_eqb t (tubid_of crt)) eqn:E.
    + apply list_eqb_eq in E. subst t.
      exists (tubid_of crt), (i_am_master me (tubid_of crt)). apply consistent_accepts.
      * intros H0. apply Hn. right; right; left. rewrite H0. reflexivity.
      * intros Hr. destruct (list_eqb (tubid_of crt) tgt) eqn:E2; [apply list_eqb_eq; exact E2|].
        exfalso. apply Hn. right; right; right; right. split; [exact Hr|].
        intros H0. inversion H0. apply list_eqb_false in E2. contradiction.
    + exfalso. apply Hn. right; right; right; left. exists crt. split; [reflexivity|].
      intros H0. inversion H0. subst t. rewrite list_eqb_refl in E. discriminate.
Qed.

(* ------------------------------------------------------------------ one end, from what the TLS peer presents:
   identity = the LEAF certificate (the one whose key the handshake proves); extra certificates count for nothing *)
Lemma handle_hello_leaf r me tgt p claimed :
  handle_hello r me tgt p claimed =
  match leaf p with Some c => evaluate r me tgt (Some c) claimed | None => Reject "CertificateError" end.
Proof. unfold Identity.handle_hello, peer_from_transport. destruct peer_cert_choice. destruct (leaf p); reflexivity. Qed.

Theorem handle_hello_bound r me tgt p claimed t m :
  handle_hello r me tgt p claimed = Accept t m ->
  exists crt, leaf p = Some crt /\ tubid_of crt = t /\ claimed = Some t /\ (r = Client -> t = tgt) /\ t <> [] /\
              m = i_am_master me t.
Proof.
  rewrite handle_hello_leaf. destruct (leaf p) as [c|]; [|discriminate].
  intros H. apply evaluate_bound in H. destruct H as (crt & Hc & H). inversion Hc; subst crt. exists c. auto.
Qed.

Theorem hello_key_proven r me tgt p claimed t m :
  handle_hello r me tgt p claimed = Accept t m ->
  exists crt, leaf p = Some crt /\ tubid_of crt = attach_key (is_client r) tgt t /\
              (r = Client -> attach_key (is_client r) tgt t = tgt).
Proof.
  rewrite handle_hello_leaf. destruct (leaf p) as [c|]; [|discriminate].
  intros H. apply attach_key_proven in H. destruct H as (crt & Hc & H). inversion Hc; subst crt. exists c. auto.
Qed.

Theorem mismatch_rejects_hello r me tgt p claimed :
  mismatch r tgt (leaf p) claimed -> exists w, handle_hello r me tgt p claimed = Reject w.
Proof.
  intros Hm. rewrite handle_hello_leaf. destruct (leaf p) as [c|] eqn:E; [|eexists; reflexivity].
  apply mismatch_rejects. exact Hm.
Qed.

Theorem consistent_accepts_hello r me tgt p crt :
  leaf p = Some crt -> tubid_of crt <> [] -> (r = Client -> tubid_of crt = tgt) ->
  handle_hello r me tgt p (Some (tubid_of crt)) = Accept (tubid_of crt) (i_am_master me (tubid_of crt)).
Proof. intros Hl Hne Ht. rewrite handle_hello_leaf, Hl. apply consistent_accepts; assumption. Qed.

(* the extra certificates a peer sends along never change the outcome *)
Theorem extras_irrelevant r me tgt l e1 e2 claimed :
  handle_hello r me tgt {| leaf := l; extras := e1 |} claimed = handle_hello r me tgt {| leaf := l; extras := e2 |} claimed.
Proof. rewrite !handle_hello_leaf. reflexivity. Qed.

(* ------------------------------------------------------------------ the listener *)
Lemma server_lookup_ok requested my : server_lookup requested my = Ok tt <-> (requested = my /\ requested <> []).
Proof.
  unfold server_lookup. destruct requested as [|x q]; cbn [list_is_nil].
  - split; [discriminate|intros [_ H]; contradiction H; reflexivity].
  - destruct (list_eqb (x :: q) my) eqn:E.
    + apply list_eqb_eq in E. split; [intros _; split; [exact E|discriminate]|reflexivity].
    + apply list_eqb_false in E. split; [discriminate|intros [H _]; contradiction].
Qed.

(* ------------------------------------------------------------------ both ends of one attempt *)

Definition proven (c : option cert) (k : id) : Prop := exists crt, c = Some crt /\ tubid_of crt = k.

Lemma final_ever_failed w k : final (obs_failed w) = Some k -> ever (obs_failed w) = Some k.
Proof. discriminate. Qed.

(* whatever the two ends present and claim: a key is registered on an end only if the certificate that end saw
   hashes to it; the client's key is the id it dialled; what is left at quiescence was registered *)
Theorem session_bound s oc os :
  session s = (oc, os) ->
  (forall k, ever oc = Some k -> k = dialled s /\ proven (leaf (pres_c s)) k /\ claim_c s = Some k /\ requested s = srv_id s) /\
  (forall k, ever os = Some k -> proven (leaf (pres_s s)) k /\ claim_s s = Some k /\ requested s = srv_id s) /\
  (forall k, final oc = Some k -> ever oc = Some k) /\
  (forall k, final os = Some k -> ever os = Some k).
Proof.
  unfold Identity.session. intros H.
  destruct (server_lookup (requested s) (srv_id s)) as [[]|w] eqn:EL.
  2:{ inversion H; subst. split; [|split; [|split]]; intros k Hk; discriminate. }
  apply server_lookup_ok in EL. destruct EL as [EL _].
  destruct (handle_hello Client (cl_id s) (dialled s) (pres_c s) (claim_c s)) as [wc|tc mc] eqn:EC;
  destruct (handle_hello Server (srv_id s) [] (pres_s s) (claim_s s)) as [ws|ts ms] eqn:ES.
  - inversion H; subst. split; [|split; [|split]]; intros k Hk; discriminate.
  - apply handle_hello_bound in ES. destruct ES as (crt & Hc & Hh & Hcl & _ & _ & _).
    rewrite ak_server in H.
    destruct ms; inversion H; subst oc os; (split; [intros k Hk; discriminate|]);
      (split; [|split; intros k Hk; discriminate]); intros k Hk; try discriminate.
    cbn [ever obs_transient] in Hk. inversion Hk; subst k.
    split; [exists crt; auto|auto].
  - apply handle_hello_bound in EC. destruct EC as (crt & Hc & Hh & Hcl & Htgt & _ & _).
    specialize (Htgt eq_refl). rewrite Htgt in H, Hh, Hcl. rewrite ak_client in H.
    destruct mc; inversion H; subst oc os; (split; [|split; [intros k Hk; discriminate|split; intros k Hk; discriminate]]);
      intros k Hk; try discriminate.
    cbn [ever obs_transient] in Hk. inversion Hk; subst k.
    split; [reflexivity|]. split; [exists crt; auto|auto].
  - apply handle_hello_bound in EC. destruct EC as (crtc & Hcc & Hhc & Hclc & Htgt & _ & _). specialize (Htgt eq_refl).
    apply handle_hello_bound in ES. destruct ES as (crts & Hcs & Hhs & Hcls & _ & _ & _).
    rewrite Htgt in H, Hhc, Hclc. rewrite ak_client, ak_server in H.
    assert (PC : forall k, Some (dialled s) = Some k ->
                 k = dialled s /\ proven (leaf (pres_c s)) k /\ claim_c s = Some k /\ requested s = srv_id s).
    { intros k Hk. inversion Hk; subst k. split; [reflexivity|]. split; [exists crtc; auto|auto]. }
    assert (PS : forall k, Some ts = Some k ->
                 proven (leaf (pres_s s)) k /\ claim_s s = Some k /\ requested s = srv_id s).
    { intros k Hk. inversion Hk; subst k. split; [exists crts; auto|auto]. }
    destruct mc, ms; try destruct (inbound_url_check (dialled s) (srv_id s)) as [[]|w];
      inversion H; subst oc os; cbn [ever final obs_transient obs_connected obs_failed];
      (split; [first [exact PC | intros k Hk; discriminate]|]);
      (split; [first [exact PS | intros k Hk; discriminate]|]);
      split; intros k Hk; first [exact Hk | discriminate].
Qed.

(* a mismatch anywhere (unknown tub requested, or either end's evaluation rejecting) leaves no connection on
   either side, and the end that saw the mismatch never registered one *)
Theorem session_mismatch_no_connection s oc os :
  session s = (oc, os) ->
  (requested s <> srv_id s \/ requested s = [] \/
   mismatch Client (dialled s) (leaf (pres_c s)) (claim_c s) \/ mismatch Server [] (leaf (pres_s s)) (claim_s s)) ->
  final oc = None /\ final os = None /\
  (mismatch Client (dialled s) (leaf (pres_c s)) (claim_c s) -> ever oc = None) /\
  (mismatch Server [] (leaf (pres_s s)) (claim_s s) -> ever os = None).
Proof.
  unfold Identity.session. intros H Hm.
  destruct (server_lookup (requested s) (srv_id s)) as [[]|w] eqn:EL.
  2:{ inversion H; subst. repeat split; reflexivity. }
  apply server_lookup_ok in EL. destruct EL as [EL1 EL2].
  destruct Hm as [Hm|[Hm|Hm]]; [contradiction|contradiction|].
  destruct (handle_hello Client (cl_id s) (dialled s) (pres_c s) (claim_c s)) as [wc|tc mc] eqn:EC;
  destruct (handle_hello Server (srv_id s) [] (pres_s s) (claim_s s)) as [ws|ts ms] eqn:ES.
  - inversion H; subst. repeat split; reflexivity.
  - destruct ms; inversion H; subst oc os; cbn [ever final obs_transient obs_failed];
      (split; [reflexivity|split; [reflexivity|split; [reflexivity|]]]); intros Hs;
      destruct (mismatch_rejects_hello Server (srv_id s) [] (pres_s s) (claim_s s) Hs) as (w & Hw); congruence.
  - destruct mc; inversion H; subst oc os; cbn [ever final obs_transient obs_failed];
      (split; [reflexivity|split; [reflexivity|split; [|reflexivity]]]); intros Hs;
      destruct (mismatch_rejects_hello Client (cl_id s) (dialled s) (pres_c s) (claim_c s) Hs) as (w & Hw); congruence.
  - exfalso. destruct Hm as [Hm|Hm].
    + destruct (mismatch_rejects_hello Client (cl_id s) (dialled s) (pres_c s) (claim_c s) Hm) as (w & Hw). congruence.
    + destruct (mismatch_rejects_hello Server (srv_id s) [] (pres_s s) (claim_s s) Hm) as (w & Hw). congruence.
Qed.

Lemma master_flip a b : master_cmp = CmpGt -> a <> b -> i_am_master a b = negb (i_am_master b a).
Proof.
  intros Hm Hne. pose proof (one_decider_op master_cmp a b) as H. unfold i_am_master.
  rewrite Hm in *. specialize (H eq_refl Hne).
  destruct (cmp_eval CmpGt a b), (cmp_eval CmpGt b a); cbn in H; try discriminate; reflexivity.
Qed.

(* non-vacuity of the whole: two honest, distinct Tubs end up connected, each under the other's id *)
Theorem session_honest s ca cb :
  leaf (pres_c s) = Some cb -> tubid_of cb = srv_id s -> claim_c s = Some (srv_id s) ->
  leaf (pres_s s) = Some ca -> tubid_of ca = cl_id s -> claim_s s = Some (cl_id s) ->
  dialled s = srv_id s -> requested s = srv_id s ->
  cl_id s <> srv_id s -> cl_id s <> [] -> srv_id s <> [] ->
  session s = (obs_connected (srv_id s), obs_connected (cl_id s)).
Proof.
  intros Hcc Hhb Hclc Hcs Hha Hcls Hd Hr Hne Hna Hnb.
  unfold Identity.session.
  assert (EL : server_lookup (requested s) (srv_id s) = Ok tt).
  { apply server_lookup_ok. rewrite Hr. split; [reflexivity|assumption]. }
  assert (EC : handle_hello Client (cl_id s) (dialled s) (pres_c s) (Some (srv_id s))
               = Accept (srv_id s) (i_am_master (cl_id s) (srv_id s))).
  { rewrite <- Hhb. apply consistent_accepts_hello; [exact Hcc|rewrite Hhb; assumption|]. intros _. rewrite Hd. exact Hhb. }
  assert (ES : handle_hello Server (srv_id s) [] (pres_s s) (Some (cl_id s))
               = Accept (cl_id s) (i_am_master (srv_id s) (cl_id s))).
  { rewrite <- Hha. apply consistent_accepts_hello; [exact Hcs|rewrite Hha; assumption|discriminate]. }
  rewrite EL, Hclc, Hcls, EC, ES. rewrite Hd, ak_client, ak_server.
  assert (Hmc : master_cmp = CmpGt) by reflexivity.
  rewrite (master_flip (srv_id s) (cl_id s) Hmc (fun e => Hne (eq_sym e))).
  assert (EU : inbound_url_check (dialled s) (srv_id s) = Ok tt).
  { unfold inbound_url_check. rewrite Hd, list_eqb_refl. reflexivity. }
  rewrite Hd in EU. rewrite EU.
  destruct (i_am_master (cl_id s) (srv_id s)); reflexivity.
Qed.


(* ------------------------------------------------------------------ a peer that keeps sending *)
Notation handle_block := (handle_block cert tubid_of).
Notation drain := (drain cert tubid_of).
Notation recv_chunk := (recv_chunk cert tubid_of).
Notation recv_all := (recv_all cert tubid_of).

(* the facts about the phase constants read from the source that safety rests on: an exception never moves the
   Negotiation INTO the decision-waiting phase, and the identity checks do not run in it *)
Lemma exc_phase_deciding x : exc_phase x = PhDeciding -> x = PhDeciding.
Proof. unfold exc_phase, phase_set_by_error_handler. first [intros H; exact H | intros H; discriminate H]. Qed.

Lemma exc_phase_eval : exc_phase phase_during_evaluate_hello <> PhDeciding.
Proof. intros H. apply (exc_phase_deciding phase_during_evaluate_hello) in H. unfold phase_during_evaluate_hello in H. discriminate H. Qed.

Definition key_ok (r : role) (tgt : id) (p : presented cert) (k : id) : Prop :=
  exists crt, leaf p = Some crt /\ tubid_of crt = k /\ (r = Client -> k = tgt).

Definition their_ok (p : presented cert) (o : option id) : Prop :=
  forall t, o = Some t -> exists crt, leaf p = Some crt /\ tubid_of crt = t.

Definition ninv (r : role) (tgt : id) (p : presented cert) (st : nstate) : Prop :=
  (forall k, In k (n_attached st) -> key_ok r tgt p k) /\
  their_ok p (n_their st) /\
  (n_phase st = PhDeciding -> exists t, n_their st = Some t /\ (r = Client -> t = tgt)).

Lemma their_after_ok p claimed old : their_ok p old -> their_ok p (their_after_rejected_evaluation cert tubid_of p claimed old).
Proof.
  intros Ho. unfold their_after_rejected_evaluation.
  destruct (leaf p) as [c|] eqn:El; [|exact Ho]. destruct claimed as [[|x t]|]; try exact Ho.
  destruct (list_eqb (tubid_of c) (x :: t)) eqn:E; [|exact Ho].
  apply list_eqb_eq in E. intros t0 Ht0. inversion Ht0; subst t0. exists c. auto.
Qed.

Lemma handle_block_inv r my tgt p st b st' raised :
  ninv r tgt p st -> handle_block r my tgt p st b = (st', raised) -> ninv r tgt p st'.
Proof.
  intros (Ha & Hb & Hc). unfold Identity.handle_block.
  destruct (n_phase st) eqn:Eph.
  - (* ENCRYPTED *)
    destruct (peer_from_transport cert p) as [c|w].
    2:{ intros H; inversion H; subst st' raised; clear H. split; [exact Ha|split; [exact Hb|]].
        cbn [n_phase with_phase]. intros H. apply (exc_phase_deciding PhEncrypted) in H. discriminate H. }
    destruct b as [claimed|acc| |].
    + destruct (handle_hello r my tgt p claimed) as [w|t m] eqn:EH.
      * intros H; inversion H; subst st' raised; clear H. cbn [n_attached n_their n_phase].
        split; [exact Ha|split; [apply their_after_ok; exact Hb|]]. intros H. contradiction (exc_phase_eval H).
      * pose proof (hello_key_proven _ _ _ _ _ _ _ EH) as (crt & Hl & Hk & Hkt).
        apply handle_hello_bound in EH. destruct EH as (crt' & Hl' & Hh & _ & Htgt & _ & _).
        assert (Hth : their_ok p (Some t)).
        { intros t0 Ht0. inversion Ht0; subst t0. exists crt'. auto. }
        destruct m; intros H; inversion H; subst st' raised; clear H; cbn [n_attached n_their n_phase].
        -- split; [|split; [exact Hth|discriminate]].
           intros k [Hk0|Hk0]; [|apply Ha; exact Hk0]. subst k. exists crt. auto.
        -- split; [exact Ha|split; [exact Hth|]]. intros _. exists t. auto.
    + intros H; inversion H; subst st' raised; clear H. cbn [n_attached n_their n_phase with_phase].
      split; [exact Ha|split; [exact Hb|]]. intros H. contradiction (exc_phase_eval H).
    + intros H; inversion H; subst st' raised; clear H. cbn [n_attached n_their n_phase with_phase].
      split; [exact Ha|split; [exact Hb|]]. intros H. apply (exc_phase_deciding PhEncrypted) in H. discriminate H.
    + intros H; inversion H; subst st' raised; clear H. cbn [n_attached n_their n_phase with_phase].
      split; [exact Ha|split; [exact Hb|]]. intros H. apply (exc_phase_deciding PhEncrypted) in H. discriminate H.
  - (* DECIDING *)
    destruct (Hc eq_refl) as (t0 & Ht0 & Htgt).
    assert (Keep : ninv r tgt p (with_phase st (exc_phase PhDeciding))).
    { split; [exact Ha|split; [exact Hb|]]. intros _. exists t0. auto. }
    rewrite Ht0.
    destruct b as [claimed|[|]| |]; try (intros H; inversion H; subst st' raised; clear H; exact Keep).
    intros H; inversion H; subst st' raised; clear H. cbn [n_attached n_their n_phase].
    pose proof Hb as Hb'. rewrite Ht0 in Hb'.
    split; [|split; [exact Hb'|discriminate]].
    intros k [Hk0|Hk0]; [|apply Ha; exact Hk0]. subst k.
    destruct (Hb _ Ht0) as (crt & Hl & Hh). exists crt. split; [exact Hl|].
    destruct r; cbn [is_client].
    + specialize (Htgt eq_refl). subst t0. rewrite ak_client. auto.
    + rewrite ak_server. split; [exact Hh|discriminate].
  - intros H; inversion H; subst st' raised; clear H. split; [exact Ha|split; [exact Hb|]]. rewrite Eph. discriminate.
  - intros H; inversion H; subst st' raised; clear H. split; [exact Ha|split; [exact Hb|]]. rewrite Eph. discriminate.
Qed.

Lemma with_buf_inv r tgt p st b : ninv r tgt p st -> ninv r tgt p (with_buf st b).
Proof. intros H. exact H. Qed.

Lemma drain_inv r my tgt p buf : forall st, ninv r tgt p st -> ninv r tgt p (drain r my tgt p st buf).
Proof.
  induction buf as [|b rest IH]; intros st Hinv; cbn [Identity.drain]; [apply with_buf_inv; exact Hinv|].
  destruct (handle_block r my tgt p st b) as [st' raised] eqn:EB.
  pose proof (handle_block_inv _ _ _ _ _ _ _ _ Hinv EB) as Hinv'.
  destruct (n_phase st); try (apply with_buf_inv; exact Hinv);
    (destruct raised; [apply with_buf_inv; exact Hinv'|apply IH; exact Hinv']).
Qed.

Lemma recv_chunk_inv r my tgt p st chunk : ninv r tgt p st -> ninv r tgt p (recv_chunk r my tgt p st chunk).
Proof.
  intros Hinv. unfold Identity.recv_chunk. destruct (n_phase st); try exact Hinv; apply drain_inv; exact Hinv.
Qed.

(* whatever header blocks an arbitrary peer sends, in whatever chunking, before and after any of them was rejected:
   every key ever handed to Tub.brokerAttached is the hash of the LEAF certificate of that transport, and on a client
   it is the dialled id *)
Theorem recv_attach_proven r my tgt p chunks k :
  In k (n_attached (recv_all r my tgt p chunks)) ->
  exists crt, leaf p = Some crt /\ tubid_of crt = k /\ (r = Client -> k = tgt).
Proof.
  assert (G : forall st, ninv r tgt p st -> ninv r tgt p (fold_left (recv_chunk r my tgt p) chunks st)).
  { induction chunks as [|c cs IH]; intros st Hst; cbn [fold_left]; [exact Hst|]. apply IH. apply recv_chunk_inv. exact Hst. }
  assert (I0 : ninv r tgt p n_init).
  { split; [intros k0 []|split; [intros t Ht; discriminate Ht|discriminate]]. }
  intros Hk. destruct (G _ I0) as (Ha & _ & _). exact (Ha _ Hk).
Qed.


(* ------------------------------------------------------------------ inbound references *)
Theorem inbound_url_rule k url_id : accept_inbound_ref k url_id = true <-> url_id = k.
Proof.
  unfold accept_inbound_ref, inbound_url_check.
  destruct (list_eqb k url_id) eqn:E; cbn [negb is_ok].
  - apply list_eqb_eq in E. split; [intros _; symmetry; exact E|reflexivity].
  - apply list_eqb_false in E. split; [discriminate|intros H; symmetry in H; contradiction].
Qed.

(* ------------------------------------------------------------------ the table over all histories *)

Definition justified (my_id : id) (e : id * conn cert) : Prop :=
  (conn_loop cert (snd e) = true /\ fst e = my_id) \/
  (conn_loop cert (snd e) = false /\ proven (conn_cert cert (snd e)) (fst e)).

Definition table_ok (my_id : id) (t : table cert) : Prop :=
  Forall (justified my_id) t /\ NoDup (map fst t).

Lemma tbl_mem_in k (t : table cert) : tbl_mem cert k t = false -> ~ In k (map fst t).
Proof.
  induction t as [|[k' c] t IH]; cbn [tbl_mem map fst In]; [tauto|].
  intros H. apply orb_false_iff in H as [H1 H2]. apply list_eqb_false in H1.
  intros [Hin|Hin]; [congruence|]. apply IH; assumption.
Qed.

Lemma tbl_remove_subset k (t : table cert) e : In e (tbl_remove cert k t) -> In e t.
Proof.
  induction t as [|[k' c] t IH]; cbn [tbl_remove]; [tauto|].
  destruct (list_eqb k k'); cbn [In]; [auto|]. intros [H|H]; auto.
Qed.

Lemma tbl_remove_keys k (t : table cert) x : In x (map fst (tbl_remove cert k t)) -> In x (map fst t) /\ x <> k.
Proof.
  induction t as [|[k' c] t IH]; cbn [tbl_remove map fst In]; [tauto|].
  destruct (list_eqb k k') eqn:E.
  - intros H. apply IH in H. tauto.
  - cbn [map fst In]. apply list_eqb_false in E. intros [H|H]; [subst; split; auto|apply IH in H; tauto].
Qed.

Lemma tbl_remove_ok my k t : table_ok my t -> table_ok my (tbl_remove cert k t).
Proof.
  intros [HF HN]. split.
  - apply Forall_forall. intros e He. apply tbl_remove_subset in He. revert e He. apply Forall_forall. exact HF.
  - induction t as [|[k' c] t IH]; cbn [tbl_remove]; [constructor|].
    inversion HN; subst. inversion HF; subst.
    destruct (list_eqb k k'); [apply IH; assumption|].
    cbn [map fst]. constructor; [|apply IH; assumption].
    intros Hin. apply tbl_remove_keys in Hin. tauto.
Qed.

Lemma broker_attached_ok my k c t :
  table_ok my t -> justified my (k, c) -> table_ok my (broker_attached cert k c t).
Proof.
  intros [HF HN] Hj. unfold broker_attached. destruct (tbl_mem cert k t) eqn:E; [split; assumption|].
  split; [constructor; assumption|]. cbn [map fst]. constructor; [apply tbl_mem_in; exact E|exact HN].
Qed.

Lemma step_ok my t e : table_ok my t -> table_ok my (step my t e).
Proof.
  intros Hok. destruct e as [r tgt c claimed arrives dropped|k|]; cbn [Identity.step].
  - destruct (handle_hello r my tgt c claimed) as [w|t' m] eqn:E; [exact Hok|].
    destruct (m || arrives); [|exact Hok].
    apply hello_key_proven in E. destruct E as (crt & Hc & Hh & _).
    apply broker_attached_ok.
    + destruct dropped; [apply tbl_remove_ok|]; exact Hok.
    + right. cbn [fst snd conn_loop conn_cert]. split; [reflexivity|]. exists crt. auto.
  - apply tbl_remove_ok. exact Hok.
  - apply broker_attached_ok; [exact Hok|]. left. cbn. auto.
Qed.

(* for every history of negotiations (with arbitrary presented certificates and claims), detachments and loopback
   requests: every entry of the Tub's table is backed by the certificate of its own transport, one entry per id *)
Theorem table_invariant my evs : table_ok my (run my evs).
Proof.
  unfold Identity.run.
  assert (G : forall t, table_ok my t -> table_ok my (fold_left (step my) evs t)).
  { induction evs as [|e evs IH]; intros t Ht; cbn [fold_left]; [exact Ht|]. apply IH. apply step_ok. exact Ht. }
  apply G. split; constructor.
Qed.

Lemma tbl_get_in k (t : table cert) c : tbl_get cert k t = Some c -> In (k, c) t.
Proof.
  induction t as [|[k' c'] t IH]; cbn [tbl_get]; [discriminate|].
  destruct (list_eqb k k') eqn:E.
  - apply list_eqb_eq in E. intros H; inversion H; subst. left. reflexivity.
  - intros H. right. apply IH. exact H.
Qed.

(* getReference(FURL naming X) is served over a connection whose transport certificate hashes to X (or by the
   Tub's own loopback when X is its own id), after any history *)
Theorem getref_proven my evs x c :
  get_broker cert (run my evs) x = Some c ->
  (conn_loop cert c = true /\ x = my) \/ (conn_loop cert c = false /\ proven (conn_cert cert c) x).
Proof.
  intros H. apply tbl_get_in in H.
  destruct (table_invariant my evs) as [HF _].
  rewrite Forall_forall in HF. exact (HF _ H).
Qed.

(* a reference whose URL names Tub U, accepted over the connection found for X after any history, names X, and that
   connection's certificate hashes to U *)
Theorem inbound_ref_proven my evs x c u :
  get_broker cert (run my evs) x = Some c -> conn_loop cert c = false ->
  accept_inbound_ref x u = true -> proven (conn_cert cert c) u.
Proof.
  intros Hg Hl Ha. apply inbound_url_rule in Ha. subst u.
  destruct (getref_proven my evs x c Hg) as [[H _]|[_ H]]; [congruence|exact H].
Qed.

(* ------------------------------------------------------------------ pending lookups / crossed connections *)
Notation tstep := (tstep cert tubid_of).
Notation trun := (trun cert tubid_of).

Definition tinv (my : id) (st : tstate cert) : Prop :=
  table_ok my (t_tab cert st) /\
  (forall n x c, In (n, x, Some c) (t_ans cert st) -> justified my (x, c)).

Lemma fire_some k c w n x c' :
  In (n, x, Some c') (fire cert k (Some c) w) -> x = k /\ c' = c.
Proof.
  unfold fire. intros H. apply in_map_iff in H. destruct H as ([x0 n0] & Heq & Hin).
  apply filter_In in Hin. destruct Hin as [_ Hk]. cbn [fst snd] in *. apply list_eqb_eq in Hk.
  inversion Heq; subst. auto.
Qed.

Lemma fire_none k w n x c' : In (n, x, Some c') (fire cert k None w) -> False.
Proof.
  unfold fire. intros H. apply in_map_iff in H. destruct H as ([x0 n0] & Heq & _). inversion Heq.
Qed.

Lemma t_attach_inv my st k c : tinv my st -> justified my (k, c) -> tinv my (t_attach cert st k c).
Proof.
  intros [[HF HN] Ha] Hj. unfold t_attach. destruct (tbl_mem cert k (t_tab cert st)) eqn:E; cbn [t_tab t_ans].
  - split; [split; assumption|exact Ha].
  - split.
    + split; [constructor; assumption|]. cbn [map fst]. constructor; [apply tbl_mem_in; exact E|exact HN].
    + intros n x c' Hin. apply in_app_or in Hin. destruct Hin as [Hin|Hin]; [|exact (Ha _ _ _ Hin)].
      apply fire_some in Hin. destruct Hin; subst. exact Hj.
Qed.

Lemma tstep_inv my st e : tinv my st -> tinv my (tstep my st e).
Proof.
  intros Hinv. pose proof Hinv as [[HF HN] Ha].
  destruct e as [x|r tgt p claimed arrives|x|k]; cbn [Identity.tstep].
  - destruct (tbl_get cert x (t_tab cert st)) as [c|] eqn:EG.
    + cbn [t_tab t_ans]. split; [split; assumption|].
      intros n x0 c0 [Hin|Hin]; [|exact (Ha _ _ _ Hin)]. inversion Hin; subst.
      apply tbl_get_in in EG. rewrite Forall_forall in HF. exact (HF _ EG).
    + destruct (list_eqb x my) eqn:EM.
      * apply list_eqb_eq in EM. subst x.
        assert (Hj : justified my (my, {| conn_cert := None; conn_loop := true |})) by (left; cbn; auto).
        destruct (t_attach_inv my st my _ Hinv Hj) as [Ht Ha'].
        cbn [t_tab t_ans]. split; [exact Ht|].
        intros n x0 c0 [Hin|Hin]; [|exact (Ha' _ _ _ Hin)]. inversion Hin; subst. exact Hj.
      * cbn [t_tab t_ans]. split; [split; assumption|exact Ha].
  - destruct (handle_hello r my tgt p claimed) as [w|t m] eqn:E; [exact Hinv|].
    destruct (m || arrives); [|exact Hinv].
    apply hello_key_proven in E. destruct E as (crt & Hl & Hh & _).
    apply t_attach_inv; [exact Hinv|]. right. cbn [fst snd conn_loop conn_cert]. split; [reflexivity|]. exists crt. auto.
  - destruct (tbl_mem cert x (t_tab cert st)); cbn [t_tab t_ans]; (split; [split; assumption|]); [exact Ha|].
    intros n x0 c0 Hin. apply in_app_or in Hin. destruct Hin as [Hin|Hin]; [destruct (fire_none _ _ _ _ _ Hin)|exact (Ha _ _ _ Hin)].
  - cbn [t_tab t_ans]. split; [apply tbl_remove_ok; split; assumption|exact Ha].
Qed.

(* several lookups pending, connections (outbound and inbound, honest and not) completing, failing and going away in any
   order: a lookup for tub id X is only ever answered with a Broker whose transport's leaf certificate hashes to X (or
   with the Tub's own loopback when X is its own id), and the table invariant holds throughout *)
Theorem tub_answers_proven my evs :
  table_ok my (t_tab cert (trun my evs)) /\
  (forall n x c, In (n, x, Some c) (t_ans cert (trun my evs)) ->
     (conn_loop cert c = true /\ x = my) \/ (conn_loop cert c = false /\ proven (conn_cert cert c) x)).
Proof.
  assert (G : forall st, tinv my st -> tinv my (fold_left (tstep my) evs st)).
  { induction evs as [|e evs IH]; intros st Hst; cbn [fold_left]; [exact Hst|]. apply IH. apply tstep_inv. exact Hst. }
  assert (I0 : tinv my (t_init cert)).
  { split; [split; constructor|intros n x c []]. }
  destruct (G _ I0) as [Ht Ha]. split; [exact Ht|]. intros n x c Hin. exact (Ha _ _ _ Hin).
Qed.

End IdentityProofs.

(* ------------------------------------------------------------------ getReference: every request gets ITS answer *)
Definition gr_inv (st : gr_state) : Prop :=
  (forall r f, In (r, f) (g_pending st) -> In (r, f) (g_log st)) /\
  (forall r a, In (r, a) (g_delivered st) -> exists f, In (r, f) (g_log st) /\ a = get_reference_now f) /\
  (forall r f, In (r, f) (g_log st) -> (r < g_next st)%nat) /\
  NoDup (map fst (g_log st)).

Lemma resumed_own q : resumed q = q.
Proof. unfold resumed, resume_sturdy_binding. reflexivity. Qed.

Lemma gr_step_inv st e : gr_inv st -> gr_inv (gr_step st e).
Proof.
  intros (Hp & Hd & Hn & Hu). destruct e as [f|]; cbn [gr_step].
  - assert (Hfresh : ~ In (g_next st) (map fst (g_log st))).
    { intros Hin. apply in_map_iff in Hin. destruct Hin as ([r f'] & Hr & Hin). cbn [fst] in Hr. subst r.
      apply Hn in Hin. exact (Nat.lt_irrefl _ Hin). }
    destruct (g_started st); cbn [g_pending g_log g_delivered g_next];
      (split; [|split; [|split; [|cbn [map fst]; constructor; assumption]]]).
    + intros r f0 Hin. right. apply Hp. exact Hin.
    + intros r a [Hin|Hin].
      * inversion Hin; subst r a. exists f. split; [left; reflexivity|reflexivity].
      * destruct (Hd _ _ Hin) as (f0 & Hl & Ha). exists f0. split; [right; exact Hl|exact Ha].
    + intros r f0 [Hin|Hin]; [inversion Hin as [[Hr Hf]]; apply Nat.lt_succ_diag_r|]. apply Hn in Hin. apply Nat.lt_lt_succ_r. exact Hin.
    + intros r f0 Hin. apply in_app_or in Hin. destruct Hin as [Hin|[Hin|[]]].
      * right. apply Hp. exact Hin.
      * left. exact Hin.
    + intros r a Hin. destruct (Hd _ _ Hin) as (f0 & Hl & Ha). exists f0. split; [right; exact Hl|exact Ha].
    + intros r f0 [Hin|Hin]; [inversion Hin as [[Hr Hf]]; apply Nat.lt_succ_diag_r|]. apply Hn in Hin. apply Nat.lt_lt_succ_r. exact Hin.
  - cbn [g_pending g_log g_delivered g_next]. rewrite resumed_own.
    split; [intros r f []|split; [|split; [exact Hn|exact Hu]]].
    intros r a Hin. apply in_app_or in Hin. destruct Hin as [Hin|Hin]; [|exact (Hd _ _ Hin)].
    apply in_rev in Hin. apply in_map_iff in Hin. destruct Hin as ([r0 f0] & Heq & Hin).
    cbn [fst snd] in Heq. inversion Heq; subst r a. exists f0. split; [apply Hp; exact Hin|reflexivity].
Qed.

Lemma gr_run_inv evs : gr_inv (gr_run evs).
Proof.
  unfold gr_run.
  assert (G : forall st, gr_inv st -> gr_inv (fold_left gr_step evs st)).
  { induction evs as [|e evs IH]; intros st Hst; cbn [fold_left]; [exact Hst|]. apply IH. apply gr_step_inv. exact Hst. }
  apply G. split; [intros r f []|split; [intros r a []|split; [intros r f []|constructor]]].
Qed.

(* for every history of getReference requests made before and after startService: whatever a request's Deferred is fired
   with was obtained for THAT request's FURL -- over the Tub.brokers entry for the tub id it names, asking for the name it
   names; and a request number stands for one FURL only *)
Theorem gr_answers_match evs r a :
  In (r, a) (g_delivered (gr_run evs)) ->
  exists f, In (r, f) (g_log (gr_run evs)) /\ a_key a = f_tub f /\ a_name a = f_name f /\
            (forall f', In (r, f') (g_log (gr_run evs)) -> f' = f).
Proof.
  intros Hin. destruct (gr_run_inv evs) as (_ & Hd & _ & Hu).
  destruct (Hd _ _ Hin) as (f & Hl & Ha). exists f. subst a. split; [exact Hl|split; [reflexivity|split; [reflexivity|]]].
  intros f' Hl'. clear Hin Hd.
  induction (g_log (gr_run evs)) as [|[r0 f0] l IH]; [destruct Hl|].
  cbn [map fst] in Hu. inversion Hu as [|x xs Hnot Hu']; subst.
  destruct Hl as [Hl|Hl], Hl' as [Hl'|Hl'].
  - inversion Hl; inversion Hl'; subst. reflexivity.
  - inversion Hl; subst. exfalso. apply Hnot. apply in_map_iff. exists (r, f'). auto.
  - inversion Hl'; subst. exfalso. apply Hnot. apply in_map_iff. exists (r, f). auto.
  - apply IH; assumption.
Qed.

Example ex_getref_queue :
  g_delivered (gr_run [GrRequest {| f_tub := [97]; f_name := [1] |}; GrRequest {| f_tub := [98]; f_name := [2] |}; GrStart;
                       GrRequest {| f_tub := [97]; f_name := [3] |}])
  = [(2%nat, {| a_key := [97]; a_name := [3] |}); (1%nat, {| a_key := [98]; a_name := [2] |});
     (0%nat, {| a_key := [97]; a_name := [1] |})].
Proof. vm_compute. reflexivity. Qed.

(* ------------------------------------------------------------------ non-vacuity (concrete certificates = numbers) *)
Definition ex_tubid (c : Z) : id := [c; c + 1].
Definition pz (l : option Z) (e : list Z) : presented Z := {| leaf := l; extras := e |}.

Example ex_accept_server :
  evaluate Z ex_tubid Server [120] [] (Some 97) (Some [97; 98]) = Accept [97; 98] true.
Proof. vm_compute. reflexivity. Qed.

Example ex_accept_client :
  evaluate Z ex_tubid Client [50] [97; 98] (Some 97) (Some [97; 98]) = Accept [97; 98] false.
Proof. vm_compute. reflexivity. Qed.

Example ex_reject_wrong_cert :
  evaluate Z ex_tubid Client [50] [97; 98] (Some 99) (Some [97; 98]) = Reject "BananaError".
Proof. vm_compute. reflexivity. Qed.

Example ex_reject_wrong_tub :
  evaluate Z ex_tubid Client [50] [97; 98] (Some 99) (Some [99; 100]) = Reject "BananaError".
Proof. vm_compute. reflexivity. Qed.

Example ex_reject_anonymous :
  evaluate Z ex_tubid Server [50] [] None None = Reject "AssertionError".
Proof. vm_compute. reflexivity. Qed.

Example ex_session_honest :
  session Z ex_tubid {| cl_id := [50; 51]; dialled := [97; 98]; requested := [97; 98]; srv_id := [97; 98];
                        pres_c := pz (Some 97) []; claim_c := Some [97; 98]; pres_s := pz (Some 50) []; claim_s := Some [50; 51] |}
  = (obs_connected [97; 98], obs_connected [50; 51]).
Proof. vm_compute. reflexivity. Qed.

(* a server that redirects the GET and proves ANOTHER identity than the dialled one *)
Example ex_session_wrong_tub :
  session Z ex_tubid {| cl_id := [50; 51]; dialled := [97; 98]; requested := [99; 100]; srv_id := [99; 100];
                        pres_c := pz (Some 99) []; claim_c := Some [99; 100]; pres_s := pz (Some 50) []; claim_s := Some [50; 51] |}
  = (obs_failed "BananaError", obs_transient [50; 51]).
Proof. vm_compute. reflexivity. Qed.

Example ex_table :
  run Z ex_tubid [50; 51]
      [Negotiated Z Client [97; 98] (pz (Some 97) []) (Some [97; 98]) true false;
       Negotiated Z Server [] (pz (Some 99) [97]) (Some [97; 98]) true false;       (* impostor showing the victim's public certificate as an extra: rejected *)
       Negotiated Z Server [] (pz (Some 20) []) (Some [20; 21]) false false;      (* we decide: attached at once *)
       LoopbackRequested Z;
       Detached Z [97; 98]]
  = [([50; 51], {| conn_cert := None; conn_loop := true |});
     ([20; 21], {| conn_cert := Some 20; conn_loop := false |})].
Proof. vm_compute. reflexivity. Qed.

(* an intruder that authenticates with its own certificate 99, appends Tub [97;98]'s public certificate and claims it *)
Example ex_reject_extra_chain :
  handle_hello Z ex_tubid Client [50] [97; 98] (pz (Some 99) [97]) (Some [97; 98]) = Reject "BananaError".
Proof. vm_compute. reflexivity. Qed.

Example ex_reject_no_leaf :
  handle_hello Z ex_tubid Server [50] [] (pz None [97]) (Some [97; 98]) = Reject "CertificateError".
Proof. vm_compute. reflexivity. Qed.

(* ------------------------------------------------------------------ inbound references as a history (round 5)
   every tracker that carries a URL -- however many my-reference sequences, long or short, for new or known clids, the peer
   sent over this connection -- names the id the connection is registered under *)
Definition rtab_ok (k : list Z) (t : rtab) : Prop := forall clid u, In (clid, Some u) t -> u = k.

Lemma rt_set_ok k clid t : rtab_ok k t -> forall u, (forall u', u = Some u' -> u' = k) -> rtab_ok k (rt_set clid u t).
Proof.
  induction t as [|[c u0] r IH]; intros Hok u Hu; cbn [rt_set]; [exact Hok|].
  destruct (c =? clid).
  - intros c' u' [H|H]; [inversion H; subst; apply Hu; reflexivity|apply (Hok c' u'); right; exact H].
  - intros c' u' [H|H]; [apply (Hok c' u'); left; exact H|].
    refine (IH _ u Hu c' u' H). intros c2 u2 H2. apply (Hok c2 u2). right; exact H2.
Qed.

Lemma ref_step_ok k t m : rtab_ok k t -> rtab_ok k (ref_step k t m).
Proof.
  intros Hok. destruct m as [clid url]. unfold ref_step.
  destruct (rt_get clid t) as [old|].
  - unfold known_clid_url_policy. exact Hok.
  - destruct url as [u|].
    + destruct (accept_inbound_ref k u) eqn:E; [|exact Hok].
      apply inbound_url_rule in E. intros c' u' [H|H]; [inversion H; subst; reflexivity|apply (Hok c' u' H)].
    + intros c' u' [H|H]; [discriminate H|apply (Hok c' u' H)].
Qed.

Theorem ref_urls_proven k ms clid u : In (clid, Some u) (ref_run k ms) -> u = k.
Proof.
  unfold ref_run.
  assert (G : forall t, rtab_ok k t -> rtab_ok k (fold_left (ref_step k) ms t)).
  { induction ms as [|m r IH]; intros t Ht; cbn [fold_left]; [exact Ht|]. apply IH. apply ref_step_ok. exact Ht. }
  apply (G [] ). intros c' u' [].
Qed.

Example ex_ref_history :
  ref_run [1; 2] [(3, None); (3, Some [9; 9]); (4, Some [9; 9]); (5, Some [1; 2]); (5, Some [9; 9])] = [(5, Some [1; 2]); (3, None)].
Proof. vm_compute. reflexivity. Qed.
