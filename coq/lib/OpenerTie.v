(* C11: the index-token check of the standard-unslicer model (lib/StdUnsl.std_opener, hand-written) IS the translated
   RootUnslicer.openerCheckToken (gen/OpenerGen.root_opener_accepts), for all arguments. *)
From Coq Require Import ZArith List Bool Lia.
Import ListNotations.
Require Import Verif.lib.PyLite Verif.gen.BananaGen Verif.gen.RecvGen Verif.lib.Token Verif.lib.Recv Verif.lib.Unsl Verif.lib.StdUnsl
               Verif.lib.OpenerBase Verif.gen.OpenerGen.
Local Open Scope Z_scope.

Lemma bytes_eqb_list_eqb : forall a b, bytes_eqb a b = list_eqb a b.
Proof. induction a as [|x a IH]; intros [|y b]; cbn [bytes_eqb list_eqb]; try reflexivity; rewrite IH; reflexivity. Qed.

Lemma ot_is_copyable_spec ot : ot_is_copyable ot = match ot with [c] => list_eqb c str_copyable | _ => false end.
Proof. unfold ot_is_copyable. destruct ot as [|c [|? ?]]; try reflexivity; apply bytes_eqb_list_eqb. Qed.

Ltac zb := repeat match goal with
                  | |- context [Z.leb ?a ?b] => destruct (Z.leb_spec a b)
                  | |- context [Z.ltb ?a ?b] => destruct (Z.ltb_spec a b)
                  | |- context [Z.eqb ?a ?b] => destruct (Z.eqb_spec a b)
                  | |- context [Z.geb ?a ?b] => rewrite (Z.geb_leb a b)
                  | |- context [Z.gtb ?a ?b] => rewrite (Z.gtb_ltb a b)
                  end; cbn [andb orb negb]; try reflexivity; try lia.

Theorem std_opener_is_translated : forall mi lg st ty size ot,
  std_opener mi lg st ty size ot = if root_opener_accepts mi lg ot ty size then OOk tt else OViol.
Proof.
  intros mi lg st ty size ot. unfold std_opener, root_opener_accepts. rewrite ot_is_copyable_spec.
  unfold tok_STRING, tok_VOCAB. destruct ot as [|c [|c2 r]]; try destruct (list_eqb c str_copyable); zb.
Qed.

(* hence the translated check bounds what the model's receiver accepts as an index token *)
Corollary std_opener_accepts_iff : forall mi lg st ty size ot,
  std_opener mi lg st ty size ot = OOk tt <-> root_opener_accepts mi lg ot ty size = true.
Proof. intros. rewrite std_opener_is_translated. destruct (root_opener_accepts mi lg ot ty size); split; intros H; try reflexivity; discriminate. Qed.
