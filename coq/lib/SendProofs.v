(* C10: proofs about lib/Send.v *)
From Coq Require Import ZArith List Bool Lia.
Import ListNotations.
Require Import Verif.lib.PyLite Verif.gen.SendGen Verif.lib.Send.
Local Open Scope Z_scope.

Lemma run_app s a b : run s (a ++ b) = run (run s a) b.
Proof. unfold run. apply fold_left_app. Qed.

Lemma rrun_app r a b : rrun r (a ++ b) = rrun (rrun r a) b.
Proof. unfold rrun. apply fold_left_app. Qed.

(* with the flags that the two `except Violation` sites of produce pass, both kinds of send violation write
   ABORT n; CLOSE n for every slicer on the stack, innermost first, and leave only the RootSlicer *)
Lemma violation_push s : stack s <> [] ->
  violation push_violation_pops push_violation_aborts s =
  {| stack := []; cnt := cnt s; up := up s; out := out s ++ unwind_all (stack s); cur := []; log := log s ++ [OAborted] |}.
Proof. intros H. unfold violation. destruct (stack s) as [|id r]; [congruence|]. reflexivity. Qed.

Lemma violation_next s : stack s <> [] ->
  violation next_violation_pops next_violation_aborts s =
  {| stack := []; cnt := cnt s; up := up s; out := out s ++ unwind_all (stack s); cur := []; log := log s ++ [OAborted] |}.
Proof. intros H. unfold violation. destruct (stack s) as [|id r]; [congruence|]. reflexivity. Qed.

Lemma violation_root f1 f2 s : stack s = [] ->
  violation f1 f2 s = {| stack := []; cnt := cnt s; up := up s; out := out s; cur := []; log := log s ++ [ONotStarted] |}.
Proof. intros H. unfold violation. rewrite H. reflexivity. Qed.

(* ---- C10_send_abort_wellformed, part 1: what a violation at any depth writes *)
Theorem violation_shape s e : up s = true -> stack s <> [] -> (e = EUnsendable \/ e = ERaise) ->
  let s' := step s e in
  out s' = out s ++ unwind_all (stack s) /\ stack s' = [] /\ up s' = true /\ cnt s' = cnt s /\
  log s' = log s ++ [OAborted].
Proof.
  intros U N H. cbn zeta. unfold step. rewrite U. cbn [negb]. destruct H as [-> | ->].
  - rewrite violation_push by exact N. cbn. auto.
  - destruct (stack s) eqn:E; [congruence|]. rewrite violation_next by (rewrite E; discriminate). cbn. rewrite E. auto.
Qed.

(* the last two tokens of an aborted object are ABORT n; CLOSE n for the n of its own top-level OPEN *)
Lemma unwind_all_last st : st <> [] -> exists pre, unwind_all st = pre ++ [TAbort (last st 0); TClose (last st 0)].
Proof.
  induction st as [|a [|b r] IH]; intros H; [congruence|exists []; reflexivity|].
  destruct IH as [pre E]; [discriminate|]. exists ([TAbort a; TClose a] ++ pre).
  change (unwind_all (a :: b :: r)) with ([TAbort a; TClose a] ++ unwind_all (b :: r)). rewrite E.
  rewrite <- app_assoc. reflexivity.
Qed.

(* ---- the receiver's view *)
Lemma unwind_recv st : st <> [] -> forall r, rsync r = true -> rstack r = st ->
  rrun r (unwind_all st) = {| rstack := []; rcur := []; raborted := false; rlog := rlog r ++ [Dropped]; rsync := true |}.
Proof.
  induction st as [|a [|b rest] IH]; intros N r S E; [congruence| |].
  - cbn [unwind_all flat_map app rrun fold_left]. unfold rstep at 2. rewrite S, E. cbn [negb]. rewrite Z.eqb_refl.
    unfold rstep. cbn [rsync rstack raborted rlog negb]. rewrite Z.eqb_refl. reflexivity.
  - change (unwind_all (a :: b :: rest)) with ([TAbort a; TClose a] ++ unwind_all (b :: rest)).
    rewrite rrun_app. cbn [rrun fold_left]. unfold rstep at 2. rewrite S, E. cbn [negb]. rewrite Z.eqb_refl.
    unfold rstep at 1. cbn [rsync rstack raborted rlog rcur negb]. rewrite Z.eqb_refl.
    fold (rrun {| rstack := b :: rest; rcur := rcur r; raborted := true; rlog := rlog r; rsync := true |} (unwind_all (b :: rest))).
    rewrite IH; [reflexivity|discriminate|reflexivity|reflexivity].
Qed.

Lemma visible_app a b : visible (a ++ b) = visible a ++ visible b.
Proof. induction a as [|[d| |] a IH]; cbn [visible app]; rewrite ?IH; reflexivity. Qed.

(* sender and receiver stay in step: same nesting, same pending data, and the receiver has been handed exactly the
   objects that the sender's RootSlicer reported as sent; aborted ones were dropped whole *)
Definition Inv (s : sstate) : Prop :=
  let r := rrun rinit (out s) in
  rsync r = true /\ rstack r = stack s /\ rcur r = cur s /\ raborted r = false /\ rlog r = visible (log s) /\
  (stack s = [] -> cur s = []).

Lemma Inv_init c : Inv (init c).
Proof. unfold Inv. cbn. auto 10. Qed.

Lemma Inv_step s e : Inv s -> Inv (step s e).
Proof.
  destruct s as [st c u o cu lg]. unfold Inv. cbn [out stack cur log]. intros (S & K & C & A & L & R0).
  unfold step. cbn [up stack cnt out cur log]. destruct u; cbn [negb]; [|cbn [out stack cur log]; auto 10].
  remember (rrun rinit o) as r eqn:Hr.
  destruct e.
  - (* ETok *) destruct st as [|id st].
    + cbn [out stack cur log]. rewrite rrun_app, <- Hr. cbn [rrun fold_left]. unfold rstep. rewrite S, K. cbn.
      rewrite C, A, L, visible_app. cbn. auto 10.
    + cbn [out stack cur log]. rewrite rrun_app, <- Hr. cbn [rrun fold_left]. unfold rstep. rewrite S, K. cbn.
      rewrite C, A, L. repeat split; try reflexivity. discriminate.
  - (* EPush *) cbn [out stack cur log]. rewrite rrun_app, <- Hr. cbn [rrun fold_left]. unfold rstep. rewrite S. cbn.
    rewrite K, C, A, L. repeat split; try reflexivity. discriminate.
  - (* EUnsendable *) destruct st as [|id st].
    + rewrite violation_root by reflexivity. cbn [out stack cur log]. rewrite <- Hr, visible_app. cbn [visible].
      rewrite app_nil_r. rewrite (R0 eq_refl) in C. auto 10.
    + rewrite violation_push by (cbn; discriminate). cbn [out stack cur log up cnt]. rewrite rrun_app, <- Hr.
      rewrite (unwind_recv (id :: st)) by (try discriminate; assumption). cbn. rewrite L, visible_app. cbn. auto 10.
  - (* EEnd *) destruct st as [|id [|id2 st]].
    + cbn [out stack cur log]. rewrite <- Hr. auto 10.
    + cbn [out stack cur log]. rewrite rrun_app, <- Hr. cbn [rrun fold_left]. unfold rstep. rewrite S, K. cbn.
      rewrite Z.eqb_refl. cbn. rewrite A, C, L, visible_app. cbn. auto 10.
    + cbn [out stack cur log]. rewrite rrun_app, <- Hr. cbn [rrun fold_left]. unfold rstep. rewrite S, K. cbn.
      rewrite Z.eqb_refl. cbn. rewrite A, C, L. repeat split; try reflexivity. discriminate.
  - (* ERaise *) destruct st as [|id st].
    + unfold crash. cbn [out stack cur log]. rewrite <- Hr. auto 10.
    + rewrite violation_next by (cbn; discriminate). cbn [out stack cur log up cnt]. rewrite rrun_app, <- Hr.
      rewrite (unwind_recv (id :: st)) by (try discriminate; assumption). cbn. rewrite L, visible_app. cbn. auto 10.
  - (* ECrash *) unfold crash. cbn [out stack cur log]. rewrite <- Hr. auto 10.
Qed.

Lemma Inv_run evs : forall s, Inv s -> Inv (run s evs).
Proof. induction evs as [|e evs IH]; intros s H; [exact H|]. cbn [run fold_left]. apply IH. apply Inv_step. exact H. Qed.

(* ---- C10_send_abort_wellformed, part 2: for EVERY sequence of slicer behaviours (any trees, any violation or crash
   positions) the stream written so far is well nested -- a receiver that checks every CLOSE and ABORT number against
   its own stack never loses sync and has exactly the sender's open sequences on its stack -- and it has been handed
   exactly the sender's finished objects, each aborted one dropped as a whole *)
Theorem wire_wellformed c evs :
  let s := run (init c) evs in
  let r := rrun rinit (out s) in
  rsync r = true /\ rstack r = stack s /\ rlog r = visible (log s).
Proof. destruct (Inv_run evs (init c) (Inv_init c)) as (S & K & _ & _ & L & _). auto. Qed.

(* ---- the connection survives everything except a non-Violation exception *)
Lemma step_up s e : ok_event s e = true -> up (step s e) = up s.
Proof.
  intros H. unfold step. destruct (up s) eqn:U; cbn [negb]; [|exact U].
  destruct e; cbn in H; try discriminate; try reflexivity.
  - destruct (stack s); reflexivity.
  - unfold violation. destruct (stack s); cbn; exact U.
  - destruct (stack s) as [|a [|b l]]; cbn; try reflexivity; exact U.
  - destruct (stack s) eqn:E; [discriminate|]. unfold violation. rewrite E. cbn. exact U.
Qed.

Theorem stays_up evs : forall s, all_ok s evs = true -> up (run s evs) = up s.
Proof.
  induction evs as [|e evs IH]; intros s H; [reflexivity|]. cbn [all_ok] in H. apply andb_true_iff in H as [H1 H2].
  cbn [run fold_left]. fold (run (step s e) evs). rewrite IH by exact H2. apply step_up. exact H1.
Qed.

(* ---- siblings: a fault-free object, sent after ANY history that left the RootSlicer in charge (whatever was aborted
   in it), is written and delivered in full *)
Inductive bal : list event -> list Z -> Prop :=
| bal_nil : bal [] []
| bal_tok z evs d : bal evs d -> bal (ETok z :: evs) (z :: d)
| bal_sub b db evs d : bal b db -> bal evs d -> bal (EPush :: b ++ EEnd :: evs) (db ++ d).

Lemma run_bal b d : bal b d -> forall s, up s = true -> stack s <> [] ->
  let s' := run s b in stack s' = stack s /\ cur s' = cur s ++ d /\ log s' = log s /\ up s' = true /\
                       exists o', out s' = out s ++ o'.
Proof.
  induction 1 as [|z evs d _ IH|b db evs d _ IHb _ IHe]; intros s U N.
  - cbn. rewrite app_nil_r. repeat split; auto. exists []. rewrite app_nil_r. reflexivity.
  - cbn [run fold_left]. fold (run (step s (ETok z)) evs).
    assert (E : step s (ETok z) = {| stack := stack s; cnt := cnt s; up := true; out := out s ++ [TData z];
                                     cur := cur s ++ [z]; log := log s |}).
    { unfold step. rewrite U. cbn [negb]. destruct (stack s); [congruence|reflexivity]. }
    specialize (IH (step s (ETok z))). rewrite E in *. cbn [up stack cur log out] in IH.
    destruct (IH eq_refl N) as (A & B & C & D & o' & O). cbn [stack cur log out] in *.
    split; [exact A|]. split; [rewrite B, <- app_assoc; reflexivity|]. split; [exact C|]. split; [exact D|].
    exists ([TData z] ++ o'). rewrite O, <- app_assoc. reflexivity.
  - cbn [run fold_left]. fold (run (step s EPush) (b ++ EEnd :: evs)). rewrite run_app.
    assert (E : step s EPush = {| stack := cnt s :: stack s; cnt := cnt s + open_counter_step; up := true;
                                  out := out s ++ [TOpen (cnt s)]; cur := cur s; log := log s |}).
    { unfold step. rewrite U. reflexivity. }
    specialize (IHb (step s EPush)). rewrite E in *. cbn [up stack cur log out] in IHb.
    destruct (IHb eq_refl ltac:(discriminate)) as (A & B & C & D & o1 & O1). cbn [stack cur log out] in *.
    cbn [run fold_left]. fold (run (step (run {| stack := cnt s :: stack s; cnt := cnt s + open_counter_step; up := true;
       out := out s ++ [TOpen (cnt s)]; cur := cur s; log := log s |} b) EEnd) evs).
    set (s1 := run _ b) in *.
    assert (E2 : step s1 EEnd = {| stack := stack s; cnt := cnt s1; up := true; out := out s1 ++ [TClose (cnt s)];
                                   cur := cur s1; log := log s1 |}).
    { unfold step. rewrite D, A. cbn [negb]. destruct (stack s) eqn:Es; [congruence|reflexivity]. }
    specialize (IHe (step s1 EEnd)). rewrite E2 in *. cbn [up stack cur log out] in IHe.
    destruct (IHe eq_refl N) as (A' & B' & C' & D' & o2 & O2). cbn [stack cur log out] in *.
    split; [exact A'|]. split; [rewrite B', B, <- app_assoc; reflexivity|]. split; [rewrite C', C; reflexivity|].
    split; [exact D'|].
    exists ([TOpen (cnt s)] ++ o1 ++ [TClose (cnt s)] ++ o2). rewrite O2, O1, <- !app_assoc. reflexivity.
Qed.

Theorem sibling_delivered c pre b d : bal b d ->
  let s := run (init c) pre in
  up s = true -> stack s = [] ->
  let s' := run (init c) (pre ++ EPush :: b ++ [EEnd]) in
  up s' = true /\ stack s' = [] /\ log s' = log s ++ [OSent d] /\
  rlog (rrun rinit (out s')) = rlog (rrun rinit (out s)) ++ [Delivered d].
Proof.
  intros B s U K s'.
  assert (C0 : cur s = []).
  { destruct (Inv_run pre (init c) (Inv_init c)) as (_ & _ & _ & _ & _ & R0). apply R0. exact K. }
  assert (E : log s' = log s ++ [OSent d] /\ up s' = true /\ stack s' = []).
  { subst s'. rewrite run_app. fold s. cbn [run fold_left]. fold (run (step s EPush) (b ++ [EEnd])). rewrite run_app.
    assert (E : step s EPush = {| stack := [cnt s]; cnt := cnt s + open_counter_step; up := true;
                                  out := out s ++ [TOpen (cnt s)]; cur := cur s; log := log s |}).
    { unfold step. rewrite U, K. reflexivity. }
    rewrite E. destruct (run_bal b d B {| stack := [cnt s]; cnt := cnt s + open_counter_step; up := true;
                                  out := out s ++ [TOpen (cnt s)]; cur := cur s; log := log s |} eq_refl ltac:(discriminate)) as (A1 & B1 & C1 & D1 & _).
    cbn [stack cur log out] in *. set (s1 := run _ b) in *. cbn [run fold_left]. unfold step. rewrite D1, A1. cbn.
    rewrite B1, C1, C0. auto. }
  destruct E as (E1 & E2 & E3). split; [exact E2|]. split; [exact E3|]. split; [exact E1|].
  destruct (wire_wellformed c (pre ++ EPush :: b ++ [EEnd])) as (_ & _ & L'). fold s' in L'.
  destruct (wire_wellformed c pre) as (_ & _ & L). fold s in L.
  rewrite L', L, E1, visible_app. reflexivity.
Qed.

(* ---- the numbers in OPEN/CLOSE/ABORT are the only thing a history leaves behind: the stream written for any
   continuation is the same up to that offset *)
Definition shift_state (d : Z) (s : sstate) : sstate :=
  {| stack := map (fun n => n + d) (stack s); cnt := cnt s + d; up := up s; out := map (shift_tok d) (out s);
     cur := cur s; log := log s |}.

Lemma unwind_shift d st : unwind_all (map (fun n => n + d) st) = map (shift_tok d) (unwind_all st).
Proof. unfold unwind_all. induction st as [|a st IH]; [reflexivity|]. cbn [map flat_map]. rewrite map_app, IH. reflexivity. Qed.

Lemma violation_shift d f1 f2 s : violation f1 f2 (shift_state d s) = shift_state d (violation f1 f2 s).
Proof.
  destruct s as [st c u o cu lg]. unfold violation, shift_state. cbn [stack cnt up out cur log].
  destruct st as [|id st]; cbn [map]; [reflexivity|]. cbn [stack cnt up out cur log].
  f_equal. rewrite !map_app. f_equal. f_equal.
  - destruct f2, f1; reflexivity.
  - destruct f1; [apply unwind_shift | apply (unwind_shift d (id :: st))].
Qed.

Lemma step_shift d s e : step (shift_state d s) e = shift_state d (step s e).
Proof.
  unfold step. change (up (shift_state d s)) with (up s). destruct (up s) eqn:U; cbn [negb]; [|reflexivity].
  destruct e.
  - destruct s as [st c u o cu lg]. cbn in U. subst u. unfold shift_state. cbn [up stack cnt out cur log].
    destruct st; cbn; rewrite map_app; reflexivity.
  - destruct s as [st c u o cu lg]. cbn in U. subst u. unfold shift_state. cbn. rewrite map_app. cbn. f_equal. lia.
  - apply violation_shift.
  - destruct s as [st c u o cu lg]. cbn in U. subst u. unfold shift_state. cbn [up stack cnt out cur log].
    destruct st as [|id [|id2 st]]; cbn; rewrite ?map_app; reflexivity.
  - change (stack (shift_state d s)) with (map (fun n => n + d) (stack s)).
    destruct (stack s) eqn:E; cbn [map]; [reflexivity|]. apply violation_shift.
  - reflexivity.
Qed.

Theorem run_shift d evs : forall s, run (shift_state d s) evs = shift_state d (run s evs).
Proof.
  induction evs as [|e evs IH]; intros s; [reflexivity|]. cbn [run fold_left].
  fold (run (step (shift_state d s) e) evs). fold (run (step s e) evs). rewrite step_shift. apply IH.
Qed.

Corollary numbering_only c d evs :
  out (run (init (c + d)) evs) = map (shift_tok d) (out (run (init c) evs)) /\
  log (run (init (c + d)) evs) = log (run (init c) evs) /\ up (run (init (c + d)) evs) = up (run (init c) evs).
Proof.
  change (init (c + d)) with (shift_state d (init c)). rewrite run_shift. cbn. auto.
Qed.

(* ---- a non-Violation exception is different: the connection goes down and nothing further is written *)
Lemma run_down evs : forall s, up s = false -> run s evs = s.
Proof.
  induction evs as [|e evs IH]; intros s H; [reflexivity|]. cbn [run fold_left]. fold (run (step s e) evs).
  assert (E : step s e = s) by (unfold step; rewrite H; reflexivity). rewrite E. apply IH. exact H.
Qed.

Theorem crash_drops_connection c pre post : up (run (init c) pre) = true ->
  let s := run (init c) (pre ++ ECrash :: post) in
  up s = false /\ out s = out (run (init c) pre) /\ log s = log (run (init c) pre).
Proof.
  intros U. cbn zeta. rewrite run_app. cbn [run fold_left]. fold (run (init c) pre).
  fold (run (step (run (init c) pre) ECrash) post).
  assert (E : step (run (init c) pre) ECrash = crash (run (init c) pre)) by (unfold step; rewrite U; reflexivity).
  rewrite E. rewrite run_down by reflexivity. cbn. auto.
Qed.

(* ---- non-vacuity *)
Example ex_abort_depth2 :
  out (run (init 7) (events_of_top (Sub [Tok 1; Sub [Tok 2; Sub [Tok 3; Unsendable; Tok 9]]; Tok 4]))) =
  [TOpen 7; TData 1; TOpen 8; TData 2; TOpen 9; TData 3; TAbort 9; TClose 9; TAbort 8; TClose 8; TAbort 7; TClose 7].
Proof. vm_compute. reflexivity. Qed.

Example ex_bal : bal [ETok 1; EPush; ETok 2; EEnd; ETok 3] [1; 2; 3].
Proof. apply bal_tok. apply (bal_sub [ETok 2] [2] [ETok 3] [3]); repeat constructor. Qed.

Example ex_all_ok : all_ok (init 0) (events_of_top (Sub [Tok 1; Sub [RaiseV]]) ++ events_of_top (Sub [Tok 5])) = true.
Proof. vm_compute. reflexivity. Qed.

(* ---- OPEN numbers: the sender writes consecutive numbers into its OPENs ... *)
Lemma next_open_app c a b : next_open c (a ++ b) = match next_open c a with Some c' => next_open c' b | None => None end.
Proof.
  revert c. induction a as [|t a IH]; intros c; [reflexivity|]. destruct t; cbn [app next_open]; try apply IH.
  destruct (n =? c); [apply IH|reflexivity].
Qed.

Lemma next_open_unwind c st : next_open c (unwind_all st) = Some c.
Proof. induction st as [|a st IH]; [reflexivity|]. cbn [unwind_all flat_map app next_open] in *. exact IH. Qed.

Lemma violation_opens c0 f1 f2 s : next_open c0 (out s) = Some (cnt s) ->
  next_open c0 (out (violation f1 f2 s)) = Some (cnt (violation f1 f2 s)).
Proof.
  intros H. unfold violation. destruct (stack s) as [|id r]; cbn [out cnt]; [exact H|].
  rewrite next_open_app, H, next_open_app.
  assert (E : next_open (cnt s) ((if f2 then [TAbort id] else []) ++ (if f1 then [TClose id] else [])) = Some (cnt s))
    by (destruct f1, f2; reflexivity).
  rewrite E. apply next_open_unwind.
Qed.

Lemma step_opens c0 s e : next_open c0 (out s) = Some (cnt s) -> next_open c0 (out (step s e)) = Some (cnt (step s e)).
Proof.
  intros H. unfold step. destruct (up s); cbn [negb]; [|exact H].
  destruct e.
  - destruct (stack s); cbn [out cnt]; rewrite next_open_app, H; reflexivity.
  - cbn [out cnt]. rewrite next_open_app, H. cbn [next_open]. rewrite Z.eqb_refl. reflexivity.
  - apply violation_opens. exact H.
  - destruct (stack s) as [|a [|b l]]; cbn [out cnt]; [exact H| |]; rewrite next_open_app, H; reflexivity.
  - destruct (stack s); [exact H|]. apply violation_opens. exact H.
  - exact H.
Qed.

Lemma run_opens c0 evs : forall s, next_open c0 (out s) = Some (cnt s) -> next_open c0 (out (run s evs)) = Some (cnt (run s evs)).
Proof.
  induction evs as [|e evs IH]; intros s H; [exact H|]. cbn [run fold_left]. fold (run (step s e) evs).
  apply IH. apply step_opens. exact H.
Qed.

(* ... and a receiver that counts EVERY OPEN -- also the ones it is discarding, whatever made it discard -- gives each
   OPEN exactly that number *)
Lemma crun_numbered ts : forall c flags n, next_open (ccount c) ts = Some n -> List.length flags = List.length ts ->
  cagree c = true -> cagree (crun c (combine ts flags)) = true /\ ccount (crun c (combine ts flags)) = n.
Proof.
  induction ts as [|t ts IH]; intros c flags n H L A.
  - destruct flags; [|discriminate]. cbn in *. inversion H. auto.
  - destruct flags as [|v flags]; [discriminate|]. cbn [List.length] in L. injection L as L.
    cbn [combine crun fold_left]. fold (crun (cstep c (t, v)) (combine ts flags)).
    destruct t; cbn [next_open] in H.
    + destruct (n0 =? ccount c) eqn:E; [|discriminate]. apply IH; [|exact L|].
      * unfold cstep, recv_counts_rejected_opens. rewrite orb_true_r. cbn [ccount]. exact H.
      * unfold cstep. cbn [cagree]. rewrite A, E. reflexivity.
    + apply IH; [exact H|exact L|exact A].
    + apply IH; [exact H|exact L|exact A].
    + apply IH; [exact H|exact L|exact A].
Qed.

Theorem open_numbers_in_step c evs flags :
  let s := run (init c) evs in
  List.length flags = List.length (out s) ->
  let r := crun (cinit c) (combine (out s) flags) in
  cagree r = true /\ ccount r = cnt s.
Proof.
  intros s L. apply crun_numbered; [|exact L|reflexivity].
  cbn [cinit ccount]. apply (run_opens c evs (init c)). reflexivity.
Qed.

Example ex_discarded_opens_counted :     (* the receiver rejects at the 3rd token; 2 more OPENs follow in the discarded part *)
  let s := run (init 0) (events_of_top (Sub [Tok 1; Sub [Tok 2; Sub [Tok 3]]]) ++ events_of_top (Sub [Sub [Tok 4]])) in
  let r := crun (cinit 0) (combine (out s) [false; false; true; false; false; false; false; false; false; false; false; false; false; false]) in
  (List.length (out s), ccount r, cnt s, cagree r) = (14%nat, 5, 5, true).
Proof. vm_compute. reflexivity. Qed.

(* ---- receive-side rejections stay inside their top-level object *)
Lemma dep_app d a b : dep d (a ++ b) = dep (dep d a) b.
Proof. revert d. induction a as [|t a IH]; intros d; [reflexivity|]. destruct t; cbn [app dep]; apply IH. Qed.

Lemma dep_unwind st : forall k, dep (List.length st + k) (unwind_all st) = k.
Proof.
  induction st as [|a st IH]; intros k; [reflexivity|]. cbn [unwind_all flat_map app dep List.length plus pred].
  apply IH.
Qed.

Lemma violation_depth f1 f2 s : dep 0 (out s) = List.length (stack s) ->
  dep 0 (out (violation f1 f2 s)) = List.length (stack (violation f1 f2 s)).
Proof.
  intros H. unfold violation. destruct (stack s) as [|id r] eqn:E; cbn [out stack List.length]; [exact H|].
  rewrite dep_app, H, dep_app. cbn [List.length].
  destruct f1, f2; cbn [app dep pred].
  - pose proof (dep_unwind r 0) as D. rewrite Nat.add_0_r in D. exact D.
  - pose proof (dep_unwind r 0) as D. rewrite Nat.add_0_r in D. exact D.
  - pose proof (dep_unwind (id :: r) 0) as D. cbn [List.length] in D. rewrite Nat.add_0_r in D. exact D.
  - pose proof (dep_unwind (id :: r) 0) as D. cbn [List.length] in D. rewrite Nat.add_0_r in D. exact D.
Qed.

Lemma step_depth s e : dep 0 (out s) = List.length (stack s) -> dep 0 (out (step s e)) = List.length (stack (step s e)).
Proof.
  intros H. unfold step. destruct (up s); cbn [negb]; [|exact H].
  destruct e.
  - destruct (stack s); cbn [out stack]; rewrite dep_app, H; reflexivity.
  - cbn [out stack]. rewrite dep_app, H. reflexivity.
  - apply violation_depth. exact H.
  - destruct (stack s) as [|a [|b l]] eqn:E; cbn [out stack]; [rewrite E; exact H| |]; rewrite dep_app, H; reflexivity.
  - destruct (stack s) eqn:E; [unfold crash; cbn [out stack]; rewrite E; exact H|]. apply violation_depth. rewrite E. exact H.
  - exact H.
Qed.

Lemma run_depth evs : forall s, dep 0 (out s) = List.length (stack s) -> dep 0 (out (run s evs)) = List.length (stack (run s evs)).
Proof.
  induction evs as [|e evs IH]; intros s H; [exact H|]. cbn [run fold_left]. fold (run (step s e) evs).
  apply IH. apply step_depth. exact H.
Qed.

Definition CInv (c : cstate) : Prop := cdown c = false /\ (cdepth c = 0%nat -> cdiscard c = false).

Lemma cstep_inv c tv : CInv c -> CInv (cstep c tv) /\ cdepth (cstep c tv) = dep (cdepth c) [fst tv].
Proof.
  intros [D R]. destruct tv as [t v]. unfold CInv, cstep, stuck, reject, pb_unslicers_propagate.
  destruct t; cbn [cdown cdepth cdiscard fst dep].
  - split; [split; [exact D|discriminate]|reflexivity].
  - split; [|reflexivity]. split.
    + rewrite D. cbn. rewrite !andb_false_r. reflexivity.
    + destruct (cdepth c) as [|[|k]]; cbn [pred]; try reflexivity. discriminate.
  - split; [|reflexivity]. split; [exact D|]. intros Z0. rewrite Z0. apply R. exact Z0.
  - split; [|reflexivity]. split.
    + rewrite D. cbn. rewrite !andb_false_r. reflexivity.
    + intros Z0. rewrite Z0. rewrite R by exact Z0. rewrite andb_false_r. reflexivity.
Qed.

Lemma crun_inv ts : forall c flags, List.length flags = List.length ts -> CInv c ->
  CInv (crun c (combine ts flags)) /\ cdepth (crun c (combine ts flags)) = dep (cdepth c) ts.
Proof.
  induction ts as [|t ts IH]; intros c flags L I.
  - destruct flags; [|discriminate]. cbn. auto.
  - destruct flags as [|v flags]; [discriminate|]. cbn [List.length] in L. injection L as L.
    cbn [combine crun fold_left]. fold (crun (cstep c (t, v)) (combine ts flags)).
    destruct (cstep_inv c (t, v) I) as [I' Dp]. destruct (IH _ _ L I') as [I'' Dp'].
    split; [exact I''|]. rewrite Dp', Dp. cbn [fst]. destruct t; reflexivity.
Qed.

(* for EVERY sequence of slicer behaviours on the sending side and EVERY choice of tokens at which the receiving side's
   unslicers raise Violation: no unslicer is left behind on the stack, the receiver's nesting is the sender's, and whenever
   the sender is back at its RootSlicer the receiver is back at its root and discards nothing -- the next call is received
   as if nothing had happened *)
Theorem receiver_rejections_contained c evs flags :
  let s := run (init c) evs in
  List.length flags = List.length (out s) ->
  let r := crun (cinit c) (combine (out s) flags) in
  cdown r = false /\ cdepth r = List.length (stack s) /\ (stack s = [] -> cdiscard r = false).
Proof.
  intros s L r.
  destruct (crun_inv (out s) (cinit c) flags L) as [[D R] Dp]; [split; [reflexivity|reflexivity]|].
  fold r in D, R, Dp. cbn [cinit cdepth] in Dp.
  assert (E : dep 0 (out s) = List.length (stack s)) by (apply (run_depth evs (init c)); reflexivity).
  split; [exact D|]. split; [rewrite Dp; exact E|].
  intros K. apply R. rewrite Dp, E, K. reflexivity.
Qed.

(* ---- what ABORT does to the counting receiver (receiver_rejections_contained alone does not say: a receiver that ignored ABORT
   would satisfy it too).  An ABORT inside a sequence -- the sender's handleSendViolation writes one for every open sequence of the
   failed object -- makes the receiver discard, and it goes on discarding for EVERY continuation that stays inside that top-level
   object, whatever the tokens and wherever its own unslicers raise: nothing of an aborted call is handed on after the ABORT. *)
Lemma discard_persists c tv : cdiscard c = true -> (1 <= dep (cdepth c) [fst tv])%nat -> cdiscard (cstep c tv) = true.
Proof.
  intros D L. destruct tv as [t v]. unfold cstep, reject. destruct t; cbn [cdiscard fst dep] in *.
  - rewrite D. reflexivity.
  - destruct (cdepth c) as [|[|k]]; cbn [pred] in L; [lia|lia|]. rewrite D. reflexivity.
  - destruct (cdepth c); [lia|reflexivity].
  - rewrite D. reflexivity.
Qed.

Lemma discard_run ts : forall c flags, cdiscard c = true -> List.length flags = List.length ts -> inside (cdepth c) ts = true ->
  cdiscard (crun c (combine ts flags)) = true /\ cdepth (crun c (combine ts flags)) = dep (cdepth c) ts.
Proof.
  induction ts as [|t ts IH]; intros c flags D L I.
  - destruct flags; [|discriminate]. cbn. auto.
  - destruct flags as [|v flags]; [discriminate|]. cbn [List.length] in L. injection L as L.
    cbn [combine crun fold_left]. fold (crun (cstep c (t, v)) (combine ts flags)).
    cbn [inside] in I. destruct (dep (cdepth c) [t]) as [|k] eqn:E; [discriminate|].
    assert (Dp : cdepth (cstep c (t, v)) = S k) by (rewrite <- E; destruct t; reflexivity).
    assert (D' : cdiscard (cstep c (t, v)) = true) by (apply discard_persists; [exact D|cbn [fst]; rewrite E; lia]).
    rewrite <- Dp in I. destruct (IH _ _ D' L I) as [A B]. split; [exact A|]. rewrite B, Dp, <- E. destruct t; reflexivity.
Qed.

Theorem abort_discards_whole_object c n v ts flags : (1 <= cdepth c)%nat -> List.length flags = List.length ts ->
  inside (cdepth c) ts = true ->
  let r := crun (cstep c (TAbort n, v)) (combine ts flags) in
  cdiscard r = true /\ cdepth r = dep (cdepth c) ts.
Proof.
  intros P L I. cbn zeta.
  assert (D : cdiscard (cstep c (TAbort n, v)) = true) by (cbn; destruct (cdepth c); [lia|reflexivity]).
  exact (discard_run ts (cstep c (TAbort n, v)) flags D L I).
Qed.

(* non-vacuity, on the sender's own stream: the 2nd argument of a call is unsendable at depth 2 (ABORT/CLOSE of the inner list, ABORT
   of the call, then its CLOSE); the receiver rejects nothing itself.  From the first ABORT to just before the last CLOSE it
   discards; after the last CLOSE it is back at top level and the sibling call is received *)
Example ex_abort_discards :
  let s := run (init 0) (events_of_top (Sub [Tok 1; Sub [Tok 2; Unsendable]])) in
  let nof := map (fun _ => false) in
  out s = [TOpen 0; TData 1; TOpen 1; TData 2; TAbort 1; TClose 1; TAbort 0; TClose 0] /\
  let c := crun (cinit 0) (combine (firstn 4 (out s)) (nof (firstn 4 (out s)))) in
  cdepth c = 2%nat /\ cdiscard c = false /\ inside (cdepth c) [TClose 1; TAbort 0] = true /\
  cdiscard (crun (cstep c (TAbort 1, false)) (combine [TClose 1; TAbort 0] [false; false])) = true /\
  cdiscard (crun (cinit 0) (combine (out s) (nof (out s)))) = false.
Proof. vm_compute. auto 10. Qed.

(* ---- f.type: module and name are the two sides of the LAST dot of the transmitted name, and qual() joins them back *)
Lemma split_last_spec sep t m n : split_last sep t = Some (m, n) -> t = m ++ [sep] ++ n /\ ~ In sep n.
Proof.
  revert m n. induction t as [|c r IH]; intros m n H; [discriminate|]. cbn [split_last] in H.
  destruct (split_last sep r) as [[m' n']|] eqn:E.
  - inversion H; subst. destruct (IH _ _ eq_refl) as [A B]. split; [cbn; f_equal; exact A|exact B].
  - destruct (c =? sep) eqn:C; [|discriminate]. inversion H; subst. apply Z.eqb_eq in C. subst c.
    split; [reflexivity|]. clear H IH. revert E. induction n as [|x n IHn]; intros E; [intros []|].
    cbn [split_last] in E. destruct (split_last sep n) as [[? ?]|] eqn:E2; [discriminate|].
    destruct (x =? sep) eqn:X; [discriminate|]. intros [F|F]; [apply Z.eqb_neq in X; congruence|exact (IHn eq_refl F)].
Qed.

Lemma split_last_some sep t : In sep t -> exists m n, split_last sep t = Some (m, n).
Proof.
  induction t as [|c r IH]; intros H; [destruct H|]. cbn [split_last].
  destruct (split_last sep r) as [[m n]|] eqn:E; [eauto|].
  destruct H as [H|H]; [subst; rewrite Z.eqb_refl; eauto|]. destruct (IH H) as (m & n & X). discriminate.
Qed.

Theorem type_name_identified sep t : In sep t -> requal sep t = t.
Proof.
  intros H. unfold requal. destruct (split_last_some sep t H) as (m & n & E). rewrite E.
  destruct (split_last_spec _ _ _ _ E) as [A _]. symmetry. exact A.
Qed.

Example ex_receiver_rejects_then_recovers :
  let s := run (init 0) (events_of_top (Sub [Tok 1; Sub [Tok 2; Sub [Tok 3]]]) ++ events_of_top (Sub [Sub [Tok 4]])) in
  let r := crun (cinit 0) (combine (out s) [false; false; true; false; false; false; false; false; false; false; false; false; false; false]) in
  (cdown r, cdepth r, cdiscard r) = (false, 0%nat, false).
Proof. vm_compute. reflexivity. Qed.

Example ex_split : split_last 46 [97; 46; 98; 46; 88] = Some ([97; 46; 98], [88]).
Proof. reflexivity. Qed.

(* ---- every delivery is handled, in order, whatever happens to the readiness of the ones before it *)
Theorem deliveries_all_handled q : drain false q = map expected_handling q.
Proof.
  induction q as [|[req r] q IH]; [reflexivity|]. cbn [drain map]. destruct r; unfold expected_handling at 1; cbn [fst snd].
  - rewrite IH. reflexivity.
  - unfold ready_flag_cleared_on_failure. cbn [negb]. rewrite IH. reflexivity.
Qed.

Example ex_deliveries : drain false [(1, ReadyOk); (2, ReadyFails); (3, ReadyOk); (4, ReadyFails); (5, ReadyOk)]
                        = [Ran 1; Refused 2; Ran 3; Refused 4; Ran 5].
Proof. reflexivity. Qed.

(* ---- whatever the logging options and whether or not the target declares a RemoteInterface, failing an active request
   fires its Deferred exactly once and raises nothing *)
Theorem fail_fires_once logging known r : p_active r = true ->
  fail_request logging known r = FailDone {| p_active := false; p_fired := S (p_fired r) |}.
Proof.
  intros A. unfold fail_request, log_name_has_fallback. rewrite A. rewrite andb_false_r. reflexivity.
Qed.
