(* C02 / C12: proofs about lib/Schema.v (all closed with Qed). *)
From Coq Require Import ZArith List String Bool Lia.
Import ListNotations.
Require Import Verif.lib.PyLite Verif.gen.BananaGen Verif.gen.SchemaGen Verif.lib.BytesProofs Verif.lib.Schema.
Local Open Scope Z_scope.

(* ------------------------------------------------------------------ induction principles (nested lists) *)
Section CtrInd.
  Variable P : ctr -> Prop.
  Hypothesis HAny : P CAny.
  Hypothesis HInt : forall mb, P (CInt mb).
  Hypothesis HNumber : forall mb, P (CNumber mb).
  Hypothesis HBytes : forall mx mn, P (CBytes mx mn).
  Hypothesis HText : forall mx mn, P (CText mx mn).
  Hypothesis HBool : forall v, P (CBool v).
  Hypothesis HNone : P CNone.
  Hypothesis HList : forall c mx mn, P c -> P (CList c mx mn).
  Hypothesis HTuple : forall cs, Forall P cs -> P (CTuple cs).
  Hypothesis HDict : forall k v mk, P k -> P v -> P (CDict k v mk).
  Hypothesis HSet : forall c mx mut, P c -> P (CSet c mx mut).
  Hypothesis HChoice : forall cs, Forall P cs -> P (CChoice cs).
  Hypothesis HOpt : forall c, P c -> P (COpt c).

  Fixpoint ctr_ind' (c : ctr) : P c :=
    let fix all (cs : list ctr) : Forall P cs :=
      match cs with [] => Forall_nil P | c1 :: cs' => Forall_cons c1 (ctr_ind' c1) (all cs') end in
    match c with
    | CAny => HAny | CInt mb => HInt mb | CNumber mb => HNumber mb | CBytes mx mn => HBytes mx mn
    | CText mx mn => HText mx mn | CBool v => HBool v | CNone => HNone
    | CList c1 mx mn => HList c1 mx mn (ctr_ind' c1)
    | CTuple cs => HTuple cs (all cs)
    | CDict k v mk => HDict k v mk (ctr_ind' k) (ctr_ind' v)
    | CSet c1 mx mut => HSet c1 mx mut (ctr_ind' c1)
    | CChoice cs => HChoice cs (all cs)
    | COpt c1 => HOpt c1 (ctr_ind' c1)
    end.
End CtrInd.

Section ObjInd.
  Variable P : obj -> Prop.
  Hypothesis HInt : forall z, P (OInt z).
  Hypothesis HFloat : forall b, P (OFloat b).
  Hypothesis HBytes : forall bs, P (OBytes bs).
  Hypothesis HText : forall cps, P (OText cps).
  Hypothesis HBool : forall b, P (OBool b).
  Hypothesis HNone : P ONone.
  Hypothesis HList : forall l, Forall P l -> P (OList l).
  Hypothesis HTuple : forall l, Forall P l -> P (OTuple l).
  Hypothesis HSet : forall l, Forall P l -> P (OSet l).
  Hypothesis HFset : forall l, Forall P l -> P (OFset l).
  Hypothesis HDict : forall ks vs, Forall P ks -> Forall P vs -> P (ODict ks vs).

  Fixpoint obj_ind' (o : obj) : P o :=
    let fix all (l : list obj) : Forall P l :=
      match l with [] => Forall_nil P | x :: l' => Forall_cons x (obj_ind' x) (all l') end in
    match o with
    | OInt z => HInt z | OFloat b => HFloat b | OBytes bs => HBytes bs | OText cps => HText cps
    | OBool b => HBool b | ONone => HNone
    | OList l => HList l (all l) | OTuple l => HTuple l (all l) | OSet l => HSet l (all l) | OFset l => HFset l (all l)
    | ODict ks vs => HDict ks vs (all ks) (all vs)
    end.
End ObjInd.

(* ------------------------------------------------------------------ small facts *)
Lemma zlen_nonneg {A} (l : list A) : 0 <= zlen l.
Proof. unfold zlen. lia. Qed.

Lemma zlen_cons {A} (x : A) l : zlen (x :: l) = zlen l + 1.
Proof. unfold zlen. cbn [List.length]. lia. Qed.

Lemma forallb_Forall_iff {A} (f : A -> bool) (P : A -> Prop) l :
  Forall (fun x => f x = true <-> P x) l -> (forallb f l = true <-> Forall P l).
Proof.
  induction 1 as [|x l Hx _ IH]; cbn [forallb].
  - split; constructor.
  - rewrite andb_true_iff, Hx, IH. split; [intros [A1 A2]; constructor; assumption|intros A1; inversion A1; auto].
Qed.

Lemma Forall_all {A} (P : A -> Prop) l : (forall x, P x) -> Forall P l.
Proof. intros H. induction l; constructor; auto. Qed.

(* ------------------------------------------------------------------ the declarative schema semantics *)
Definition int_in_range (mb : option Z) (z : Z) : Prop :=
  match mb with
  | None => True
  | Some m => if m =? -1 then - 2 ^ 31 <= z < 2 ^ 31 else Z.abs z < 2 ^ (8 * m)
  end.

Definition max_in (mx : option Z) (n : Z) : Prop := match mx with None => True | Some m => n <= m end.
Definition len_in (mx : option Z) (mn n : Z) : Prop := max_in mx n /\ mn <= n.
Definition fixed (A : Type) (v : option A) (x : A) : Prop := match v with None => True | Some y => x = y end.
Arguments fixed {A} v x.

Inductive satisfies : ctr -> obj -> Prop :=
| S_any o : satisfies CAny o
| S_int mb z : int_in_range mb z -> satisfies (CInt mb) (OInt z)
| S_numf mb b : satisfies (CNumber mb) (OFloat b)
| S_numi mb z : int_in_range mb z -> satisfies (CNumber mb) (OInt z)
| S_bytes mx mn bs : len_in mx mn (zlen bs) -> satisfies (CBytes mx mn) (OBytes bs)
| S_text mx mn cps : len_in mx mn (zlen cps) -> satisfies (CText mx mn) (OText cps)
| S_bool v b : fixed v b -> satisfies (CBool v) (OBool b)
| S_none : satisfies CNone ONone
| S_list c mx mn l : len_in mx mn (zlen l) -> Forall (satisfies c) l -> satisfies (CList c mx mn) (OList l)
| S_tuple cs l : Forall2 satisfies cs l -> satisfies (CTuple cs) (OTuple l)
| S_dict k v mk ks vs : max_in mk (zlen ks) -> Forall (satisfies k) ks -> Forall (satisfies v) vs ->
                        satisfies (CDict k v mk) (ODict ks vs)
| S_set c mx mut l : fixed mut true -> max_in mx (zlen l) -> Forall (satisfies c) l -> satisfies (CSet c mx mut) (OSet l)
| S_fset c mx mut l : fixed mut false -> max_in mx (zlen l) -> Forall (satisfies c) l -> satisfies (CSet c mx mut) (OFset l)
| S_choice cs c o : In c cs -> satisfies c o -> satisfies (CChoice cs) o
| S_opt c o : satisfies (COpt c) o.

Lemma int_ok_spec mb z : int_ok mb z = true <-> int_in_range mb z.
Proof.
  unfold int_ok, int_check, int_in_range. destruct mb as [m|]; [|cbn; tauto].
  destruct (m =? -1).
  - unfold int_check_32. change (Z.pow 2 31) with 2147483648. change (2 ^ 31) with 2147483648.
    destruct (Z.geb_spec z 2147483648), (Z.ltb_spec z (Z.opp 2147483648)); cbn [orb is_ok]; split; intros; try discriminate; try lia; reflexivity.
  - unfold int_check_mb. destruct (Z.geb_spec (Z.abs z) (Z.pow 2 (Z.mul 8 m))); cbn [is_ok]; split; intros; try discriminate; try lia; reflexivity.
Qed.

Lemma over_max_gt mx n : over_max SGt mx n = false <-> max_in mx n.
Proof. destruct mx as [m|]; cbn; [|tauto]. destruct (Z.gtb_spec n m); split; intros; try discriminate; try lia; reflexivity. Qed.

Lemma len_ok_spec mx mn n : len_ok SGt SLt mx mn n = true <-> len_in mx mn n.
Proof.
  unfold len_ok, len_in. rewrite andb_true_iff, !negb_true_iff, over_max_gt. cbn [scmp_eval].
  destruct (Z.ltb_spec n mn); split; intros [A1 A2]; split; auto; try discriminate; lia.
Qed.

Lemma bool_ok_spec v b : bool_ok v b = true <-> fixed v b.
Proof. destruct v as [x|]; cbn; [|tauto]. destruct b, x; cbn; split; intros; congruence. Qed.

Lemma mut_ok_spec mut b : mut_ok mut b = true <-> fixed mut b.
Proof. destruct mut as [x|]; cbn; [|tauto]. destruct b, x; cbn; split; intros; congruence. Qed.

Lemma all2_Forall2 (cs : list ctr) : forall l,
  Forall (fun c => forall o, checkObject c o = true <-> satisfies c o) cs ->
  (negb (scmp_eval SNe (zlen l) (zlen cs)) && all2 checkObject cs l = true <-> Forall2 satisfies cs l).
Proof.
  induction cs as [|c cs IH]; intros l H.
  - destruct l as [|x l]; cbn.
    + split; [constructor|reflexivity].
    + split; [|intros A1; inversion A1]. unfold zlen; cbn [List.length].
      destruct (Z.eqb_spec (Z.of_nat (S (List.length l))) (Z.of_nat 0)); cbn; [lia|discriminate].
  - inversion H as [|? ? Hc Hcs]; subst. destruct l as [|x l].
    + split; [|intros A1; inversion A1]. cbn [scmp_eval]. unfold zlen; cbn [List.length].
      destruct (Z.eqb_spec (Z.of_nat 0) (Z.of_nat (S (List.length cs)))); cbn; [lia|discriminate].
    + cbn [all2]. specialize (IH l Hcs). cbn [scmp_eval] in *. rewrite !zlen_cons.
      assert (E : (zlen l + 1 =? zlen cs + 1) = (zlen l =? zlen cs)).
      { destruct (Z.eqb_spec (zlen l) (zlen cs)), (Z.eqb_spec (zlen l + 1) (zlen cs + 1)); try reflexivity; lia. }
      rewrite E. split.
      * intros A1. apply andb_true_iff in A1 as [A1 A2]. apply andb_true_iff in A2 as [A2 A3].
        constructor; [apply Hc; assumption|]. apply IH. rewrite A1, A3. reflexivity.
      * intros A1. inversion A1 as [|? ? ? ? S1 S2]; subst. apply IH in S2.
        apply andb_true_iff in S2 as [B1 B2]. rewrite B1, B2. cbn [andb]. rewrite andb_true_r. apply Hc. assumption.
Qed.

(* C02, sentence 1 (object level): the executable check decides exactly the declared meaning of the constraint *)
Theorem checkObject_sound : forall c o, checkObject c o = true <-> satisfies c o.
Proof.
  induction c using ctr_ind'; intros o.
  - cbn. split; [constructor|reflexivity].
  - destruct o; cbn [checkObject]; try (split; [discriminate|intros A1; inversion A1]).
    rewrite int_ok_spec. split; [constructor; assumption|intros A1; inversion A1; assumption].
  - destruct o; cbn [checkObject]; try (split; [discriminate|intros A1; inversion A1]).
    + rewrite int_ok_spec. split; [constructor; assumption|intros A1; inversion A1; assumption].
    + split; [constructor|reflexivity].
  - destruct o; cbn [checkObject]; try (split; [discriminate|intros A1; inversion A1]).
    rewrite (len_ok_spec mx mn). split; [constructor; assumption|intros A1; inversion A1; assumption].
  - destruct o; cbn [checkObject]; try (split; [discriminate|intros A1; inversion A1]).
    rewrite (len_ok_spec mx mn). split; [constructor; assumption|intros A1; inversion A1; assumption].
  - destruct o; cbn [checkObject]; try (split; [discriminate|intros A1; inversion A1]).
    rewrite bool_ok_spec. split; [constructor; assumption|intros A1; inversion A1; assumption].
  - destruct o; cbn [checkObject]; try (split; [discriminate|intros A1; inversion A1]).
    split; [constructor|reflexivity].
  - destruct o; cbn [checkObject]; try (split; [discriminate|intros A1; inversion A1]).
    rewrite andb_true_iff, (len_ok_spec mx mn), (forallb_Forall_iff _ (satisfies c)) by (apply Forall_all; apply IHc).
    split; [intros [A1 A2]; constructor; assumption|intros A1; inversion A1; auto].
  - destruct o; cbn [checkObject]; try (split; [discriminate|intros A1; inversion A1]).
    rewrite (all2_Forall2 cs l H). split; [constructor; assumption|intros A1; inversion A1; assumption].
  - destruct o; cbn [checkObject]; try (split; [discriminate|intros A1; inversion A1]).
    rewrite !andb_true_iff, negb_true_iff, (over_max_gt mk), (forallb_Forall_iff _ (satisfies c1)),
      (forallb_Forall_iff _ (satisfies c2)) by (apply Forall_all; assumption).
    split; [intros [[A1 A2] A3]; constructor; assumption|intros A1; inversion A1; auto].
  - destruct o; cbn [checkObject]; try (split; [discriminate|intros A1; inversion A1]).
    + rewrite !andb_true_iff, negb_true_iff, (over_max_gt mx), mut_ok_spec, (forallb_Forall_iff _ (satisfies c))
        by (apply Forall_all; assumption).
      split; [intros [[A1 A2] A3]; constructor; assumption|intros A1; inversion A1; auto].
    + rewrite !andb_true_iff, negb_true_iff, (over_max_gt mx), mut_ok_spec, (forallb_Forall_iff _ (satisfies c))
        by (apply Forall_all; assumption).
      split; [intros [[A1 A2] A3]; constructor; assumption|intros A1; inversion A1; auto].
  - cbn [checkObject]. rewrite existsb_exists. split.
    + intros (c & Hin & Hc). rewrite Forall_forall in H. apply (S_choice cs c); [assumption|]. apply H; assumption.
    + intros A1. inversion A1; subst. exists c. split; [assumption|]. rewrite Forall_forall in H. apply H; assumption.
  - cbn. split; [constructor|reflexivity].
Qed.

(* ------------------------------------------------------------------ C02, argument side *)
(* _doCall (shape translated from broker.py): the method is invoked only after checkAllArgs succeeded, on the very
   objects that are passed to it *)
Theorem doCall_checked ms a kw a' kw' :
  doCall ms a kw = CInvoke a' kw' -> a' = a /\ kw' = kw /\ checkAllArgs ms a kw = Ok tt.
Proof.
  unfold doCall. change doCall_shape with CheckedBeforeCall. cbv iota.
  destruct (checkAllArgs ms a kw) as [[]|t]; intros E; inversion E; subst. auto.
Qed.

(* ... whatever token stream (pos, kws: arbitrary wire trees, including forged references) produced the arguments *)
Theorem recv_call_checked ms pos kws a kw :
  recv_call ms pos kws = CInvoke a kw -> checkAllArgs ms a kw = Ok tt.
Proof.
  unfold recv_call. destruct (recv_pos ms pos 0) as [l| |]; try discriminate.
  destruct (recv_kw ms _ kws) as [l'| |]; try discriminate.
  intros E. apply doCall_checked in E as (-> & -> & E). exact E.
Qed.

(* what a successful checkAllArgs means *)
Fixpoint kw_fresh (prev : list Z) (l : list Z) : Prop :=
  match l with [] => True | n :: l' => ~ In n prev /\ kw_fresh (prev ++ [n]) l' end.

Lemma memZ_In n l : memZ n l = true <-> In n l.
Proof.
  unfold memZ. rewrite existsb_exists. split.
  - intros (x & Hin & E). apply Z.eqb_eq in E. subst. assumption.
  - intros Hin. exists n. split; [assumption|apply Z.eqb_refl].
Qed.

Lemma add_kwargs_spec {V} (kw : list (Z * V)) : forall acc r,
  add_kwargs acc kw = Some r <-> (r = acc ++ kw /\ kw_fresh (map fst acc) (map fst kw)).
Proof.
  induction kw as [|[n v] kw IH]; intros acc r; cbn [add_kwargs map kw_fresh fst].
  - rewrite app_nil_r. split; [intros E; inversion E; auto|intros [-> _]; reflexivity].
  - destruct (memZ n (map fst acc)) eqn:M.
    + apply memZ_In in M. split; [discriminate|intros [_ [A1 _]]; contradiction].
    + assert (N : ~ In n (map fst acc)) by (intros A1; apply memZ_In in A1; congruence).
      rewrite IH, map_app. cbn [map fst]. rewrite <- app_assoc. cbn [app].
      split; [intros [-> A2]; auto|intros [-> [_ A2]]; auto].
Qed.

Lemma lookup_In n l a : lookup n l = Some a -> In a l /\ a_name a = n.
Proof.
  induction l as [|b l IH]; cbn [lookup]; [discriminate|].
  destruct (Z.eqb_spec n (a_name b)).
  - intros E; inversion E; subst. split; [left; reflexivity|reflexivity].
  - intros E. destruct (IH E). split; [right; assumption|assumption].
Qed.

(* C02, sentence 1 (argument list): checkAllArgs succeeds exactly when there are no more positional values than declared
   names, no name is bound twice, every bound name is declared and its value satisfies the declared constraint,
   and every argument not declared Optional is bound *)
Theorem checkAllArgs_spec ms a kw :
  checkAllArgs ms a kw = Ok tt <->
  (zlen a <= zlen (ms_args ms) /\
   kw_fresh (map fst (combine (names ms) a)) (map fst kw) /\
   (forall n v, In (n, v) (combine (names ms) a ++ kw) ->
      exists sp, lookup n (ms_args ms) = Some sp /\ satisfies (a_ctr sp) v) /\
   (forall sp, In sp (ms_args ms) -> a_opt sp = false -> In (a_name sp) (map fst (combine (names ms) a ++ kw)))).
Proof.
  unfold checkAllArgs. change args_count_cmp with SGt. cbn [scmp_eval].
  destruct (Z.gtb_spec (zlen a) (zlen (ms_args ms))) as [G|G].
  { split; [discriminate|intros [A1 _]; lia]. }
  destruct (add_kwargs (combine (names ms) a) kw) as [allargs|] eqn:E.
  - apply add_kwargs_spec in E as [-> F].
    assert (A : forallb (arg_ok ms) (combine (names ms) a ++ kw) = true <->
                (forall n v, In (n, v) (combine (names ms) a ++ kw) ->
                   exists sp, lookup n (ms_args ms) = Some sp /\ satisfies (a_ctr sp) v)).
    { rewrite forallb_forall. unfold arg_ok. split.
      - intros H n v Hin. specialize (H _ Hin). cbn [fst snd] in H.
        destruct (lookup n (ms_args ms)) as [sp|]; [|discriminate]. exists sp. split; [reflexivity|].
        apply checkObject_sound. assumption.
      - intros H [n v] Hin. destruct (H n v Hin) as (sp & L & S). cbn [fst snd]. rewrite L. apply checkObject_sound. assumption. }
    assert (R : required_ok ms (map fst (combine (names ms) a ++ kw)) = true <->
                (forall sp, In sp (ms_args ms) -> a_opt sp = false -> In (a_name sp) (map fst (combine (names ms) a ++ kw)))).
    { unfold required_ok. rewrite forallb_forall. split.
      - intros H sp Hin O. specialize (H sp Hin). rewrite O in H. cbn [orb] in H. apply memZ_In. assumption.
      - intros H sp Hin. destruct (a_opt sp) eqn:O; [reflexivity|]. cbn [orb]. apply memZ_In. apply H; assumption. }
    destruct (forallb (arg_ok ms) _) eqn:E1; cbn [negb].
    + destruct (required_ok ms _) eqn:E2; cbn [negb].
      * split; [intros _|reflexivity]. split; [lia|]. split; [assumption|]. split; [apply A; reflexivity|apply R; reflexivity].
      * split; [discriminate|]. intros (_ & _ & _ & A4). apply R in A4. discriminate.
    + split; [discriminate|]. intros (_ & _ & A3 & _). apply A in A3. discriminate.
  - split; [discriminate|]. intros (_ & F & _).
    assert (E' : add_kwargs (combine (names ms) a) kw = Some (combine (names ms) a ++ kw)) by (apply add_kwargs_spec; auto).
    congruence.
Qed.

(* C02, sentence 1, as one statement about inbound calls: if the method body runs, every value it is given satisfies
   the constraint declared for the name it is bound to, no undeclared name is bound, and every required one is *)
Theorem C02_args_main ms pos kws a kw :
  recv_call ms pos kws = CInvoke a kw ->
  (forall n v, In (n, v) (combine (names ms) a ++ kw) ->
     exists sp, In sp (ms_args ms) /\ a_name sp = n /\ satisfies (a_ctr sp) v) /\
  (forall sp, In sp (ms_args ms) -> a_opt sp = false -> In (a_name sp) (map fst (combine (names ms) a ++ kw))) /\
  kw_fresh (map fst (combine (names ms) a)) (map fst kw) /\ zlen a <= zlen (ms_args ms).
Proof.
  intros E. apply recv_call_checked in E. apply checkAllArgs_spec in E as (A1 & A2 & A3 & A4).
  split; [|split; [assumption|split; assumption]].
  intros n v Hin. destruct (A3 n v Hin) as (sp & L & S). apply lookup_In in L as [L1 L2]. exists sp. auto.
Qed.

Definition ms1 (c : ctr) : mschema := {| ms_args := [{| a_name := 1; a_ctr := c; a_opt := false |}]; ms_resp := None |}.

Example C02_args_nonvacuous :
  recv_call (ms1 (CList (CInt (Some 1024)) (Some 2) 0)) [slice (OList [OInt 5; OInt (2 ^ 40)])] [] =
  CInvoke [OList [OInt 5; OInt (2 ^ 40)]] [].
Proof. vm_compute. reflexivity. Qed.

(* a violation makes the call fail and the method is not run: a short tuple, a back-reference to a list where a
   tuple is declared, an unknown keyword, a missing argument *)
Example C02_args_rejects :
  recv_call (ms1 (CTuple [CInt None; CInt None])) [WOpen OtTuple [WInt 129 7 7]] [] = CViol /\
  recv_call (ms1 (CTuple [CInt None; CInt None])) [WRef (OList [OInt 1; OInt 2])] [] = CViol /\
  recv_call (ms1 CAny) [WInt 129 7 7] [(2, WInt 129 7 7)] = CViol /\
  recv_call (ms1 CAny) [] [] = CViol.
Proof. vm_compute. auto. Qed.

(* ------------------------------------------------------------------ C02, result side: REFUTED on the current tree (D6) *)
Theorem C02_result_refuted :
  (exists c w v, recv_answer (Some c) w = Callback v /\ checkObject c v = false /\
                 c = CTuple [CInt (Some 1024); CInt (Some 1024)] /\ w = WOpen OtTuple [WInt 129 7 7]) /\
  (exists c w v, recv_answer (Some c) w = Callback v /\ checkObject c v = false /\
                 c = CText (Some 3) 0 /\ w = slice (OText [116; 111; 111; 108; 111; 110; 103])) /\
  (exists c w v, recv_answer (Some c) w = Callback v /\ checkObject c v = false /\
                 c = CInt (Some (-1)) /\ w = WInt 129 (2 ^ 40) (2 ^ 40)) /\
  (exists c w v, recv_answer (Some c) w = Callback v /\ checkObject c v = false /\
                 c = CBool None /\ w = WOpen OtBool []).
Proof.
  split; [|split; [|split]].
  - exists (CTuple [CInt (Some 1024); CInt (Some 1024)]), (WOpen OtTuple [WInt 129 7 7]), (OTuple [OInt 7]). vm_compute. auto.
  - exists (CText (Some 3) 0), (slice (OText [116; 111; 111; 108; 111; 110; 103])), (OText [116; 111; 111; 108; 111; 110; 103]).
    vm_compute. auto.
  - exists (CInt (Some (-1))), (WInt 129 (2 ^ 40) (2 ^ 40)), (OInt (2 ^ 40)). vm_compute. auto.
  - exists (CBool None), (WOpen OtBool []), ONone. vm_compute. auto.
Qed.

(* C02, sentence 3 ("that one call fails with a Violation"): REFUTED for strictTaster constraints -- the connection is lost *)
Theorem C02_one_call_refuted :
  exists ms pos, recv_call ms pos [] = CAbort /\ ms = ms1 (CText None 0) /\ pos = [WInt 129 5 5].
Proof. exists (ms1 (CText None 0)), [WInt 129 5 5]. vm_compute. auto. Qed.

(* ------------------------------------------------------------------ C12: REFUTED regions, one witness each *)
Definition d7a_ctr := CChoice [CList (CInt (Some 1024)) None 0; CTuple [CInt (Some 1024); CInt (Some 1024)]].

Theorem C12_refuted_choice :        (* D7a *)
  checkObject d7a_ctr (OList [OInt 1; OInt 2]) = true /\ recvw (Some d7a_ctr) (slice (OList [OInt 1; OInt 2])) = RAbort.
Proof. vm_compute. auto. Qed.

Theorem C12_refuted_anystring :     (* schema.AnyStringConstraint with a text *)
  let c := CChoice [CBytes None 0; CText None 0] in
  checkObject c (OText [97]) = true /\ recvw (Some c) (slice (OText [97])) = RAbort.
Proof. vm_compute. auto. Qed.

Theorem C12_refuted_optional :
  let c := CList (COpt (CInt (Some 1024))) None 0 in
  checkObject c (OList [OList [OInt 1]]) = true /\ recvw (Some c) (slice (OList [OList [OInt 1]])) = RAbort.
Proof. vm_compute. auto. Qed.

Theorem C12_refuted_any_huge_int :
  checkObject CAny (OInt (2 ^ 8001)) = true /\ recvw (Some CAny) (slice (OInt (2 ^ 8001))) = RViol.
Proof. vm_compute. auto. Qed.
