(* C02 / C12: proofs about lib/Schema.v (all closed with Qed). *)
From Coq Require Import ZArith List String Bool Lia.
Import ListNotations.
Require Import Verif.lib.PyLite Verif.gen.BananaGen Verif.gen.SchemaGen Verif.lib.BytesProofs Verif.lib.Schema.
Local Open Scope Z_scope.

(* ------------------------------------------------------------------ induction principles (nested lists) *)
Section CtrInd.
  Variable P : ctr -> Prop.
  Hypothesis HAny : P CAny.
  Hypothesis HInt : forall mb, P (CInt mb).
  Hypothesis HNumber : forall mb, P (CNumber mb).
  Hypothesis HBytes : forall mx mn, P (CBytes mx mn).
  Hypothesis HText : forall mx mn, P (CText mx mn).
  Hypothesis HBool : forall v, P (CBool v).
  Hypothesis HNone : P CNone.
  Hypothesis HList : forall c mx mn, P c -> P (CList c mx mn).
  Hypothesis HTuple : forall cs, Forall P cs -> P (CTuple cs).
  Hypothesis HDict : forall k v mk, P k -> P v -> P (CDict k v mk).
  Hypothesis HSet : forall c mx mut, P c -> P (CSet c mx mut).
  Hypothesis HChoice : forall cs, Forall P cs -> P (CChoice cs).
  Hypothesis HOpt : forall c, P c -> P (COpt c).
  Hypothesis HRemote : forall i, P (CRemote i).

  Fixpoint ctr_ind' (c : ctr) : P c :=
    let fix all (cs : list ctr) : Forall P cs :=
      match cs with [] => Forall_nil P | c1 :: cs' => Forall_cons c1 (ctr_ind' c1) (all cs') end in
    match c with
    | CAny => HAny | CInt mb => HInt mb | CNumber mb => HNumber mb | CBytes mx mn => HBytes mx mn
    | CText mx mn => HText mx mn | CBool v => HBool v | CNone => HNone
    | CList c1 mx mn => HList c1 mx mn (ctr_ind' c1)
    | CTuple cs => HTuple cs (all cs)
    | CDict k v mk => HDict k v mk (ctr_ind' k) (ctr_ind' v)
    | CSet c1 mx mut => HSet c1 mx mut (ctr_ind' c1)
    | CChoice cs => HChoice cs (all cs)
    | COpt c1 => HOpt c1 (ctr_ind' c1)
    | CRemote i => HRemote i
    end.
End CtrInd.

Section ObjInd.
  Variable P : obj -> Prop.
  Hypothesis HInt : forall z, P (OInt z).
  Hypothesis HFloat : forall b, P (OFloat b).
  Hypothesis HBytes : forall bs, P (OBytes bs).
  Hypothesis HText : forall cps, P (OText cps).
  Hypothesis HBool : forall b, P (OBool b).
  Hypothesis HNone : P ONone.
  Hypothesis HList : forall l, Forall P l -> P (OList l).
  Hypothesis HTuple : forall l, Forall P l -> P (OTuple l).
  Hypothesis HSet : forall l, Forall P l -> P (OSet l).
  Hypothesis HFset : forall l, Forall P l -> P (OFset l).
  Hypothesis HDict : forall ks vs, Forall P ks -> Forall P vs -> P (ODict ks vs).
  Hypothesis HPending : forall k, P (OPending k).
  Hypothesis HRemote : forall n, P (ORemote n).

  Fixpoint obj_ind' (o : obj) : P o :=
    let fix all (l : list obj) : Forall P l :=
      match l with [] => Forall_nil P | x :: l' => Forall_cons x (obj_ind' x) (all l') end in
    match o with
    | OInt z => HInt z | OFloat b => HFloat b | OBytes bs => HBytes bs | OText cps => HText cps
    | OBool b => HBool b | ONone => HNone
    | OList l => HList l (all l) | OTuple l => HTuple l (all l) | OSet l => HSet l (all l) | OFset l => HFset l (all l)
    | ODict ks vs => HDict ks vs (all ks) (all vs)
    | OPending k => HPending k
    | ORemote n => HRemote n
    end.
End ObjInd.

(* ------------------------------------------------------------------ small facts *)
Lemma zlen_nonneg {A} (l : list A) : 0 <= zlen l.
Proof. unfold zlen. lia. Qed.

Lemma zlen_cons {A} (x : A) l : zlen (x :: l) = zlen l + 1.
Proof. unfold zlen. cbn [List.length]. lia. Qed.

Lemma forallb_Forall_iff {A} (f : A -> bool) (P : A -> Prop) l :
  Forall (fun x => f x = true <-> P x) l -> (forallb f l = true <-> Forall P l).
Proof.
  induction 1 as [|x l Hx _ IH]; cbn [forallb].
  - split; constructor.
  - rewrite andb_true_iff, Hx, IH. split; [intros [A1 A2]; constructor; assumption|intros A1; inversion A1; auto].
Qed.

Lemma Forall_all {A} (P : A -> Prop) l : (forall x, P x) -> Forall P l.
Proof. intros H. induction l; constructor; auto. Qed.

(* ------------------------------------------------------------------ the declarative schema semantics *)
Definition int_in_range (mb : option Z) (z : Z) : Prop :=
  match mb with
  | None => True
  | Some m => if m =? -1 then - 2 ^ 31 <= z < 2 ^ 31 else Z.abs z < 2 ^ (8 * m)
  end.

Definition max_in (mx : option Z) (n : Z) : Prop := match mx with None => True | Some m => n <= m end.
Definition len_in (mx : option Z) (mn n : Z) : Prop := max_in mx n /\ mn <= n.
Definition fixed (A : Type) (v : option A) (x : A) : Prop := match v with None => True | Some y => x = y end.
Arguments fixed {A} v x.

Inductive satisfies : ctr -> obj -> Prop :=
| S_any o : satisfies CAny o
| S_int mb z : int_in_range mb z -> satisfies (CInt mb) (OInt z)
| S_numf mb b : satisfies (CNumber mb) (OFloat b)
| S_numi mb z : int_in_range mb z -> satisfies (CNumber mb) (OInt z)
| S_bytes mx mn bs : len_in mx mn (zlen bs) -> satisfies (CBytes mx mn) (OBytes bs)
| S_text mx mn cps : len_in mx mn (zlen cps) -> satisfies (CText mx mn) (OText cps)
| S_bool v b : fixed v b -> satisfies (CBool v) (OBool b)
| S_none : satisfies CNone ONone
| S_list c mx mn l : len_in mx mn (zlen l) -> Forall (satisfies c) l -> satisfies (CList c mx mn) (OList l)
| S_tuple cs l : Forall2 satisfies cs l -> satisfies (CTuple cs) (OTuple l)
| S_dict k v mk ks vs : max_in mk (zlen ks) -> Forall (satisfies k) ks -> Forall (satisfies v) vs ->
                        satisfies (CDict k v mk) (ODict ks vs)
| S_set c mx mut l : fixed mut true -> max_in mx (zlen l) -> Forall (satisfies c) l -> satisfies (CSet c mx mut) (OSet l)
| S_fset c mx mut l : fixed mut false -> max_in mx (zlen l) -> Forall (satisfies c) l -> satisfies (CSet c mx mut) (OFset l)
| S_choice cs c o : In c cs -> satisfies c o -> satisfies (CChoice cs) o
| S_opt c o : satisfies (COpt c) o
| S_remote_any claim : satisfies (CRemote None) (ORemote claim)
| S_remote d : d <> [] -> satisfies (CRemote (Some d)) (ORemote d).

(* destructs every integer comparison of the goal (robust against re-phrasings of the translated tests) *)
Ltac bcmp :=
  repeat match goal with
         | |- context [Z.geb ?a ?b] => destruct (Z.geb_spec a b)
         | |- context [Z.gtb ?a ?b] => destruct (Z.gtb_spec a b)
         | |- context [Z.leb ?a ?b] => destruct (Z.leb_spec a b)
         | |- context [Z.ltb ?a ?b] => destruct (Z.ltb_spec a b)
         end.

Lemma int_ok_spec mb z : int_ok mb z = true <-> int_in_range mb z.
Proof.
  unfold int_ok, int_check, int_in_range. destruct mb as [m|]; [|cbn; tauto].
  destruct (m =? -1).
  - unfold int_check_32. change (Z.pow 2 31) with 2147483648. change (2 ^ 31) with 2147483648.
    bcmp; cbn [orb andb negb is_ok]; split; intros; try discriminate; try lia; reflexivity.
  - unfold int_check_mb. bcmp; cbn [orb andb negb is_ok]; split; intros; try discriminate; try lia; reflexivity.
Qed.

Lemma over_max_gt mx n : over_max SGt mx n = false <-> max_in mx n.
Proof. destruct mx as [m|]; cbn; [|tauto]. destruct (Z.gtb_spec n m); split; intros; try discriminate; try lia; reflexivity. Qed.

Lemma len_ok_spec mx mn n : len_ok SGt SLt mx mn n = true <-> len_in mx mn n.
Proof.
  unfold len_ok, len_in. rewrite andb_true_iff, !negb_true_iff, over_max_gt. cbn [scmp_eval].
  destruct (Z.ltb_spec n mn); split; intros [A1 A2]; split; auto; try discriminate; lia.
Qed.

Lemma bool_ok_spec v b : bool_ok v b = true <-> fixed v b.
Proof. destruct v as [x|]; cbn; [|tauto]. destruct b, x; cbn; split; intros; congruence. Qed.

Lemma mut_ok_spec mut b : mut_ok mut b = true <-> fixed mut b.
Proof. destruct mut as [x|]; cbn; [|tauto]. destruct b, x; cbn; split; intros; congruence. Qed.

Lemma all2_Forall2 (cs : list ctr) : forall l,
  Forall (fun c => forall o, checkObject c o = true <-> satisfies c o) cs ->
  (negb (scmp_eval SNe (zlen l) (zlen cs)) && all2 checkObject cs l = true <-> Forall2 satisfies cs l).
Proof.
  induction cs as [|c cs IH]; intros l H.
  - destruct l as [|x l]; cbn.
    + split; [constructor|reflexivity].
    + split; [|intros A1; inversion A1]. unfold zlen; cbn [List.length].
      destruct (Z.eqb_spec (Z.of_nat (S (List.length l))) (Z.of_nat 0)); cbn; [lia|discriminate].
  - inversion H as [|? ? Hc Hcs]; subst. destruct l as [|x l].
    + split; [|intros A1; inversion A1]. cbn [scmp_eval]. unfold zlen; cbn [List.length].
      destruct (Z.eqb_spec (Z.of_nat 0) (Z.of_nat (S (List.length cs)))); cbn; [lia|discriminate].
    + cbn [all2]. specialize (IH l Hcs). cbn [scmp_eval] in *. rewrite !zlen_cons.
      assert (E : (zlen l + 1 =? zlen cs + 1) = (zlen l =? zlen cs)).
      { destruct (Z.eqb_spec (zlen l) (zlen cs)), (Z.eqb_spec (zlen l + 1) (zlen cs + 1)); try reflexivity; lia. }
      rewrite E. split.
      * intros A1. apply andb_true_iff in A1 as [A1 A2]. apply andb_true_iff in A2 as [A2 A3].
        constructor; [apply Hc; assumption|]. apply IH. rewrite A1, A3. reflexivity.
      * intros A1. inversion A1 as [|? ? ? ? S1 S2]; subst. apply IH in S2.
        apply andb_true_iff in S2 as [B1 B2]. rewrite B1, B2. cbn [andb]. rewrite andb_true_r. apply Hc. assumption.
Qed.

(* C02, sentence 1 (object level): the executable check decides exactly the declared meaning of the constraint *)
Theorem checkObject_sound : forall c o, checkObject c o = true <-> satisfies c o.
Proof.
  induction c using ctr_ind'; intros o.
  - cbn. split; [constructor|reflexivity].
  - destruct o; cbn [checkObject]; try (split; [discriminate|intros A1; inversion A1]).
    rewrite int_ok_spec. split; [constructor; assumption|intros A1; inversion A1; assumption].
  - destruct o; cbn [checkObject]; try (split; [discriminate|intros A1; inversion A1]).
    + rewrite int_ok_spec. split; [constructor; assumption|intros A1; inversion A1; assumption].
    + split; [constructor|reflexivity].
  - destruct o; cbn [checkObject]; try (split; [discriminate|intros A1; inversion A1]).
    rewrite (len_ok_spec mx mn). split; [constructor; assumption|intros A1; inversion A1; assumption].
  - destruct o; cbn [checkObject]; try (split; [discriminate|intros A1; inversion A1]).
    rewrite (len_ok_spec mx mn). split; [constructor; assumption|intros A1; inversion A1; assumption].
  - destruct o; cbn [checkObject]; try (split; [discriminate|intros A1; inversion A1]).
    rewrite bool_ok_spec. split; [constructor; assumption|intros A1; inversion A1; assumption].
  - destruct o; cbn [checkObject]; try (split; [discriminate|intros A1; inversion A1]).
    split; [constructor|reflexivity].
  - destruct o; cbn [checkObject]; try (split; [discriminate|intros A1; inversion A1]).
    rewrite andb_true_iff, (len_ok_spec mx mn), (forallb_Forall_iff _ (satisfies c)) by (apply Forall_all; apply IHc).
    split; [intros [A1 A2]; constructor; assumption|intros A1; inversion A1; auto].
  - destruct o; cbn [checkObject]; try (split; [discriminate|intros A1; inversion A1]).
    rewrite (all2_Forall2 cs l H). split; [constructor; assumption|intros A1; inversion A1; assumption].
  - destruct o; cbn [checkObject]; try (split; [discriminate|intros A1; inversion A1]).
    rewrite !andb_true_iff, negb_true_iff, (over_max_gt mk), (forallb_Forall_iff _ (satisfies c1)),
      (forallb_Forall_iff _ (satisfies c2)) by (apply Forall_all; assumption).
    split; [intros [[A1 A2] A3]; constructor; assumption|intros A1; inversion A1; auto].
  - destruct o; cbn [checkObject]; try (split; [discriminate|intros A1; inversion A1]).
    + rewrite !andb_true_iff, negb_true_iff, (over_max_gt mx), mut_ok_spec, (forallb_Forall_iff _ (satisfies c))
        by (apply Forall_all; assumption).
      split; [intros [[A1 A2] A3]; constructor; assumption|intros A1; inversion A1; auto].
    + rewrite !andb_true_iff, negb_true_iff, (over_max_gt mx), mut_ok_spec, (forallb_Forall_iff _ (satisfies c))
        by (apply Forall_all; assumption).
      split; [intros [[A1 A2] A3]; constructor; assumption|intros A1; inversion A1; auto].
  - cbn [checkObject]. rewrite existsb_exists. split.
    + intros (c & Hin & Hc). rewrite Forall_forall in H. apply (S_choice cs c); [assumption|]. apply H; assumption.
    + intros A1. inversion A1; subst. exists c. split; [assumption|]. rewrite Forall_forall in H. apply H; assumption.
  - cbn. split; [constructor|reflexivity].
  - destruct o; cbn [checkObject]; try (split; [discriminate|intros A1; inversion A1]).
    destruct i as [d|].
    + rewrite andb_true_iff, negb_true_iff. split.
      * intros [N E]. apply list_eqb_eq in E. subst. apply S_remote. intros ->. discriminate N.
      * intros A1. inversion A1; subst. split; [destruct claim; [congruence|reflexivity]|apply list_eqb_eq; reflexivity].
    + split; [constructor|reflexivity].
Qed.

(* ------------------------------------------------------------------ C02, argument side *)
(* _doCall (shape translated from broker.py): the method is invoked only after checkAllArgs succeeded, on the very
   objects that are passed to it *)
Theorem doCall_checked ms a kw a' kw' :
  doCall ms a kw = CInvoke a' kw' -> a' = a /\ kw' = kw /\ checkAllArgs ms a kw = Ok tt.
Proof.
  unfold doCall. change doCall_shape with CheckedBeforeCall. cbv iota.
  destruct (checkAllArgs ms a kw) as [[]|t]; intros E; [inversion E; subst; auto|].
  destruct (String.eqb t "Violation"); discriminate.
Qed.

(* ... whatever token stream (pos, kws: arbitrary wire trees, including forged references) produced the arguments *)
Theorem recv_call_checked ms pos kws a kw :
  recv_call ms pos kws = CInvoke a kw -> checkAllArgs ms a kw = Ok tt.
Proof.
  unfold recv_call. destruct (recv_pos ms pos 0) as [l| |]; try discriminate.
  destruct (recv_kw ms _ kws) as [l'| |]; try discriminate.
  intros E. apply doCall_checked in E as (-> & -> & E). exact E.
Qed.

(* what a successful checkAllArgs means *)
Fixpoint kw_fresh (prev : list Z) (l : list Z) : Prop :=
  match l with [] => True | n :: l' => ~ In n prev /\ kw_fresh (prev ++ [n]) l' end.

Lemma memZ_In n l : memZ n l = true <-> In n l.
Proof.
  unfold memZ. rewrite existsb_exists. split.
  - intros (x & Hin & E). apply Z.eqb_eq in E. subst. assumption.
  - intros Hin. exists n. split; [assumption|apply Z.eqb_refl].
Qed.

Lemma add_kwargs_spec {V} (kw : list (Z * V)) : forall acc r,
  add_kwargs acc kw = Some r <-> (r = acc ++ kw /\ kw_fresh (map fst acc) (map fst kw)).
Proof.
  induction kw as [|[n v] kw IH]; intros acc r; cbn [add_kwargs map kw_fresh fst].
  - rewrite app_nil_r. split; [intros E; inversion E; auto|intros [-> _]; reflexivity].
  - destruct (memZ n (map fst acc)) eqn:M.
    + apply memZ_In in M. split; [discriminate|intros [_ [A1 _]]; contradiction].
    + assert (N : ~ In n (map fst acc)) by (intros A1; apply memZ_In in A1; congruence).
      rewrite IH, map_app. cbn [map fst]. rewrite <- app_assoc. cbn [app].
      split; [intros [-> A2]; auto|intros [-> [_ A2]]; auto].
Qed.

Lemma lookup_In n l a : lookup n l = Some a -> In a l /\ a_name a = n.
Proof.
  induction l as [|b l IH]; cbn [lookup]; [discriminate|].
  destruct (Z.eqb_spec n (a_name b)).
  - intros E; inversion E; subst. split; [left; reflexivity|reflexivity].
  - intros E. destruct (IH E). split; [right; assumption|assumption].
Qed.

(* the per-argument loop of checkAllArgs succeeds exactly when every bound name is DECLARED and its value passes the
   declared constraint -- whatever the two unknown-argument flags say: an undeclared name never gets through (under a
   flag it ends in None.checkObject, an AttributeError) *)
Lemma check_each_spec ms l : check_each ms l = Ok tt <-> forallb (arg_ok ms) l = true.
Proof.
  induction l as [|[n v] l IH]; cbn [check_each forallb]; [tauto|].
  unfold getKeywordArgConstraint, arg_ok. cbn [memZ existsb fst snd].
  destruct (lookup n (ms_args ms)) as [sp|].
  - destruct (checkObject (a_ctr sp) v); cbn [andb]; [exact IH|split; discriminate].
  - cbn [andb]. destruct (ms_ignore ms); [split; discriminate|]. destruct (ms_accept ms); split; discriminate.
Qed.

(* C02, sentence 1 (argument list): checkAllArgs succeeds exactly when there are no more positional values than declared
   names, no name is bound twice, every bound name is declared and its value satisfies the declared constraint,
   and every argument not declared Optional is bound *)
Theorem checkAllArgs_spec ms a kw :
  checkAllArgs ms a kw = Ok tt <->
  (zlen a <= zlen (ms_args ms) /\
   kw_fresh (map fst (combine (names ms) a)) (map fst kw) /\
   (forall n v, In (n, v) (combine (names ms) a ++ kw) ->
      exists sp, lookup n (ms_args ms) = Some sp /\ satisfies (a_ctr sp) v) /\
   (forall sp, In sp (ms_args ms) -> a_opt sp = false -> In (a_name sp) (map fst (combine (names ms) a ++ kw)))).
Proof.
  unfold checkAllArgs. change args_count_cmp with SGt. cbn [scmp_eval].
  destruct (Z.gtb_spec (zlen a) (zlen (ms_args ms))) as [G|G].
  { split; [discriminate|intros [A1 _]; lia]. }
  destruct (add_kwargs (combine (names ms) a) kw) as [allargs|] eqn:E.
  - apply add_kwargs_spec in E as [-> F].
    assert (A : forallb (arg_ok ms) (combine (names ms) a ++ kw) = true <->
                (forall n v, In (n, v) (combine (names ms) a ++ kw) ->
                   exists sp, lookup n (ms_args ms) = Some sp /\ satisfies (a_ctr sp) v)).
    { rewrite forallb_forall. unfold arg_ok. split.
      - intros H n v Hin. specialize (H _ Hin). cbn [fst snd] in H.
        destruct (lookup n (ms_args ms)) as [sp|]; [|discriminate]. exists sp. split; [reflexivity|].
        apply checkObject_sound. assumption.
      - intros H [n v] Hin. destruct (H n v Hin) as (sp & L & S). cbn [fst snd]. rewrite L. apply checkObject_sound. assumption. }
    assert (R : required_ok ms (map fst (combine (names ms) a ++ kw)) = true <->
                (forall sp, In sp (ms_args ms) -> a_opt sp = false -> In (a_name sp) (map fst (combine (names ms) a ++ kw)))).
    { unfold required_ok. rewrite forallb_forall. split.
      - intros H sp Hin O. specialize (H sp Hin). rewrite O in H. cbn [orb] in H. apply memZ_In. assumption.
      - intros H sp Hin. destruct (a_opt sp) eqn:O; [reflexivity|]. cbn [orb]. apply memZ_In. apply H; assumption. }
    destruct (check_each ms (combine (names ms) a ++ kw)) as [[]|e] eqn:E1.
    + apply check_each_spec in E1. destruct (required_ok ms _) eqn:E2; cbn [negb].
      * split; [intros _|reflexivity]. split; [lia|]. split; [assumption|]. split; [apply A; exact E1|apply R; reflexivity].
      * split; [discriminate|]. intros (_ & _ & _ & A4). apply R in A4. discriminate.
    + split; [discriminate|]. intros (_ & _ & A3 & _). apply A in A3. apply check_each_spec in A3. congruence.
  - split; [discriminate|]. intros (_ & F & _).
    assert (E' : add_kwargs (combine (names ms) a) kw = Some (combine (names ms) a ++ kw)) by (apply add_kwargs_spec; auto).
    congruence.
Qed.

(* C02, sentence 1, as one statement about inbound calls: if the method body runs, every value it is given satisfies
   the constraint declared for the name it is bound to, no undeclared name is bound, and every required one is *)
Theorem C02_args_main ms pos kws a kw :
  recv_call ms pos kws = CInvoke a kw ->
  (forall n v, In (n, v) (combine (names ms) a ++ kw) ->
     exists sp, In sp (ms_args ms) /\ a_name sp = n /\ satisfies (a_ctr sp) v) /\
  (forall sp, In sp (ms_args ms) -> a_opt sp = false -> In (a_name sp) (map fst (combine (names ms) a ++ kw))) /\
  kw_fresh (map fst (combine (names ms) a)) (map fst kw) /\ zlen a <= zlen (ms_args ms).
Proof.
  intros E. apply recv_call_checked in E. apply checkAllArgs_spec in E as (A1 & A2 & A3 & A4).
  split; [|split; [assumption|split; assumption]].
  intros n v Hin. destruct (A3 n v Hin) as (sp & L & S). apply lookup_In in L as [L1 L2]. exists sp. auto.
Qed.

Definition ms1 (c : ctr) : mschema := mkms [{| a_name := 1; a_ctr := c; a_opt := false |}] None.

Example C02_args_nonvacuous :
  recv_call (ms1 (CList (CInt (Some 1024)) (Some 2) 0)) [slice [] (OList [OInt 5; OInt (2 ^ 40)])] [] =
  CInvoke [OList [OInt 5; OInt (2 ^ 40)]] [].
Proof. vm_compute. reflexivity. Qed.

(* a violation makes the call fail and the method is not run: a short tuple, a back-reference to a list where a
   tuple is declared, an unknown keyword, a missing argument *)
Example C02_args_rejects :
  recv_call (ms1 (CTuple [CInt None; CInt None])) [WOpen OtTuple [WInt 129 7 7]] [] = CViol /\
  recv_call (ms1 (CTuple [CInt None; CInt None])) [WRef (OList [OInt 1; OInt 2])] [] = CViol /\
  recv_call (ms1 CAny) [WInt 129 7 7] [(2, WInt 129 7 7)] = CViol /\
  recv_call (ms1 CAny) [] [] = CViol.
Proof. vm_compute. auto. Qed.

(* ------------------------------------------------------------------ C02, result side: REFUTED on the current tree (D6) *)
Theorem C02_result_refuted :
  (exists c w v, recv_answer (Some c) w = Callback v /\ checkObject c v = false /\
                 c = CTuple [CInt (Some 1024); CInt (Some 1024)] /\ w = WOpen OtTuple [WInt 129 7 7]) /\
  (exists c w v, recv_answer (Some c) w = Callback v /\ checkObject c v = false /\
                 c = CText (Some 3) 0 /\ w = slice [] (OText [116; 111; 111; 108; 111; 110; 103])) /\
  (exists c w v, recv_answer (Some c) w = Callback v /\ checkObject c v = false /\
                 c = CInt (Some (-1)) /\ w = WInt 129 (2 ^ 40) (2 ^ 40)) /\
  (exists c w v, recv_answer (Some c) w = Callback v /\ checkObject c v = false /\
                 c = CBool None /\ w = WOpen OtBool []).
Proof.
  split; [|split; [|split]].
  - exists (CTuple [CInt (Some 1024); CInt (Some 1024)]), (WOpen OtTuple [WInt 129 7 7]), (OTuple [OInt 7]). vm_compute. auto.
  - exists (CText (Some 3) 0), (slice [] (OText [116; 111; 111; 108; 111; 110; 103])), (OText [116; 111; 111; 108; 111; 110; 103]).
    vm_compute. auto.
  - exists (CInt (Some (-1))), (WInt 129 (2 ^ 40) (2 ^ 40)), (OInt (2 ^ 40)). vm_compute. auto.
  - exists (CBool None), (WOpen OtBool []), ONone. vm_compute. auto.
Qed.

(* C02, sentence 3 ("that one call fails with a Violation"): REFUTED for strictTaster constraints -- the connection is lost *)
Theorem C02_one_call_refuted :
  exists ms pos, recv_call ms pos [] = CAbort /\ ms = ms1 (CText None 0) /\ pos = [WInt 129 5 5].
Proof. exists (ms1 (CText None 0)), [WInt 129 5 5]. vm_compute. auto. Qed.

(* ------------------------------------------------------------------ C12: REFUTED regions, one witness each *)
Definition d7a_ctr := CChoice [CList (CInt (Some 1024)) None 0; CTuple [CInt (Some 1024); CInt (Some 1024)]].

Theorem C12_refuted_choice :        (* D7a *)
  checkObject d7a_ctr (OList [OInt 1; OInt 2]) = true /\ recvw (Some d7a_ctr) (slice [] (OList [OInt 1; OInt 2])) = RAbort.
Proof. vm_compute. auto. Qed.

Theorem C12_refuted_anystring :     (* schema.AnyStringConstraint with a text *)
  let c := CChoice [CBytes None 0; CText None 0] in
  checkObject c (OText [97]) = true /\ recvw (Some c) (slice [] (OText [97])) = RAbort.
Proof. vm_compute. auto. Qed.

Theorem C12_refuted_optional :
  let c := CList (COpt (CInt (Some 1024))) None 0 in
  checkObject c (OList [OList [OInt 1]]) = true /\ recvw (Some c) (slice [] (OList [OList [OInt 1]])) = RAbort.
Proof. vm_compute. auto. Qed.

Theorem C12_refuted_any_huge_int :
  checkObject CAny (OInt (2 ^ 8001)) = true /\ recvw (Some CAny) (slice [] (OInt (2 ^ 8001))) = RViol.
Proof. vm_compute. auto. Qed.

(* ------------------------------------------------------------------ C12: sender-accepted implies receiver-accepted *)
Lemma int_token_cases z :
  (int_token z = (133, bytelen z) /\ 2147483648 <= z) \/
  (int_token z = (129, z) /\ 0 <= z < 2147483648) \/
  (int_token z = (134, bytelen (- z)) /\ z < - 2147483648) \/
  (int_token z = (131, - z) /\ - 2147483648 <= z < 0).
Proof.
  unfold int_token. change (Z.pow 2 31) with 2147483648.
  destruct (Z.geb_spec z 2147483648); [left; split; [reflexivity|lia]|].
  destruct (Z.geb_spec z 0); [right; left; split; [reflexivity|lia]|].
  destruct (Z.gtb_spec (Z.opp z) 2147483648); [right; right; left; split; [reflexivity|lia]|].
  right; right; right. split; [reflexivity|lia].
Qed.

(* the byte length of n is at most m when n < 2^(8m): the LONGINT body of an accepted integer fits the taster's limit *)
Lemma bytelen_bound n m : 0 < n -> 0 <= m -> n < 2 ^ (8 * m) -> bytelen n <= m.
Proof.
  intros Hn Hm Hlt. unfold bytelen.
  destruct (long_to_bytes_spec n ltac:(lia)) as (ds & E & _).
  rewrite E. pose proof (long_to_bytes_length n (rev ds) Hn E) as [L _].
  set (k := Z.of_nat (List.length (rev ds))) in *.
  destruct (Z.le_gt_cases k m) as [|G]; [assumption|exfalso].
  replace (2 ^ (8 * m)) with (256 ^ m) in Hlt by (rewrite Z.pow_mul_r by lia; reflexivity).
  assert (256 ^ m <= 256 ^ (k - 1)) by (apply Z.pow_le_mono_r; lia). lia.
Qed.

Lemma limit_ok flag size l : scmp_eval token_size_cmp size l = false ->
  ((negb flag || negb (l =? 0)) && scmp_eval token_size_cmp size l) = false.
Proof. intros ->. apply andb_false_r. Qed.

Lemma int_taste mb z ex strict :
  mb_wf mb true = true -> int_ok mb z = true ->
  checkToken_base (int_taster mb ++ ex) strict (fst (int_token z)) (snd (int_token z)) = TOk.
Proof.
  intros W H. apply int_ok_spec in H. unfold int_in_range in H.
  destruct mb as [m|].
  - unfold mb_wf in W. change int_maxBytes_min with 4 in W.
    destruct (Z.eqb_spec m (-1)) as [->|Hm].
    + cbn in H. destruct (int_token_cases z) as [[E B]|[[E B]|[[E B]|[E B]]]]; rewrite E; cbn [fst snd]; try lia; reflexivity.
    + cbn [andb orb] in W. apply Z.leb_le in W.
      destruct m as [|p|p]; try lia.
      assert (Hpos : 0 <= Z.pos p) by lia.
      assert (G : forall n, 0 < n -> n < 2 ^ (8 * Z.pos p) -> scmp_eval token_size_cmp (bytelen n) (Z.pos p) = false).
      { intros n Hn Hlt. change token_size_cmp with SGt. cbn [scmp_eval].
        pose proof (bytelen_bound n (Z.pos p) Hn Hpos Hlt). destruct (Z.gtb_spec (bytelen n) (Z.pos p)); [lia|reflexivity]. }
      destruct (int_token_cases z) as [[E B]|[[E B]|[[E B]|[E B]]]]; rewrite E; cbn [fst snd].
      * unfold checkToken_base. cbn -[bytelen scmp_eval token_size_cmp token_limit_zero_unlimited Z.eqb].
        change (133 =? 129) with false. change (133 =? 131) with false. change (133 =? 133) with true. cbv iota.
        rewrite limit_ok; [reflexivity|]. apply G; lia.
      * reflexivity.
      * unfold checkToken_base. cbn -[bytelen scmp_eval token_size_cmp token_limit_zero_unlimited Z.eqb].
        change (134 =? 129) with false. change (134 =? 131) with false. change (134 =? 133) with false.
        change (134 =? 134) with true. cbv iota.
        rewrite limit_ok; [reflexivity|]. apply G; lia.
      * reflexivity.
  - destruct (int_token_cases z) as [[E B]|[[E B]|[[E B]|[E B]]]]; rewrite E; reflexivity.
Qed.

Lemma of_tv_ok t o : t = TOk -> of_tv t o = RDeliver o.
Proof. intros ->. reflexivity. Qed.

Lemma nth_error_lt {A} (l : list A) j x : nth_error l j = Some x -> (j < List.length l)%nat.
Proof. intros H. apply nth_error_Some. congruence. Qed.

Lemma forallb_nth {A} (f : A -> bool) l j x : forallb f l = true -> nth_error l j = Some x -> f x = true.
Proof. intros H E. rewrite forallb_forall in H. apply H. eapply nth_error_In; eassumption. Qed.

Lemma all2_nth {A B} (f : A -> B -> bool) : forall cs l j c x,
  all2 f cs l = true -> nth_error cs j = Some c -> nth_error l j = Some x -> f c x = true.
Proof.
  induction cs as [|c0 cs IH]; intros l j c x H Ec El; [destruct j; discriminate|].
  destruct l as [|x0 l]; [destruct j; discriminate|]. cbn [all2] in H. apply andb_true_iff in H as [H1 H2].
  destruct j; cbn in Ec, El; [congruence|]. eapply IH; eassumption.
Qed.

Lemma Forall2_nth {A B} (R : A -> B -> Prop) : forall l ws j x w,
  Forall2 R l ws -> nth_error l j = Some x -> nth_error ws j = Some w -> R x w.
Proof.
  intros l ws j x w F. revert j. induction F as [|a b l ws Hab F IH]; intros j Hx Hw; [destruct j; discriminate|].
  destruct j; cbn in Hx, Hw; [inversion Hx; inversion Hw; subst; assumption|eapply IH; eassumption].
Qed.

Lemma Forall2_length {A B} (R : A -> B -> Prop) l ws : Forall2 R l ws -> List.length l = List.length ws.
Proof. induction 1; cbn; congruence. Qed.

Lemma over_ge_false mx n len : max_in mx len -> n < len -> over_max SGe mx n = false.
Proof. destruct mx as [m|]; cbn; [|reflexivity]. intros. destruct (Z.geb_spec n m); [lia|reflexivity]. Qed.

Lemma nth_interleave {A} : forall (ks vs : list A) j x, nth_error (interleave ks vs) j = Some x ->
  (Nat.div2 j < List.length ks)%nat /\
  (if Nat.even j then nth_error ks (Nat.div2 j) = Some x else nth_error vs (Nat.div2 j) = Some x).
Proof.
  induction ks as [|k ks IH]; intros vs j x H; [destruct j; discriminate|].
  destruct vs as [|v vs]; [destruct j; discriminate|]. cbn [interleave] in H.
  destruct j as [|[|j]]; cbn in H.
  - inversion H; subst. cbn. split; [lia|reflexivity].
  - inversion H; subst. cbn. split; [lia|reflexivity].
  - destruct (IH vs j x H) as [A1 A2]. cbn [Nat.div2 List.length]. split; [lia|].
    change (Nat.even (S (S j))) with (Nat.even j). cbn [nth_error]. exact A2.
Qed.

Lemma interleave_length {A B} : forall (a1 b1 : list A) (a2 b2 : list B),
  List.length a1 = List.length a2 -> List.length b1 = List.length b2 ->
  List.length (interleave a1 b1) = List.length (interleave a2 b2).
Proof.
  induction a1 as [|x a1 IH]; intros b1 [|y a2] b2 H1 H2; try discriminate; [reflexivity|].
  destruct b1 as [|u b1], b2 as [|v b2]; try discriminate; [reflexivity|]. cbn. f_equal. f_equal.
  apply IH; [cbn in H1; lia|cbn in H2; lia].
Qed.

Lemma evens_odds_interleave {A} : forall (ks vs : list A), List.length ks = List.length vs ->
  evens (interleave ks vs) = ks /\ odds (interleave ks vs) = vs.
Proof.
  induction ks as [|k ks IH]; intros [|v vs] H; try discriminate; cbn; [split; reflexivity|].
  destruct (IH vs ltac:(cbn in H; lia)) as [E1 E2]. rewrite E1, E2. split; reflexivity.
Qed.

Lemma of_tv_deliver t o o' : of_tv t o = RDeliver o' -> t = TOk.
Proof. destruct t; cbn; intros E; [reflexivity|discriminate|discriminate]. Qed.

Lemma existsb_intro {A} (f : A -> bool) l x : In x l -> f x = true -> existsb f l = true.
Proof. intros Hin Hf. apply existsb_exists. exists x. auto. Qed.

Lemma utf8size_bound cps : 0 <= utf8size cps <= 4 * zlen cps.
Proof.
  induction cps as [|cp cps IH]; [cbn; unfold zlen; cbn; lia|].
  rewrite zlen_cons. cbn [utf8size fold_right]. fold (utf8size cps). unfold utf8len.
  destruct (cp <? 128), (cp <? 2048), (cp <? 65536); lia.
Qed.

Lemma number_taster_float mb : assoc 132 (number_taster mb) = Some None.
Proof. destruct mb as [[|p|[p|p|]]|]; reflexivity. Qed.

(* a container child receiving the serializations ws of l, when every slot is open and its element is delivered *)
Lemma kids_deliver ch (slotc : nat -> option ctr) : forall l ws i,
  List.length l = List.length ws ->
  (forall j x w, nth_error l j = Some x -> nth_error ws j = Some w ->
     child_slot ch (i + j) = Some (slotc (i + j)%nat) /\ recvw (slotc (i + j)%nat) w = RDeliver x) ->
  kids_with recvw ch ws i = KOk l.
Proof.
  induction l as [|x l IH]; intros [|w ws] i L H; try discriminate L; [reflexivity|].
  cbn [kids_with]. destruct (H O x w eq_refl eq_refl) as [A1 A2]. rewrite Nat.add_0_r in A1, A2. rewrite A1, A2.
  rewrite (IH ws (S i)); [reflexivity|cbn in L; lia|].
  intros j y v Hy Hv. specialize (H (S j) y v Hy Hv). rewrite Nat.add_succ_r in H. exact H.
Qed.

Lemma recvw_any_open ot kids : recvw (Some CAny) (WOpen ot kids) = recvw None (WOpen ot kids).
Proof. destruct ot; reflexivity. Qed.

(* ------------------------------------------------------------------ UTF-8: encoder, strict decoder *)
Lemma utf8_encode_cp_len cp : zlen (utf8_encode_cp cp) = utf8len cp.
Proof.
  unfold utf8_encode_cp, utf8len. destruct (cp <? 128), (cp <? 2048), (cp <? 65536); reflexivity.
Qed.

Lemma utf8_encode_size cps : zlen (utf8_encode cps) = utf8size cps.
Proof.
  induction cps as [|cp cps IH]; [reflexivity|].
  unfold utf8_encode. cbn [flat_map]. fold (utf8_encode cps). unfold zlen. rewrite app_length, Nat2Z.inj_add.
  fold (zlen (utf8_encode_cp cp)). fold (zlen (utf8_encode cps)). rewrite utf8_encode_cp_len, IH. reflexivity.
Qed.

Lemma in_range a b x : a <= x <= b -> (a <=? x) && (x <=? b) = true.
Proof. intros. apply andb_true_iff. split; apply Z.leb_le; lia. Qed.
Lemma below_range a b x : x < a -> (a <=? x) && (x <=? b) = false.
Proof. intros. apply andb_false_iff. left. apply Z.leb_gt. lia. Qed.
Lemma above_range a b x : b < x -> (a <=? x) && (x <=? b) = false.
Proof. intros. apply andb_false_iff. right. apply Z.leb_gt. lia. Qed.
Lemma not_ascii x : 128 <= x -> (0 <=? x) && (x <? 128) = false.
Proof. intros. apply andb_false_iff. right. apply Z.ltb_ge. lia. Qed.

Lemma utf8_valid1 b r : 0 <= b < 128 -> utf8_valid (b :: r) = utf8_valid r.
Proof.
  intros. cbn [utf8_valid]. replace ((0 <=? b) && (b <? 128)) with true; [reflexivity|].
  symmetry. apply andb_true_iff. split; [apply Z.leb_le|apply Z.ltb_lt]; lia.
Qed.

Lemma utf8_valid2 b0 b1 r : 194 <= b0 <= 223 -> 128 <= b1 <= 191 -> utf8_valid (b0 :: b1 :: r) = utf8_valid r.
Proof.
  intros. cbn [utf8_valid]. unfold u8cont. rewrite (not_ascii b0) by lia. rewrite (in_range 194 223 b0) by lia.
  rewrite (in_range 128 191 b1) by lia. reflexivity.
Qed.

Lemma utf8_valid3 b0 b1 b2 r : 224 <= b0 <= 239 -> 128 <= b1 <= 191 -> 128 <= b2 <= 191 ->
  (b0 = 224 -> 160 <= b1) -> (b0 = 237 -> b1 <= 159) -> utf8_valid (b0 :: b1 :: b2 :: r) = utf8_valid r.
Proof.
  intros A B C D E. cbn [utf8_valid]. unfold u8cont. rewrite (not_ascii b0) by lia. rewrite (above_range 194 223 b0) by lia.
  rewrite (in_range 224 239 b0) by lia. rewrite (in_range 128 191 b2) by lia.
  destruct (Z.eqb_spec b0 224) as [X|X]; [rewrite (in_range 160 191 b1) by lia; reflexivity|].
  destruct (Z.eqb_spec b0 237) as [Y|Y]; [rewrite (in_range 128 159 b1) by lia; reflexivity|].
  rewrite (in_range 128 191 b1) by lia. reflexivity.
Qed.

Lemma utf8_valid4 b0 b1 b2 b3 r : 240 <= b0 <= 244 -> 128 <= b1 <= 191 -> 128 <= b2 <= 191 -> 128 <= b3 <= 191 ->
  (b0 = 240 -> 144 <= b1) -> (b0 = 244 -> b1 <= 143) -> utf8_valid (b0 :: b1 :: b2 :: b3 :: r) = utf8_valid r.
Proof.
  intros A B C C' D E. cbn [utf8_valid]. unfold u8cont. rewrite (not_ascii b0) by lia. rewrite (above_range 194 223 b0) by lia.
  rewrite (above_range 224 239 b0) by lia. rewrite (in_range 240 244 b0) by lia.
  rewrite (in_range 128 191 b2) by lia. rewrite (in_range 128 191 b3) by lia.
  destruct (Z.eqb_spec b0 240) as [X|X]; [rewrite (in_range 144 191 b1) by lia; reflexivity|].
  destruct (Z.eqb_spec b0 244) as [Y|Y]; [rewrite (in_range 128 143 b1) by lia; reflexivity|].
  rewrite (in_range 128 191 b1) by lia. reflexivity.
Qed.

Lemma utf8_encode_cp_valid cp r : cp_encodable cp = true -> utf8_valid (utf8_encode_cp cp ++ r) = utf8_valid r.
Proof.
  unfold cp_encodable. intros E.
  apply andb_true_iff in E as [E E3]. apply andb_true_iff in E as [E1 E2].
  apply Z.leb_le in E1, E2. apply negb_true_iff in E3.
  assert (S : cp < 55296 \/ 57343 < cp).
  { destruct (Z.leb_spec 55296 cp), (Z.leb_spec cp 57343); cbn in E3; try discriminate; lia. }
  clear E3. unfold utf8_encode_cp.
  destruct (Z.ltb_spec cp 128); [apply utf8_valid1; lia|].
  destruct (Z.ltb_spec cp 2048).
  { cbn [app]. apply utf8_valid2.
    - pose proof (Z.div_le_mono 128 cp 64 ltac:(lia) ltac:(lia)). pose proof (Z.div_lt_upper_bound cp 64 32 ltac:(lia) ltac:(lia)).
      change (128 / 64) with 2 in *. lia.
    - pose proof (Z.mod_pos_bound cp 64 ltac:(lia)). lia. }
  destruct (Z.ltb_spec cp 65536).
  { cbn [app]. 
    pose proof (Z.mod_pos_bound cp 64 ltac:(lia)). pose proof (Z.mod_pos_bound (cp / 64) 64 ltac:(lia)).
    assert (Q1 : cp / 4096 = (cp / 64) / 64) by (rewrite Z.div_div by lia; reflexivity).
    pose proof (Z.div_mod cp 64 ltac:(lia)) as M1. pose proof (Z.div_mod (cp / 64) 64 ltac:(lia)) as M2.
    set (q := cp / 64) in *. set (h := q / 64) in *. set (m1 := cp mod 64) in *. set (m2 := q mod 64) in *. rewrite Q1.
    apply utf8_valid3; lia. }
  cbn [app].
  pose proof (Z.mod_pos_bound cp 64 ltac:(lia)). pose proof (Z.mod_pos_bound (cp / 64) 64 ltac:(lia)).
  pose proof (Z.mod_pos_bound (cp / 4096) 64 ltac:(lia)).
  assert (Q1 : cp / 4096 = (cp / 64) / 64) by (rewrite Z.div_div by lia; reflexivity).
  assert (Q2 : cp / 262144 = ((cp / 64) / 64) / 64) by (rewrite !Z.div_div by lia; reflexivity).
  rewrite Q2. rewrite Q1 in *.
  pose proof (Z.div_mod cp 64 ltac:(lia)) as M1. pose proof (Z.div_mod (cp / 64) 64 ltac:(lia)) as M2.
  pose proof (Z.div_mod (cp / 64 / 64) 64 ltac:(lia)) as M3.
  set (q := cp / 64) in *. set (h := q / 64) in *. set (g := h / 64) in *.
  set (m1 := cp mod 64) in *. set (m2 := q mod 64) in *. set (m3 := h mod 64) in *.
  apply utf8_valid4; lia.
Qed.

Theorem utf8_encode_valid cps : text_encodable cps = true -> utf8_valid (utf8_encode cps) = true /\ zlen (utf8_encode cps) = utf8size cps.
Proof.
  intros E. split; [|apply utf8_encode_size].
  induction cps as [|cp cps IH]; [reflexivity|]. unfold text_encodable in E. cbn [forallb] in E. apply andb_true_iff in E as [E1 E2].
  unfold utf8_encode. cbn [flat_map]. fold (utf8_encode cps). rewrite utf8_encode_cp_valid by exact E1. apply IH. exact E2.
Qed.

(* a lone surrogate in its generic three-byte form (what errors="surrogatepass" emits) is refused by the strict decoder *)
Lemma utf8_surrogate_invalid cp r : 55296 <= cp <= 57343 -> utf8_valid (utf8_encode_cp cp ++ r) = false.
Proof.
  intros R. unfold utf8_encode_cp. destruct (Z.ltb_spec cp 128); [lia|]. destruct (Z.ltb_spec cp 2048); [lia|].
  destruct (Z.ltb_spec cp 65536); [|lia]. cbn [app].
  pose proof (Z.mod_pos_bound cp 64 ltac:(lia)). pose proof (Z.mod_pos_bound (cp / 64) 64 ltac:(lia)).
  assert (Q1 : cp / 4096 = (cp / 64) / 64) by (rewrite Z.div_div by lia; reflexivity).
  pose proof (Z.div_mod cp 64 ltac:(lia)) as M1. pose proof (Z.div_mod (cp / 64) 64 ltac:(lia)) as M2.
  set (q := cp / 64) in *. set (h := q / 64) in *. set (m1 := cp mod 64) in *. set (m2 := q mod 64) in *. rewrite Q1.
  assert (Hh : h = 13) by lia. rewrite Hh. change (224 + 13) with 237.
  cbn [utf8_valid]. change ((0 <=? 237) && (237 <? 128)) with false. change ((194 <=? 237) && (237 <=? 223)) with false.
  change ((224 <=? 237) && (237 <=? 239)) with true. change (237 =? 224) with false. change (237 =? 237) with true. cbv iota.
  rewrite (above_range 128 159 (128 + m2)) by lia. reflexivity.
Qed.

Definition cp_in_range (cp : Z) : bool := (0 <=? cp) && (cp <=? 1114111).

(* the receiver's strict decoder accepts the generic UTF-8 form of a text exactly when the text is encodable: what the
   strict encoder refuses is what the receiver would refuse *)
Theorem utf8_encode_valid_iff cps : forallb cp_in_range cps = true -> utf8_valid (utf8_encode cps) = text_encodable cps.
Proof.
  induction cps as [|cp cps IH]; [reflexivity|]. cbn [forallb]. intros E. apply andb_true_iff in E as [E1 E2].
  unfold utf8_encode, text_encodable. cbn [flat_map forallb]. fold (utf8_encode cps). fold (text_encodable cps).
  destruct (cp_encodable cp) eqn:C.
  - rewrite utf8_encode_cp_valid by exact C. cbn [andb]. apply IH. exact E2.
  - cbn [andb]. apply utf8_surrogate_invalid. unfold cp_in_range in E1. unfold cp_encodable in C.
    rewrite E1 in C. cbn [andb] in C. apply negb_false_iff in C. apply andb_true_iff in C as [C1 C2].
    apply Z.leb_le in C1, C2. lia.
Qed.


(* ... and decoding gives the text back: utf8_decode inverts utf8_encode (lone surrogates in their generic form included,
   which is what the lenient decoder would deliver) *)
Lemma utf8_decode_encode_cp cp r : cp_in_range cp = true -> utf8_decode (utf8_encode_cp cp ++ r) = cp :: utf8_decode r.
Proof.
  intros R. unfold cp_in_range in R. apply andb_true_iff in R as [R1 R2]. apply Z.leb_le in R1, R2.
  unfold utf8_encode_cp.
  destruct (Z.ltb_spec cp 128) as [A|A].
  { cbn [app utf8_decode]. destruct (Z.ltb_spec cp 128); [reflexivity|lia]. }
  destruct (Z.ltb_spec cp 2048) as [B|B].
  { pose proof (Z.div_mod cp 64 ltac:(lia)) as D. pose proof (Z.mod_pos_bound cp 64 ltac:(lia)) as M.
    assert (2 <= cp / 64 < 32) by (split; [apply Z.div_le_lower_bound; lia|apply Z.div_lt_upper_bound; lia]).
    cbn [app utf8_decode].
    destruct (Z.ltb_spec (192 + cp / 64) 128); [lia|]. destruct (Z.ltb_spec (192 + cp / 64) 224); [|lia].
    f_equal. lia. }
  destruct (Z.ltb_spec cp 65536) as [C|C].
  { pose proof (Z.div_mod cp 64 ltac:(lia)) as D. pose proof (Z.mod_pos_bound cp 64 ltac:(lia)) as M.
    pose proof (Z.div_mod (cp / 64) 64 ltac:(lia)) as D2. pose proof (Z.mod_pos_bound (cp / 64) 64 ltac:(lia)) as M2.
    assert (E : cp / 4096 = cp / 64 / 64) by (rewrite Z.div_div by lia; reflexivity).
    assert (0 <= cp / 4096 < 16) by (split; [apply Z.div_le_lower_bound; lia|apply Z.div_lt_upper_bound; lia]).
    cbn [app utf8_decode].
    destruct (Z.ltb_spec (224 + cp / 4096) 128); [lia|]. destruct (Z.ltb_spec (224 + cp / 4096) 224); [lia|].
    destruct (Z.ltb_spec (224 + cp / 4096) 240); [|lia].
    f_equal. lia. }
  pose proof (Z.div_mod cp 64 ltac:(lia)) as D. pose proof (Z.mod_pos_bound cp 64 ltac:(lia)) as M.
  pose proof (Z.div_mod (cp / 64) 64 ltac:(lia)) as D2. pose proof (Z.mod_pos_bound (cp / 64) 64 ltac:(lia)) as M2.
  pose proof (Z.div_mod (cp / 4096) 64 ltac:(lia)) as D3. pose proof (Z.mod_pos_bound (cp / 4096) 64 ltac:(lia)) as M3.
  assert (E : cp / 4096 = cp / 64 / 64) by (rewrite Z.div_div by lia; reflexivity).
  assert (E2 : cp / 262144 = cp / 4096 / 64) by (rewrite Z.div_div by lia; reflexivity).
  assert (0 <= cp / 262144 < 5) by (split; [apply Z.div_le_lower_bound; lia|apply Z.div_lt_upper_bound; lia]).
  cbn [app utf8_decode].
  destruct (Z.ltb_spec (240 + cp / 262144) 128); [lia|]. destruct (Z.ltb_spec (240 + cp / 262144) 224); [lia|].
  destruct (Z.ltb_spec (240 + cp / 262144) 240); [lia|].
  f_equal. lia.
Qed.

Theorem utf8_decode_encode cps : forallb cp_in_range cps = true -> utf8_decode (utf8_encode cps) = cps.
Proof.
  induction cps as [|cp cps IH]; [reflexivity|]. cbn [forallb]. intros E. apply andb_true_iff in E as [E1 E2].
  unfold utf8_encode. cbn [flat_map]. fold (utf8_encode cps). rewrite utf8_decode_encode_cp by exact E1. rewrite IH by exact E2. reflexivity.
Qed.

Lemma encodable_in_range cps : text_encodable cps = true -> forallb cp_in_range cps = true.
Proof.
  unfold text_encodable. induction cps as [|cp cps IH]; [reflexivity|]. cbn [forallb]. intros E. apply andb_true_iff in E as [E1 E2].
  rewrite (IH E2), andb_true_r. unfold cp_encodable in E1. unfold cp_in_range.
  apply andb_true_iff in E1 as [E1 _]. exact E1.
Qed.

(* the honest body: valid, of the announced length, and it decodes to the text that was sent *)
Theorem utf8_roundtrip cps : text_encodable cps = true ->
  utf8_valid (utf8_encode cps) = true /\ zlen (utf8_encode cps) = utf8size cps /\ utf8_decode (utf8_encode cps) = cps.
Proof.
  intros E. destruct (utf8_encode_valid cps E) as [A B]. split; [exact A|split; [exact B|]].
  apply utf8_decode_encode, encodable_in_range, E.
Qed.

Lemma u8cont_spec c : u8cont c = true -> 128 <= c <= 191.
Proof. unfold u8cont. intros H. apply andb_true_iff in H as [A B]. apply Z.leb_le in A, B. lia. Qed.

Lemma range_spec a b x : (a <=? x) && (x <=? b) = true -> a <= x <= b.
Proof. intros H. apply andb_true_iff in H as [A B]. apply Z.leb_le in A, B. lia. Qed.

(* a body the strict decoder accepts is the UTF-8 form of the text it decodes to, and that text is encodable: no two accepted
   bodies stand for the same text, and what user code receives could have been sent by an honest UnicodeSlicer *)
Lemma utf8_valid_decode_fuel : forall n l, (List.length l <= n)%nat -> utf8_valid l = true ->
  utf8_encode (utf8_decode l) = l /\ text_encodable (utf8_decode l) = true.
Proof.
  induction n as [|n IH]; intros l L V.
  { destruct l; [split; reflexivity|cbn in L; lia]. }
  destruct l as [|b r]; [split; reflexivity|]. cbn [List.length] in L.
  cbn [utf8_valid] in V.
  destruct ((0 <=? b) && (b <? 128)) eqn:A.
  { apply andb_true_iff in A as [A1 A2]. apply Z.leb_le in A1. apply Z.ltb_lt in A2.
    destruct (IH r ltac:(lia) V) as [E T]. cbn [utf8_decode]. destruct (Z.ltb_spec b 128); [|lia].
    unfold utf8_encode, text_encodable in *. cbn [flat_map forallb]. rewrite E, T. unfold utf8_encode_cp, cp_encodable.
    destruct (Z.ltb_spec b 128); [|lia]. split; [reflexivity|].
    rewrite andb_true_r. apply andb_true_iff. split; [apply andb_true_iff; split; apply Z.leb_le; lia|].
    apply negb_true_iff. apply andb_false_iff. left. apply Z.leb_gt. lia. }
  destruct ((194 <=? b) && (b <=? 223)) eqn:B.
  { apply range_spec in B. destruct r as [|c1 r1]; [discriminate|]. apply andb_true_iff in V as [C1 V]. apply u8cont_spec in C1.
    cbn [List.length] in L. destruct (IH r1 ltac:(lia) V) as [E T]. cbn [utf8_decode].
    destruct (Z.ltb_spec b 128); [lia|]. destruct (Z.ltb_spec b 224); [|lia].
    set (cp := (b - 192) * 64 + (c1 - 128)).
    assert (Q : cp / 64 = b - 192 /\ cp mod 64 = c1 - 128).
    { pose proof (Z.div_mod cp 64 ltac:(lia)). pose proof (Z.mod_pos_bound cp 64 ltac:(lia)). unfold cp in *. lia. }
    destruct Q as [Q1 Q2]. assert (R : 128 <= cp < 2048) by (unfold cp; lia).
    unfold utf8_encode, text_encodable in *. cbn [flat_map forallb]. rewrite E, T. unfold utf8_encode_cp, cp_encodable.
    destruct (Z.ltb_spec cp 128); [lia|]. destruct (Z.ltb_spec cp 2048); [|lia]. rewrite Q1, Q2. cbn [app]. split; [f_equal; [lia|f_equal; lia]|].
    rewrite andb_true_r. apply andb_true_iff. split; [apply andb_true_iff; split; apply Z.leb_le; lia|].
    apply negb_true_iff. apply andb_false_iff. left. apply Z.leb_gt. lia. }
  destruct ((224 <=? b) && (b <=? 239)) eqn:C.
  { apply range_spec in C. destruct r as [|c1 [|c2 r2]]; try discriminate. apply andb_true_iff in V as [V V2]. apply andb_true_iff in V as [C1 C2].
    apply u8cont_spec in C2. cbn [List.length] in L. destruct (IH r2 ltac:(lia) V2) as [E T]. cbn [utf8_decode].
    destruct (Z.ltb_spec b 128); [lia|]. destruct (Z.ltb_spec b 224); [lia|]. destruct (Z.ltb_spec b 240); [|lia].
    assert (C1' : 128 <= c1 <= 191 /\ (b = 224 -> 160 <= c1) /\ (b = 237 -> c1 <= 159)).
    { destruct (Z.eqb_spec b 224); [apply range_spec in C1; lia|]. destruct (Z.eqb_spec b 237); [apply range_spec in C1; lia|].
      apply u8cont_spec in C1. lia. }
    clear C1. destruct C1' as (K1 & K2 & K3).
    set (cp := (b - 224) * 4096 + (c1 - 128) * 64 + (c2 - 128)).
    assert (Q : cp / 4096 = b - 224 /\ (cp / 64) mod 64 = c1 - 128 /\ cp mod 64 = c2 - 128).
    { pose proof (Z.div_mod cp 64 ltac:(lia)). pose proof (Z.mod_pos_bound cp 64 ltac:(lia)).
      pose proof (Z.div_mod (cp / 64) 64 ltac:(lia)). pose proof (Z.mod_pos_bound (cp / 64) 64 ltac:(lia)).
      assert (cp / 4096 = cp / 64 / 64) by (rewrite Z.div_div by lia; reflexivity). unfold cp in *. lia. }
    destruct Q as (Q1 & Q2 & Q3). assert (R : 2048 <= cp < 65536 /\ ~ (55296 <= cp <= 57343)) by (unfold cp; lia).
    unfold utf8_encode, text_encodable in *. cbn [flat_map forallb]. rewrite E, T. unfold utf8_encode_cp, cp_encodable.
    destruct (Z.ltb_spec cp 128); [lia|]. destruct (Z.ltb_spec cp 2048); [lia|]. destruct (Z.ltb_spec cp 65536); [|lia].
    rewrite Q1, Q2, Q3. cbn [app]. split; [f_equal; [lia|f_equal; [lia|f_equal; lia]]|].
    rewrite andb_true_r. apply andb_true_iff. split; [apply andb_true_iff; split; apply Z.leb_le; lia|].
    apply negb_true_iff. apply andb_false_iff. destruct (Z.leb_spec 55296 cp); [right; apply Z.leb_gt; lia|left; reflexivity]. }
  destruct ((240 <=? b) && (b <=? 244)) eqn:D; [|discriminate].
  apply range_spec in D. destruct r as [|c1 [|c2 [|c3 r3]]]; try discriminate.
  apply andb_true_iff in V as [V V3]. apply andb_true_iff in V as [V C3]. apply andb_true_iff in V as [C1 C2].
  apply u8cont_spec in C2, C3. cbn [List.length] in L. destruct (IH r3 ltac:(lia) V3) as [E T]. cbn [utf8_decode].
  destruct (Z.ltb_spec b 128); [lia|]. destruct (Z.ltb_spec b 224); [lia|]. destruct (Z.ltb_spec b 240); [lia|].
  assert (C1' : 128 <= c1 <= 191 /\ (b = 240 -> 144 <= c1) /\ (b = 244 -> c1 <= 143)).
  { destruct (Z.eqb_spec b 240); [apply range_spec in C1; lia|]. destruct (Z.eqb_spec b 244); [apply range_spec in C1; lia|].
    apply u8cont_spec in C1. lia. }
  clear C1. destruct C1' as (K1 & K2 & K3).
  set (cp := (b - 240) * 262144 + (c1 - 128) * 4096 + (c2 - 128) * 64 + (c3 - 128)).
  assert (Q : cp / 262144 = b - 240 /\ (cp / 4096) mod 64 = c1 - 128 /\ (cp / 64) mod 64 = c2 - 128 /\ cp mod 64 = c3 - 128).
  { pose proof (Z.div_mod cp 64 ltac:(lia)). pose proof (Z.mod_pos_bound cp 64 ltac:(lia)).
    pose proof (Z.div_mod (cp / 64) 64 ltac:(lia)). pose proof (Z.mod_pos_bound (cp / 64) 64 ltac:(lia)).
    pose proof (Z.div_mod (cp / 4096) 64 ltac:(lia)). pose proof (Z.mod_pos_bound (cp / 4096) 64 ltac:(lia)).
    assert (cp / 4096 = cp / 64 / 64) by (rewrite Z.div_div by lia; reflexivity).
    assert (cp / 262144 = cp / 4096 / 64) by (rewrite Z.div_div by lia; reflexivity). unfold cp in *. lia. }
  destruct Q as (Q1 & Q2 & Q3 & Q4). assert (R : 65536 <= cp <= 1114111) by (unfold cp; lia).
  unfold utf8_encode, text_encodable in *. cbn [flat_map forallb]. rewrite E, T. unfold utf8_encode_cp, cp_encodable.
  destruct (Z.ltb_spec cp 128); [lia|]. destruct (Z.ltb_spec cp 2048); [lia|]. destruct (Z.ltb_spec cp 65536); [lia|].
  rewrite Q1, Q2, Q3, Q4. cbn [app]. split; [f_equal; [lia|f_equal; [lia|f_equal; [lia|f_equal; lia]]]|].
  rewrite andb_true_r. apply andb_true_iff. split; [apply andb_true_iff; split; apply Z.leb_le; lia|].
  apply negb_true_iff. apply andb_false_iff. right. apply Z.leb_gt. lia.
Qed.

Theorem utf8_valid_decode l : utf8_valid l = true ->
  utf8_encode (utf8_decode l) = l /\ text_encodable (utf8_decode l) = true.
Proof. apply (utf8_valid_decode_fuel (List.length l)). lia. Qed.

Section Sender.
Variable voc : list (list Z).

Lemma slice_int z : slice voc (OInt z) = WInt (fst (int_token z)) (snd (int_token z)) z.
Proof. cbn [slice]. destruct (int_token z). reflexivity. Qed.

(* ---- inversion of the serialization relation *)
Lemma ser_atom_inv o w : atom o = true -> ser voc o w -> w = slice voc o.
Proof. intros A S. inversion S; subst; try reflexivity; try discriminate A. destruct o; discriminate. Qed.

Lemma ser_list_inv l w : ser voc (OList l) w -> (exists ws, w = WOpen OtList ws /\ Forall2 (ser voc) l ws) \/ w = WRef (OList l).
Proof. intros S. inversion S; subst; try discriminate; [left; eexists; split; [reflexivity|assumption]|right; reflexivity]. Qed.
Lemma ser_tuple_inv l w : ser voc (OTuple l) w -> (exists ws, w = WOpen OtTuple ws /\ Forall2 (ser voc) l ws) \/ w = WRef (OTuple l).
Proof. intros S. inversion S; subst; try discriminate; [left; eexists; split; [reflexivity|assumption]|right; reflexivity]. Qed.
Lemma ser_set_inv l w : ser voc (OSet l) w -> (exists ws, w = WOpen OtSet ws /\ Forall2 (ser voc) l ws) \/ w = WRef (OSet l).
Proof. intros S. inversion S; subst; try discriminate; [left; eexists; split; [reflexivity|assumption]|right; reflexivity]. Qed.
Lemma ser_fset_inv l w : ser voc (OFset l) w -> exists ws, w = WOpen OtFset ws /\ Forall2 (ser voc) l ws.
Proof. intros S. inversion S; subst; try discriminate. eexists; split; [reflexivity|assumption]. Qed.
Lemma ser_dict_inv ks vs w : ser voc (ODict ks vs) w ->
  (exists wks wvs, w = WOpen OtDict (interleave wks wvs) /\ Forall2 (ser voc) ks wks /\ Forall2 (ser voc) vs wvs) \/ w = WRef (ODict ks vs).
Proof. intros S. inversion S; subst; try discriminate; [left; do 2 eexists; split; [reflexivity|split; assumption]|right; reflexivity]. Qed.

Lemma Forall2_map_ser l : Forall (fun o => owf o = true -> ser voc o (slice voc o)) l -> forallb owf l = true ->
  Forall2 (ser voc) l (map (slice voc) l).
Proof.
  induction 1 as [|x l Hx _ IH]; intros W; [constructor|]. cbn [forallb] in W. apply andb_true_iff in W as [W1 W2].
  cbn [map]. constructor; auto.
Qed.

(* the tree serialization (no sharing) is one of the serializations *)
Lemma ser_slice : forall o, owf o = true -> ser voc o (slice voc o).
Proof.
  induction o using obj_ind'; intros W; try (apply ser_atom; reflexivity); try discriminate W; cbn [owf] in W; cbn [slice].
  - apply ser_list. apply Forall2_map_ser; assumption.
  - apply ser_tuple. apply Forall2_map_ser; assumption.
  - apply ser_set. apply Forall2_map_ser; assumption.
  - apply ser_fset. apply Forall2_map_ser; assumption.
  - apply andb_true_iff in W as [W W3]. apply andb_true_iff in W as [W1 W2].
    apply ser_dict; apply Forall2_map_ser; assumption.
Qed.

Ltac atomw S := match type of S with ser _ ?o ?w => rewrite (ser_atom_inv o w eq_refl S) end.

(* ---- no constraint: everything is delivered *)
Lemma dict_kids (R : obj -> wobj -> Prop) ks vs wks wvs j x w :
  Forall2 R ks wks -> Forall2 R vs wvs ->
  nth_error (interleave ks vs) j = Some x -> nth_error (interleave wks wvs) j = Some w ->
  (Nat.div2 j < List.length ks)%nat /\ R x w /\
  (if Nat.even j then nth_error ks (Nat.div2 j) = Some x else nth_error vs (Nat.div2 j) = Some x).
Proof.
  intros F1 F2 Hx Hw. apply nth_interleave in Hx as [L Hx]. apply nth_interleave in Hw as [_ Hw].
  split; [assumption|]. destruct (Nat.even j); (split; [|assumption]).
  - exact (Forall2_nth R _ _ _ _ _ F1 Hx Hw).
  - exact (Forall2_nth R _ _ _ _ _ F2 Hx Hw).
Qed.

Lemma recv_text_ok mx vocab size cps :
  text_body_too_long mx vocab size = false -> text_encodable cps = true ->
  recv_text mx [WStr vocab size (utf8_encode cps)] = RDeliver (OText cps).
Proof.
  intros A B. cbn [recv_text]. rewrite A. unfold body_decodable. change unicode_unslicer_strict_decode with true. cbv iota.
  destruct (utf8_roundtrip cps B) as (V & _ & D). rewrite V, D. reflexivity.
Qed.

Lemma ser_free : forall o w, owf o = true -> ser voc o w -> recvw None w = RDeliver o.
Proof.
  induction o using obj_ind'; intros w W S; try discriminate W.
  - atomw S; rewrite slice_int. reflexivity.
  - atomw S. reflexivity.
  - atomw S. cbn [slice]. unfold str_token. destruct (vocab_index voc bs); reflexivity.
  - cbn [owf] in W. atomw S. cbn [slice]. unfold str_token.
    destruct (vocab_index voc (utf8_encode cps)) as [i|];
      [change (recvw None (WOpen OtUnicode [WStr true i (utf8_encode cps)])) with (recv_text None [WStr true i (utf8_encode cps)])
      |change (recvw None (WOpen OtUnicode [WStr false (utf8size cps) (utf8_encode cps)]))
         with (recv_text None [WStr false (utf8size cps) (utf8_encode cps)])];
      (apply recv_text_ok; [unfold text_body_too_long; apply andb_false_r|exact W]).
  - atomw S. destruct b; reflexivity.
  - atomw S. reflexivity.
  - cbn [owf] in W. destruct (ser_list_inv _ _ S) as [(ws & -> & F)| ->]; [|reflexivity].
    cbn [recvw slot_open slot_opentype child_of free_child negb].
    rewrite (kids_deliver _ (fun _ => None) l ws); [reflexivity|eapply Forall2_length; eassumption|].
    intros j x w Hx Hw. split; [reflexivity|]. rewrite Forall_forall in H.
    apply H; [eapply nth_error_In; eassumption|eapply forallb_nth; eassumption|eapply Forall2_nth; eassumption].
  - cbn [owf] in W. destruct (ser_tuple_inv _ _ S) as [(ws & -> & F)| ->]; [|reflexivity].
    cbn [recvw slot_open slot_opentype child_of free_child negb].
    rewrite (kids_deliver _ (fun _ => None) l ws); [reflexivity|eapply Forall2_length; eassumption|].
    intros j x w Hx Hw. split; [reflexivity|]. rewrite Forall_forall in H.
    apply H; [eapply nth_error_In; eassumption|eapply forallb_nth; eassumption|eapply Forall2_nth; eassumption].
  - cbn [owf] in W. destruct (ser_set_inv _ _ S) as [(ws & -> & F)| ->]; [|reflexivity].
    cbn [recvw slot_open slot_opentype child_of free_child negb].
    rewrite (kids_deliver _ (fun _ => None) l ws); [reflexivity|eapply Forall2_length; eassumption|].
    intros j x w Hx Hw. split; [reflexivity|]. rewrite Forall_forall in H.
    apply H; [eapply nth_error_In; eassumption|eapply forallb_nth; eassumption|eapply Forall2_nth; eassumption].
  - cbn [owf] in W. destruct (ser_fset_inv _ _ S) as (ws & -> & F).
    cbn [recvw slot_open slot_opentype child_of free_child negb].
    rewrite (kids_deliver _ (fun _ => None) l ws); [reflexivity|eapply Forall2_length; eassumption|].
    intros j x w Hx Hw. split; [reflexivity|]. rewrite Forall_forall in H.
    apply H; [eapply nth_error_In; eassumption|eapply forallb_nth; eassumption|eapply Forall2_nth; eassumption].
  - cbn [owf] in W. apply andb_true_iff in W as [W W3]. apply andb_true_iff in W as [W1 W2]. apply Nat.eqb_eq in W1.
    destruct (ser_dict_inv _ _ _ S) as [(wks & wvs & -> & F1 & F2)| ->]; [|reflexivity].
    cbn [recvw slot_open slot_opentype child_of free_child negb].
    rewrite (kids_deliver _ (fun _ => None) (interleave ks vs) (interleave wks wvs)).
    + cbn [build]. destruct (evens_odds_interleave ks vs W1) as [E1 E2]. rewrite E1, E2. reflexivity.
    + apply interleave_length; eapply Forall2_length; eassumption.
    + intros j x w Hx Hw. split; [reflexivity|].
      destruct (dict_kids _ _ _ _ _ _ _ _ F1 F2 Hx Hw) as (_ & Sx & Hn). rewrite Forall_forall in H, H0.
      destruct (Nat.even j).
      * apply H; [eapply nth_error_In; eassumption|exact (forallb_nth _ _ _ _ W2 Hn)|assumption].
      * apply H0; [eapply nth_error_In; eassumption|exact (forallb_nth _ _ _ _ W3 Hn)|assumption].
Qed.

(* ---- a repeated container travelling as a reference: accepted wherever the object itself is accepted *)
Lemma open_taste : forall c o, checkObject c o = true -> refable o = true -> taste c 136 0 = TOk.
Proof.
  induction c using ctr_ind'; intros o CO R; try (destruct o; try discriminate; reflexivity).
  cbn [checkObject] in CO. apply existsb_exists in CO as (c1 & Hin & CO). rewrite Forall_forall in H.
  cbn [taste]. rewrite (existsb_intro _ cs c1 Hin); [reflexivity|]. rewrite (H c1 Hin o CO R). reflexivity.
Qed.

Theorem ref_ok : forall c o, checkObject c o = true -> refable o = true -> recvw (Some c) (WRef o) = RDeliver o.
Proof.
  intros c o CO R. cbn [recvw slot_open]. change tok_OPEN with 136. rewrite (open_taste c o CO R).
  rewrite CO. rewrite orb_true_r. reflexivity.
Qed.

Lemma str_taste_everything size bs oc : exists tb sz, recvw oc (str_token voc size bs) = slot_token oc tb sz (OBytes bs) /\
  forall strictflag, checkToken_base everythingTaster strictflag tb sz = TOk.
Proof.
  unfold str_token. destruct (vocab_index voc bs) as [i|].
  - exists 135, i. split; [reflexivity|intros; reflexivity].
  - exists 130, size. split; [reflexivity|intros; reflexivity].
Qed.

(* everything the guard's choice/optional/any clauses need about a value that travels as one token or as `none` *)
Lemma everything_token o strictflag :
  is_token_or_none o = true -> any_int_ok o = true ->
  match o with
  | ONone => True
  | _ => exists tb size, (forall oc, recvw oc (slice voc o) = slot_token oc tb size o) /\
                         checkToken_base everythingTaster strictflag tb size = TOk
  end.
Proof.
  intros T A. destruct o; try discriminate; try exact I.
  - exists (fst (int_token z)), (snd (int_token z)). split; [intros oc; rewrite slice_int; reflexivity|].
    cbn [any_int_ok] in A. destruct (int_token z) as [tb size]. cbn [fst snd].
    unfold checkToken_base in *. destruct (assoc tb everythingTaster) as [[l|]|]; try discriminate; try reflexivity.
    destruct ((negb token_limit_zero_unlimited || negb (l =? 0)) && scmp_eval token_size_cmp size l); [discriminate|reflexivity].
  - exists 132, 0. split; [intros oc; reflexivity|reflexivity].
  - cbn [slice]. unfold str_token. destruct (vocab_index voc bs) as [i|].
    + exists 135, i. split; [intros oc; reflexivity|reflexivity].
    + exists 130, (zlen bs). split; [intros oc; reflexivity|reflexivity].
Qed.

(* C12: for EVERY serialization w of o (the tree one, or any one in which repeated containers are references, with the
   connection's vocabulary voc abbreviating byte strings), what the sender's check accepts the receiver delivers *)
Theorem c12_ser : forall c o w,
  wf c = true -> owf o = true -> c12_guard c o = true -> checkObject c o = true -> ser voc o w ->
  recvw (Some c) w = RDeliver o.
Proof.
  induction c using ctr_ind'; intros o w W OW G CO S.
  - (* Any *)
    destruct o; try discriminate OW.
    + atomw S. cbn [c12_guard] in G. rewrite slice_int. cbn [recvw slot_token taste]. apply of_tv_ok.
      cbn [any_int_ok] in G. destruct (int_token z) as [tb size]. cbn [fst snd].
      change (taster_of CAny) with everythingTaster. change (strict_of CAny) with false.
      destruct (checkToken_base everythingTaster false tb size); [reflexivity|discriminate|discriminate].
    + atomw S. reflexivity.
    + atomw S. cbn [slice]. unfold str_token. destruct (vocab_index voc bs); reflexivity.
    + atomw S. exact (eq_trans (recvw_any_open _ _) (ser_free (OText cps) _ OW (ser_atom voc (OText cps) eq_refl))).
    + atomw S. exact (eq_trans (recvw_any_open _ _) (ser_free (OBool b) _ OW (ser_atom voc (OBool b) eq_refl))).
    + atomw S. reflexivity.
    + destruct (ser_list_inv _ _ S) as [(ws & E & F)| ->]; [subst w|apply ref_ok; reflexivity].
      exact (eq_trans (recvw_any_open _ _) (ser_free _ _ OW S)).
    + destruct (ser_tuple_inv _ _ S) as [(ws & E & F)| ->]; [subst w|apply ref_ok; reflexivity].
      exact (eq_trans (recvw_any_open _ _) (ser_free _ _ OW S)).
    + destruct (ser_set_inv _ _ S) as [(ws & E & F)| ->]; [subst w|apply ref_ok; reflexivity].
      exact (eq_trans (recvw_any_open _ _) (ser_free _ _ OW S)).
    + destruct (ser_fset_inv _ _ S) as (ws & E & F). subst w.
      exact (eq_trans (recvw_any_open _ _) (ser_free _ _ OW S)).
    + destruct (ser_dict_inv _ _ _ S) as [(wks & wvs & E & F1 & F2)| ->]; [subst w|apply ref_ok; reflexivity].
      exact (eq_trans (recvw_any_open _ _) (ser_free _ _ OW S)).
  - (* Int *)
    destruct o; try discriminate. atomw S.
    cbn [checkObject] in CO. cbn [wf] in W. rewrite slice_int. cbn [recvw slot_token taste].
    apply of_tv_ok. change (taster_of (CInt mb)) with (int_taster mb). rewrite <- (app_nil_r (int_taster mb)).
    apply int_taste; assumption.
  - (* Number *)
    destruct o; try discriminate; atomw S;
      [|cbn [slice recvw slot_token taste]; unfold checkToken_base; change (taster_of (CNumber mb)) with (number_taster mb);
        change tok_FLOAT with 132; rewrite number_taster_float; reflexivity].
    cbn [checkObject] in CO. cbn [wf] in W. rewrite slice_int.
    cbn [recvw slot_token taste]. apply of_tv_ok. change (taster_of (CNumber mb)) with (int_taster mb ++ [(132, None)]).
    apply int_taste; [|assumption]. destruct mb as [m|]; [|reflexivity]. unfold mb_wf in *. cbn [andb orb] in *. rewrite W. apply orb_true_r.
  - (* Bytes: a STRING of its length, or -- when it is a word of the connection's vocabulary -- a VOCAB token carrying the
       word's index, which must not be compared with maxLength *)
    destruct o; try discriminate. atomw S.
    cbn [checkObject] in CO. apply (len_ok_spec mx mn) in CO as [H1 H2].
    cbn [slice]. unfold str_token. destruct (vocab_index voc bs) as [i|]; cbn [recvw slot_token taste]; apply of_tv_ok.
    + unfold checkToken_base. cbn [taster_of bytes_taster assoc]. change (tok_VOCAB =? 130) with false.
      change (tok_VOCAB =? 135) with true. cbv iota. reflexivity.
    + unfold checkToken_base. cbn [taster_of bytes_taster assoc]. change (tok_STRING =? 130) with true. cbv iota.
      destruct mx as [l|]; [|reflexivity]. rewrite limit_ok; [reflexivity|]. cbn in H1. change token_size_cmp with SGt. cbn [scmp_eval].
      destruct (Z.gtb_spec (zlen bs) l); [lia|reflexivity].
  - (* Text *)
    destruct o; try discriminate. atomw S.
    cbn [checkObject] in CO. apply (len_ok_spec mx mn) in CO as [H1 H2].
    cbn [slice recvw]. change (slot_open (Some (CText mx mn))) with TOk. change (slot_opentype (Some (CText mx mn)) OtUnicode) with true.
    cbn [negb child_of]. cbn [owf] in OW. unfold str_token. destruct (vocab_index voc (utf8_encode cps)) as [i|]; apply recv_text_ok; try exact OW.
    + unfold text_body_too_long. cbn [negb]. rewrite andb_false_r. reflexivity.
    + unfold text_body_too_long. destruct mx as [m|]; [|apply andb_false_r]. cbn in H1.
      change unicode_size_cmp with SGt. change unicode_size_factor with 6. cbn [scmp_eval].
      pose proof (utf8size_bound cps). destruct (Z.gtb_spec (utf8size cps) (6 * m)); [lia|apply andb_false_r].
  - (* Bool *)
    destruct o; try discriminate. atomw S. cbn [checkObject] in CO. cbn [slice recvw].
    change (slot_open (Some (CBool v))) with TOk. change (slot_opentype (Some (CBool v)) OtBool) with true.
    cbn [negb child_of recv_bool]. change (129 =? tok_INT) with true. cbn [negb].
    destruct b; cbn [Z.eqb negb]; rewrite CO; reflexivity.
  - (* None *)
    destruct o; try discriminate. atomw S. reflexivity.
  - (* List *)
    destruct o; try discriminate.
    destruct (ser_list_inv _ _ S) as [(ws & -> & F)| ->]; [|apply ref_ok; [assumption|reflexivity]].
    cbn [checkObject] in CO. apply andb_true_iff in CO as [H1 H2].
    apply (len_ok_spec mx mn) in H1 as [H1 _]. cbn [wf] in W. cbn [owf] in OW. cbn [c12_guard] in G.
    cbn [recvw]. change (slot_open (Some (CList c mx mn))) with TOk.
    change (slot_opentype (Some (CList c mx mn)) OtList) with true. cbn [negb child_of].
    rewrite (kids_deliver _ (fun _ => Some c) l ws); [reflexivity|eapply Forall2_length; eassumption|].
    intros j x w Hx Hw. cbn [Nat.add]. split.
    + cbn [child_slot]. change list_full_cmp with SGe. rewrite (over_ge_false mx _ (zlen l) H1); [reflexivity|].
      apply nth_error_lt in Hx. unfold zlen. lia.
    + apply IHc; [assumption|exact (forallb_nth _ _ _ _ OW Hx)|exact (forallb_nth _ _ _ _ G Hx)|exact (forallb_nth _ _ _ _ H2 Hx)|
                  eapply Forall2_nth; eassumption].
  - (* Tuple *)
    destruct o; try discriminate.
    destruct (ser_tuple_inv _ _ S) as [(ws & -> & F)| ->]; [|apply ref_ok; [assumption|reflexivity]].
    cbn [checkObject] in CO. apply andb_true_iff in CO as [H1 H2].
    cbn [wf] in W. cbn [owf] in OW. cbn [c12_guard] in G. change tuple_len_cmp with SNe in H1. cbn [scmp_eval] in H1.
    rewrite negb_involutive in H1. apply Z.eqb_eq in H1.
    cbn [recvw]. change (slot_open (Some (CTuple cs))) with TOk.
    change (slot_opentype (Some (CTuple cs)) OtTuple) with true. cbn [negb child_of].
    rewrite (kids_deliver _ (fun j => nth_error cs j) l ws); [reflexivity|eapply Forall2_length; eassumption|].
    intros j x w Hx Hw. cbn [Nat.add].
    pose proof (nth_error_lt _ _ _ Hx) as Hj. assert (Hj' : (j < List.length cs)%nat) by (unfold zlen in H1; lia).
    destruct (nth_error cs j) as [cj|] eqn:Ej; [|apply nth_error_None in Ej; lia]. split.
    + cbn [child_slot]. change tuple_full_cmp with SGe. cbn [scmp_eval]. rewrite Ej.
      destruct (Z.geb_spec (Z.of_nat j) (zlen cs)); [unfold zlen in *; lia|reflexivity].
    + rewrite Forall_forall in H. apply H.
      * eapply nth_error_In; eassumption.
      * exact (forallb_nth _ _ _ _ W Ej).
      * exact (forallb_nth _ _ _ _ OW Hx).
      * eapply all2_nth; eassumption.
      * eapply all2_nth; eassumption.
      * eapply Forall2_nth; eassumption.
  - (* Dict *)
    destruct o; try discriminate.
    destruct (ser_dict_inv _ _ _ S) as [(wks & wvs & -> & F1 & F2)| ->]; [|apply ref_ok; [assumption|reflexivity]].
    cbn [checkObject] in CO. apply andb_true_iff in CO as [CO H3]. apply andb_true_iff in CO as [H1 H2].
    apply negb_true_iff in H1. apply (over_max_gt mk) in H1.
    cbn [wf] in W. apply andb_true_iff in W as [W1 W2]. cbn [owf] in OW. apply andb_true_iff in OW as [OW OW3].
    apply andb_true_iff in OW as [OW1 OW2]. apply Nat.eqb_eq in OW1.
    cbn [c12_guard] in G. apply andb_true_iff in G as [G1 G2].
    cbn [recvw]. change (slot_open (Some (CDict c1 c2 mk))) with TOk.
    change (slot_opentype (Some (CDict c1 c2 mk)) OtDict) with true. cbn [negb child_of].
    rewrite (kids_deliver _ (fun j => Some (if Nat.even j then c1 else c2)) (interleave ks vs) (interleave wks wvs)).
    + cbn [build]. destruct (evens_odds_interleave ks vs OW1) as [E1 E2]. rewrite E1, E2. reflexivity.
    + apply interleave_length; eapply Forall2_length; eassumption.
    + intros j x w Hx Hw. cbn [Nat.add]. destruct (dict_kids _ _ _ _ _ _ _ _ F1 F2 Hx Hw) as (Hlt & Sx & Hn). split.
      * cbn [child_slot]. change dict_full_cmp with SGe. rewrite (over_ge_false mk _ (zlen ks) H1); [reflexivity|].
        unfold zlen. lia.
      * destruct (Nat.even j).
        -- apply IHc1; [exact W1|exact (forallb_nth _ _ _ _ OW2 Hn)|exact (forallb_nth _ _ _ _ G1 Hn)|exact (forallb_nth _ _ _ _ H2 Hn)|exact Sx].
        -- apply IHc2; [exact W2|exact (forallb_nth _ _ _ _ OW3 Hn)|exact (forallb_nth _ _ _ _ G2 Hn)|exact (forallb_nth _ _ _ _ H3 Hn)|exact Sx].
  - (* Set *)
    cbn [wf] in W. destruct o; try discriminate.
    + destruct (ser_set_inv _ _ S) as [(ws & -> & F)| ->]; [|apply ref_ok; [assumption|reflexivity]].
      cbn [checkObject] in CO; apply andb_true_iff in CO as [CO H3]; apply andb_true_iff in CO as [H1 H2];
        apply negb_true_iff in H2; apply (over_max_gt mx) in H2; cbn [owf] in OW; cbn [c12_guard] in G; cbn [recvw].
      change (slot_open (Some (CSet c mx mut))) with TOk. change (slot_opentype (Some (CSet c mx mut)) OtSet) with true.
      cbn [negb child_of]. rewrite (kids_deliver _ (fun _ => Some c) l ws); [reflexivity|eapply Forall2_length; eassumption|].
      intros j x w Hx Hw. cbn [Nat.add]. split.
      * cbn [child_slot]. change set_full_cmp with SGe. rewrite (over_ge_false mx _ (zlen l) H2); [reflexivity|].
        apply nth_error_lt in Hx. unfold zlen. lia.
      * apply IHc; [assumption|exact (forallb_nth _ _ _ _ OW Hx)|exact (forallb_nth _ _ _ _ G Hx)|exact (forallb_nth _ _ _ _ H3 Hx)|
                    eapply Forall2_nth; eassumption].
    + destruct (ser_fset_inv _ _ S) as (ws & -> & F).
      cbn [checkObject] in CO; apply andb_true_iff in CO as [CO H3]; apply andb_true_iff in CO as [H1 H2];
        apply negb_true_iff in H2; apply (over_max_gt mx) in H2; cbn [owf] in OW; cbn [c12_guard] in G; cbn [recvw].
      change (slot_open (Some (CSet c mx mut))) with TOk. change (slot_opentype (Some (CSet c mx mut)) OtFset) with true.
      cbn [negb child_of]. rewrite (kids_deliver _ (fun _ => Some c) l ws); [reflexivity|eapply Forall2_length; eassumption|].
      intros j x w Hx Hw. cbn [Nat.add]. split.
      * cbn [child_slot]. change fset_full_cmp with SGe. rewrite (over_ge_false mx _ (zlen l) H2); [reflexivity|].
        apply nth_error_lt in Hx. unfold zlen. lia.
      * apply IHc; [assumption|exact (forallb_nth _ _ _ _ OW Hx)|exact (forallb_nth _ _ _ _ G Hx)|exact (forallb_nth _ _ _ _ H3 Hx)|
                    eapply Forall2_nth; eassumption].
  - (* Choice *)
    cbn [c12_guard] in G. apply andb_true_iff in G as [T G]. apply existsb_exists in G as (c1 & Hin & G).
    apply andb_true_iff in G as [Hc1 G1]. cbn [wf] in W. rewrite Forall_forall in H.
    assert (A : atom o = true) by (destruct o; try discriminate T; reflexivity).
    rewrite (ser_atom_inv _ _ A S) in *.
    assert (D : recvw (Some c1) (slice voc o) = RDeliver o).
    { apply (H c1 Hin o (slice voc o)); try assumption; [rewrite forallb_forall in W; apply W; assumption|apply ser_atom; exact A]. }
    destruct o; try discriminate.
    + rewrite slice_int in *. cbn [recvw slot_token] in *. apply of_tv_deliver in D. apply of_tv_ok.
      cbn [taste]. rewrite (existsb_intro _ cs c1 Hin); [reflexivity|]. rewrite D. reflexivity.
    + cbn [slice recvw slot_token] in *. apply of_tv_deliver in D. apply of_tv_ok.
      cbn [taste]. rewrite (existsb_intro _ cs c1 Hin); [reflexivity|]. rewrite D. reflexivity.
    + cbn [slice] in *. unfold str_token in *. destruct (vocab_index voc bs); cbn [recvw slot_token] in *;
        apply of_tv_deliver in D; apply of_tv_ok; cbn [taste]; (rewrite (existsb_intro _ cs c1 Hin); [reflexivity|]); rewrite D; reflexivity.
    + cbn [slice recvw] in *.
      assert (O1 : slot_open (Some c1) = TOk).
      { destruct (slot_open (Some c1)); [reflexivity|discriminate|discriminate]. }
      assert (O2 : slot_open (Some (CChoice cs)) = TOk).
      { cbn [slot_open taste]. rewrite (existsb_intro _ cs c1 Hin); [reflexivity|]. cbn [slot_open] in O1. rewrite O1. reflexivity. }
      rewrite O2. reflexivity.
  - (* Optional below the argument level *)
    cbn [c12_guard] in G. apply andb_true_iff in G as [T A0].
    assert (A : atom o = true) by (destruct o; try discriminate T; reflexivity).
    rewrite (ser_atom_inv _ _ A S).
    pose proof (everything_token o false T A0) as E. destruct o; try discriminate; try reflexivity.
    all: destruct E as (tb & size & E1 & E2); rewrite E1; cbn [slot_token taste]; apply of_tv_ok; exact E2.
  - (* RemoteInterface: only the receiver's view is modelled *)
    destruct o; try discriminate.
Qed.

(* the tree serialization (what slice produces) as a special case *)
Corollary c12_main : forall c o,
  wf c = true -> owf o = true -> c12_guard c o = true -> checkObject c o = true ->
  recvw (Some c) (slice voc o) = RDeliver o.
Proof. intros. apply c12_ser; try assumption. apply ser_slice. assumption. Qed.

(* ---- the same at the level of a whole call, for EVERY method schema (any number of arguments, Optional ones, both
   unknown-argument flags) and every mix of positional and keyword arguments: what callRemote's check lets through is
   delivered.  ms_wf: argument names are distinct (a python function cannot repeat a parameter name; a dict of keyword
   arguments cannot repeat a key) and every declared constraint is well-formed. *)
Definition ms_wf (ms : mschema) : Prop := NoDup (names ms) /\ forall sp, In sp (ms_args ms) -> wf (a_ctr sp) = true.

Definition args_guarded (ms : mschema) (a : list obj) (kw : list (Z * obj)) : Prop :=
  (forall i sp v, nth_error (ms_args ms) i = Some sp -> nth_error a i = Some v -> owf v = true /\ c12_guard (a_ctr sp) v = true) /\
  (forall n v sp, In (n, v) kw -> lookup n (ms_args ms) = Some sp -> owf v = true /\ c12_guard (a_ctr sp) v = true).

Lemma map_fst_combine {A B} : forall (l : list A) (a : list B),
  (List.length a <= List.length l)%nat -> map fst (combine l a) = firstn (List.length a) l.
Proof.
  induction l as [|y l IH]; intros [|x a] H; cbn [combine map firstn List.length fst] in *; try reflexivity; try lia.
  f_equal. apply IH. lia.
Qed.

Lemma lookup_nth : forall l i sp, NoDup (map a_name l) -> nth_error l i = Some sp -> lookup (a_name sp) l = Some sp.
Proof.
  induction l as [|b l IH]; intros i sp ND E; [destruct i; discriminate|].
  cbn [map] in ND. inversion ND as [|? ? NI ND']; subst. destruct i as [|i]; cbn [nth_error lookup] in *.
  - inversion E; subst. rewrite Z.eqb_refl. reflexivity.
  - destruct (Z.eqb_spec (a_name sp) (a_name b)) as [Q|Q].
    + exfalso. apply NI. rewrite <- Q. apply in_map. eapply nth_error_In. exact E.
    + eapply IH; eassumption.
Qed.

Lemma combine_nth_In {A B} : forall (l : list A) (a : list B) i x y,
  nth_error l i = Some x -> nth_error a i = Some y -> In (x, y) (combine l a).
Proof.
  induction l as [|x0 l IH]; intros [|y0 a] [|i] x y E1 E2; cbn [nth_error combine] in *; try discriminate.
  - inversion E1; inversion E2; subst. left. reflexivity.
  - right. eapply IH; eassumption.
Qed.

Lemma recv_pos_honest ms : (forall sp, In sp (ms_args ms) -> wf (a_ctr sp) = true) -> forall a i,
  (i + List.length a <= List.length (ms_args ms))%nat ->
  (forall j sp v, nth_error (ms_args ms) (i + j) = Some sp -> nth_error a j = Some v ->
     owf v = true /\ c12_guard (a_ctr sp) v = true /\ checkObject (a_ctr sp) v = true) ->
  recv_pos ms (map (slice voc) a) i = KOk a.
Proof.
  intros W. induction a as [|x a IH]; intros i L H; [reflexivity|].
  cbn [map recv_pos]. change posarg_full_cmp with SGe. cbn [scmp_eval List.length] in *.
  destruct (Z.geb_spec (Z.of_nat i) (zlen (ms_args ms))) as [G|G]; [unfold zlen in G; lia|].
  destruct (nth_error (ms_args ms) i) as [sp|] eqn:N; [|apply nth_error_None in N; lia].
  destruct (H 0%nat sp x) as (O1 & O2 & O3); [rewrite Nat.add_0_r; exact N|reflexivity|].
  cbn [option_map]. rewrite (c12_main (a_ctr sp) x (W sp (nth_error_In _ _ N)) O1 O2 O3).
  rewrite IH; [reflexivity|lia|]. intros j sp' v E1 E2. apply (H (S j)); [rewrite Nat.add_succ_r; exact E1|exact E2].
Qed.

Lemma recv_kw_honest ms : forall kw prev,
  kw_fresh prev (map fst kw) ->
  (forall n v, In (n, v) kw -> exists sp, lookup n (ms_args ms) = Some sp /\ wf (a_ctr sp) = true /\ owf v = true /\
                                          c12_guard (a_ctr sp) v = true /\ checkObject (a_ctr sp) v = true) ->
  recv_kw ms prev (map (fun nv => (fst nv, slice voc (snd nv))) kw) = KwOk kw.
Proof.
  induction kw as [|[n v] kw IH]; intros prev F H; [reflexivity|].
  cbn [map fst snd recv_kw kw_fresh] in *. destruct F as [F1 F2].
  destruct (H n v (or_introl eq_refl)) as (sp & L & W & O1 & O2 & O3).
  unfold getKeywordArgConstraint. destruct (memZ n prev) eqn:M; [apply memZ_In in M; contradiction|]. rewrite L.
  change au_asserts_accept with true. cbn [negb andb]. rewrite (c12_main (a_ctr sp) v W O1 O2 O3).
  rewrite IH; [reflexivity|exact F2|]. intros n' v' Hin. apply H. right. exact Hin.
Qed.

Theorem c12_call : forall ms a kw, ms_wf ms -> args_guarded ms a kw ->
  forall p k, send_call voc ms a kw = Some (p, k) -> recv_call ms p k = CInvoke a kw.
Proof.
  intros ms a kw [ND W] [G1 G2] p k S. unfold send_call in S.
  destruct (checkAllArgs ms a kw) as [[]|t] eqn:E; [|discriminate].
  destruct (forallb sendable a && forallb (fun nv => sendable (snd nv)) kw); [|discriminate]. inversion S; subst p k. clear S.
  pose proof E as E0. apply checkAllArgs_spec in E as (A1 & A2 & A3 & A4).
  assert (LE : (List.length a <= List.length (ms_args ms))%nat) by (unfold zlen in A1; lia).
  unfold recv_call. rewrite (recv_pos_honest ms W a 0%nat).
  - rewrite map_length. rewrite <- (map_fst_combine (names ms) a) by (unfold names; rewrite map_length; exact LE).
    rewrite recv_kw_honest.
    + unfold doCall. change doCall_shape with CheckedBeforeCall. cbv iota. rewrite E0. reflexivity.
    + exact A2.
    + intros n v Hin. destruct (A3 n v) as (sp & L & Sat); [apply in_or_app; right; exact Hin|].
      exists sp. split; [exact L|]. apply lookup_In in L as HL. destruct HL as [HL _].
      destruct (G2 n v sp Hin L) as [O1 O2]. split; [apply W; exact HL|]. split; [exact O1|]. split; [exact O2|].
      apply checkObject_sound. exact Sat.
  - cbn [Nat.add]. exact LE.
  - cbn [Nat.add]. intros j sp v E1 E2. destruct (G1 j sp v E1 E2) as [O1 O2]. split; [exact O1|]. split; [exact O2|].
    assert (Hin : In (a_name sp, v) (combine (names ms) a ++ kw)).
    { apply in_or_app. left. eapply combine_nth_In; [|exact E2]. unfold names. rewrite nth_error_map, E1. reflexivity. }
    destruct (A3 _ _ Hin) as (sp' & L & Sat). rewrite (lookup_nth _ _ _ ND E1) in L. inversion L; subst sp'.
    apply checkObject_sound. exact Sat.
Qed.

(* ---- the same for EVERY serialization of the call (sent_call): repeats of one container object inside the call travel
   as references -- m(l, l), m([s, s]), m(a=d, b=d) -- which is what the real ArgumentSlicer emits; c12_call above is the
   special case in which nothing is shared *)
Lemma recv_pos_ser ms : (forall sp, In sp (ms_args ms) -> wf (a_ctr sp) = true) -> forall a p,
  Forall2 (ser voc) a p -> forall i,
  (i + List.length a <= List.length (ms_args ms))%nat ->
  (forall j sp v, nth_error (ms_args ms) (i + j) = Some sp -> nth_error a j = Some v ->
     owf v = true /\ c12_guard (a_ctr sp) v = true /\ checkObject (a_ctr sp) v = true) ->
  recv_pos ms p i = KOk a.
Proof.
  intros W a p F. induction F as [|x w a p S F IH]; intros i L H; [reflexivity|].
  cbn [recv_pos]. change posarg_full_cmp with SGe. cbn [scmp_eval List.length] in *.
  destruct (Z.geb_spec (Z.of_nat i) (zlen (ms_args ms))) as [G|G]; [unfold zlen in G; lia|].
  destruct (nth_error (ms_args ms) i) as [sp|] eqn:N; [|apply nth_error_None in N; lia].
  destruct (H 0%nat sp x) as (O1 & O2 & O3); [rewrite Nat.add_0_r; exact N|reflexivity|].
  cbn [option_map]. rewrite (c12_ser (a_ctr sp) x w (W sp (nth_error_In _ _ N)) O1 O2 O3 S).
  rewrite IH; [reflexivity|lia|]. intros j sp' v E1 E2. apply (H (Datatypes.S j)); [rewrite Nat.add_succ_r; exact E1|exact E2].
Qed.

Lemma recv_kw_ser ms : forall kw k,
  Forall2 (fun (nv : Z * obj) (nw : Z * wobj) => fst nv = fst nw /\ ser voc (snd nv) (snd nw)) kw k -> forall prev,
  kw_fresh prev (map fst kw) ->
  (forall n v, In (n, v) kw -> exists sp, lookup n (ms_args ms) = Some sp /\ wf (a_ctr sp) = true /\ owf v = true /\
                                          c12_guard (a_ctr sp) v = true /\ checkObject (a_ctr sp) v = true) ->
  recv_kw ms prev k = KwOk kw.
Proof.
  intros kw k F. induction F as [|[n v] [n' w] kw k [Hn S] F IH]; intros prev Fr H; [reflexivity|].
  cbn [fst snd] in Hn, S. subst n'. cbn [map fst snd recv_kw kw_fresh] in *. destruct Fr as [F1 F2].
  destruct (H n v (or_introl eq_refl)) as (sp & L & W & O1 & O2 & O3).
  unfold getKeywordArgConstraint. destruct (memZ n prev) eqn:M; [apply memZ_In in M; contradiction|]. rewrite L.
  change au_asserts_accept with true. cbn [negb andb]. rewrite (c12_ser (a_ctr sp) v w W O1 O2 O3 S).
  rewrite IH; [reflexivity|exact F2|]. intros n0 v0 Hin. apply H. right. exact Hin.
Qed.

Theorem c12_call_ser : forall ms a kw, ms_wf ms -> args_guarded ms a kw ->
  forall p k, sent_call voc ms a kw p k -> recv_call ms p k = CInvoke a kw.
Proof.
  intros ms a kw [ND W] [G1 G2] p k (E & _ & FP & FK).
  pose proof E as E0. apply checkAllArgs_spec in E as (A1 & A2 & A3 & A4).
  assert (LE : (List.length a <= List.length (ms_args ms))%nat) by (unfold zlen in A1; lia).
  unfold recv_call. rewrite (recv_pos_ser ms W a p FP 0%nat).
  - assert (LP : List.length a = List.length p) by (eapply Forall2_length; exact FP). rewrite <- LP. rewrite <- (map_fst_combine (names ms) a) by (unfold names; rewrite map_length; exact LE).
    rewrite (recv_kw_ser ms kw k FK).
    + unfold doCall. change doCall_shape with CheckedBeforeCall. cbv iota. rewrite E0. reflexivity.
    + exact A2.
    + intros n v Hin. destruct (A3 n v) as (sp & L & Sat); [apply in_or_app; right; exact Hin|].
      exists sp. split; [exact L|]. apply lookup_In in L as HL. destruct HL as [HL _].
      destruct (G2 n v sp Hin L) as [O1 O2]. split; [apply W; exact HL|]. split; [exact O1|]. split; [exact O2|].
      apply checkObject_sound. exact Sat.
  - cbn [Nat.add]. exact LE.
  - cbn [Nat.add]. intros j sp v E1 E2. destruct (G1 j sp v E1 E2) as [O1 O2]. split; [exact O1|]. split; [exact O2|].
    assert (Hin : In (a_name sp, v) (combine (names ms) a ++ kw)).
    { apply in_or_app. left. eapply combine_nth_In; [|exact E2]. unfold names. rewrite nth_error_map, E1. reflexivity. }
    destruct (A3 _ _ Hin) as (sp' & L & Sat). rewrite (lookup_nth _ _ _ ND E1) in L. inversion L; subst sp'.
    apply checkObject_sound. exact Sat.
Qed.

(* the one-argument instance *)
Corollary c12_call1 : forall c o,
  wf c = true -> owf o = true -> c12_guard c o = true ->
  forall p k, send_call voc (ms1 c) [o] [] = Some (p, k) -> recv_call (ms1 c) p k = CInvoke [o] [].
Proof.
  intros c o W OW G p k S. apply (c12_call (ms1 c) [o] []); [| |exact S].
  - split; [cbn; constructor; [intros []|constructor]|]. intros sp [<-|[]]. exact W.
  - split.
    + intros [|i] sp v E1 E2; cbn in E1, E2; [inversion E1; inversion E2; subst; auto|destruct i; discriminate].
    + intros n v sp [].
Qed.

(* "and symmetrically for results": a result that passes the check Broker._callFinished applies before sending
   (methodSchema.checkResults(res, False)) is accepted by the caller's AnswerUnslicer under the same result constraint and
   handed to the callRemote callback *)
Theorem c12_result : forall ms c o w,
  ms_resp ms = Some c -> wf c = true -> owf o = true -> c12_guard c o = true ->
  send_answer voc ms o = Some w -> recv_answer (Some c) w = Callback o.
Proof.
  intros ms c o w R W OW G S. unfold send_answer in S. destruct (negb (sendable o)); [discriminate|].
  rewrite R in S. change callFinished_checks_results with true in S.
  cbn [andb] in S. destruct (checkObject c o) eqn:CO; [|discriminate]. cbn [negb] in S. inversion S; subst w.
  unfold recv_answer. rewrite (c12_main c o W OW G CO). rewrite CO. destruct answer_checks_object; reflexivity.
Qed.

End Sender.

(* ------------------------------------------------------------------ C02: the ArgumentUnslicer machine over ARBITRARY children *)
(* whatever children the peer puts into the `arguments` sequence -- any count token, any tokens where names or values
   are expected, too few or too many of them: if the method body runs, checkAllArgs accepted exactly what it is given *)
Lemma au_run_checked ms : forall items st a kw, au_run ms st items = CInvoke a kw -> checkAllArgs ms a kw = Ok tt.
Proof.
  induction items as [|w items IH]; intros st a kw E; cbn [au_run] in E.
  - destruct (au_close st) as [[a' kw']|]; [|discriminate]. apply doCall_checked in E as (-> & -> & E). exact E.
  - destruct (au_child ms st w) as [st'| |]; [eapply IH; exact E|discriminate|discriminate].
Qed.

Theorem recv_arguments_checked ms items a kw :
  recv_arguments ms items = CInvoke a kw -> checkAllArgs ms a kw = Ok tt.
Proof. apply au_run_checked. Qed.

Theorem recv_arguments_main ms items a kw :
  recv_arguments ms items = CInvoke a kw ->
  (forall n v, In (n, v) (combine (names ms) a ++ kw) ->
     exists sp, In sp (ms_args ms) /\ a_name sp = n /\ satisfies (a_ctr sp) v) /\
  (forall sp, In sp (ms_args ms) -> a_opt sp = false -> In (a_name sp) (map fst (combine (names ms) a ++ kw))) /\
  kw_fresh (map fst (combine (names ms) a)) (map fst kw) /\ zlen a <= zlen (ms_args ms).
Proof.
  intros E. apply recv_arguments_checked in E. apply checkAllArgs_spec in E as (A1 & A2 & A3 & A4).
  split; [|split; [assumption|split; assumption]].
  intros n v Hin. destruct (A3 n v Hin) as (sp & L & S). apply lookup_In in L as [L1 L2]. exists sp. auto.
Qed.

(* "no undeclared argument is present", also under __ignoreUnknown__ / __acceptUnknown__: neither flag ever lets an
   undeclared name reach the method body (ms is ANY schema record, flags included) *)
Theorem unknown_flags_never_accept ms items a kw :
  recv_arguments ms items = CInvoke a kw -> forall n, In n (map fst kw) -> In n (names ms).
Proof.
  intros E n Hin. apply recv_arguments_main in E as (A1 & _). apply in_map_iff in Hin as ([n' v] & <- & Hin).
  destruct (A1 n' v) as (sp & I1 & I2 & _); [apply in_or_app; right; exact Hin|]. cbn [fst]. rewrite <- I2. unfold names. apply in_map. exact I1.
Qed.

(* ---- streams whose count token equals the number of positional trees: the machine does what recv_call does.
   So every theorem about recv_call (C12 included) is a theorem about such streams, and recv_call needs no assumption
   about the count: it IS the machine on those streams. *)
Definition aust (na : Z) (args : list obj) (kws : list (Z * obj)) (nm : option Z) (c : option ctr) : austate :=
  {| au_numargs := Some na; au_args := args; au_kwargs := kws; au_argname := nm; au_ctr := c |}.

Lemma au_run_cons ms st w r :
  au_run ms st (w :: r) = match au_child ms st w with AuGo st' => au_run ms st' r | AuViol => CViol | AuAbort => CAbort end.
Proof. reflexivity. Qed.

Lemma au_stage_kw na args kws nm c : na <= zlen args ->
  au_stage (aust na args kws nm c) = match nm with None => AuKwName | Some _ => AuKwValue end.
Proof.
  intros H. unfold au_stage, aust. cbn [au_numargs au_args au_argname]. change au_pos_cmp with SLt. cbn [scmp_eval].
  destruct (Z.ltb_spec (zlen args) na); [lia|reflexivity].
Qed.

Lemma au_stage_pos na args kws nm c : zlen args < na -> au_stage (aust na args kws nm c) = AuPos.
Proof.
  intros H. unfold au_stage, aust. cbn [au_numargs au_args au_argname]. change au_pos_cmp with SLt. cbn [scmp_eval].
  destruct (Z.ltb_spec (zlen args) na); [reflexivity|lia].
Qed.

Lemma au_child_kwname ms na args kws c vb sz bs : na <= zlen args -> utf8_valid bs = true ->
  au_child ms (aust na args kws None c) (WStr vb sz bs) =
  au_take (getKeywordArgConstraint ms (name_code bs) (firstn (Z.to_nat na) (names ms) ++ map fst kws))
          (fun c' => aust na args kws (Some (name_code bs)) c').
Proof. intros H T. unfold au_child. rewrite (au_stage_kw _ _ _ _ _ H), T. reflexivity. Qed.

Lemma au_child_kwvalue ms na args kws n c w : na <= zlen args ->
  au_child ms (aust na args kws (Some n) c) w =
  match recvw c w with RDeliver x => AuGo (aust na args (kws ++ [(n, x)]) None c) | RViol => AuViol | RAbort => AuAbort end.
Proof. intros H. unfold au_child. rewrite (au_stage_kw _ _ _ _ _ H). reflexivity. Qed.

Lemma au_child_pos ms na args c w : zlen args < na ->
  au_child ms (aust na args [] None c) w =
  match recvw c w with
  | RViol => AuViol | RAbort => AuAbort
  | RDeliver x =>
      if zlen (args ++ [x]) <? na
      then au_take (getPositionalArgConstraint ms (zlen (args ++ [x]))) (fun c' => aust na (args ++ [x]) [] None c')
      else AuGo (aust na (args ++ [x]) [] None c)
  end.
Proof. intros H. unfold au_child. rewrite (au_stage_pos _ _ _ _ _ H). reflexivity. Qed.

Lemma au_close_kw na args kws c : na <= zlen args -> au_close (aust na args kws None c) = Some (args, kws).
Proof. intros H. unfold au_close. rewrite (au_stage_kw _ _ _ _ _ H). reflexivity. Qed.

Lemma kwname_ctr_irrelevant ms items na args kws c c' :
  na <= zlen args -> au_run ms (aust na args kws None c) items = au_run ms (aust na args kws None c') items.
Proof.
  intros H. destruct items as [|w items].
  - cbn [au_run]. rewrite !au_close_kw by exact H. reflexivity.
  - rewrite !au_run_cons. unfold au_child. rewrite !(au_stage_kw _ _ _ _ _ H). reflexivity.
Qed.

Lemma kw_phase ms : forall kwsb na args kws, na <= zlen args -> names_text kwsb = true ->
  au_run ms (aust na args kws None None) (enc_kws kwsb) =
  match recv_kw ms (firstn (Z.to_nat na) (names ms) ++ map fst kws) (code_kws kwsb) with
  | KwOk l => doCall ms args (kws ++ l) | KwViol => CViol | KwAbort => CAbort
  end.
Proof.
  induction kwsb as [|[bs w] kwsb IH]; intros na args kws H NT.
  - cbn [enc_kws flat_map code_kws map recv_kw au_run]. rewrite au_close_kw by exact H. rewrite app_nil_r. reflexivity.
  - cbn [names_text forallb fst] in NT. apply andb_true_iff in NT as [NT1 NT2].
    change (enc_kws ((bs, w) :: kwsb)) with (WStr false (zlen bs) bs :: w :: enc_kws kwsb).
    change (code_kws ((bs, w) :: kwsb)) with ((name_code bs, w) :: code_kws kwsb).
    rewrite au_run_cons, au_child_kwname by assumption. cbn [recv_kw].
    destruct (getKeywordArgConstraint ms (name_code bs) (firstn (Z.to_nat na) (names ms) ++ map fst kws)) as [| |acc oc];
      cbn [au_take]; try reflexivity.
    destruct (au_asserts_accept && negb acc); [reflexivity|].
    rewrite au_run_cons, au_child_kwvalue by exact H.
    destruct (recvw oc w) as [x| |]; try reflexivity.
    rewrite (kwname_ctr_irrelevant ms _ na args _ oc None H). rewrite IH by assumption.
    rewrite map_app. cbn [map fst]. rewrite app_assoc.
    destruct (recv_kw ms _ (code_kws kwsb)) as [l| |]; try reflexivity. rewrite <- app_assoc. reflexivity.
Qed.

Lemma pos_phase ms tail : forall pos done c na,
  na = zlen done + zlen pos ->
  (pos <> [] -> c = option_map a_ctr (nth_error (ms_args ms) (List.length done)) /\ (List.length done < List.length (ms_args ms))%nat) ->
  au_run ms (aust na done [] None c) (pos ++ tail) =
  match recv_pos ms pos (List.length done) with
  | KOk l => au_run ms (aust na (done ++ l) [] None None) tail | KViol => CViol | KAbort => CAbort
  end.
Proof.
  induction pos as [|w pos IH]; intros done c na N H.
  - cbn [app recv_pos]. rewrite app_nil_r. apply kwname_ctr_irrelevant. unfold zlen in *. cbn [List.length] in N. lia.
  - destruct H as [Hc Hlt]; [discriminate|]. rewrite zlen_cons in N. pose proof (zlen_nonneg pos) as P0.
    cbn [app]. rewrite au_run_cons, au_child_pos by lia.
    cbn [recv_pos]. change posarg_full_cmp with SGe. cbn [scmp_eval].
    destruct (Z.geb_spec (Z.of_nat (List.length done)) (zlen (ms_args ms))) as [G|G]; [unfold zlen in G; lia|].
    rewrite <- Hc. destruct (recvw c w) as [x| |]; try reflexivity.
    assert (ZA : zlen (done ++ [x]) = zlen done + 1) by (unfold zlen; rewrite app_length; cbn [List.length]; lia).
    assert (LA : List.length (done ++ [x]) = S (List.length done)) by (rewrite app_length; cbn [List.length]; lia).
    destruct pos as [|w2 pos].
    + (* the last positional value *)
      cbn [recv_pos]. destruct (Z.ltb_spec (zlen (done ++ [x])) na) as [L2|L2]; [change (zlen (@nil wobj)) with 0 in N; lia|].
      cbn [app]. apply kwname_ctr_irrelevant. lia.
    + (* more to come *)
      rewrite zlen_cons in N. pose proof (zlen_nonneg pos) as P1.
      destruct (Z.ltb_spec (zlen (done ++ [x])) na) as [L2|L2]; [|lia].
      unfold getPositionalArgConstraint. change posarg_full_cmp with SGe. cbn [scmp_eval].
      assert (RP : recv_pos ms (w2 :: pos) (S (List.length done)) =
                   if zlen (done ++ [x]) >=? zlen (ms_args ms) then KViol
                   else match recvw (option_map a_ctr (nth_error (ms_args ms) (S (List.length done)))) w2 with
                        | RDeliver x2 => match recv_pos ms pos (S (S (List.length done))) with KOk l => KOk (x2 :: l) | e => e end
                        | RViol => KViol | RAbort => KAbort end).
      { cbn [recv_pos]. change posarg_full_cmp with SGe. cbn [scmp_eval].
        replace (Z.of_nat (S (List.length done))) with (zlen (done ++ [x])) by (unfold zlen; rewrite LA; reflexivity). reflexivity. }
      rewrite RP. clear RP.
      destruct (Z.geb_spec (zlen (done ++ [x])) (zlen (ms_args ms))) as [G2|G2]; [reflexivity|].
      replace (Z.to_nat (zlen (done ++ [x]))) with (S (List.length done)) by (unfold zlen; rewrite LA, Nat2Z.id; reflexivity).
      destruct (nth_error (ms_args ms) (S (List.length done))) as [sp|] eqn:NE;
        [|apply nth_error_None in NE; unfold zlen in G2; rewrite LA in G2; lia].
      cbn [au_take]. change au_asserts_accept with true. cbn [negb andb option_map].
      rewrite (IH (done ++ [x]) (Some (a_ctr sp)) na).
      * rewrite LA. cbn [recv_pos]. change posarg_full_cmp with SGe. cbn [scmp_eval].
        replace (Z.of_nat (S (List.length done))) with (zlen (done ++ [x])) by (unfold zlen; rewrite LA; reflexivity).
        destruct (Z.geb_spec (zlen (done ++ [x])) (zlen (ms_args ms))) as [G3|G3]; [lia|].
        rewrite NE. cbn [option_map].
        destruct (recvw (Some (a_ctr sp)) w2) as [x2| |]; try reflexivity.
        destruct (recv_pos ms pos (S (S (List.length done)))) as [l| |]; try reflexivity.
        rewrite <- app_assoc. reflexivity.
      * rewrite ZA, zlen_cons. lia.
      * intros _. rewrite LA, NE. split; [reflexivity|]. apply nth_error_Some. rewrite NE. discriminate.
Qed.

Theorem recv_arguments_refines ms pos kwsb : names_text kwsb = true ->
  recv_arguments ms (enc_args pos kwsb) = recv_call ms pos (code_kws kwsb).
Proof.
  intros NT. unfold recv_arguments, enc_args, recv_call. cbn [au_run]. unfold au_child, au_stage, au_init.
  cbn [au_numargs au_args au_argname au_kwargs au_ctr]. rewrite Z.eqb_refl. cbn [negb].
  change au_count_zero_skips with true. cbn [andb]. change au_first_index with 0.
  assert (K : forall c, (pos <> [] -> c = option_map a_ctr (nth_error (ms_args ms) 0%nat) /\ (0 < List.length (ms_args ms))%nat) ->
    au_run ms (aust (zlen pos) [] [] None c) (pos ++ enc_kws kwsb) =
    match recv_pos ms pos 0 with
    | KOk a => match recv_kw ms (firstn (List.length pos) (names ms)) (code_kws kwsb) with
               | KwOk kw => doCall ms a kw | KwViol => CViol | KwAbort => CAbort end
    | KViol => CViol | KAbort => CAbort
    end).
  { intros c Hc. rewrite (pos_phase ms (enc_kws kwsb) pos [] c (zlen pos)); [|unfold zlen; cbn [List.length]; lia|exact Hc].
    cbn [List.length app]. destruct (recv_pos ms pos 0) as [l| |] eqn:RP; try reflexivity.
    assert (LL : zlen pos <= zlen l).
    { clear -RP. assert (Gen : forall pos0 i l0, recv_pos ms pos0 i = KOk l0 -> List.length l0 = List.length pos0).
      { induction pos0 as [|w pos0 IH]; intros i l0 E; cbn [recv_pos] in E; [inversion E; reflexivity|].
        destruct (scmp_eval posarg_full_cmp (Z.of_nat i) (zlen (ms_args ms))); [discriminate|].
        destruct (recvw _ w); try discriminate. destruct (recv_pos ms pos0 (S i)) as [l'| |] eqn:R; try discriminate.
        inversion E; subst. cbn [List.length]. f_equal. eapply IH. exact R. }
      unfold zlen. rewrite (Gen _ _ _ RP). lia. }
    rewrite (kw_phase ms kwsb (zlen pos) l [] LL NT). cbn [map app]. rewrite app_nil_r. unfold zlen at 1. rewrite Nat2Z.id.
    destruct (recv_kw ms _ (code_kws kwsb)); reflexivity. }
  destruct pos as [|w pos].
  - change (zlen []) with 0. cbn [Z.eqb]. apply (K None). intros C. contradiction C. reflexivity.
  - assert (NZ : (zlen (w :: pos) =? 0) = false).
    { apply Z.eqb_neq. rewrite zlen_cons. pose proof (zlen_nonneg pos). lia. }
    rewrite NZ. unfold getPositionalArgConstraint. change posarg_full_cmp with SGe. cbn [scmp_eval].
    destruct (Z.geb_spec 0 (zlen (ms_args ms))) as [G|G].
    + cbn [au_take recv_pos]. change posarg_full_cmp with SGe. cbn [scmp_eval].
      destruct (Z.geb_spec (Z.of_nat 0) (zlen (ms_args ms))) as [G'|G']; [reflexivity|cbn in G'; lia].
    + change (Z.to_nat 0) with 0%nat.
      destruct (nth_error (ms_args ms) 0%nat) as [sp|] eqn:NE; [|apply nth_error_None in NE; unfold zlen in G; lia].
      cbn [au_take]. change au_asserts_accept with true. cbn [negb andb].
      apply (K (Some (a_ctr sp))). intros _. split; [try rewrite NE; reflexivity|]. unfold zlen in G. lia.
Qed.

Definition voc1 := vocab_table 1.

(* the honest sender's call as the receiver's machine sees it: count token, positional trees, (name, tree) pairs *)
Corollary c12_call_stream : forall voc ms a kw, ms_wf ms -> args_guarded ms a kw ->
  forall p k kb, send_call voc ms a kw = Some (p, k) -> code_kws kb = k -> names_text kb = true ->
  recv_arguments ms (enc_args p kb) = CInvoke a kw.
Proof. intros voc ms a kw W G p k kb S <- NT. rewrite recv_arguments_refines by exact NT. eapply c12_call; eassumption. Qed.

Corollary c12_call_ser_stream : forall voc ms a kw, ms_wf ms -> args_guarded ms a kw ->
  forall p k kb, sent_call voc ms a kw p k -> code_kws kb = k -> names_text kb = true ->
  recv_arguments ms (enc_args p kb) = CInvoke a kw.
Proof. intros voc ms a kw W G p k kb S <- NT. rewrite recv_arguments_refines by exact NT. eapply c12_call_ser; eassumption. Qed.

(* names 'a' 'b' 'c' 'z' as the model's identifiers *)
Definition nA := name_code [97].  Definition nB := name_code [98].  Definition nC := name_code [99].  Definition nZ := name_code [122].

Definition ms3 (ign acc : bool) : mschema :=
  {| ms_args := [{| a_name := nA; a_ctr := CInt (Some 1024); a_opt := false |};
                 {| a_name := nB; a_ctr := CList (CBytes (Some 4) 0) (Some 2) 0; a_opt := true |};
                 {| a_name := nC; a_ctr := CText None 0; a_opt := true |}];
     ms_resp := Some (CTuple [CInt (Some (-1)); CBool None]); ms_ignore := ign; ms_accept := acc |}.

Definition i5 := WInt 129 5 5.
Definition kname (b : Z) := WStr false 1 [b].

(* hostile counts and stage confusion: every line is a stream no honest sender emits *)
Example hostile_counts :
  (* count 2, one value, CLOSE: "'arguments' sequence ended too early" -- connection lost *)
  recv_arguments (ms3 false false) [WInt 129 2 2; i5] = CAbort /\
  (* count 0, then a value where a keyword NAME is expected *)
  recv_arguments (ms3 false false) [WInt 129 0 0; i5] = CAbort /\
  (* count 4 for a method of three arguments: refused when the third value has arrived, before the fourth *)
  recv_arguments (ms3 false false) [WInt 129 4 4; i5; WOpen OtList []; slice [] (OText [120])] = CViol /\
  (* count 1 but two positional-looking values: the second is taken for a keyword name *)
  recv_arguments (ms3 false false) [WInt 129 1 1; i5; WOpen OtList []] = CAbort /\
  (* the count is not an INT token / is missing *)
  recv_arguments (ms3 false false) [WInt 131 1 (-1); i5] = CAbort /\ recv_arguments (ms3 false false) [] = CAbort /\
  (* count 0 and the first argument by keyword, a second keyword naming it again *)
  recv_arguments (ms3 false false) [WInt 129 0 0; kname 97; i5; kname 97; i5] = CViol /\
  (* a keyword that names an argument the count already covered *)
  recv_arguments (ms3 false false) [WInt 129 1 1; i5; kname 97; i5] = CViol /\
  (* a name without its value *)
  recv_arguments (ms3 false false) [WInt 129 1 1; i5; kname 98] = CAbort /\
  (* a VOCAB token as keyword name is a name like any other (here: unknown) *)
  recv_arguments (ms3 false false) [WInt 129 1 1; i5; WStr true 4 [108; 105; 115; 116]; i5] = CViol /\
  (* and the conforming ones *)
  recv_arguments (ms3 false false) [WInt 129 1 1; i5; kname 99; slice [] (OText [120])] = CInvoke [OInt 5] [(nC, OText [120])] /\
  recv_arguments (ms3 false false) [WInt 129 0 0; kname 98; WOpen OtList []; kname 97; i5] = CInvoke [] [(nB, OList []); (nA, OInt 5)].
Proof. vm_compute. repeat split; reflexivity. Qed.

(* "a non-conforming message makes that one call fail with a Violation": FALSE under the two unknown-argument flags.
   __ignoreUnknown__: an unknown keyword NAME trips `assert accept` in ArgumentUnslicer.receiveChild: connection lost.
   __acceptUnknown__: the value is received unconstrained, then checkAllArgs calls None.checkObject: the call fails with an
   AttributeError (not a Violation).  In both cases the method body does not run (unknown_flags_never_accept). *)
Theorem unknown_flags_refuted :
  recv_arguments (ms3 true false) [WInt 129 1 1; i5; kname 122; i5] = CAbort /\
  recv_arguments (ms3 false true) [WInt 129 1 1; i5; kname 122; i5] = CFail /\
  checkAllArgs (ms3 true false) [OInt 5] [(nZ, OInt 5)] = Exc "AttributeError" /\
  checkAllArgs (ms3 false true) [OInt 5] [(nZ, OInt 5)] = Exc "AttributeError" /\
  checkAllArgs (ms3 false false) [OInt 5] [(nZ, OInt 5)] = Exc "Violation" /\
  recv_arguments (ms3 true true) [WInt 129 1 1; i5] = CInvoke [OInt 5] [].
Proof. vm_compute. repeat split; reflexivity. Qed.

Example c12_call_nonvacuous :
  let a := [OInt (2 ^ 40)] in
  let kw := [(nC, OText [8364]); (nB, OList [OBytes [108; 105; 115; 116]; OBytes []])] in
  let kb := [([99], slice voc1 (OText [8364])); ([98], slice voc1 (OList [OBytes [108; 105; 115; 116]; OBytes []]))] in
  ms_wf (ms3 false true) /\ args_guarded (ms3 false true) a kw /\
  send_call voc1 (ms3 false true) a kw = Some (map (slice voc1) a, code_kws kb) /\
  recv_arguments (ms3 false true) (enc_args (map (slice voc1) a) kb) = CInvoke a kw.
Proof.
  cbv zeta. split; [|split; [|split]].
  - split; [|intros sp [<-|[<-|[<-|[]]]]; reflexivity].
    cbn. repeat constructor; cbn; intros H; repeat destruct H as [H|H]; try discriminate H; exact H.
  - split.
    + intros [|[|[|i]]] sp v E1 E2; cbn in E1, E2; try discriminate; try (destruct i; discriminate).
      inversion E1; inversion E2; subst. vm_compute. auto.
    + intros n v sp [H|[H|[]]] L; inversion H; subst; vm_compute in L; inversion L; subst; vm_compute; auto.
  - vm_compute. reflexivity.
  - vm_compute. reflexivity.
Qed.

Example c12_result_nonvacuous :
  let o := OTuple [OInt (- 2 ^ 31); OBool false] in
  send_answer voc1 (ms3 false false) o = Some (slice voc1 o) /\
  recv_answer (ms_resp (ms3 false false)) (slice voc1 o) = Callback o /\
  send_answer voc1 (ms3 false false) (OTuple [OInt (2 ^ 31); OBool false]) = None.
Proof. vm_compute. repeat split; reflexivity. Qed.



Example c12_main_nonvacuous :
  let c := CTuple [CInt (Some (-1)); CInt (Some 4); CList (CText (Some 2) 0) (Some 2) 1; CDict (CBytes (Some 1) 0) (CSet (CBool None) (Some 1) None) (Some 1);
                   CChoice [CInt (Some 1024); CNone]; CBytes (Some 10) 0] in
  let o := OTuple [OInt (- 2 ^ 31); OInt (2 ^ 32 - 1); OList [OText [8364; 8364]; OText []]; ODict [OBytes [7]] [OFset [OBool true]]; ONone;
                   OBytes [99; 97; 108; 108]] in
  wf c = true /\ owf o = true /\ c12_guard c o = true /\ checkObject c o = true /\ recvw (Some c) (slice voc1 o) = RDeliver o /\
  slice voc1 (OBytes [99; 97; 108; 108]) = WStr true 11 [99; 97; 108; 108].
Proof. vm_compute. repeat split; reflexivity. Qed.

(* a call m(s, s) with ONE set object: the second occurrence is a reference, and meets SetOf(mutable=True)'s checkOpentype *)
Example c12_ser_shared_nonvacuous :
  let c := CSet (CInt (Some 1024)) (Some 2) (Some true) in
  let s := OSet [OInt 1; OInt 2] in
  ser voc1 (OTuple [s; s]) (WOpen OtTuple [slice voc1 s; WRef s]) /\
  recvw (Some (CTuple [c; c])) (WOpen OtTuple [slice voc1 s; WRef s]) = RDeliver (OTuple [s; s]).
Proof.
  split; [|vm_compute; reflexivity].
  apply ser_tuple. constructor; [apply ser_slice; reflexivity|]. constructor; [apply ser_ref; reflexivity|constructor].
Qed.

(* ------------------------------------------------------------------ C02, result side: what still holds (partial) *)
Lemma wwf_int tb s v : wwf (WInt tb s v) = true -> tb = 129 \/ tb = 131 \/ tb = 133 \/ tb = 134.
Proof.
  cbn [wwf]. change tok_INT with 129. change tok_NEG with 131. change tok_LONGINT with 133. change tok_LONGNEG with 134.
  intros H. repeat (apply orb_true_iff in H as [H|H]); apply Z.eqb_eq in H; auto.
Qed.

Lemma kids_sound ch ci :
  (forall i oc, child_slot ch i = Some oc -> oc = Some ci) ->
  (forall w v, wwf w = true -> recvw (Some ci) w = RDeliver v -> checkObject ci v = true) ->
  forall kids i l, forallb wwf kids = true -> kids_with recvw ch kids i = KOk l -> forallb (checkObject ci) l = true.
Proof.
  intros Hs IH. induction kids as [|k kids IHk]; intros i l W E.
  - cbn in E. inversion E. reflexivity.
  - cbn [kids_with] in E. destruct (child_slot ch i) as [oc|] eqn:CS; [|discriminate]. rewrite (Hs i oc CS) in E.
    cbn [forallb] in W. apply andb_true_iff in W as [W1 W2].
    destruct (recvw (Some ci) k) as [x| |] eqn:R; try discriminate.
    destruct (kids_with recvw ch kids (S i)) as [l'| |] eqn:K; try discriminate.
    inversion E; subst. cbn [forallb]. rewrite (IH k x W1 R). cbn [andb]. eapply IHk; eassumption.
Qed.

(* a container child that refuses its B-th member ("the list / set / dict is full") delivers at most B members *)
Lemma kids_bound ch (B : Z) :
  (forall i, B <= Z.of_nat i -> child_slot ch i = None) ->
  forall kids i l, kids_with recvw ch kids i = KOk l -> l = [] \/ Z.of_nat i + zlen l <= B.
Proof.
  intros Hs. induction kids as [|k kids IHk]; intros i l E.
  - cbn in E. inversion E. left. reflexivity.
  - cbn [kids_with] in E. destruct (child_slot ch i) as [oc|] eqn:CS; [|discriminate].
    assert (LT : Z.of_nat i < B). { destruct (Z.lt_ge_cases (Z.of_nat i) B) as [L|G]; [exact L|]. rewrite (Hs i G) in CS. discriminate. }
    destruct (recvw oc k) as [x| |]; try discriminate.
    destruct (kids_with recvw ch kids (S i)) as [l'| |] eqn:K; try discriminate.
    inversion E; subst. right. rewrite zlen_cons. destruct (IHk (S i) l' K) as [->|Bd].
    + change (zlen (@nil obj)) with 0. lia.
    + rewrite Nat2Z.inj_succ in Bd. lia.
Qed.

Lemma over_full mx i : match mx with Some m => m <= Z.of_nat i | None => False end -> over_max SGe mx (Z.of_nat i) = true.
Proof. destruct mx as [m|]; [|contradiction]. cbn. intros H. destruct (Z.geb_spec (Z.of_nat i) m); [reflexivity|lia]. Qed.

Lemma max_ok_of_bound mx (l : list obj) :
  (forall m, mx = Some m -> l = [] \/ zlen l <= m) -> (forall m, mx = Some m -> 0 <= m) -> over_max SGt mx (zlen l) = false.
Proof.
  intros H P. destruct mx as [m|]; [|reflexivity]. cbn. destruct (Z.gtb_spec (zlen l) m); [|reflexivity].
  destruct (H m eq_refl) as [->|B]; [|lia]. change (zlen (@nil obj)) with 0 in *. specialize (P m eq_refl). lia.
Qed.

Lemma recv_myref_remote kids v : recv_myref kids = RDeliver v -> exists n, v = ORemote n.
Proof.
  unfold recv_myref. intros E.
  repeat match type of E with
         | context [match ?x with _ => _ end] => destruct x; try discriminate E
         | context [if ?x then _ else _] => destruct x; try discriminate E
         end; inversion E; eauto.
Qed.

Fixpoint alt_ok (k v : ctr) (ev : bool) (l : list obj) : bool :=
  match l with [] => true | x :: l' => checkObject (if ev then k else v) x && alt_ok k v (negb ev) l' end.

Lemma kids_alt k v mk :
  (forall w r, wwf w = true -> recvw (Some k) w = RDeliver r -> checkObject k r = true) ->
  (forall w r, wwf w = true -> recvw (Some v) w = RDeliver r -> checkObject v r = true) ->
  forall kids i l, forallb wwf kids = true -> kids_with recvw (ChDict (Some (k, v)) mk) kids i = KOk l ->
  alt_ok k v (Nat.even i) l = true.
Proof.
  intros Hk Hv. induction kids as [|w kids IH]; intros i l W E.
  - cbn in E. inversion E. reflexivity.
  - cbn [kids_with child_slot] in E. destruct (over_max dict_full_cmp mk (Z.of_nat (Nat.div2 i))); [discriminate|].
    cbn [forallb] in W. apply andb_true_iff in W as [W1 W2].
    destruct (recvw (Some (if Nat.even i then k else v)) w) as [x| |] eqn:R; try discriminate.
    destruct (kids_with recvw (ChDict (Some (k, v)) mk) kids (S i)) as [l'| |] eqn:K; try discriminate.
    inversion E; subst. cbn [alt_ok]. specialize (IH (S i) l' W2 K). rewrite Nat.even_succ, <- Nat.negb_even in IH. rewrite IH.
    rewrite andb_true_r. destruct (Nat.even i); [eapply Hk|eapply Hv]; eassumption.
Qed.

Lemma alt_evens_odds k v : forall l, alt_ok k v true l = true ->
  forallb (checkObject k) (evens l) = true /\ forallb (checkObject v) (odds l) = true.
Proof.
  assert (G : forall n l, (List.length l <= n)%nat -> alt_ok k v true l = true ->
              forallb (checkObject k) (evens l) = true /\ forallb (checkObject v) (odds l) = true).
  { induction n as [|n IH]; intros l L A.
    - destruct l; [cbn; auto|cbn in L; lia].
    - destruct l as [|x [|y l]]; cbn [evens odds forallb]; auto.
      cbn [alt_ok negb] in A. apply andb_true_iff in A as [A1 A2]. apply andb_true_iff in A2 as [A2 A3].
      destruct (IH l) as [I1 I2]; [cbn [List.length] in L; lia|exact A3|]. rewrite A1, A2, I1, I2. auto. }
  intros l. apply (G (List.length l)). lia.
Qed.

Lemma evens_len {A} : forall l : list A, 2 * zlen (evens l) <= zlen l.
Proof.
  assert (G : forall n (l : list A), (List.length l <= n)%nat -> 2 * zlen (evens l) <= zlen l).
  { induction n as [|n IH]; intros l L.
    - destruct l; [cbn; lia|cbn in L; lia].
    - destruct l as [|x [|y l]]; cbn [evens]; try (unfold zlen; cbn [List.length]; lia).
      rewrite !zlen_cons. specialize (IH l). cbn [List.length] in L. lia. }
  intros l. apply (G (List.length l)). lia.
Qed.

Lemma bound_nonneg_spec mx m : bound_nonneg mx = true -> mx = Some m -> 0 <= m.
Proof. intros H ->. cbn in H. apply Z.leb_le. exact H. Qed.

Ltac kill_int_tokens H W :=
  let T := fresh in
  pose proof (wwf_int _ _ _ W) as T; destruct T as [T|[T|[T|T]]]; subst; cbn in H; discriminate.

(* the size test of checkObject holds for what a bounded container child delivered *)
Lemma delivered_within ch mx (l : list obj) kids :
  bound_nonneg mx = true ->
  (forall m i, mx = Some m -> m <= Z.of_nat i -> child_slot ch i = None) ->
  kids_with recvw ch kids 0 = KOk l -> over_max SGt mx (zlen l) = false.
Proof.
  intros NN Hs K. destruct mx as [m|]; [|reflexivity]. cbn. destruct (Z.gtb_spec (zlen l) m) as [G|G]; [|reflexivity].
  pose proof (bound_nonneg_spec _ _ NN eq_refl) as P.
  destruct (kids_bound ch m (fun i Hi => Hs m i eq_refl Hi) kids 0%nat l K) as [->|B]; [change (zlen (@nil obj)) with 0 in G|]; lia.
Qed.

(* C02, result side, for the constraints whose token-level enforcement is complete: the value handed to the callback
   does satisfy the result constraint (w: ANY well-formed wire tree, including forged references) *)
Theorem C02_result_partial_main : forall c w v,
  complete c = true -> wwf w = true -> recv_answer (Some c) w = Callback v -> checkObject c v = true.
Proof.
  intros c w v C W H. unfold recv_answer in H. change answer_checks_object with false in H. cbv iota in H.
  destruct (recvw (Some c) w) as [v'| |] eqn:R; try discriminate. inversion H; subst v'. clear H.
  revert w v W R. induction c using ctr_ind'; intros w res W R; try discriminate C.
  - reflexivity.
  - (* Int None *)
    destruct mb; [discriminate C|]. destruct w; try destruct vocab; cbn in R; try discriminate.
    pose proof (wwf_int _ _ _ W) as T. destruct T as [T|[T|[T|T]]]; subst; cbn in R; inversion R; reflexivity.
  - (* Number None *)
    destruct mb; [discriminate C|]. destruct w; try destruct vocab; cbn in R; try discriminate.
    + pose proof (wwf_int _ _ _ W) as T. destruct T as [T|[T|[T|T]]]; subst; cbn in R; inversion R; reflexivity.
    + inversion R. reflexivity.
  - (* Bytes None mn<=0 *)
    destruct mx; [discriminate C|]. cbn [complete] in C. apply Z.leb_le in C.
    destruct w; try (cbn in R; discriminate).
    + kill_int_tokens R W.
    + destruct vocab; cbn in R; inversion R; subst; cbn [checkObject]; apply (len_ok_spec None mn);
        (split; [exact I | pose proof (zlen_nonneg bs); lia]).
  - (* None *)
    destruct w; try (cbn in R; discriminate).
    + kill_int_tokens R W.
    + destruct vocab; cbn in R; discriminate.
    + destruct ot; cbn in R; try discriminate. destruct kids; [inversion R; reflexivity|discriminate].
    + cbn in R. destruct o; try discriminate. inversion R. reflexivity.
  - (* List c mx mn<=0, any maxLength >= 0 *)
    cbn [complete] in C. apply andb_true_iff in C as [C1 C2]. apply andb_true_iff in C1 as [C0 C1]. apply Z.leb_le in C0.
    destruct w; try (cbn in R; discriminate).
    + kill_int_tokens R W.
    + destruct vocab; cbn in R; discriminate.
    + destruct ot; try (cbn in R; discriminate).
      cbn [recvw] in R. change (slot_open (Some (CList c mx mn))) with TOk in R.
      change (slot_opentype (Some (CList c mx mn)) OtList) with true in R. cbn [negb child_of] in R.
      destruct (kids_with recvw (ChList (Some c) mx) kids 0) as [l| |] eqn:K; try discriminate.
      inversion R; subst. cbn [build checkObject]. apply andb_true_iff. split.
      * unfold len_ok. change list_max_cmp with SGt. change list_min_cmp with SLt. cbn [scmp_eval].
        rewrite (delivered_within (ChList (Some c) mx) mx l kids C1); [|intros m i -> Hi; cbn [child_slot]; change list_full_cmp with SGe;
          rewrite (over_full (Some m) i Hi); reflexivity|exact K].
        cbn [negb andb]. pose proof (zlen_nonneg l). destruct (Z.ltb_spec (zlen l) mn); [lia|reflexivity].
      * eapply (kids_sound (ChList (Some c) mx) c); [|intros; eapply IHc; eassumption| |exact K]; [|exact W].
        intros i oc E. cbn [child_slot] in E. destruct (over_max list_full_cmp mx (Z.of_nat i)); [discriminate|inversion E; reflexivity].
    + cbn [recvw] in R. change (slot_open (Some (CList c mx mn))) with TOk in R. change reference_rechecks_object with true in R.
      cbn [negb orb] in R. destruct (checkObject (CList c mx mn) o) eqn:E; [inversion R; subst; exact E|discriminate].
  - (* Dict k v mk, any maxKeys >= 0 *)
    cbn [complete] in C. apply andb_true_iff in C as [C1 C3]. apply andb_true_iff in C1 as [C1 C2].
    destruct w; try (cbn in R; discriminate).
    + kill_int_tokens R W.
    + destruct vocab; cbn in R; discriminate.
    + destruct ot; try (cbn in R; discriminate).
      cbn [recvw] in R. change (slot_open (Some (CDict c1 c2 mk))) with TOk in R.
      change (slot_opentype (Some (CDict c1 c2 mk)) OtDict) with true in R. cbn [negb child_of] in R.
      destruct (kids_with recvw (ChDict (Some (c1, c2)) mk) kids 0) as [l| |] eqn:K; try discriminate.
      inversion R; subst. cbn [build checkObject].
      pose proof (kids_alt c1 c2 mk (fun w r Ww Rr => IHc1 C2 w r Ww Rr) (fun w r Ww Rr => IHc2 C3 w r Ww Rr) kids 0%nat l W K) as A.
      change (Nat.even 0) with true in A. apply alt_evens_odds in A as [A1 A2]. rewrite A1, A2, !andb_true_r.
      apply negb_true_iff. change dict_max_cmp with SGt.
      destruct mk as [m|]; [|reflexivity]. cbn. destruct (Z.gtb_spec (zlen (evens l)) m) as [G|G]; [|reflexivity].
      pose proof (bound_nonneg_spec _ _ C1 eq_refl) as P. pose proof (evens_len l) as EL.
      destruct (kids_bound (ChDict (Some (c1, c2)) (Some m)) (2 * m)) with (kids := kids) (i := 0%nat) (l := l) as [->|B]; auto.
      * intros i Hi. cbn [child_slot]. change dict_full_cmp with SGe.
        assert (D : m <= Z.of_nat (Nat.div2 i)). { rewrite Nat.div2_div, Nat2Z.inj_div. apply Z.div_le_lower_bound; lia. }
        rewrite (over_full (Some m) (Nat.div2 i) D). reflexivity.
      * cbn [evens] in G. change (zlen (@nil obj)) with 0 in G. lia.
      * lia.
    + cbn [recvw] in R. change (slot_open (Some (CDict c1 c2 mk))) with TOk in R. change reference_rechecks_object with true in R.
      cbn [negb orb] in R. destruct (checkObject (CDict c1 c2 mk) o) eqn:E; [inversion R; subst; exact E|discriminate].
  - (* Set c mx None, any maxLength >= 0 *)
    destruct mut; [discriminate C|]. cbn [complete] in C. apply andb_true_iff in C as [C1 C2].
    destruct w; try (cbn in R; discriminate).
    + kill_int_tokens R W.
    + destruct vocab; cbn in R; discriminate.
    + destruct ot; try (cbn in R; discriminate).
      * cbn [recvw] in R. change (slot_open (Some (CSet c mx None))) with TOk in R.
        change (slot_opentype (Some (CSet c mx None)) OtSet) with true in R. cbn [negb child_of] in R.
        destruct (kids_with recvw (ChSet (Some c) mx) kids 0) as [l| |] eqn:K; try discriminate.
        inversion R; subst. cbn [build checkObject mut_ok andb]. change set_max_cmp with SGt.
        rewrite (delivered_within (ChSet (Some c) mx) mx l kids C1); [|intros m i -> Hi; cbn [child_slot]; change set_full_cmp with SGe;
          rewrite (over_full (Some m) i Hi); reflexivity|exact K].
        cbn [negb andb]. eapply (kids_sound (ChSet (Some c) mx) c); [|intros; eapply IHc; eassumption| |exact K]; [|exact W].
        intros i oc E. cbn [child_slot] in E. destruct (over_max set_full_cmp mx (Z.of_nat i)); [discriminate|inversion E; reflexivity].
      * cbn [recvw] in R. change (slot_open (Some (CSet c mx None))) with TOk in R.
        change (slot_opentype (Some (CSet c mx None)) OtFset) with true in R. cbn [negb child_of] in R.
        destruct (kids_with recvw (ChFset (Some c) mx) kids 0) as [l| |] eqn:K; try discriminate.
        inversion R; subst. cbn [build checkObject mut_ok andb]. change set_max_cmp with SGt.
        rewrite (delivered_within (ChFset (Some c) mx) mx l kids C1); [|intros m i -> Hi; cbn [child_slot]; change fset_full_cmp with SGe;
          rewrite (over_full (Some m) i Hi); reflexivity|exact K].
        cbn [negb andb]. eapply (kids_sound (ChFset (Some c) mx) c); [|intros; eapply IHc; eassumption| |exact K]; [|exact W].
        intros i oc E. cbn [child_slot] in E. destruct (over_max fset_full_cmp mx (Z.of_nat i)); [discriminate|inversion E; reflexivity].
    + cbn [recvw] in R. change (slot_open (Some (CSet c mx None))) with TOk in R. change reference_rechecks_object with true in R.
      cbn [negb orb] in R. destruct (checkObject (CSet c mx None) o) eqn:E; [inversion R; subst; exact E|discriminate].
  - (* Optional below the argument level *)
    reflexivity.
  - (* RemoteInterfaceConstraint(None): any RemoteReference *)
    destruct i; [discriminate C|].
    destruct w; try (cbn in R; discriminate).
    + kill_int_tokens R W.
    + destruct vocab; cbn in R; discriminate.
    + destruct ot; try (cbn in R; discriminate); cbn in R; apply recv_myref_remote in R as [n ->]; reflexivity.
    + cbn [recvw] in R. change (slot_open (Some (CRemote None))) with TOk in R. change reference_rechecks_object with true in R.
      cbn [negb orb] in R. destruct (checkObject (CRemote None) o) eqn:E; [inversion R; subst; exact E|discriminate].
Qed.

Example C02_result_partial_nonvacuous :
  let c := CList (CSet (CInt None) None None) None 0 in
  let w := slice [] (OList [OFset [OInt 1; OInt (2 ^ 70)]; OSet []]) in
  complete c = true /\ wwf w = true /\ recv_answer (Some c) w = Callback (OList [OFset [OInt 1; OInt (2 ^ 70)]; OSet []]).
Proof. vm_compute. auto. Qed.

(* why `complete` stops where it does: further witnesses of the unchecked result side *)
Theorem result_refuted_more :
  (* ByteString(maxLength=3): a VOCAB token's header is an index, its word is not measured *)
  recv_answer (Some (CBytes (Some 3) 0)) (WStr true 21 [99; 108; 97; 115; 115]) = Callback (OBytes [99; 108; 97; 115; 115]) /\
  checkObject (CBytes (Some 3) 0) (OBytes [99; 108; 97; 115; 115]) = false /\
  (* IntegerConstraint(maxBytes=4): an INT token with a 40-bit header *)
  recv_answer (Some (CInt (Some 4))) (WInt 129 (2 ^ 40) (2 ^ 40)) = Callback (OInt (2 ^ 40)) /\ checkObject (CInt (Some 4)) (OInt (2 ^ 40)) = false /\
  (* ChoiceOf(ListOf(Any)): an OPEN none passes the OPEN taster of the list alternative *)
  recv_answer (Some (CChoice [CList CAny None 0])) (WOpen OtNone []) = Callback ONone /\ checkObject (CChoice [CList CAny None 0]) ONone = false /\
  (* SetOf(int, mutable=True): an immutable-set arrives *)
  recv_answer (Some (CSet (CInt None) None (Some true))) (WOpen OtFset []) = Callback (OFset []) /\
  checkObject (CSet (CInt None) None (Some true)) (OFset []) = false /\
  (* ListOf(int, maxLength=-1) / minLength=1: the empty list *)
  recv_answer (Some (CList (CInt None) (Some (-1)) 0)) (WOpen OtList []) = Callback (OList []) /\
  recv_answer (Some (CList (CInt None) None 1)) (WOpen OtList []) = Callback (OList []).
Proof. vm_compute. repeat split; reflexivity. Qed.

(* bounded containers: the bound is enforced exactly by the "full" tests (a third member / key is refused) *)
Example C02_result_partial_bounded :
  let c := CDict (CBytes None 0) (CList (CSet (CInt None) (Some 1) None) (Some 2) 0) (Some 1) in
  let o := ODict [OBytes [107]] [OList [OSet [OInt 5]; OFset []]] in
  complete c = true /\ wwf (slice [] o) = true /\ recv_answer (Some c) (slice [] o) = Callback o /\ checkObject c o = true /\
  recv_answer (Some c) (slice [] (ODict [OBytes [107]] [OList [OSet []; OSet []; OSet []]])) = Errback /\
  recv_answer (Some c) (slice [] (ODict [OBytes [107]] [OList [OSet [OInt 5; OInt 6]]])) = Errback /\
  recv_answer (Some c) (slice [] (ODict [OBytes [107]; OBytes [108]] [OList []; OList []])) = Errback.
Proof. vm_compute. repeat split; reflexivity. Qed.

(* a back-reference -- to an earlier complete object, or (o = OPending k) to a tuple that is still open -- is delivered
   only if the constraint of the slot accepts the referenced object; a placeholder passes only "accept everything" slots *)
Theorem reference_checked : forall c o v,
  recvw (Some c) (WRef o) = RDeliver v -> v = o /\ checkObject c o = true.
Proof.
  intros c o v H. cbn [recvw] in H. destruct (slot_open (Some c)); try discriminate.
  change reference_rechecks_object with true in H. cbn [negb orb] in H.
  destruct (checkObject c o) eqn:E; [inversion H; auto|discriminate].
Qed.

Example reference_checked_nonvacuous :
  recvw (Some (CList CAny None 0)) (WOpen OtList [WRef (OPending 1)]) = RDeliver (OList [OPending 1]) /\
  recv_answer (Some (CTuple [CList (CText None 0) None 0])) (WOpen OtTuple [WOpen OtList [WRef (OPending 1)]]) = Errback /\
  recv_answer (Some (CTuple [CDict (CBytes None 0) (CList (CInt (Some 1024)) None 0) None]))
              (WOpen OtTuple [WOpen OtDict [WStr false 1 [107]; WRef (OPending 1)]]) = Errback.
Proof. vm_compute. auto. Qed.

(* RemoteInterface arguments: a my-reference is not examined at token level; the claimed interface name is compared with
   the declared one by the final checkAllArgs (C02_args covers it like every other constraint) *)
Example C02_remote_example :
  recv_call (ms1 (CRemote (Some [82; 73]))) [WOpen OtMyRef [WInt 129 3 3; WStr false 2 [82; 73]]] [] = CInvoke [ORemote [82; 73]] [] /\
  recv_call (ms1 (CRemote (Some [82; 73]))) [WOpen OtMyRef [WInt 129 3 3; WStr false 2 [82; 66]]] [] = CViol /\
  recv_call (ms1 (CRemote (Some [82; 73]))) [WOpen OtMyRef [WInt 129 3 3]] [] = CViol /\
  recv_call (ms1 (CRemote None)) [WOpen OtMyRef [WInt 129 3 3]] [] = CInvoke [ORemote []] [].
Proof. vm_compute. repeat split; reflexivity. Qed.

(* a back-reference to a list that is STILL OPEN is checked against the members received so far (none): the answer
   (list (reference <this list>) (list 1 2)) under ListOf(ListOf(int)) hands the callback l = [l, [1, 2]].  For calls the
   final checkAllArgs sees the cycle and refuses (second part). *)
Theorem result_refuted_open_reference :
  let c := CList (CList (CInt (Some 1024)) None 0) None 0 in
  let w := WOpen OtList [WRefOpen 0 (OList []); WOpen OtList [WInt 129 1 1; WInt 129 2 2]] in
  recv_answer (Some c) w = Callback (OList [OPending 0; OList [OInt 1; OInt 2]]) /\
  checkObject c (OList [OPending 0; OList [OInt 1; OInt 2]]) = false /\
  recv_call (ms1 c) [w] [] = CViol.
Proof. vm_compute. repeat split; reflexivity. Qed.

(* ------------------------------------------------------------------ C02, sentence 3, positively *)
Definition nonstrict_leaf (c : ctr) : bool := match c with CInt _ | CNumber _ | CBytes _ _ => true | _ => false end.

Lemma checkToken_base_nonstrict t tb sz : checkToken_base t false tb sz <> TBanana.
Proof.
  unfold checkToken_base. destruct (assoc tb t) as [[l|]|]; try discriminate.
  destruct ((negb token_limit_zero_unlimited || negb (l =? 0)) && scmp_eval token_size_cmp sz l); discriminate.
Qed.

Lemma leaf_open_refused c : nonstrict_leaf c = true -> slot_open (Some c) = TViol.
Proof.
  destruct c; try discriminate; intros _; cbn [slot_open taste taster_of strict_of].
  - change strict_Int with false. destruct mb as [[|p|p]|]; try reflexivity. destruct p; reflexivity.
  - change strict_Number with false. destruct mb as [[|p|p]|]; try reflexivity. destruct p; reflexivity.
  - change strict_Bytes with false. reflexivity.
Qed.

Lemma leaf_never_aborts c w : nonstrict_leaf c = true -> recvw (Some c) w <> RAbort.
Proof.
  intros L. pose proof (leaf_open_refused c L) as O.
  destruct w; cbn [recvw]; try (rewrite O; discriminate).
  - unfold slot_token. destruct c; try discriminate L; cbn [taste taster_of strict_of];
      [change strict_Int with false|change strict_Number with false|change strict_Bytes with false];
      match goal with |- of_tv ?t _ <> _ => pose proof (checkToken_base_nonstrict _ _ _ : t <> TBanana) as N; destruct t; try discriminate; contradiction end.
  - unfold slot_token. destruct c; try discriminate L; cbn [taste taster_of strict_of];
      [change strict_Int with false|change strict_Number with false|change strict_Bytes with false];
      match goal with |- of_tv ?t _ <> _ => pose proof (checkToken_base_nonstrict _ _ _ : t <> TBanana) as N; destruct t; try discriminate; contradiction end.
  - unfold slot_token. destruct c; try discriminate L; cbn [taste taster_of strict_of];
      [change strict_Int with false|change strict_Number with false|change strict_Bytes with false];
      match goal with |- of_tv ?t _ <> _ => pose proof (checkToken_base_nonstrict _ _ _ : t <> TBanana) as N; destruct t; try discriminate; contradiction end.
Qed.

Definition leaf_schema (ms : mschema) : Prop :=
  ms_ignore ms = false /\ ms_accept ms = false /\ forall sp, In sp (ms_args ms) -> nonstrict_leaf (a_ctr sp) = true.

Lemma recv_pos_no_abort ms : (forall sp, In sp (ms_args ms) -> nonstrict_leaf (a_ctr sp) = true) ->
  forall pos i, recv_pos ms pos i <> KAbort.
Proof.
  intros H. induction pos as [|w pos IH]; intros i; cbn [recv_pos]; [discriminate|].
  change posarg_full_cmp with SGe. cbn [scmp_eval].
  destruct (Z.geb_spec (Z.of_nat i) (zlen (ms_args ms))) as [G|G]; [discriminate|].
  destruct (nth_error (ms_args ms) i) as [sp|] eqn:N; [|apply nth_error_None in N; unfold zlen in G; lia].
  cbn [option_map]. pose proof (leaf_never_aborts (a_ctr sp) w (H sp (nth_error_In _ _ N))) as NA.
  destruct (recvw (Some (a_ctr sp)) w); try discriminate; [|contradiction].
  specialize (IH (S i)). destruct (recv_pos ms pos (S i)); try discriminate. contradiction.
Qed.

Lemma recv_kw_no_abort ms : ms_ignore ms = false -> ms_accept ms = false ->
  (forall sp, In sp (ms_args ms) -> nonstrict_leaf (a_ctr sp) = true) -> forall kws prev, recv_kw ms prev kws <> KwAbort.
Proof.
  intros Hi Ha H. induction kws as [|[n w] kws IH]; intros prev; cbn [recv_kw]; [discriminate|].
  unfold getKeywordArgConstraint. destruct (memZ n prev); [discriminate|].
  destruct (lookup n (ms_args ms)) as [sp|] eqn:L.
  - change au_asserts_accept with true. cbn [negb andb]. apply lookup_In in L as [L1 _].
    pose proof (leaf_never_aborts (a_ctr sp) w (H sp L1)) as NA.
    destruct (recvw (Some (a_ctr sp)) w); try discriminate; [|contradiction].
    specialize (IH (prev ++ [n])). destruct (recv_kw ms (prev ++ [n]) kws); try discriminate. contradiction.
  - rewrite Hi, Ha. discriminate.
Qed.

Lemma check_each_violation ms : ms_ignore ms = false -> ms_accept ms = false ->
  forall l e, check_each ms l = Exc e -> e = "Violation"%string.
Proof.
  intros Hi Ha. induction l as [|[n v] l IH]; intros e; cbn [check_each]; [discriminate|].
  unfold getKeywordArgConstraint. cbn [memZ existsb]. destruct (lookup n (ms_args ms)) as [sp|].
  - destruct (checkObject (a_ctr sp) v); [apply IH|intros E; inversion E; reflexivity].
  - rewrite Hi, Ha. intros E; inversion E; reflexivity.
Qed.

Lemma checkAllArgs_violation ms a kw e : ms_ignore ms = false -> ms_accept ms = false ->
  checkAllArgs ms a kw = Exc e -> e = "Violation"%string.
Proof.
  intros Hi Ha. unfold checkAllArgs. destruct (scmp_eval args_count_cmp (zlen a) (zlen (ms_args ms))); [intros E; inversion E; reflexivity|].
  destruct (add_kwargs (combine (names ms) a) kw) as [l|]; [|intros E; inversion E; reflexivity].
  destruct (check_each ms l) as [[]|e'] eqn:E1.
  - destruct (negb (required_ok ms (map fst l))); intros E; inversion E; reflexivity.
  - intros E; inversion E; subst. eapply check_each_violation; eassumption.
Qed.

(* "a non-conforming message makes that one call fail with a Violation", POSITIVELY, where it holds: for method schemas
   whose arguments are declared with the token-level constraints that are not strictTaster (Int / Number / ByteString, any
   bounds) and without the unknown-argument flags, EVERY counted stream -- whatever wire trees stand in the argument
   slots: wrong types, oversized tokens, containers, forged references, unknown / duplicate / missing names -- either
   runs the method with arguments that pass checkAllArgs or fails exactly this call with a Violation: the connection is
   never lost and the failure is never another exception.  The proof goes through the token-level model (taster
   tables of the three classes, their strictTaster flags, Constraint.checkToken, the OPEN refusal), not through _doCall. *)
Theorem one_call_violation ms pos kws : leaf_schema ms ->
  recv_call ms pos kws = CViol \/ exists a kw, recv_call ms pos kws = CInvoke a kw /\ checkAllArgs ms a kw = Ok tt.
Proof.
  intros (Hi & Ha & H). unfold recv_call.
  destruct (recv_pos ms pos 0) as [a| |] eqn:RP; [|left; reflexivity|exfalso; eapply recv_pos_no_abort; eassumption].
  destruct (recv_kw ms (firstn (List.length pos) (names ms)) kws) as [kw| |] eqn:RK;
    [|left; reflexivity|exfalso; eapply recv_kw_no_abort; eassumption].
  unfold doCall. change doCall_shape with CheckedBeforeCall. cbv iota.
  destruct (checkAllArgs ms a kw) as [[]|e] eqn:E.
  - right. exists a, kw. auto.
  - left. rewrite (checkAllArgs_violation ms a kw e Hi Ha E). reflexivity.
Qed.

Corollary one_call_violation_stream ms pos kwsb : leaf_schema ms -> names_text kwsb = true ->
  recv_arguments ms (enc_args pos kwsb) = CViol \/
  exists a kw, recv_arguments ms (enc_args pos kwsb) = CInvoke a kw /\ checkAllArgs ms a kw = Ok tt.
Proof. intros L NT. rewrite recv_arguments_refines by exact NT. apply one_call_violation. exact L. Qed.

(* a keyword name that is not text (bytes that are not UTF-8) fails that one call with a Violation -- whatever the schema,
   flags included, and whatever follows it; before the repair (au_nontext_name_violation = false) the connection was lost *)
Theorem nontext_name_violation ms na args kws c vb sz bs rest : na <= zlen args -> utf8_valid bs = false ->
  au_run ms (aust na args kws None c) (WStr vb sz bs :: rest) = CViol.
Proof.
  intros H T. rewrite au_run_cons. unfold au_child. rewrite (au_stage_kw _ _ _ _ _ H), T. cbn [negb].
  change au_nontext_name_violation with true. reflexivity.
Qed.

Example nontext_name_examples :
  utf8_valid [168; 97] = false /\ utf8_valid [195; 169] = true /\ utf8_valid [192; 128] = false /\
  utf8_valid [237; 160; 128] = false /\ utf8_valid [244; 144; 128; 128] = false /\ utf8_valid [240; 144; 128; 128] = true /\
  recv_arguments (ms3 false false) [WInt 129 0 0; WStr false 2 [168; 97]; i5] = CViol /\
  recv_arguments (ms3 true false) [WInt 129 1 1; i5; WStr false 2 [168; 97]; i5] = CViol /\      (* not the `assert accept` path *)
  recv_arguments (ms3 true false) [WInt 129 1 1; i5; WStr false 2 [195; 169]; i5] = CAbort /\    (* a text name that is unknown *)
  recv_arguments (ms3 false true) [WInt 129 1 1; i5; WStr false 2 [195; 169]; i5] = CFail.
Proof. vm_compute. repeat split; reflexivity. Qed.

Definition msL : mschema :=
  mkms [{| a_name := nA; a_ctr := CInt (Some (-1)); a_opt := false |}; {| a_name := nB; a_ctr := CBytes (Some 3) 1; a_opt := true |}] None.

Example one_call_violation_nonvacuous :
  leaf_schema msL /\
  recv_call msL [WInt 129 5 5] [(nB, WStr false 2 [65; 66])] = CInvoke [OInt 5] [(nB, OBytes [65; 66])] /\
  recv_call msL [WInt 133 5 (2 ^ 39)] [] = CViol /\                       (* LONGINT under the 32-bit constraint *)
  recv_call msL [WOpen OtList [WInt 129 5 5]] [] = CViol /\               (* a container where an int is declared *)
  recv_call msL [WInt 129 5 5] [(nB, WStr false 4 [65; 66; 67; 68])] = CViol /\   (* 4 bytes under maxLength 3 *)
  recv_call msL [WInt 129 5 5] [(nB, WStr false 0 [])] = CViol /\         (* minLength 1: only checkAllArgs sees it *)
  recv_call msL [WInt 129 5 5; WRef (OList [])] [] = CViol /\             (* a forged reference *)
  recv_call msL [] [(nB, WStr false 1 [65])] = CViol.                     (* required argument missing *)
Proof.
  split; [|vm_compute; repeat split; reflexivity].
  split; [reflexivity|]. split; [reflexivity|]. intros sp [<-|[<-|[]]]; reflexivity.
Qed.

(* ------------------------------------------------------------------ C02: RemoteCopy state under a stateSchema *)
Lemma recvw_complete c w v : complete c = true -> wwf w = true -> recvw (Some c) w = RDeliver v -> checkObject c v = true.
Proof.
  intros C W R. apply (C02_result_partial_main c w v C W). unfold recv_answer. rewrite R.
  change answer_checks_object with false. reflexivity.
Qed.

(* every (name, value) the RemoteCopyUnslicer collects was received under the constraint getAttrConstraint gave for
   that name (accept = True), whatever the children are *)
Lemma rc_run_invariant s (P : Z * obj -> Prop) :
  (forall n oc w x, getAttrConstraint s n = GC true oc -> wwf w = true -> recvw oc w = RDeliver x -> P (n, x)) ->
  forall items d d', forallb wwf items = true -> rc_run (Some s) d items = ADeliver d' -> Forall P d -> Forall P d'.
Proof.
  intros HP.
  assert (G : forall k items d d', (List.length items <= k)%nat -> forallb wwf items = true ->
              rc_run (Some s) d items = ADeliver d' -> Forall P d -> Forall P d').
  { induction k as [|k IH]; intros items d d' L W E F.
    - destruct items; [|cbn in L; lia]. cbn in E. unfold rc_close in E. change rc_close_checks_state with false in E.
      cbn in E. inversion E; subst. exact F.
    - destruct items as [|nametok rest].
      + cbn in E. unfold rc_close in E. change rc_close_checks_state with false in E. cbn in E. inversion E; subst. exact F.
      + cbn [rc_run] in E. destruct nametok; try discriminate E.
        destruct (utf8_valid bs); cbn [negb] in E; [|destruct rc_nontext_name_violation; discriminate E].
        destruct (memZ (name_code bs) (map fst d)); [discriminate E|].
        destruct (getAttrConstraint s (name_code bs)) as [| |acc oc] eqn:GA; try discriminate E.
        change rc_asserts_accept with true in E. destruct acc; cbn [negb andb] in E; [|discriminate E].
        destruct rest as [|w rest'].
        * unfold rc_close in E. change rc_close_checks_state with false in E. cbn in E. inversion E; subst. exact F.
        * cbn [forallb] in W. apply andb_true_iff in W as [_ W]. apply andb_true_iff in W as [W1 W2].
          destruct (recvw oc w) as [x| |] eqn:R; try discriminate E.
          apply (IH rest' (d ++ [(name_code bs, x)]) d'); [cbn [List.length] in L; lia|exact W2|exact E|].
          apply Forall_app. split; [exact F|]. constructor; [|constructor]. eapply HP; eassumption. }
  intros items d d'. apply (G (List.length items)). lia.
Qed.

(* the RemoteCopy analogue of the result side: a collected attribute value satisfies the constraint declared for its name
   when that constraint's token-level enforcement is complete -- nothing more, because receiveClose does not apply the
   stateSchema to the finished state *)
Theorem rc_values_partial s items d' : forallb wwf items = true -> rc_run (Some s) [] items = ADeliver d' ->
  forall n v a, In (n, v) d' -> lookup n (as_keys s) = Some a -> complete (a_ctr a) = true -> checkObject (a_ctr a) v = true.
Proof.
  intros W E.
  pose proof (rc_run_invariant s (fun nv => forall a, lookup (fst nv) (as_keys s) = Some a -> complete (a_ctr a) = true ->
                                                       checkObject (a_ctr a) (snd nv) = true)) as I.
  assert (F : Forall (fun nv => forall a, lookup (fst nv) (as_keys s) = Some a -> complete (a_ctr a) = true ->
                                          checkObject (a_ctr a) (snd nv) = true) d').
  { apply (I) with (items := items) (d := []); [|exact W|exact E|constructor].
    intros n oc w x GA Ww R a L C. cbn [fst snd] in *. unfold getAttrConstraint in GA. rewrite L in GA. inversion GA; subst.
    eapply recvw_complete; eassumption. }
  intros n v a Hin L C. rewrite Forall_forall in F. apply (F (n, v) Hin a L C).
Qed.

(* "no undeclared attribute": a collected name is declared, or the schema says acceptUnknown *)
Theorem rc_names_declared s items d' : forallb wwf items = true -> rc_run (Some s) [] items = ADeliver d' ->
  forall n v, In (n, v) d' -> lookup n (as_keys s) <> None \/ as_accept s = true.
Proof.
  intros W E.
  assert (F : Forall (fun nv => lookup (fst nv) (as_keys s) <> None \/ as_accept s = true) d').
  { apply (rc_run_invariant s _) with (items := items) (d := []); [|exact W|exact E|constructor].
    intros n oc w x GA _ _. cbn [fst]. unfold getAttrConstraint in GA. destruct (lookup n (as_keys s)); [left; discriminate|].
    destruct (as_ignore s); [discriminate GA|]. destruct (as_accept s); [right; reflexivity|discriminate GA]. }
  intros n v Hin. rewrite Forall_forall in F. apply (F (n, v) Hin).
Qed.

Definition asP (ign acc : bool) : attrschema :=
  {| as_keys := [{| a_name := nA; a_ctr := CInt (Some 1024); a_opt := false |};
                 {| a_name := nB; a_ctr := CTuple [CInt None; CInt None]; a_opt := false |};
                 {| a_name := nC; a_ctr := CList (CInt None) (Some 2) 0; a_opt := true |}];
     as_ignore := ign; as_accept := acc |}.

(* the full statement "the state handed to setCopyableState satisfies the declared stateSchema" is FALSE on the current
   tree (finding oracle/remotecopy-state-unchecked): required attributes may be missing, a 1-tuple arrives for
   TupleOf(int, int); and the "one call fails with a Violation" part is false for ignoreUnknown (assert accept: connection
   lost).  An attribute name that is not UTF-8 is a Violation since commit bc46263 (rc_nontext_name_violation, read from
   copyable.py; before it the UnicodeDecodeError escaped and the connection was lost) *)
Theorem rc_state_refuted :
  rc_run (Some (asP false false)) [] [] = ADeliver [] /\ attr_state_ok (asP false false) [] = false /\
  rc_run (Some (asP false false)) [] [kname 97; i5; kname 98; WOpen OtTuple [i5]] = ADeliver [(nA, OInt 5); (nB, OTuple [OInt 5])] /\
  attr_state_ok (asP false false) [(nA, OInt 5); (nB, OTuple [OInt 5])] = false /\
  rc_run (Some (asP true false)) [] [kname 97; i5; kname 122; i5] = AAbort /\
  rc_run (Some (asP false false)) [] [WStr false 2 [168; 97]; i5] = AViol /\
  rc_run (Some (asP false false)) [] [kname 97; i5; kname 122; i5] = AViol /\
  rc_run (Some (asP false true)) [] [kname 97; i5; kname 122; WOpen OtList [i5]] = ADeliver [(nA, OInt 5); (nZ, OList [OInt 5])] /\
  rc_run (Some (asP false false)) [] [kname 99; WOpen OtList [i5; i5; i5]] = AViol.
Proof. vm_compute. repeat split; reflexivity. Qed.

(* ------------------------------------------------------------------ C02 / C12: the whole `call` sequence *)
Lemma au_run_collect ms : forall items st,
  au_run ms st items = match au_collect ms st items with ArOk a kw => doCall ms a kw | ArViol => CViol | ArAbort => CAbort end.
Proof.
  induction items as [|w items IH]; intros st; cbn [au_run au_collect].
  - destruct (au_close st) as [[a kw]|]; reflexivity.
  - destruct (au_child ms st w); [apply IH|reflexivity|reflexivity].
Qed.

(* the schema a call is judged by is the one the Broker's tables designate for the addressed object and method *)
Definition designated (env : benv) (clid : Z) (meth : option Z) (ms : mschema) : Prop :=
  exists t, assocZ clid (be_objs env) = Some t /\
    if clid <? 0 then t_methodSchema t = Some ms /\ meth = None
    else exists tbl n, t_iface t = Some tbl /\ meth = Some n /\ assocZ n tbl = Some ms.

Definition cu_inv (env : benv) (st : custate) : Prop :=
  (forall t, cu_target st = Some t -> assocZ (cu_objid st) (be_objs env) = Some t) /\
  (forall tbl, cu_iface st = Some tbl -> exists t, assocZ (cu_objid st) (be_objs env) = Some t /\ (cu_objid st <? 0) = false /\ t_iface t = Some tbl) /\
  (forall ms, cu_ms st = Some ms -> designated env (cu_objid st) (cu_meth st) ms).

Lemma cu_child_stop env st k r : cu_child env st k = CuStop r -> forall c m ms a kw, r <> QInvoke c m ms a kw.
Proof.
  unfold cu_child. intros E c m ms a kw ->.
  repeat match type of E with
         | context [match ?x with _ => _ end] => destruct x; try discriminate E
         | context [if ?x then _ else _] => destruct x; try discriminate E
         end.
Qed.

Lemma cu_child_inv env st k st' : cu_inv env st -> cu_child env st k = CuGo st' -> cu_inv env st'.
Proof.
  intros (I1 & I2 & I3). unfold cu_child. destruct k as [w|items].
  - destruct (negb (cu_tok_ok (cu_stage st) (typebyte_of w))); [discriminate|].
    destruct w; try discriminate.
    + destruct (cu_stage st =? 0).
      * destruct (negb (v =? 0) && memZ v (be_active env)); [discriminate|]. intros E; inversion E; subst. clear E.
        split; [|split]; cbn; intros; discriminate.
      * destruct (cu_stage st =? 1); [|discriminate]. destruct (assocZ v (be_objs env)) as [t|] eqn:A; [|discriminate].
        intros E; inversion E; subst. clear E. split; [|split]; cbn [cu_target cu_objid cu_iface cu_ms cu_meth].
        -- intros t0 E0. inversion E0; subst. exact A.
        -- intros tbl E0. destruct (v <? 0) eqn:N; [discriminate|]. exists t. auto.
        -- intros; discriminate.
    + destruct (cu_stage st =? 2); [|discriminate]. destruct (cu_objid st <? 0) eqn:N.
      * destruct (be_require env && _); [discriminate|]. intros E; inversion E; subst. clear E.
        split; [|split]; cbn [cu_target cu_objid cu_iface cu_ms cu_meth]; [exact I1|intros tbl0 F0; destruct (I2 tbl0 F0) as (t0 & B1 & B2 & B3); try discriminate B2; exists t0; rewrite N; auto|].
        intros ms E0. destruct (cu_target st) as [t|] eqn:T; [|discriminate]. exists t. split; [apply I1; reflexivity|]. rewrite N. auto.
      * destruct (negb (utf8_valid bs)); [discriminate|]. destruct (cu_iface st) as [tbl|] eqn:F.
        -- destruct (assocZ (name_code bs) tbl) as [ms0|] eqn:A; [|discriminate]. intros E; inversion E; subst. clear E.
           split; [|split]; cbn [cu_target cu_objid cu_iface cu_ms cu_meth]; [exact I1|intros tbl0 F0; destruct (I2 tbl0 F0) as (t0 & B1 & B2 & B3); try discriminate B2; exists t0; rewrite N; auto|].
           intros ms E0. inversion E0; subst. destruct (I2 tbl eq_refl) as (t & A1 & A2 & A3). exists t. split; [exact A1|].
           rewrite N. exists tbl, (name_code bs). auto.
        -- intros E; inversion E; subst. clear E. split; [|split]; cbn [cu_target cu_objid cu_iface cu_ms cu_meth]; [exact I1|intros tbl0 F0; destruct (I2 tbl0 F0) as (t0 & B1 & B2 & B3); try discriminate B2; exists t0; rewrite N; auto|].
           intros; discriminate.
  - destruct (negb (cu_tok_ok (cu_stage st) tok_OPEN)); [discriminate|]. destruct (cu_ms st) as [ms|] eqn:M; [|discriminate].
    destruct (au_collect ms au_init items); try discriminate. intros E; inversion E; subst. clear E.
    split; [|split]; cbn [cu_target cu_objid cu_iface cu_ms cu_meth]; [exact I1|exact I2|]. intros ms0 E0. inversion E0; subst. apply I3. reflexivity.
Qed.

Lemma cu_run_checked env : forall kids st clid meth ms a kw, cu_inv env st ->
  cu_run env st kids = QInvoke clid meth ms a kw -> designated env clid meth ms /\ checkAllArgs ms a kw = Ok tt.
Proof.
  induction kids as [|k kids IH]; intros st clid meth ms a kw I E; cbn [cu_run] in E.
  - unfold cu_close in E. destruct (negb (cu_close_ok (cu_stage st))); [discriminate|].
    destruct (cu_ms st) as [ms0|] eqn:M; [|discriminate]. destruct (cu_args st) as [[a0 kw0]|]; [|discriminate].
    destruct (doCall ms0 a0 kw0) as [a1 kw1| | |] eqn:D; cbn [lift_cv] in E; try discriminate. inversion E; subst.
    apply doCall_checked in D as (-> & -> & D). split; [|exact D]. destruct I as (_ & _ & I3). apply I3. exact M.
  - destruct (cu_child env st k) as [st'|r] eqn:C.
    + eapply IH; [eapply cu_child_inv; eassumption|exact E].
    + subst r. exfalso. eapply cu_child_stop; [exact C|reflexivity].
Qed.

(* for ARBITRARY children of OPEN call: if the method body runs, the arguments passed checkAllArgs of the schema that
   the Broker's tables designate for the addressed object and method name *)
Theorem call_stream_checked env kids clid meth ms a kw :
  recv_call_stream env kids = QInvoke clid meth ms a kw -> designated env clid meth ms /\ checkAllArgs ms a kw = Ok tt.
Proof.
  apply cu_run_checked. split; [|split]; cbn; intros; discriminate.
Qed.

(* a call sequence framed like an honest one -- request id, object id >= 0 of a Referenceable whose RemoteInterface
   defines the named method, an `arguments` sequence with ARBITRARY children -- is the ArgumentUnslicer machine run under
   that method's schema *)
Definition call_kids (r c : Z) (mname : list Z) (items : list wobj) : list citem :=
  [CTok (WInt tok_INT r r); CTok (WInt tok_INT c c); CTok (WStr false (zlen mname) mname); CArgs items].

Lemma call_stream_framed env r c mname items t tbl ms :
  (negb (r =? 0) && memZ r (be_active env)) = false -> 0 <= c -> utf8_valid mname = true ->
  assocZ c (be_objs env) = Some t -> t_iface t = Some tbl -> assocZ (name_code mname) tbl = Some ms ->
  recv_call_stream env (call_kids r c mname items) = lift_cv c (Some (name_code mname)) ms (recv_arguments ms items).
Proof.
  intros A C U L1 L2 L3. unfold recv_call_stream, call_kids, recv_arguments. rewrite au_run_collect.
  assert (N : (c <? 0) = false) by (apply Z.ltb_ge; exact C).
  cbn [cu_run]. unfold cu_child at 1. cbn [cu_stage cu_init typebyte_of]. change (cu_tok_ok 0 tok_INT) with true. cbn [negb Z.eqb Pos.eqb].
  rewrite A. cbn [cu_run]. unfold cu_child at 1. cbn [cu_stage typebyte_of]. change (cu_tok_ok 1 tok_INT) with true. cbn [negb Z.eqb Pos.eqb].
  rewrite L1, N, L2. cbn [cu_run]. unfold cu_child at 1. cbn [cu_stage cu_objid cu_iface typebyte_of]. change (cu_tok_ok 2 tok_STRING) with true.
  cbn [negb Z.eqb Pos.eqb]. rewrite N, U. cbn [negb]. rewrite L3. cbn [cu_run]. unfold cu_child at 1. cbn [cu_stage cu_ms].
  change (cu_tok_ok 3 tok_OPEN) with true. cbn [negb].
  destruct (au_collect ms au_init items) as [a kw| |]; reflexivity.
Qed.

(* C02_one_call_violation for complete call sequences *)
Theorem call_one_violation env r c mname pos kwsb t tbl ms :
  (negb (r =? 0) && memZ r (be_active env)) = false -> 0 <= c -> utf8_valid mname = true ->
  assocZ c (be_objs env) = Some t -> t_iface t = Some tbl -> assocZ (name_code mname) tbl = Some ms ->
  leaf_schema ms -> names_text kwsb = true ->
  recv_call_stream env (call_kids r c mname (enc_args pos kwsb)) = QViol \/
  exists a kw, recv_call_stream env (call_kids r c mname (enc_args pos kwsb)) = QInvoke c (Some (name_code mname)) ms a kw /\
               checkAllArgs ms a kw = Ok tt.
Proof.
  intros A C U L1 L2 L3 LS NT. rewrite (call_stream_framed env r c mname _ t tbl ms A C U L1 L2 L3).
  destruct (one_call_violation_stream ms pos kwsb LS NT) as [E|(a & kw & E & K)]; rewrite E; cbn [lift_cv]; [left; reflexivity|].
  right. exists a, kw. auto.
Qed.

(* C12_call_delivered for complete call sequences: what callRemote's check lets through runs the addressed method *)
Theorem call_delivered voc env r c mname t tbl ms a kw :
  (negb (r =? 0) && memZ r (be_active env)) = false -> 0 <= c -> utf8_valid mname = true ->
  assocZ c (be_objs env) = Some t -> t_iface t = Some tbl -> assocZ (name_code mname) tbl = Some ms ->
  ms_wf ms -> args_guarded ms a kw ->
  forall p k kb, send_call voc ms a kw = Some (p, k) -> code_kws kb = k -> names_text kb = true ->
  recv_call_stream env (call_kids r c mname (enc_args p kb)) = QInvoke c (Some (name_code mname)) ms a kw.
Proof.
  intros A C U L1 L2 L3 W G p k kb S K NT. rewrite (call_stream_framed env r c mname _ t tbl ms A C U L1 L2 L3).
  rewrite (c12_call_stream voc ms a kw W G p k kb S K NT). reflexivity.
Qed.

Theorem call_delivered_ser voc env r c mname t tbl ms a kw :
  (negb (r =? 0) && memZ r (be_active env)) = false -> 0 <= c -> utf8_valid mname = true ->
  assocZ c (be_objs env) = Some t -> t_iface t = Some tbl -> assocZ (name_code mname) tbl = Some ms ->
  ms_wf ms -> args_guarded ms a kw ->
  forall p k kb, sent_call voc ms a kw p k -> code_kws kb = k -> names_text kb = true ->
  recv_call_stream env (call_kids r c mname (enc_args p kb)) = QInvoke c (Some (name_code mname)) ms a kw.
Proof.
  intros A C U L1 L2 L3 W G p k kb S K NT. rewrite (call_stream_framed env r c mname _ t tbl ms A C U L1 L2 L3).
  rewrite (c12_call_ser_stream voc ms a kw W G p k kb S K NT). reflexivity.
Qed.

Definition envX : benv :=
  {| be_objs := [(0, {| t_iface := None; t_methodSchema := None |});
                 (3, {| t_iface := Some [(name_code [109], ms3 false false); (name_code [110], msL)]; t_methodSchema := None |});
                 (4, {| t_iface := None; t_methodSchema := None |});
                 (-5, {| t_iface := None; t_methodSchema := Some msL |}); (-6, {| t_iface := None; t_methodSchema := None |})];
     be_require := true; be_active := [7] |}.

(* hostile `call` sequences: every line is a stream no honest sender emits (or addresses something that is not there) *)
Example hostile_calls :
  let args := CArgs [WInt 129 1 1; i5] in
  let rq := CTok (WInt 129 1 1) in let ob := CTok (WInt 129 3 3) in let nm_ := CTok (WStr false 1 [109]) in
  recv_call_stream envX [rq; ob; nm_; args] = QInvoke 3 (Some (name_code [109])) (ms3 false false) [OInt 5] [] /\
  recv_call_stream envX [rq; CTok (WInt 129 9 9); nm_; args] = QViol /\                       (* unknown object id *)
  recv_call_stream envX [rq; ob; CTok (WStr false 1 [120]); args] = QViol /\                  (* method not in the interface *)
  recv_call_stream envX [rq; ob; CTok (WStr false 2 [168; 97]); args] = QViol /\              (* method name not UTF-8 *)
  recv_call_stream envX [rq; ob; args] = QAbort /\                                            (* arguments where the name is expected *)
  recv_call_stream envX [rq; ob; nm_] = QAbort /\                                             (* ends before the arguments *)
  recv_call_stream envX [rq; ob; nm_; args; args] = QAbort /\                                 (* a second arguments sequence *)
  recv_call_stream envX [rq; ob; nm_; CTok (WOpen OtList [i5])] = QAbort /\                   (* a list instead of arguments *)
  recv_call_stream envX [CTok (WInt 131 1 (-1)); ob; nm_; args] = QAbort /\                   (* request id is a NEG token *)
  recv_call_stream envX [CTok (WInt 129 7 7); ob; nm_; args] = QAbort /\                      (* request id still being answered *)
  recv_call_stream envX [rq; CTok (WInt 129 4 4); nm_; args] = QNoSchema /\                   (* object without RemoteInterface *)
  recv_call_stream envX [rq; CTok (WInt 131 5 (-5)); nm_; CArgs [WInt 129 1 1; i5]] = QInvoke (-5) None msL [OInt 5] [] /\  (* bound method: name ignored *)
  recv_call_stream envX [rq; CTok (WInt 131 6 (-6)); nm_; args] = QViol /\                    (* requireSchema, bound method without schema *)
  recv_call_stream envX [rq; ob; CTok (WStr false 1 [110]); CArgs [WInt 129 1 1; WOpen OtList []]] = QViol.   (* the OTHER method's schema *)
Proof. vm_compute. repeat split; reflexivity. Qed.

(* ------------------------------------------------------------------ C12: text without a UTF-8 form *)
(* (the lemmas about utf8_encode / utf8_valid / utf8_decode stand before Section Sender) *)

(* ---- the sender refuses text without a UTF-8 form locally *)
Lemma forallb_eq {A} (f g : A -> bool) l : (forall x, f x = g x) -> forallb f l = forallb g l.
Proof. intros H. induction l as [|x l IH]; [reflexivity|]. cbn [forallb]. rewrite H, IH. reflexivity. Qed.

Lemma sendable_encodable o : sendable o = encodable o.
Proof. reflexivity. Qed.

Theorem unencodable_call_refused voc ms a kw :
  forallb encodable a && forallb (fun nv => encodable (snd nv)) kw = false -> send_call voc ms a kw = None.
Proof.
  intros E. unfold send_call. destruct (checkAllArgs ms a kw); [|reflexivity].
  rewrite (forallb_eq sendable encodable a sendable_encodable).
  rewrite (forallb_eq (fun nv : Z * obj => sendable (snd nv)) (fun nv => encodable (snd nv)) kw (fun nv => sendable_encodable (snd nv))).
  rewrite E. reflexivity.
Qed.

Theorem unencodable_result_refused voc ms o : encodable o = false -> send_answer voc ms o = None.
Proof.
  intros E. unfold send_answer, sendable. change unicode_slicer_refuses_unencodable with true. cbn [negb orb]. rewrite E. reflexivity.
Qed.

(* necessity (and non-vacuity): the sender's schema check accepts such text, and if the slicer let it out (the generic
   three-byte form) the receiver's strict decoder would raise UnicodeDecodeError: connection lost *)
Example unencodable_witness :
  let o := OList [OText [99; 97; 102; 56553]; OText [97]] in let c := CList (CText (Some 4) 0) None 0 in
  checkObject c o = true /\ encodable o = false /\ utf8_valid (utf8_encode [99; 97; 102; 56553]) = false /\
  recvw (Some c) (slice [] o) = (if unicode_unslicer_undecodable_violation then RViol else RAbort) /\
  send_call [] (ms1 c) [o] [] = None /\
  encodable (OText [55295; 57344; 1114111]) = true /\ utf8_valid (utf8_encode [55295; 57344; 1114111]) = true /\
  recvw (Some (CText (Some 3) 0)) (slice [] (OText [55295; 57344; 1114111])) = RDeliver (OText [55295; 57344; 1114111]).
Proof. vm_compute. repeat split; reflexivity. Qed.


(* ------------------------------------------------------------------ C02: the body of a unicode sequence is ANY byte string
   the peer chooses (UnicodeUnslicer.receiveChild decodes it; since 66cc69a a body that is not UTF-8 is a Violation) *)
Theorem recv_text_delivers_decoded mx kids v : recv_text mx kids = RDeliver v ->
  (kids = [] /\ v = ONone) \/
  exists vocab size bs, kids = [WStr vocab size bs] /\ utf8_valid bs = true /\ v = OText (utf8_decode bs).
Proof.
  unfold recv_text, body_decodable. change unicode_unslicer_strict_decode with true. cbv iota.
  destruct kids as [|[| |vocab size bs| | |] rest]; intros E; try discriminate E.
  - left. inversion E. auto.
  - right. destruct (text_body_too_long mx vocab size); [discriminate|]. destruct (utf8_valid bs) eqn:V; cbn [negb] in E.
    + destruct rest; [|discriminate]. inversion E. exists vocab, size, bs. auto.
    + destruct unicode_unslicer_undecodable_violation; discriminate.
Qed.

Theorem nontext_body_violation mx vocab size bs rest : utf8_valid bs = false ->
  recv_text mx (WStr vocab size bs :: rest) = RViol.
Proof.
  intros V. cbn [recv_text]. destruct (text_body_too_long mx vocab size); [reflexivity|].
  unfold body_decodable. change unicode_unslicer_strict_decode with true. cbv iota. rewrite V. cbn [negb].
  change unicode_unslicer_undecodable_violation with true. reflexivity.
Qed.

Theorem nontext_body_violation_slot oc vocab size bs rest : utf8_valid bs = false ->
  (oc = None \/ oc = Some CAny \/ exists mx mn, oc = Some (CText mx mn)) ->
  recvw oc (WOpen OtUnicode (WStr vocab size bs :: rest)) = RViol.
Proof.
  intros V [->|[->|(mx & mn & ->)]].
  - change (recvw None (WOpen OtUnicode (WStr vocab size bs :: rest))) with (recv_text None (WStr vocab size bs :: rest)).
    apply nontext_body_violation, V.
  - change (recvw (Some CAny) (WOpen OtUnicode (WStr vocab size bs :: rest))) with (recv_text None (WStr vocab size bs :: rest)).
    apply nontext_body_violation, V.
  - change (recvw (Some (CText mx mn)) (WOpen OtUnicode (WStr vocab size bs :: rest))) with (recv_text mx (WStr vocab size bs :: rest)).
    apply nontext_body_violation, V.
Qed.

Corollary nontext_body_call_violation mx mn vocab size bs rest : utf8_valid bs = false ->
  recv_call (ms1 (CText mx mn)) [WOpen OtUnicode (WStr vocab size bs :: rest)] [] = CViol /\
  recv_call (ms1 (CList (CText mx mn) None 0)) [WOpen OtList [WOpen OtUnicode (WStr vocab size bs :: rest)]] [] = CViol /\
  recv_answer (Some (CText mx mn)) (WOpen OtUnicode (WStr vocab size bs :: rest)) = Errback.
Proof.
  intros V. pose proof (nontext_body_violation_slot (Some (CText mx mn)) vocab size bs rest V
                          (or_intror (or_intror (ex_intro _ mx (ex_intro _ mn eq_refl))))) as R.
  split; [|split].
  - unfold recv_call. cbn [recv_pos ms1 mkms ms_args nth_error option_map a_ctr]. change posarg_full_cmp with SGe.
    change (scmp_eval SGe (Z.of_nat 0) (zlen [{| a_name := nA; a_ctr := CText mx mn; a_opt := false |}])) with false.
    cbv iota. rewrite R. reflexivity.
  - unfold recv_call. cbn [recv_pos ms1 mkms ms_args nth_error option_map a_ctr]. change posarg_full_cmp with SGe.
    cbv iota.
    set (X := WOpen OtUnicode (WStr vocab size bs :: rest)) in *.
    change (recvw (Some (CList (CText mx mn) None 0)) (WOpen OtList [X]))
      with (match kids_with recvw (ChList (Some (CText mx mn)) None) [X] 0 with
            | KOk l => RDeliver (build (ChList (Some (CText mx mn)) None) l) | KViol => RViol | KAbort => RAbort end).
    cbn [kids_with child_slot over_max]. rewrite R. reflexivity.
  - unfold recv_answer. rewrite R. reflexivity.
Qed.

Corollary recv_text_delivers_sent_form mx kids t : recv_text mx kids = RDeliver (OText t) ->
  text_encodable t = true /\ exists vocab size, kids = [WStr vocab size (utf8_encode t)].
Proof.
  intros E. apply recv_text_delivers_decoded in E as [[_ E]|(vocab & size & bs & -> & V & E)]; [discriminate|].
  inversion E; subst t. destruct (utf8_valid_decode bs V) as [A B]. split; [exact B|]. exists vocab, size. rewrite A. reflexivity.
Qed.

Example nontext_body_examples :
  utf8_valid [255] = false /\ utf8_valid [192; 128] = false /\ utf8_valid [237; 160; 128] = false /\ utf8_valid [195; 169] = true /\
  recv_call (ms1 (CText None 0)) [WOpen OtUnicode [WStr false 1 [255]]] [] = CViol /\
  recv_call (ms1 CAny) [WOpen OtList [WOpen OtUnicode [WStr false 2 [192; 128]]]] [] = CViol /\
  recv_answer (Some (CText (Some 3) 0)) (WOpen OtUnicode [WStr false 3 [237; 160; 128]]) = Errback /\
  recv_call (ms1 (CText None 0)) [WOpen OtUnicode [WStr false 2 [195; 169]]] [] = CInvoke [OText [233]] [] /\
  recv_answer (Some (CText (Some 1) 0)) (WOpen OtUnicode [WStr false 4 [240; 159; 152; 128]]) = Callback (OText [128512]).
Proof. vm_compute. repeat split; reflexivity. Qed.

(* ---- C02: my-reference.  The interface name and the URL go through six.ensure_str with no handler (the remaining sites of
   the family 0c0affc / bc46263 / 66cc69a; known finding oracle/non-utf8-reference-name-drops-connection): inside the guard
   "the name is text" a reference without URL is delivered; a name / URL that is not UTF-8 gets what the translated flags
   say -- on the current tree the connection is lost (reference_name_refuted).  Text URLs: see Schema.recv_myref. *)
Theorem myref_text_delivered tb s v vb sz name :
  (tb =? tok_INT) || (tb =? tok_NEG) = true -> utf8_valid name = true ->
  recv_myref [WInt tb s v; WStr vb sz name] = RDeliver (ORemote name).
Proof. intros T N. cbn [recv_myref]. rewrite T, N. reflexivity. Qed.

Theorem myref_nontext_name_outcome tb s v vb sz name rest :
  (tb =? tok_INT) || (tb =? tok_NEG) = true -> utf8_valid name = false ->
  recv_myref (WInt tb s v :: WStr vb sz name :: rest) = (if myref_nontext_name_violation then RViol else RAbort).
Proof. intros T N. cbn [recv_myref]. rewrite T, N. reflexivity. Qed.

Theorem myref_nontext_url_outcome tb s v vb sz name vb2 sz2 url :
  (tb =? tok_INT) || (tb =? tok_NEG) = true -> utf8_valid name = true -> utf8_valid url = false ->
  recv_myref [WInt tb s v; WStr vb sz name; WStr vb2 sz2 url] = (if myref_nontext_url_violation then RViol else RAbort).
Proof. intros T N U. cbn [recv_myref]. rewrite T, N, U. reflexivity. Qed.

Theorem reference_name_refuted :
  recv_call (ms1 CAny) [WOpen OtMyRef [WInt 129 5 5; WStr false 2 [168; 97]]] [] = CAbort /\
  recv_call (ms1 (CRemote None)) [WOpen OtMyRef [WInt 129 5 5; WStr false 2 [82; 73]; WStr false 1 [255]]] [] = CAbort /\
  recv_call (ms1 (CList CAny None 0)) [WOpen OtList [WOpen OtMyRef [WInt 129 5 5; WStr false 2 [168; 97]]]] [] = CAbort /\
  recv_answer (Some CAny) (WOpen OtMyRef [WInt 129 5 5; WStr false 2 [168; 97]]) = ConnLost /\
  recv_call (ms1 CAny) [WOpen OtMyRef [WInt 131 5 (-5); WStr false 2 [82; 73]]] [] = CInvoke [ORemote [82; 73]] [] /\
  recv_call (ms1 CAny) [WOpen OtMyRef [WInt 129 5 5; WStr false 2 [195; 169]]] [] = CInvoke [ORemote [195; 169]] [].
Proof. vm_compute. repeat split; reflexivity. Qed.

(* ---- C12: m(l, l) -- the stream the real sender emits (second occurrence as a reference) is a sent_call, the tree
   stream of send_call is another one; both are delivered *)
Example shared_list_call :
  let l := OList [OInt 1; OInt 2] in let c := CList (CInt (Some 1024)) None 0 in
  let ms := mkms [{| a_name := nA; a_ctr := c; a_opt := false |}; {| a_name := nB; a_ctr := c; a_opt := false |}] None in
  ms_wf ms /\ args_guarded ms [l; l] [] /\
  sent_call [] ms [l; l] [] [slice [] l; WRef l] [] /\
  send_call [] ms [l; l] [] = Some ([slice [] l; slice [] l], []) /\
  recv_call ms [slice [] l; WRef l] [] = CInvoke [l; l] [].
Proof.
  cbv zeta. split; [|split; [|split; [|split]]].
  - split; [|intros sp [<-|[<-|[]]]; reflexivity].
    apply NoDup_cons; [intros [H|[]]; vm_compute in H; discriminate|apply NoDup_cons; [intros []|apply NoDup_nil]].
  - split.
    + intros [|[|i]] sp v E1 E2; cbn in E1, E2; try (inversion E1; inversion E2; subst; split; reflexivity); destruct i; discriminate.
    + intros n v sp [].
  - split; [vm_compute; reflexivity|split; [vm_compute; reflexivity|split]].
    + constructor; [apply ser_slice; reflexivity|constructor; [apply ser_ref; reflexivity|constructor]].
    + constructor.
  - vm_compute. reflexivity.
  - vm_compute. reflexivity.
Qed.

(* ------------------------------------------------------------------ C02: RemoteInterfaces that derive from RemoteInterfaces *)
Lemma assocZ_app {V} n (l1 l2 : list (Z * V)) :
  assocZ n (l1 ++ l2) = match assocZ n l1 with Some v => Some v | None => assocZ n l2 end.
Proof.
  induction l1 as [|[k v] l1 IH]; [reflexivity|]. cbn [app assocZ]. destruct (n =? k); [reflexivity|exact IH].
Qed.

Theorem iface_table_most_derived layers n : assocZ n (iface_table layers) = most_derived layers n.
Proof.
  unfold iface_table. induction layers as [|l layers IH]; [reflexivity|].
  cbn [List.concat most_derived]. rewrite assocZ_app. destruct (assocZ n l); [reflexivity|exact IH].
Qed.

(* the declaration of the most derived interface that declares the name wins, whatever its bases declare *)
Corollary most_derived_override pre l post n ms :
  (forall l', In l' pre -> assocZ n l' = None) -> assocZ n l = Some ms -> most_derived (pre ++ l :: post) n = Some ms.
Proof.
  intros H E. induction pre as [|p pre IH]; cbn [app most_derived]; [rewrite E; reflexivity|].
  rewrite (H p (or_introl eq_refl)). apply IH. intros l' Hin. apply H. right. exact Hin.
Qed.

Theorem call_stream_checked_inherited env kids clid n ms a kw t layers :
  0 <= clid -> assocZ clid (be_objs env) = Some t -> t_iface t = Some (iface_table layers) ->
  recv_call_stream env kids = QInvoke clid (Some n) ms a kw ->
  most_derived layers n = Some ms /\ checkAllArgs ms a kw = Ok tt.
Proof.
  intros C T I E. apply call_stream_checked in E as [(t' & T' & D) K]. split; [|exact K].
  rewrite T in T'. inversion T'; subst t'. destruct (Z.ltb_spec clid 0); [lia|].
  destruct D as (tbl & n' & I' & M & A). rewrite I in I'. inversion I'; subst tbl. inversion M; subst n'.
  rewrite <- iface_table_most_derived. exact A.
Qed.

(* RIBase { m(a=Int(maxBytes=-1), b=Optional(Bytes(3,1))); n(..same..) } <- RIDerived { m(a=int, b=Optional(ListOf(bytes<=4, 2)), c=Optional(str)) };
   object 3 implements RIDerived, object 4 RIBase *)
Definition envI : benv :=
  {| be_objs := [(3, {| t_iface := Some (iface_table [[(name_code [109], ms3 false false)]; [(name_code [109], msL); (name_code [110], msL)]]);
                        t_methodSchema := None |});
                 (4, {| t_iface := Some (iface_table [[(name_code [109], msL); (name_code [110], msL)]]); t_methodSchema := None |})];
     be_require := false; be_active := [] |}.

Example inherited_calls :
  let rq := CTok (WInt 129 1 1) in let nm_ := CTok (WStr false 1 [109]) in let nn := CTok (WStr false 1 [110]) in
  let big := CArgs [WInt 129 1 1; WInt 133 5 (2 ^ 39)] in        (* fits the override's int, not the base's 32 bits *)
  let kwc := CArgs [WInt 129 1 1; i5; kname 99; slice [] (OText [120])] in   (* c= exists in the override only *)
  most_derived [[(name_code [109], ms3 false false)]; [(name_code [109], msL); (name_code [110], msL)]] (name_code [109]) = Some (ms3 false false) /\
  most_derived [[(name_code [109], ms3 false false)]; [(name_code [109], msL); (name_code [110], msL)]] (name_code [110]) = Some msL /\
  recv_call_stream envI [rq; CTok (WInt 129 3 3); nm_; big] = QInvoke 3 (Some (name_code [109])) (ms3 false false) [OInt (2 ^ 39)] [] /\
  recv_call_stream envI [rq; CTok (WInt 129 4 4); nm_; big] = QViol /\              (* the same call to the object that implements the base *)
  recv_call_stream envI [rq; CTok (WInt 129 3 3); nn; big] = QViol /\               (* inherited, not overridden: the base's schema *)
  recv_call_stream envI [rq; CTok (WInt 129 3 3); nm_; kwc] = QInvoke 3 (Some (name_code [109])) (ms3 false false) [OInt 5] [(nC, OText [120])] /\
  recv_call_stream envI [rq; CTok (WInt 129 4 4); nm_; kwc] = QViol /\
  recv_call_stream envI [rq; CTok (WInt 129 3 3); nn; CArgs [WInt 129 1 1; i5]] = QInvoke 3 (Some (name_code [110])) msL [OInt 5] [].
Proof. vm_compute. repeat split; reflexivity. Qed.
