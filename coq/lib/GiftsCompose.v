(* C08, fourth sentence for gift proxies: ONE theorem across the two models.
   lib/Gifts.v (three parties) abstracts the connection owner <-> recipient: an answer `Some (o, x)` stands for "the owner
   serialises x on that connection; what arrives is a proxy for x; calls through it reach x".  That is exactly what
   lib/Refs.v PROVES of one connection (interface lemmas delivery_denotes, denotes_persists, call_names_object,
   call_reaches_object in RefsProofs.v).  Here the two are composed: Gifts decides WHICH object the owner answers with,
   Refs carries it from the owner's slicer to the method call. *)
From Coq Require Import ZArith List Bool Lia.
Import ListNotations.
Require Import Verif.lib.PyLite Verif.gen.RefsGen Verif.lib.Refs Verif.lib.RefsProofs Verif.lib.Gifts Verif.lib.GiftsProofs.
Local Open Scope Z_scope.

Definition reach (s : state) : Prop := exists ops, s = run init ops.

Lemma reach_step s o : reach s -> reach (fst (step s o)).
Proof. intros (ops & ->). exists (ops ++ [o]). rewrite run_app. reflexivity. Qed.
Lemma reach_run s ops : reach s -> reach (run s ops).
Proof. intros (ops0 & ->). exists (ops0 ++ ops). rewrite run_app. reflexivity. Qed.

(* the interface, in the form "for every reachable state of the connection" *)
Lemma I_send s x : reach s -> lost s = false ->
  exists c w, ch_oh (fst (step s (Send x false))) = ch_oh s ++ [MyRef c false w] /\ In (c, x) (o_alloc (ow (fst (step s (Send x false))))) /\
            lost (fst (step s (Send x false))) = false.
Proof.
  intros (ops & ->) Hl. destruct (send_names_object ops x false Hl) as (c & w & A & B). exists c, w. repeat split; auto.
  apply lost_preserved; [exact Hl | discriminate].
Qed.
Lemma I_deliver s c x w rest : reach s -> lost s = false -> ch_oh s = MyRef c false w :: rest -> In (c, x) (o_alloc (ow s)) ->
  exists p, snd (step s RecvOH) = [EvDelivered p] /\ denotes (fst (step s RecvOH)) p x.
Proof. intros (ops & ->) Hl Hch Ha. destruct (delivery_denotes ops c x w rest Hl Hch Ha) as (p & A & B & _). eauto. Qed.
Lemma I_persist s ops2 p x : reach s -> denotes s p x -> lost (run s ops2) = false -> holds (run s ops2) p -> denotes (run s ops2) p x.
Proof. intros (ops & ->). apply denotes_persists. Qed.
Lemma I_call s p x k : reach s -> lost s = false -> denotes s p x ->
  exists c, ch_ho (fst (step s (SendHome p k))) = ch_ho s ++ [ToOwner c k] /\ In (c, x) (o_alloc (ow (fst (step s (SendHome p k))))).
Proof. intros (ops & ->) Hl D. destruct (call_names_object ops p x k Hl D) as (c & A & B & _). eauto. Qed.
Lemma I_reach s c x k rest : reach s -> lost s = false -> ch_ho s = ToOwner c k :: rest -> In (c, x) (o_alloc (ow s)) ->
  snd (step s RecvHO) = [EvHome k (Some x)].
Proof. intros (ops & ->). apply call_reaches_object. Qed.

Theorem gift_proxy_calls_reach_original_partial :
  forall gops i m,
    faithful_run tinit gops ->
    let g := trun tinit gops in
    nth_error (lookups g) i = Some m ->
    let x := snd (tr_want m) in
    (* three-party model: the owner resolves the gift's name to the object the giver's proxy designates *)
    resolve_opt g (tr_url m) = Some (tr_want m) /\
    (* two-party model of the connection owner <-> recipient, in ANY reachable state s of it: the owner answers with a
       my-reference for x ... *)
    forall rops, let s := run init rops in lost s = false ->
    exists c w, ch_oh (fst (step s (Send x false))) = ch_oh s ++ [MyRef c false w] /\
    (* ... whenever a my-reference with that clid is delivered, the recipient gets a proxy p ... *)
    forall ops2 w2 rest, let s2 := run (fst (step s (Send x false))) ops2 in
      lost s2 = false -> ch_oh s2 = MyRef c false w2 :: rest ->
      exists p, snd (step s2 RecvOH) = [EvDelivered p] /\
      (* ... and every call through p (k = true) or p sent home (k = false), at any later time while p is held, ... *)
      forall ops3 k, let s3 := run (fst (step s2 RecvOH)) ops3 in
        lost s3 = false -> holds s3 p ->
        exists c', ch_ho (fst (step s3 (SendHome p k))) = ch_ho s3 ++ [ToOwner c' k] /\
        (* ... is resolved, whenever the owner processes it, to the original object x itself *)
        forall ops4 rest', let s4 := run (fst (step s3 (SendHome p k))) ops4 in
          lost s4 = false -> ch_ho s4 = ToOwner c' k :: rest' -> snd (step s4 RecvHO) = [EvHome k (Some x)].
Proof.
  intros gops i m Gf g Hn x. split.
  { apply lookup_resolves; [apply TInv_reachable | apply TFaith_reachable; exact Gf | eapply nth_error_In; eauto]. }
  intros rops s Hl.
  assert (R0 : reach s) by (exists rops; reflexivity).
  destruct (I_send s x R0 Hl) as (c & w & Hch & Ha & Hl1). exists c, w. split; [exact Hch|].
  set (s1 := fst (step s (Send x false))) in *. assert (R1 : reach s1) by (apply reach_step; exact R0).
  intros ops2 w2 rest s2 Hl2 Hch2. assert (R2 : reach s2) by (apply reach_run; exact R1).
  assert (Ha2 : In (c, x) (o_alloc (ow s2))) by (apply alloc_run; exact Ha).
  destruct (I_deliver s2 c x w2 rest R2 Hl2 Hch2 Ha2) as (p & Hev & D). exists p. split; [exact Hev|].
  set (s2' := fst (step s2 RecvOH)) in *. assert (R2' : reach s2') by (apply reach_step; exact R2).
  intros ops3 k s3 Hl3 Hh3. assert (R3 : reach s3) by (apply reach_run; exact R2').
  pose proof (I_persist s2' ops3 p x R2' D Hl3 Hh3) as D3. fold s3 in D3.
  destruct (I_call s3 p x k R3 Hl3 D3) as (c' & Hho & Ha3). exists c'. split; [exact Hho|].
  set (s3' := fst (step s3 (SendHome p k))) in *. assert (R3' : reach s3') by (apply reach_step; exact R3).
  intros ops4 rest' s4 Hl4 Hch4. assert (R4 : reach s4) by (apply reach_run; exact R3').
  apply (I_reach s4 c' x k rest' R4 Hl4 Hch4). apply alloc_run. exact Ha3.
Qed.

(* non-vacuity: a gift of object 10 is looked up; on a connection owner <-> recipient that already carries another object
   and a release in flight, the answer is delivered as proxy 1 and a call through it reaches 10 *)
Example gift_call_example :
  let g := trun tinit [TExport 0 10 2 true; TGive (0, 2); TAppDrop (0, 2); TRecvBC] in
  (exists m, nth_error (lookups g) 0 = Some m /\ tr_want m = (0, 10)) /\
  let s := run init [Send 7 false; RecvOH; DropProxy 0; HandleRefLost] in
  let s2 := run (fst (step s (Send 10 false))) [RecvHO] in
  lost s2 = false /\ ch_oh s2 = [MyRef 2 false (Some 10); Ack 1] /\ snd (step s2 RecvOH) = [EvDelivered 1] /\
  let s3 := fst (step s2 RecvOH) in
  holds s3 1 /\ snd (step (fst (step s3 (SendHome 1 true))) RecvHO) = [EvHome true (Some 10)].
Proof.
  cbv zeta. split; [eexists; split; vm_compute; reflexivity|].
  split; [vm_compute; reflexivity|]. split; [vm_compute; reflexivity|]. split; [vm_compute; reflexivity|].
  split; [|vm_compute; reflexivity].
  exists 1%nat. eexists. split; vm_compute; reflexivity.
Qed.

(* ---------------------------------------------------------------- the interface lib/Gifts.v ASSUMES of the connection owner <->
   giver, stated explicitly and PROVED of lib/Refs.v.  A `TExport o x c withurl` of the three-party model stands for: on the
   connection owner o <-> B (any reachable state of the two-party model) a my-reference whose clid c was allocated for x is
   delivered; B's proxy is p.  Gifts then records bp_key = (o, c), bp_obj = x, bp_url = the FURL the proxy's tracker
   carries.  What it relies on:
     (E1) p designates x, and keeps designating it while held;                                    -- delivery_denotes, denotes_persists
     (E2) a FURL the tracker carries is x's own (so the name in it was assigned to x);            -- proxy_url_names_designated_object
     (E3) NOT that there is a FURL: `withurl` is an input of the three-party model, and the two-party model says exactly
          when it is true (delivered_proxy_url) and that it can be false for a live proxy (live_proxy_without_url). *)
Theorem export_interface ops c x w rest :
  let s := run init ops in
  lost s = false -> ch_oh s = MyRef c false w :: rest -> In (c, x) (o_alloc (ow s)) ->
  exists p, snd (step s RecvOH) = [EvDelivered p] /\
    let s' := fst (step s RecvOH) in
    denotes s' p x /\
    (forall ops2, lost (run s' ops2) = false -> holds (run s' ops2) p ->
       denotes (run s' ops2) p x /\ forall y, proxy_url (run s' ops2) p = Some y -> y = x).
Proof.
  intros s Hl Hch Ha. destruct (delivery_denotes ops c x w rest Hl Hch Ha) as (p & Hev & D & _). exists p. split; [exact Hev|].
  cbv zeta. split; [exact D|]. intros ops2 Hl2 Hh.
  assert (E : fst (step s RecvOH) = run init (ops ++ [RecvOH])) by (rewrite run_app; reflexivity).
  fold s in D. rewrite E in *.
  pose proof (denotes_persists (ops ++ [RecvOH]) ops2 p x D Hl2 Hh) as D2. split; [exact D2|].
  intros y Hy. rewrite <- run_app in *. exact (proxy_url_names_designated_object _ p x y D2 Hy).
Qed.

(* the two models composed on the history that breaks the introduction: on the connection owner <-> giver the 12-op history
   leaves the giver with a LIVE proxy that designates object 5 and has no FURL; handed to the third party (the export flag of
   the three-party model is computed from the two-party state) the introduction fails *)
Theorem gift_of_recreated_proxy_refuted :
  let s := run init urlless_ops in
  exists p, holds s p /\ denotes s p 5 /\ proxy_url s p = None /\
    trun_events tinit [TExport 0 5 1 (match proxy_url s p with Some _ => true | None => false end); TGive (0, 1); TRecvBC; TAnswer 0]
      = [EvIntro 1 None (0, 5)].
Proof.
  cbv zeta. exists 2. split.
  { exists 1%nat. eexists. split; vm_compute; reflexivity. }
  split.
  { exists 1%nat. eexists. split; [vm_compute; reflexivity|]. split; [vm_compute; reflexivity|]. vm_compute. left. reflexivity. }
  split; vm_compute; reflexivity.
Qed.
