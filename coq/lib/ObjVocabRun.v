(* C01: "objects separated by table replacements are delivered" as a theorem (review 2, finding 4).
   ObjVocab.vocab_switch_in_band says what the OBJECT LAYER SEES (plain tokens with the set-vocab sequences in place);
   here the object layer itself (Obj.step: the KVocab frame of ReplaceVocabUnslicer at top level, its INT / STRING children
   with the word limit, its CLOSE that hands the root nothing) runs over such a stream, for EVERY sequence of objects and
   table replacements, and the two are composed: sender queue -> wire (abbreviated, tables switched in band) -> receiver's
   expansion -> object layer -> the graphs of the terms, numbered as the sender numbered them (a set-vocab sequence takes one
   OPEN number). *)
From Coq Require Import ZArith List String Bool Lia.
Import ListNotations.
Require Import Verif.lib.PyLite Verif.gen.BananaGen Verif.gen.SlicersGen Verif.lib.Token Verif.lib.TokenProofs
        Verif.lib.Obj Verif.lib.ObjProofs Verif.lib.ObjDefer Verif.lib.ObjGuard Verif.lib.ObjVocab.
Local Open Scope Z_scope.

(* what goes through one storage Banana / connection at top level: an object, or a table replacement *)
Inductive seg := SegObj (t : obj) | SegTable (tbl : vtable).

Fixpoint seg_items (n : Z) (l : list seg) : list item :=
  match l with
  | [] => []
  | SegObj t :: r => map ITok (slice n t) ++ seg_items (n + opens t) r
  | SegTable tbl :: r => ISetVocab n tbl :: seg_items (n + 1) r
  end.
Fixpoint seg_vals (n : Z) (l : list seg) : list value :=
  match l with [] => [] | SegObj t :: r => val_of n t :: seg_vals (n + opens t) r | SegTable _ :: r => seg_vals (n + 1) r end.
Fixpoint seg_heap (n : Z) (l : list seg) : heap :=
  match l with [] => [] | SegObj t :: r => heap_of n t ++ seg_heap (n + opens t) r | SegTable _ :: r => seg_heap (n + 1) r end.
Fixpoint seg_regs (n : Z) (l : list seg) : list Z :=
  match l with [] => [] | SegObj t :: r => regs_of n t ++ seg_regs (n + opens t) r | SegTable _ :: r => seg_regs (n + 1) r end.
Fixpoint seg_opens (l : list seg) : Z :=
  match l with [] => 0 | SegObj t :: r => opens t + seg_opens r | SegTable _ :: r => 1 + seg_opens r end.

(* the guard, threaded through the sequence: every object is inside the guard of the delivery theorems in the context the
   earlier ones left (visible numbers, pending table), every table word fits the receiver's limit, nothing pending at the end *)
Fixpoint wf_segs (sc : bool) (vis : list Z) (w : wtab) (n : Z) (l : list seg) : bool :=
  match l with
  | [] => match w with [] => true | _ => false end
  | SegObj t :: r =>
    match wf_wide sc vis [] n t, dsim [] w n t with
    | Some vis', Some (w', None) => wf_segs sc vis' w' (n + opens t) r
    | _, _ => false
    end
  | SegTable tbl :: r => forallb word_ok (map fst tbl) && wf_segs sc vis w (n + 1) r
  end.

Lemma plain_tokens_app a b : plain_tokens (a ++ b) = plain_tokens a ++ plain_tokens b.
Proof.
  induction a as [|[t|n tbl] a IH]; cbn [app plain_tokens]; [reflexivity|rewrite IH; reflexivity|rewrite IH, app_assoc; reflexivity].
Qed.
Lemma plain_tokens_toks ts : plain_tokens (map ITok ts) = ts.
Proof. induction ts as [|t r IH]; cbn [map plain_tokens]; [reflexivity|rewrite IH; reflexivity]. Qed.

Definition root_only (st : mstate) : Prop := exists f b, s_stack st = [f] /\ f_kind f = KRoot b.

Lemma root_only_adv st vs ids h k : root_only st -> root_only (adv st vs ids h k).
Proof.
  intros (f & b & S & K). unfold adv. cbn [s_stack]. rewrite S. cbn [reg_many map push_many].
  eexists; exists b. split; [reflexivity|]. cbn [set_items f_kind]. rewrite kind_reg1. exact K.
Qed.

(* the table body inside the KVocab frame: INT / STRING pairs are collected, CLOSE pops the frame and hands the parent nothing *)
Lemma run_table_body tbl : forallb word_ok (map fst tbl) = true -> forall n c items below cnt hp rest,
  even_len items = true ->
  run (table_tokens tbl ++ TClose n :: rest)
      {| s_stack := {| f_kind := KVocab; f_open := n; f_count := c; f_items := items; f_refs := [] |} :: below;
         s_inopen := None; s_counter := cnt; s_heap := hp |}
  = run rest {| s_stack := below; s_inopen := None; s_counter := cnt; s_heap := hp |}.
Proof.
  induction tbl as [|[s i] r IH]; intros WK n c items below cnt hp rest EV.
  - cbn [table_tokens app run]. unfold step. cbn [s_inopen s_stack f_open f_kind f_items s_counter s_heap].
    rewrite Z.eqb_refl, EV. reflexivity.
  - cbn [map fst forallb] in WK. apply andb_true_iff in WK as [W1 W2].
    cbn [table_tokens app run]. unfold step at 1. cbn [s_inopen s_stack recv f_kind]. unfold push_item. cbn [f_kind f_open f_count f_items f_refs].
    cbn [s_counter s_heap]. unfold step at 1. cbn [s_inopen s_stack recv f_kind]. rewrite W1. unfold push_item. cbn [f_kind f_open f_count f_items f_refs].
    cbn [s_counter s_heap]. apply (IH W2). exact EV.
Qed.

(* a whole set-vocab sequence at top level (the stack is the root alone): the state is unchanged but for the OPEN number it took *)
Lemma run_setvocab st n tbl rest : root_only st -> s_inopen st = None -> s_counter st = n ->
  forallb word_ok (map fst tbl) = true ->
  run (setvocab_tokens n tbl ++ rest) st = run rest (adv st [] [] [] 1).
Proof.
  intros (f & b & S & K) Hi Hc WK. unfold setvocab_tokens. change (strs ot_set_vocab) with [TString sv].
  cbn [app run]. rewrite (step_open _ _ Hi). unfold step at 1. cbn [s_inopen s_stack]. rewrite S. cbn [app].
  change (open_kind true [sv]) with (Some (Some KVocab)). cbn [kind_registers s_counter s_heap].
  rewrite <- app_assoc. cbn [app]. rewrite (run_table_body tbl WK); [|reflexivity].
  f_equal. unfold adv. rewrite reg_many_nil, S, Hc. cbn [push_many rev app]. f_equal. f_equal.
  - destruct f; reflexivity.
  - rewrite app_nil_r. reflexivity.
Qed.

Lemma seg_run : forall l sc vis w n st, wf_segs sc vis w n l = true -> okst sc vis [] n st -> root_only st ->
  run (plain_tokens (seg_items n l)) st = Some (adv st (seg_vals n l) (seg_regs n l) (seg_heap n l) (seg_opens l)).
Proof.
  induction l as [|[t|tbl] r IH]; intros sc vis w n st W O RO.
  - cbn [seg_items plain_tokens run seg_vals seg_regs seg_heap seg_opens]. rewrite (adv_id _ (ok_in _ _ _ _ _ O)). reflexivity.
  - cbn [wf_segs] in W. destruct (wf_wide sc vis [] n t) as [vis'|] eqn:W1; [|discriminate].
    destruct (dsim [] w n t) as [[w' [k|]]|]; try discriminate.
    cbn [seg_items]. rewrite plain_tokens_app, plain_tokens_toks, run_app.
    destruct (run_slice t false n sc vis [] vis' st W1 O) as [R Sub]. rewrite R.
    assert (O2 : okst sc vis' [] (n + opens t) (adv st [val_of n t] (regs_of n t) (heap_of n t) (opens t))).
    { apply okst_adv with (vis := vis); [exact O|exact Sub]. }
    rewrite (IH sc vis' w' _ _ W O2 (root_only_adv _ _ _ _ _ RO)), adv_adv. reflexivity.
  - cbn [wf_segs] in W. apply andb_true_iff in W as [WK W].
    cbn [seg_items plain_tokens].
    rewrite (run_setvocab st n tbl _ RO (ok_in _ _ _ _ _ O) (ok_cnt _ _ _ _ _ O) WK).
    assert (O2 : okst sc vis [] (n + 1) (adv st [] [] [] 1)).
    { apply okst_adv with (vis := vis); [exact O|intros j Hj; left; exact Hj]. }
    rewrite (IH sc vis w _ _ W O2 (root_only_adv _ _ _ _ _ RO)), adv_adv. reflexivity.
Qed.

(* the object layer over a stream of objects and table replacements: every object is rebuilt, numbered like the sender's *)
Theorem segs_unslice scoped n l : wf_segs scoped [] [] n l = true ->
  unslice scoped n (plain_tokens (seg_items n l)) = Some (seg_heap n l, seg_vals n l).
Proof.
  intros W. apply unslice_of_run with (ids := seg_regs n l) (k := seg_opens l).
  apply (seg_run l scoped [] [] n (init scoped n) W (okst_init scoped n)).
  eexists; exists scoped. split; reflexivity.
Qed.

(* COMPOSED with the in-band switch: the sender's queue of objects and table replacements, abbreviated with the table in force
   at each point, read by a receiver that expands VOCAB tokens and replaces its table in band, is delivered as the graphs of
   the terms.  Hypotheses: distinct indices in every table, no object sequence is itself OPEN "set-vocab" (items_ok), every
   table word within the receiver's limit and every object inside the guard (wf_segs). *)
Theorem vocab_switch_objects_delivered scoped n l cur fuel :
  NoDup (map snd cur) -> tables_nodup (seg_items n l) -> items_ok (seg_items n l) = true -> wf_segs scoped [] [] n l = true ->
  (List.length (sender_wire cur (seg_items n l)) <= fuel)%nat ->
  exists toks, receiver_view fuel cur (sender_wire cur (seg_items n l)) = Some toks /\
               unslice scoped n toks = Some (seg_heap n l, seg_vals n l).
Proof.
  intros ND TN OK W L. exists (plain_tokens (seg_items n l)). split; [|apply segs_unslice; exact W].
  apply vocab_switch_in_band; try assumption.
  clear - W. revert n W. generalize (@nil Z) as vis, (@nil (Z * list Z)) as w. induction l as [|[t|tbl] r IH]; intros vis w n W; [reflexivity| |].
  - cbn [wf_segs] in W. destruct (wf_wide scoped vis [] n t) as [vis'|]; [|discriminate].
    destruct (dsim [] w n t) as [[w' [k|]]|]; try discriminate. cbn [seg_items].
    assert (A : forall a b, tables_words_ok (map ITok a ++ b) = tables_words_ok b) by (induction a as [|x a IHa]; intros b; [reflexivity|apply IHa]).
    rewrite A. apply (IH _ _ _ W).
  - cbn [wf_segs] in W. apply andb_true_iff in W as [WK W]. cbn [seg_items tables_words_ok]. rewrite WK. apply (IH _ _ _ W).
Qed.

(* non-vacuity: s = [1, "x"]; [s, (s,)] ; table [list, x] ; {"a": L} with L a fresh list [(2,)] and a reference back to s (number 0: the storage root is
   one scope) ; table [dict] ; a deferred tuple *)
Example ex_segs :
  let l := [SegObj (OList [OList [OInt 1; OText [120]]; OTuple [ORef 1]]);
            SegTable [([108; 105; 115; 116], 0); ([120], 1)];
            SegObj (ODict [(OText [97], OList [OTuple [OInt 2]; ORef 1])]);
            SegTable [([100; 105; 99; 116], 0)];
            SegObj (OTuple [OList [OTuple [ORef 12]]])] in
  let cur := [([116; 117; 112; 108; 101], 0)] in
  wf_segs true [] [] 0 l = true /\ items_ok (seg_items 0 l) = true /\
  Nat.leb (List.length (sender_wire cur (seg_items 0 l))) 200 = true /\
  match receiver_view 200 cur (sender_wire cur (seg_items 0 l)) with
  | Some toks => unslice true 0 toks = Some (seg_heap 0 l, seg_vals 0 l) /\ dunslice true 0 toks = Some (seg_heap 0 l, seg_vals 0 l)
  | None => False
  end.
Proof. vm_compute. repeat split; reflexivity. Qed.
