(* C04: lemmas and theorems about lib/Order.v, checked against the queue disciplines that
   gen/OrderGen.v reads from the current source. *)
From Coq Require Import List Bool Arith ZArith Lia Sorted.
Import ListNotations.
Require Import Verif.gen.OrderGen Verif.lib.Order.

(* ------------------------------------------------------------------ *)
(* the disciplines the proofs rely on; each is a computation on the generated constants, so an edit of the
   source that changes one of them makes the corresponding lemma (and everything built on it) fail *)

Lemma sendq_is_fifo : sendq_push = PushBack /\ sendq_pop = PopFront.
Proof. split; reflexivity. Qed.

Lemma inq_is_fifo : inq_push = PushBack /\ inq_pop = PopFront.
Proof. split; reflexivity. Qed.

Lemma evq_is_fifo : evq_push = PushBack /\ evq_iter = IterForward.
Proof. split; reflexivity. Qed.

Lemma hol_is_blocking : head_of_line = HolBlocking.
Proof. reflexivity. Qed.

Lemma idle_test_before_enqueue : send_idle_before_enqueue = true.
Proof. reflexivity. Qed.

Lemma loss_stops_dequeue : checks_disconnected = true.
Proof. reflexivity. Qed.

Lemma gift_after_loss_fails : ack_after_loss_fails = true.
Proof. reflexivity. Qed.

Lemma sendq_put (c : call) (l : list call) : q_put sendq_push c l = l ++ [c].
Proof. destruct sendq_is_fifo as [-> _]. reflexivity. Qed.

Lemma sendq_take (l : list call) : q_take sendq_pop l = match l with [] => None | x :: r => Some (x, r) end.
Proof. destruct sendq_is_fifo as [_ ->]. reflexivity. Qed.

Lemma inq_put (c : call * rdy) (l : list (call * rdy)) : q_put inq_push c l = l ++ [c].
Proof. destruct inq_is_fifo as [-> _]. reflexivity. Qed.

Lemma inq_take (l : list (call * rdy)) : q_take inq_pop l = match l with [] => None | x :: r => Some (x, r) end.
Proof. destruct inq_is_fifo as [_ ->]. reflexivity. Qed.

(* ------------------------------------------------------------------ *)
(* subsequences *)

Inductive sublist {A} : list A -> list A -> Prop :=
| sl_nil : sublist [] []
| sl_cons x l1 l2 : sublist l1 l2 -> sublist (x :: l1) (x :: l2)
| sl_skip x l1 l2 : sublist l1 l2 -> sublist l1 (x :: l2).

Lemma sublist_refl {A} (l : list A) : sublist l l.
Proof. induction l; constructor; assumption. Qed.

Lemma sublist_nil_l {A} (l : list A) : sublist [] l.
Proof. induction l; constructor; assumption. Qed.

Lemma sublist_trans {A} (l1 l2 l3 : list A) : sublist l1 l2 -> sublist l2 l3 -> sublist l1 l3.
Proof.
  intros H12 H23. revert l1 H12. induction H23; intros l0 H12.
  - exact H12.
  - inversion H12; subst.
    + apply sl_cons. apply IHsublist. assumption.
    + apply sl_skip. apply IHsublist. assumption.
  - apply sl_skip. apply IHsublist. assumption.
Qed.

Lemma sublist_app {A} (a a' b b' : list A) : sublist a a' -> sublist b b' -> sublist (a ++ b) (a' ++ b').
Proof.
  intros Ha Hb. induction Ha; cbn [app].
  - exact Hb.
  - apply sl_cons. assumption.
  - apply sl_skip. assumption.
Qed.

Lemma sublist_drop_mid {A} (a b : list A) x : sublist (a ++ b) (a ++ x :: b).
Proof. apply sublist_app; [apply sublist_refl | apply sl_skip, sublist_refl]. Qed.

Lemma sublist_in {A} (l1 l2 : list A) x : sublist l1 l2 -> In x l1 -> In x l2.
Proof.
  intros H; induction H; intros Hin.
  - exact Hin.
  - destruct Hin as [->|Hin]; [left; reflexivity | right; auto].
  - right; auto.
Qed.

Lemma sublist_app_l {A} (a b : list A) : sublist a (a ++ b).
Proof. rewrite <- (app_nil_r a) at 1. apply sublist_app; [apply sublist_refl | apply sublist_nil_l]. Qed.

Lemma sublist_sorted {A} (R : A -> A -> Prop) l1 l2 :
  sublist l1 l2 -> StronglySorted R l2 -> StronglySorted R l1.
Proof.
  intros H; induction H; intros Hs.
  - constructor.
  - inversion Hs; subst. constructor; [auto|].
    rewrite Forall_forall in *. intros y Hy. apply H3. eapply sublist_in; eauto.
  - inversion Hs; subst. auto.
Qed.

Lemma sublist_nodup {A} (l1 l2 : list A) : sublist l1 l2 -> NoDup l2 -> NoDup l1.
Proof.
  intros H; induction H; intros Hn.
  - constructor.
  - inversion Hn; subst. constructor; [|auto]. intros Hin. apply H2. eapply sublist_in; eauto.
  - inversion Hn; subst. auto.
Qed.

Lemma seq_sorted a n : StronglySorted lt (seq a n).
Proof.
  revert a; induction n as [|n IH]; intros a; cbn [seq]; constructor; [apply IH|].
  rewrite Forall_forall. intros y Hy. apply in_seq in Hy. lia.
Qed.

Lemma sorted_app_lt l1 l2 x y : StronglySorted lt (l1 ++ l2) -> In x l1 -> In y l2 -> x < y.
Proof.
  induction l1 as [|a l1 IH]; cbn [app]; intros Hs Hx Hy; [destruct Hx|].
  inversion Hs; subst. destruct Hx as [->|Hx].
  - rewrite Forall_forall in H2. apply H2. apply in_or_app. right; assumption.
  - apply IH; assumption.
Qed.

Lemma sorted_head_le a l y : StronglySorted lt (a :: l) -> In y (a :: l) -> a <= y.
Proof.
  intros Hs [->|Hy]; [lia|]. inversion Hs; subst. rewrite Forall_forall in H2. specialize (H2 _ Hy). lia.
Qed.

(* ------------------------------------------------------------------ *)
(* abstract view of a state: only what the ordering arguments need *)

Record astate := amk {
  a_next : nat;
  a_wait : list nat;      (* ids of `waiting` *)
  a_drop : list nat;      (* ids of `dropped`: queued when the connection was lost *)
  a_inq : list nat;       (* ids of `inq`, in queue order *)
  a_up : list nat;        (* ids still on the sender or on the wire: wire ++ cur ++ sendq *)
  a_trace : list event;
  a_lost : bool
}.

Definition abs (s : state) : astate :=
  amk (next_id s) (wait_ids s) (ids (dropped s)) (inq_ids s) (upstream s) (trace s) (lost s).

Inductive fin := FinEntered | FinFailed.
Definition fin_event (f : fin) (c : nat) : event := match f with FinEntered => Entered c | FinFailed => Failed c end.

(* the only ways in which one micro-step of the model changes the abstract view *)
Inductive eff : astate -> astate -> Prop :=
| E_none a : eff a a
| E_issue n w d q u t l : eff (amk n w d q u t l) (amk (S n) w d q (u ++ [n]) t l)
| E_queue n w d q c u t l : eff (amk n w d q (c :: u) t l) (amk n w d (q ++ [c]) u (Queued c :: t) l)
| E_reject n w d q c u t l : eff (amk n w d q (c :: u) t l) (amk n w d q u (Rejected c :: t) l)
| E_hold n c q u t l : eff (amk n [] [] (c :: q) u t l) (amk n [c] [] q u t l)
| E_finish_inq n c q u t f l : eff (amk n [] [] (c :: q) u t l) (amk n [] [] q u (fin_event f c :: t) l)
| E_finish_wait n c d q u t f l : eff (amk n [c] d q u t l) (amk n [] d q u (fin_event f c :: t) l)
| E_drop n w d q u t l : eff (amk n w d q u t l) (amk n w (d ++ q) [] u t true)
| E_lose n w d q u t l : eff (amk n w d q u t l) (amk n w d q u t true).

Definition aheld (a : astate) : list nat := a_wait a ++ a_drop a ++ a_inq a.
Definition apipe (a : astate) : list nat := entered_of (a_trace a) ++ a_wait a ++ a_drop a ++ a_inq a ++ a_up a.

Definition handled (t : list event) (c : nat) : Prop := In (Entered c) t \/ In (Failed c) t.

Record AInv (a : astate) : Prop := {
  ai_sub : sublist (apipe a) (seq 0 (a_next a));
  ai_wait : List.length (a_wait a) <= 1;
  (* a call that was queued is finished or still held by the receiver *)
  ai_queued : forall c, In (Queued c) (a_trace a) -> handled (a_trace a) c \/ In c (aheld a);
  (* a finished call precedes everything the receiver has not finished *)
  ai_handled : forall c, handled (a_trace a) c ->
               c < a_next a /\ forall p, In p (a_wait a ++ a_drop a ++ a_inq a ++ a_up a) -> c < p;
  (* head of line *)
  ai_hol : forall l2 c l1 c', a_trace a = l2 ++ Entered c :: l1 -> c' < c -> In (Queued c') (a_trace a) ->
           handled l1 c';
  (* nothing vanishes *)
  ai_all : forall c, c < a_next a ->
           In c (apipe a) \/ In (Failed c) (a_trace a) \/ In (Rejected c) (a_trace a);
  (* deliveries are dropped only by the loss of the connection *)
  ai_lost : a_lost a = false -> a_drop a = []
}.

Lemma entered_of_in t c : In c (entered_of t) <-> In (Entered c) t.
Proof.
  induction t as [|e t IH]; cbn [entered_of]; [tauto|].
  destruct e; cbn [In]; rewrite ?in_app_iff, ?IH; cbn [In];
    (split; [intros H | intros H]); try tauto;
    try (destruct H as [H|H]; [discriminate H | tauto]);
    try (destruct H as [H|[H|[]]]; [tauto | left; congruence]);
    try (destruct H as [H|H]; [inversion H; tauto | tauto]).
Qed.

Lemma apipe_sorted a : AInv a -> StronglySorted lt (apipe a).
Proof. intros I. eapply sublist_sorted; [apply (ai_sub _ I) | apply seq_sorted]. Qed.

Lemma apipe_bound a c : AInv a -> In c (apipe a) -> c < a_next a.
Proof. intros I H. eapply sublist_in in H; [|apply (ai_sub _ I)]. apply in_seq in H. lia. Qed.

Lemma AInv_init : AInv (amk 0 [] [] [] [] [] false).
Proof.
  split; cbn.
  - constructor.
  - lia.
  - intros c [].
  - intros c [[]|[]].
  - intros l2 c l1 c' E. destruct l2; discriminate.
  - intros c H; lia.
  - reflexivity.
Qed.

Lemma handled_cons e t c : handled t c -> handled (e :: t) c.
Proof. intros [H|H]; [left|right]; right; assumption. Qed.

Lemma handled_cons_inv e t c : handled (e :: t) c -> e = Entered c \/ e = Failed c \/ handled t c.
Proof. intros [[H|H]|[H|H]]; auto; right; right; [left|right]; assumption. Qed.

Lemma fin_event_handled f c t : handled (fin_event f c :: t) c.
Proof. destruct f; [left|right]; left; reflexivity. Qed.

Lemma fin_event_not_queued f c c' : fin_event f c <> Queued c'.
Proof. destruct f; discriminate. Qed.

(* pipe after finishing the head: either the same list (entered) or the head removed (failed) *)
Lemma pipe_finish f c t rest :
  sublist (entered_of (fin_event f c :: t) ++ rest) (entered_of t ++ c :: rest).
Proof.
  destruct f; cbn [fin_event entered_of].
  - rewrite <- app_assoc. cbn [app]. apply sublist_refl.
  - apply sublist_drop_mid.
Qed.

Lemma sorted_mid_le l1 a l2 p : StronglySorted lt (l1 ++ a :: l2) -> In p (a :: l2) -> a <= p.
Proof.
  intros Hs Hp. apply (sorted_head_le a l2 p); [|exact Hp].
  eapply sublist_sorted; [|exact Hs].
  rewrite <- (app_nil_l (a :: l2)) at 1. apply sublist_app; [apply sublist_nil_l | apply sublist_refl].
Qed.

Lemma pipe_all_finish f c c0 t rest :
  In c0 (entered_of t ++ c :: rest) ->
  In c0 (entered_of (fin_event f c :: t) ++ rest) \/ In (Failed c0) (fin_event f c :: t) \/
  In (Rejected c0) (fin_event f c :: t).
Proof.
  intros H. rewrite in_app_iff in H. cbn [In] in H.
  destruct f; cbn [fin_event entered_of].
  - left. rewrite !in_app_iff. cbn [In]. tauto.
  - destruct (Nat.eq_dec c0 c) as [->|Hne]; [right; left; left; reflexivity|].
    left. rewrite in_app_iff. intuition congruence.
Qed.

(* the HOL clause when a new event is put in front of the trace *)
Lemma hol_step (a : astate) (e : event) (t : list event) :
  t = a_trace a ->
  AInv a ->
  (* e is an Entered only for the head of what the receiver holds *)
  (forall c, e = Entered c -> forall p, In p (aheld a) -> c <= p) ->
  (* e is a Queued only for something upstream *)
  (forall c, e = Queued c -> In c (a_up a)) ->
  forall l2 c l1 c', e :: t = l2 ++ Entered c :: l1 -> c' < c -> In (Queued c') (e :: t) -> handled l1 c'.
Proof.
  intros -> I Hent Hq l2 c l1 c' E Hlt Hin.
  destruct l2 as [|e2 l2]; cbn [app] in E; inversion E; subst.
  - (* the new event is the entry of c *)
    destruct Hin as [Hin|Hin]; [discriminate|].
    destruct (ai_queued _ I _ Hin) as [H|H]; [exact H|].
    specialize (Hent c eq_refl _ H). lia.
  - destruct Hin as [Hin|Hin].
    + (* c' is queued now, but c was entered before: c < c' *)
      subst e2. specialize (Hq c' eq_refl).
      assert (Hh : handled (a_trace a) c) by (left; rewrite H1; apply in_or_app; right; left; reflexivity).
      destruct (ai_handled _ I _ Hh) as [_ Hall].
      specialize (Hall c'). rewrite !in_app_iff in Hall. specialize (Hall (or_intror (or_intror (or_intror Hq)))). lia.
    + eapply (ai_hol _ I); eauto.
Qed.

Ltac simp_a := unfold apipe, aheld in *; cbn [a_trace a_wait a_drop a_inq a_up a_next a_lost] in *.

Lemma eff_preserves a b : eff a b -> AInv a -> AInv b.
Proof.
  intros E I. destruct E; [exact I|..];
    pose proof (ai_sub _ I) as Isub; pose proof (ai_wait _ I) as Iwait; pose proof (ai_queued _ I) as Iq;
    pose proof (ai_handled _ I) as Ih; pose proof (ai_hol _ I) as Ihol; pose proof (ai_all _ I) as Iall;
    pose proof (ai_lost _ I) as Ilost.
  - (* issue *)
    pose proof (apipe_sorted _ I) as Hs. simp_a.
    split; simp_a.
    + rewrite seq_S. cbn [plus]. rewrite !app_assoc. apply sublist_app; [|apply sublist_refl].
      rewrite <- !app_assoc. exact Isub.
    + exact Iwait.
    + exact Iq.
    + intros c Hc. destruct (Ih _ Hc) as [Hb Hall]. simp_a. split; [lia|].
      intros p Hp. rewrite !app_assoc in Hp. apply in_app_or in Hp. destruct Hp as [Hp|[<-|[]]]; [|exact Hb].
      apply Hall. rewrite !app_assoc. exact Hp.
    + exact Ihol.
    + intros c Hc. destruct (Nat.eq_dec c n) as [->|Hne].
      * left. rewrite !in_app_iff. cbn [In]. tauto.
      * destruct (Iall c) as [H|H]; simp_a; [lia| |right; exact H].
        left. rewrite !in_app_iff in *. tauto.
    + exact Ilost.
  - (* queue *)
    pose proof (apipe_sorted _ I) as Hs. simp_a.
    split; simp_a; cbn [entered_of].
    + rewrite <- !app_assoc. cbn [app]. exact Isub.
    + exact Iwait.
    + intros c0 [H|H].
      * inversion H; subst. right. rewrite !in_app_iff. cbn [In]. tauto.
      * destruct (Iq _ H) as [H'|H']; [left; apply handled_cons; exact H'|].
        right. simp_a. rewrite !in_app_iff in *. tauto.
    + intros c0 Hc. apply handled_cons_inv in Hc. destruct Hc as [Hc|[Hc|Hc]]; try discriminate.
      destruct (Ih _ Hc) as [Hb Hall]. simp_a. split; [exact Hb|].
      intros p Hp. apply Hall. rewrite !in_app_iff in *. cbn [In] in *. tauto.
    + apply (hol_step _ _ _ eq_refl I).
      * discriminate.
      * intros c0 Hc0. inversion Hc0; subst. left; reflexivity.
    + intros c0 Hc0. destruct (Iall c0 Hc0) as [H|[H|H]].
      * left. simp_a. rewrite !in_app_iff in *. cbn [In] in *. tauto.
      * right; left; right; exact H.
      * right; right; right; exact H.
    + exact Ilost.
  - (* reject *)
    split; simp_a; cbn [entered_of].
    + eapply sublist_trans; [|exact Isub]. simp_a.
      rewrite !app_assoc. apply sublist_drop_mid.
    + exact Iwait.
    + intros c0 [H|H]; [discriminate|].
      destruct (Iq _ H) as [H'|H']; [left; apply handled_cons; exact H' | right; exact H'].
    + intros c0 Hc. apply handled_cons_inv in Hc. destruct Hc as [Hc|[Hc|Hc]]; try discriminate.
      destruct (Ih _ Hc) as [Hb Hall]. simp_a. split; [exact Hb|].
      intros p Hp. apply Hall. rewrite !in_app_iff in *. cbn [In] in *. tauto.
    + apply (hol_step _ _ _ eq_refl I); discriminate.
    + intros c0 Hc0. destruct (Iall c0 Hc0) as [H|[H|H]].
      * simp_a. rewrite !in_app_iff in H. cbn [In] in H.
        destruct (Nat.eq_dec c0 c) as [->|Hne]; [right; right; left; reflexivity|].
        left. rewrite !in_app_iff. intuition congruence.
      * right; left; right; exact H.
      * right; right; right; exact H.
    + exact Ilost.
  - (* hold *)
    split; simp_a; cbn [app] in *.
    + exact Isub.
    + cbn. lia.
    + exact Iq.
    + exact Ih.
    + exact Ihol.
    + exact Iall.
    + reflexivity.
  - (* finish the head of inq *)
    pose proof (apipe_sorted _ I) as Hs. simp_a. cbn [app] in Hs.
    split; simp_a; cbn [app].
    + eapply sublist_trans; [apply pipe_finish | exact Isub].
    + cbn; lia.
    + intros c0 [H|H]; [exfalso; eapply fin_event_not_queued; eauto|].
      destruct (Iq _ H) as [H'|H']; [left; apply handled_cons; exact H'|].
      simp_a. cbn [app] in H'. destruct H' as [<-|H']; [left; apply fin_event_handled | right; exact H'].
    + intros c0 Hc. apply handled_cons_inv in Hc.
      assert (Hc0 : c0 = c \/ handled t c0).
      { destruct Hc as [Hc|[Hc|Hc]]; auto; destruct f; inversion Hc; auto. }
      destruct Hc0 as [->|Hc0].
      * split.
        -- apply (apipe_bound _ c I). simp_a. cbn [app]. apply in_or_app; right; left; reflexivity.
        -- intros p Hp. apply (sorted_app_lt (entered_of t ++ [c]) (q ++ u)).
           ++ rewrite <- app_assoc. exact Hs.
           ++ apply in_or_app; right; left; reflexivity.
           ++ exact Hp.
      * destruct (Ih _ Hc0) as [Hb Hall]. simp_a. cbn [app] in *. split; [exact Hb|].
        intros p Hp. apply Hall. right; exact Hp.
    + apply (hol_step _ _ _ eq_refl I).
      * intros c0 Hc0 p Hp. simp_a. cbn [app] in Hp.
        assert (c0 = c) as -> by (destruct f; inversion Hc0; reflexivity).
        apply (sorted_mid_le (entered_of t) c (q ++ u) p Hs). destruct Hp as [->|Hp]; [left; reflexivity|].
        right. apply in_or_app; left; exact Hp.
      * intros c0 Hc0. exfalso; eapply fin_event_not_queued; eauto.
    + intros c0 Hc0. destruct (Iall c0 Hc0) as [H|[H|H]].
      * simp_a. cbn [app] in H. apply (pipe_all_finish f); exact H.
      * right; left; right; exact H.
      * right; right; right; exact H.
    + reflexivity.
  - (* finish the call that was waiting for its ready_deferred *)
    pose proof (apipe_sorted _ I) as Hs. simp_a. cbn [app] in Hs.
    split; simp_a; cbn [app].
    + eapply sublist_trans; [apply pipe_finish | exact Isub].
    + cbn; lia.
    + intros c0 [H|H]; [exfalso; eapply fin_event_not_queued; eauto|].
      destruct (Iq _ H) as [H'|H']; [left; apply handled_cons; exact H'|].
      simp_a. cbn [app] in H'. destruct H' as [<-|H']; [left; apply fin_event_handled | right; exact H'].
    + intros c0 Hc. apply handled_cons_inv in Hc.
      assert (Hc0 : c0 = c \/ handled t c0).
      { destruct Hc as [Hc|[Hc|Hc]]; auto; destruct f; inversion Hc; auto. }
      destruct Hc0 as [->|Hc0].
      * split.
        -- apply (apipe_bound _ c I). simp_a. cbn [app]. apply in_or_app; right; left; reflexivity.
        -- intros p Hp. apply (sorted_app_lt (entered_of t ++ [c]) (d ++ q ++ u)).
           ++ rewrite <- app_assoc. exact Hs.
           ++ apply in_or_app; right; left; reflexivity.
           ++ exact Hp.
      * destruct (Ih _ Hc0) as [Hb Hall]. simp_a. cbn [app] in *. split; [exact Hb|].
        intros p Hp. apply Hall. right; exact Hp.
    + apply (hol_step _ _ _ eq_refl I).
      * intros c0 Hc0 p Hp. simp_a. cbn [app] in Hp.
        assert (c0 = c) as -> by (destruct f; inversion Hc0; reflexivity).
        apply (sorted_mid_le (entered_of t) c (d ++ q ++ u) p Hs).
        destruct Hp as [->|Hp]; [left; reflexivity|].
        right. rewrite !in_app_iff in *. tauto.
      * intros c0 Hc0. exfalso; eapply fin_event_not_queued; eauto.
    + intros c0 Hc0. destruct (Iall c0 Hc0) as [H|[H|H]].
      * simp_a. cbn [app] in H. apply (pipe_all_finish f); exact H.
      * right; left; right; exact H.
      * right; right; right; exact H.
    + exact Ilost.
  - (* the queued deliveries are dropped *)
    split; simp_a.
    + cbn [app]. rewrite <- app_assoc. exact Isub.
    + exact Iwait.
    + intros c0 H. destruct (Iq _ H) as [H'|H']; [left; exact H'|]. right. simp_a.
      rewrite !in_app_iff in *. cbn [In]. tauto.
    + intros c0 Hc. destruct (Ih _ Hc) as [Hb Hall]. simp_a. split; [exact Hb|].
      intros p Hp. apply Hall. rewrite !in_app_iff in *. cbn [In] in Hp. tauto.
    + exact Ihol.
    + intros c0 Hc0. destruct (Iall c0 Hc0) as [H|H]; [|right; exact H].
      left. simp_a. rewrite !in_app_iff in *. cbn [In]. tauto.
    + discriminate.
  - (* lost, nothing dropped *)
    split; simp_a.
    + exact Isub.
    + exact Iwait.
    + exact Iq.
    + exact Ih.
    + exact Ihol.
    + exact Iall.
    + discriminate.
Qed.

(* ------------------------------------------------------------------ *)
(* every micro-step of the model is one of the effects *)

Inductive effs : astate -> astate -> Prop :=
| effs_refl a : effs a a
| effs_step a b c : eff a b -> effs b c -> effs a c.

Lemma effs_one a b : eff a b -> effs a b.
Proof. intros H. eapply effs_step; [exact H | apply effs_refl]. Qed.

Lemma effs_trans a b c : effs a b -> effs b c -> effs a c.
Proof. intros H1 H2. induction H1; [exact H2|]. eapply effs_step; eauto. Qed.

Lemma effs_preserves a b : effs a b -> AInv a -> AInv b.
Proof. intros H; induction H; intros I; [exact I|]. apply IHeffs. eapply eff_preserves; eauto. Qed.

Ltac simpl_abs :=
  unfold abs, upstream, inq_ids, wait_ids, cur_ids, finish_call, ids;
  cbn [next_id sendq cur wire inq waiting evq trace lost dropped early cut].

Lemma pump_abs f s : abs (pump f s) = abs s.
Proof.
  revert s; induction f as [|f IH]; intros s; cbn [pump]; [reflexivity|].
  destruct (cur s) as [p|] eqn:Ec; [reflexivity|].
  rewrite sendq_take. destruct (sendq s) as [|c rest] eqn:Eq; [reflexivity|].
  destruct (stalls c) eqn:Es.
  - rewrite IH. simpl_abs. rewrite Ec, Eq. f_equal. rewrite map_app. cbn [map app]. rewrite <- app_assoc. reflexivity.
  - simpl_abs. rewrite Ec, Eq. reflexivity.
Qed.

Lemma issue_eff st f s : eff (abs s) (abs (issue st f s)).
Proof.
  unfold issue. rewrite sendq_put.
  set (s1 := mk (S (next_id s)) _ _ _ _ _ _ _ _ _ _ _).
  assert (E : abs s1 = amk (S (next_id s)) (wait_ids s) (ids (dropped s)) (inq_ids s) (upstream s ++ [next_id s]) (trace s) (lost s)).
  { subst s1. simpl_abs. f_equal. rewrite map_app. cbn [map cid]. rewrite !app_assoc. reflexivity. }
  match goal with |- context [if ?b then _ else _] => destruct b end; rewrite ?pump_abs, E; apply E_issue.
Qed.

Lemma release_abs s : abs (release s) = abs s.
Proof.
  unfold release. destruct (cur s) as [[c [|[|m]]]|] eqn:Ec; try reflexivity.
  - rewrite pump_abs. simpl_abs. rewrite Ec. f_equal. rewrite map_app. cbn [map app]. rewrite <- !app_assoc. reflexivity.
  - rewrite pump_abs. simpl_abs. rewrite Ec. f_equal. rewrite map_app. cbn [map app]. rewrite <- !app_assoc. reflexivity.
  - simpl_abs. rewrite Ec. reflexivity.
Qed.

Lemma deliver_eff s : eff (abs s) (abs (deliver s)).
Proof.
  unfold deliver. destruct (lost s) eqn:El; [apply E_none|]. destruct (negb (in_flight s)); [apply E_none|].
  destruct (wire s) as [|c w] eqn:Ew; [apply E_none|].
  assert (Eu : upstream s = cid c :: (ids w ++ cur_ids s ++ ids (sendq s))).
  { unfold upstream. rewrite Ew. reflexivity. }
  unfold abs at 1. rewrite Eu.
  destruct (cfate c) eqn:Ef; rewrite ?inq_put; simpl_abs; rewrite ?El, ?map_app; cbn [map fst];
    try apply E_queue; apply E_reject.
Qed.

Lemma fin_if (b : bool) c : (if b then Entered c else Failed c) = fin_event (if b then FinEntered else FinFailed) c.
Proof. destruct b; reflexivity. Qed.

Lemma wait_len s : AInv (abs s) -> waiting s = [] \/ exists x, waiting s = [x].
Proof.
  intros I. pose proof (ai_wait _ I) as H. unfold abs in H; cbn [a_wait] in H. unfold wait_ids, ids in H. rewrite !map_length in H.
  destruct (waiting s) as [|x [|y l]]; [left; reflexivity | right; eexists; reflexivity | cbn in H; lia].
Qed.

Lemma do_next_eff s : AInv (abs s) -> eff (abs s) (abs (do_next s)).
Proof.
  intros I. unfold do_next, blocked. rewrite hol_is_blocking, loss_stops_dequeue. cbn [andb].
  destruct (lost s) eqn:El; [apply E_none|].
  assert (Ed : dropped s = []).
  { pose proof (ai_lost _ I) as H. unfold abs in H; cbn [a_lost a_drop] in H. specialize (H El).
    unfold ids in H. destruct (dropped s); [reflexivity | discriminate H]. }
  destruct (wait_len s I) as [Ew|[x Ew]]; rewrite Ew; cbn [is_nil negb]; [|apply E_none].
  rewrite inq_take. destruct (inq s) as [|[c r] rest] eqn:Ei; [apply E_none|].
  destruct r; simpl_abs; rewrite ?Ew, ?Ei, ?Ed, ?El; cbn [map fst app].
  - rewrite fin_if. apply E_finish_inq.
  - apply E_hold.
  - cbn [andb]. apply (E_finish_inq _ _ _ _ _ FinFailed).
Qed.

Lemma inq_ids_map (g : call * rdy -> call * rdy) l :
  (forall e, fst (g e) = fst e) -> map fst (map g l) = map fst l.
Proof. intros Hg. rewrite map_map. apply map_ext. exact Hg. Qed.

Definition sw_part (s : state) := (cur s, sendq s, wire s).

Lemma gift_ready_eff a k ok s : AInv (abs s) -> eff (abs s) (abs (gift_ready_gen a k ok s)).
Proof.
  intros I. unfold gift_ready_gen. set (ok' := ok && _).
  assert (Hmap : forall l : list (call * rdy),
            map fst (map (fun e => if cid (fst e) =? k then (fst e, step_rdy ok' (snd e)) else e) l) = map fst l).
  { intros l. apply inq_ids_map. intros e. destruct (cid (fst e) =? k); reflexivity. }
  destruct (wait_len s I) as [Ew|[[x gx] Ew]]; rewrite Ew; cbn [find filter map fst].
  - simpl_abs. rewrite Hmap, Ew. apply E_none.
  - destruct (cid x =? k) eqn:Ek; cbn [negb].
    + destruct (g_out (gift_fire ok' gx)) as [r|].
      * simpl_abs. rewrite Ew. cbn [map fst]. rewrite fin_if. apply E_finish_wait.
      * simpl_abs. rewrite Ew. cbn [map fst]. apply E_none.
    + simpl_abs. rewrite Hmap, Ew. apply E_none.
Qed.

(* what gift_ready leaves alone *)
Lemma gift_ready_parts a k ok s :
  next_id (gift_ready_gen a k ok s) = next_id s /\ sw_part (gift_ready_gen a k ok s) = sw_part s /\
  lost (gift_ready_gen a k ok s) = lost s /\ cut (gift_ready_gen a k ok s) = cut s.
Proof.
  unfold gift_ready_gen. destruct (find _ (waiting s)) as [[c g]|]; [|repeat split].
  destruct (g_out _); repeat split.
Qed.

Lemma early_gift_parts k ok s :
  abs (early_gift k ok s) = abs s /\ sw_part (early_gift k ok s) = sw_part s /\ lost (early_gift k ok s) = lost s /\
  cut (early_gift k ok s) = cut s /\ (inq (early_gift k ok s), waiting (early_gift k ok s), evq (early_gift k ok s)) = (inq s, waiting s, evq s).
Proof. unfold early_gift. destruct (existsb _ _); repeat split. Qed.

Lemma sender_lost_parts s :
  abs (sender_lost s) = abs s /\ sw_part (sender_lost s) = sw_part s /\ lost (sender_lost s) = lost s /\
  (inq (sender_lost s), waiting (sender_lost s), evq (sender_lost s)) = (inq s, waiting s, evq s).
Proof. unfold sender_lost. destruct (cut s); repeat split. Qed.

Lemma disconnect_eff s : eff (abs s) (abs (disconnect s)).
Proof.
  unfold disconnect. destruct (lost s) eqn:El; [apply E_none|].
  destruct finish_clears_inq.
  - unfold abs at 2. simpl_abs. unfold abs. rewrite El. rewrite map_app. apply E_drop.
  - unfold abs at 2. simpl_abs. unfold abs. rewrite El. apply E_lose.
Qed.

Lemma thunks_effs batch : forall s, AInv (abs s) -> effs (abs s) (abs (fold_left run_thunk batch s)).
Proof.
  induction batch as [|t batch IH]; intros s I; cbn [fold_left]; [apply effs_refl|].
  destruct t; cbn [run_thunk].
  pose proof (do_next_eff s I) as E.
  eapply effs_step; [exact E|]. apply IH. eapply eff_preserves; eauto.
Qed.

Lemma turn_effs s : AInv (abs s) -> effs (abs s) (abs (turn s)).
Proof. intros I. unfold turn. apply (thunks_effs _ (mk _ _ _ _ _ _ [] _ _ _ _ _)). exact I. Qed.

Lemma step_effs s o : AInv (abs s) -> effs (abs s) (abs (step s o)).
Proof.
  intros I. destruct o; cbn [step].
  - apply effs_one, issue_eff.
  - rewrite release_abs. apply effs_refl.
  - apply effs_one, deliver_eff.
  - apply effs_one, gift_ready_eff; exact I.
  - apply turn_effs; exact I.
  - apply effs_one, disconnect_eff.
  - destruct (early_gift_parts k ok s) as (-> & _). apply effs_refl.
  - destruct (sender_lost_parts s) as (-> & _). apply effs_refl.
  - apply effs_one, gift_ready_eff; exact I.
Qed.

Lemma run_from_inv ops : forall s, AInv (abs s) -> AInv (abs (fold_left step ops s)).
Proof.
  induction ops as [|o ops IH]; intros s I; cbn [fold_left]; [exact I|].
  apply IH. eapply effs_preserves; [apply step_effs; exact I | exact I].
Qed.

Lemma run_inv ops : AInv (abs (run ops)).
Proof. apply run_from_inv. apply AInv_init. Qed.

Lemma run_app_one ops o : run (ops ++ [o]) = step (run ops) o.
Proof. unfold run. rewrite fold_left_app. reflexivity. Qed.

(* ------------------------------------------------------------------ *)
(* the theorems *)

Lemma entered_sub_pipe s : sublist (entered s) (apipe (abs s)).
Proof. unfold apipe, abs, entered. cbn [a_trace]. apply sublist_app_l. Qed.

(* calls are entered in the order in which they were issued (call k = the k-th issued) *)
Theorem entered_in_issue_order ops : sublist (entered (run ops)) (issued (run ops)).
Proof.
  eapply sublist_trans; [apply entered_sub_pipe|]. apply (ai_sub _ (run_inv ops)).
Qed.

Theorem entered_increasing ops : StronglySorted lt (entered (run ops)).
Proof. eapply sublist_sorted; [apply entered_in_issue_order | apply seq_sorted]. Qed.

Theorem entered_at_most_once ops : NoDup (entered (run ops)).
Proof. eapply sublist_nodup; [apply entered_in_issue_order | apply seq_NoDup]. Qed.

Lemma rev_mid {A} (l1 l2 : list A) x : rev (l1 ++ x :: l2) = rev l2 ++ x :: rev l1.
Proof. rewrite rev_app_distr. cbn [rev]. rewrite <- app_assoc. reflexivity. Qed.

(* head of line: when c is entered, every earlier call that was completely received (queued) at any time
   has already been entered or has failed *)
Theorem head_of_line ops before c after c' :
  history (run ops) = before ++ Entered c :: after ->
  c' < c -> In (Queued c') (history (run ops)) ->
  In (Entered c') before \/ In (Failed c') before.
Proof.
  unfold history. intros E Hlt Hq.
  assert (Et : trace (run ops) = rev after ++ Entered c :: rev before).
  { rewrite <- (rev_involutive (trace (run ops))), E. apply rev_mid. }
  rewrite <- in_rev in Hq.
  destruct (ai_hol _ (run_inv ops) _ _ _ c' Et Hlt Hq) as [H|H]; [left|right]; apply in_rev; exact H.
Qed.

(* nothing is dropped silently: every issued call is entered, still on its way, was refused, or was queued on the
   receiver when it lost the connection *)
Theorem no_silent_loss ops c :
  c < next_id (run ops) ->
  In c (entered (run ops)) \/ In c (pipeline (run ops)) \/
  In (Failed c) (history (run ops)) \/ In (Rejected c) (history (run ops)) \/ In c (ids (dropped (run ops))).
Proof.
  intros H. destruct (ai_all _ (run_inv ops) c H) as [Hp|[Hf|Hr]].
  - unfold apipe, abs in Hp. cbn [a_trace a_wait a_drop a_inq a_up] in Hp. unfold pipeline, entered.
    rewrite !in_app_iff in *. tauto.
  - right; right; left. unfold history. rewrite <- in_rev. exact Hf.
  - right; right; right; left. unfold history. rewrite <- in_rev. exact Hr.
Qed.

(* dropped deliveries exist only after the loss of the connection *)
Theorem dropped_only_after_loss ops : lost (run ops) = false -> dropped (run ops) = [].
Proof.
  intros H. pose proof (ai_lost _ (run_inv ops) H) as E. unfold abs, ids in E; cbn [a_drop] in E.
  destruct (dropped (run ops)); [reflexivity | discriminate E].
Qed.

(* everything that has been entered precedes, in issue order, everything that is still on its way: the waiting
   delivery, the dropped ones, the inbound queue, the wire, the call being serialized (possibly paused inside a streaming
   argument) and the calls queued behind it on the sender *)
Theorem whole_path_in_issue_order ops :
  StronglySorted lt (entered (run ops) ++ wait_ids (run ops) ++ ids (dropped (run ops)) ++ inq_ids (run ops) ++
                     ids (wire (run ops)) ++ cur_ids (run ops) ++ ids (sendq (run ops))).
Proof. exact (apipe_sorted _ (run_inv ops)). Qed.

(* the receiver holds at most one dequeued call that is not yet ready *)
Theorem one_waiting ops : List.length (waiting (run ops)) <= 1.
Proof. destruct (wait_len _ (run_inv ops)) as [->|[x ->]]; cbn; lia. Qed.

(* ---- ids are issue indices *)
Lemma pump_next f s : next_id (pump f s) = next_id s.
Proof. pose proof (pump_abs f s) as H. apply (f_equal a_next) in H. exact H. Qed.

Lemma do_next_next s : next_id (do_next s) = next_id s.
Proof.
  unfold do_next. destruct (checks_disconnected && lost s); [reflexivity|]. destruct (blocked s); [reflexivity|].
  destruct (q_take inq_pop (inq s)) as [[[c r] rest]|]; [|reflexivity]. destruct r; reflexivity.
Qed.

Lemma thunks_next batch : forall s, next_id (fold_left run_thunk batch s) = next_id s.
Proof.
  induction batch as [|t b IH]; intros s; cbn [fold_left]; [reflexivity|].
  rewrite IH. destruct t; apply do_next_next.
Qed.

Lemma step_next s o : next_id (step s o) = next_id s + match o with Issue _ _ => 1 | _ => 0 end.
Proof.
  destruct o; cbn [step].
  - unfold issue. match goal with |- context [if ?b then _ else _] => destruct b end;
      rewrite ?pump_next; cbn [next_id]; lia.
  - pose proof (release_abs s) as H. apply (f_equal a_next) in H. cbn [abs a_next] in H. lia.
  - unfold deliver. destruct (lost s); [lia|]. destruct (negb (in_flight s)); [lia|]. destruct (wire s); [lia|]. destruct (cfate c); cbn [next_id]; lia.
  - destruct (gift_ready_parts true k ok s) as (E & _). unfold gift_ready. rewrite E. lia.
  - unfold turn. rewrite thunks_next. cbn [next_id]. lia.
  - unfold disconnect. destruct (lost s); [lia|]. destruct finish_clears_inq; cbn [next_id]; lia.
  - destruct (early_gift_parts k ok s) as (E & _). apply (f_equal a_next) in E. cbn [abs a_next] in E. lia.
  - destruct (sender_lost_parts s) as (E & _). apply (f_equal a_next) in E. cbn [abs a_next] in E. lia.
  - destruct (gift_ready_parts false k ok s) as (E & _). rewrite E. lia.
Qed.

Lemma count_issues_cons o ops :
  count_issues (o :: ops) = match o with Issue _ _ => 1 | _ => 0 end + count_issues ops.
Proof. unfold count_issues. cbn [filter]. destruct o; reflexivity. Qed.

Lemma run_from_next ops : forall s, next_id (fold_left step ops s) = next_id s + count_issues ops.
Proof.
  induction ops as [|o ops IH]; intros s; cbn [fold_left].
  - unfold count_issues; cbn; lia.
  - rewrite IH, step_next, count_issues_cons. lia.
Qed.

Theorem issued_is_issue_count ops : issued (run ops) = seq 0 (count_issues ops).
Proof. unfold issued, run. rewrite run_from_next. reflexivity. Qed.

(* ------------------------------------------------------------------ *)
(* the sender never sits idle on a non-empty queue *)

Definition SInv (s : state) : Prop := cur s = None -> sendq s = [].

Lemma pump_idle f : forall s, List.length (sendq s) < f -> SInv (pump f s).
Proof.
  induction f as [|f IH]; intros s Hl; [lia|]. cbn [pump].
  destruct (cur s) as [p|] eqn:Ec; [intros H; congruence|].
  rewrite sendq_take. destruct (sendq s) as [|c rest] eqn:Eq; [intros _; exact Eq|].
  destruct (stalls c) eqn:Es.
  - apply IH. cbn [sendq]. cbn [List.length] in Hl. lia.
  - intros H. cbn [cur] in H. discriminate.
Qed.

Lemma issue_sinv st f s : SInv s -> SInv (issue st f s).
Proof.
  intros I. unfold issue. rewrite idle_test_before_enqueue.
  destruct (cur s) as [p|] eqn:Ec; cbn [is_none andb].
  - intros H. cbn [cur] in H. congruence.
  - rewrite (I Ec). cbn [is_nil]. apply pump_idle. cbn [sendq]. lia.
Qed.

Lemma release_sinv s : SInv s -> SInv (release s).
Proof.
  intros I. unfold release. destruct (cur s) as [[c [|[|m]]]|] eqn:Ec.
  - apply pump_idle. cbn [sendq]. lia.
  - apply pump_idle. cbn [sendq]. lia.
  - intros H. cbn [cur] in H. discriminate.
  - exact I.
Qed.

Definition sender_part (s : state) := (cur s, sendq s).

Lemma do_next_sender s : sender_part (do_next s) = sender_part s.
Proof.
  unfold do_next. destruct (checks_disconnected && lost s); [reflexivity|]. destruct (blocked s); [reflexivity|].
  destruct (q_take inq_pop (inq s)) as [[[c r] rest]|]; [|reflexivity]. destruct r; reflexivity.
Qed.

Lemma thunks_sender batch : forall s, sender_part (fold_left run_thunk batch s) = sender_part s.
Proof.
  induction batch as [|t b IH]; intros s; cbn [fold_left]; [reflexivity|].
  rewrite IH. destruct t; apply do_next_sender.
Qed.

Lemma sender_of_sw s s' : sw_part s' = sw_part s -> sender_part s' = sender_part s.
Proof. unfold sw_part, sender_part. intros E. inversion E. reflexivity. Qed.

Lemma gift_ready_sw a k ok s : sw_part (gift_ready_gen a k ok s) = sw_part s.
Proof. apply gift_ready_parts. Qed.

Lemma disconnect_sw s : sw_part (disconnect s) = sw_part s.
Proof. unfold disconnect. destruct (lost s); [reflexivity|]. destruct finish_clears_inq; reflexivity. Qed.

Lemma sinv_of_sender s s' : sender_part s' = sender_part s -> SInv s -> SInv s'.
Proof. unfold sender_part, SInv. intros E I H. inversion E as [[E1 E2]]. rewrite E2. apply I. congruence. Qed.

Lemma step_sinv s o : SInv s -> SInv (step s o).
Proof.
  intros I. destruct o; cbn [step].
  - apply issue_sinv; exact I.
  - apply release_sinv; exact I.
  - apply (sinv_of_sender s); [|exact I]. unfold deliver. destruct (lost s); [reflexivity|]. destruct (negb (in_flight s)); [reflexivity|].
    destruct (wire s); [reflexivity|]. destruct (cfate c); reflexivity.
  - apply (sinv_of_sender s); [|exact I]. apply sender_of_sw, gift_ready_sw.
  - apply (sinv_of_sender s); [|exact I]. unfold turn. rewrite thunks_sender. reflexivity.
  - apply (sinv_of_sender s); [|exact I]. apply sender_of_sw, disconnect_sw.
  - apply (sinv_of_sender s); [|exact I]. apply sender_of_sw, early_gift_parts.
  - apply (sinv_of_sender s); [|exact I]. apply sender_of_sw, sender_lost_parts.
  - apply (sinv_of_sender s); [|exact I]. apply sender_of_sw, gift_ready_sw.
Qed.

Lemma run_from_sinv ops : forall s, SInv s -> SInv (fold_left step ops s).
Proof. induction ops as [|o ops IH]; intros s I; cbn [fold_left]; [exact I|]. apply IH, step_sinv, I. Qed.

(* whenever no call is being serialized, the send queue is empty: a queued call is never left behind *)
Theorem sender_never_idle_with_work ops : cur (run ops) = None -> sendq (run ops) = [].
Proof. apply (run_from_sinv ops init). intros _. reflexivity. Qed.

(* ------------------------------------------------------------------ *)
(* progress: once the sender is done and the receiver's queue is drained by enough turns, every call that was
   not refused has been entered.  One turn on a state whose eventual queue holds a doNextCall finishes the
   head of the inbound queue when that head is ready. *)

Lemma turn_enters_ready_head s c rest :
  lost s = false -> waiting s = [] -> inq s = (c, Ready) :: rest -> evq s <> [] -> is_late c = false ->
  In (cid c) (entered (turn s)).
Proof.
  intros El Ew Ei Ev Hl. unfold turn. destruct evq_is_fifo as [_ ->].
  destruct (evq s) as [|t b]; [congruence|]. destruct t. cbn [fold_left run_thunk].
  set (s0 := mk _ _ _ _ _ _ _ _ _ _ _ _).
  assert (E : In (cid c) (entered (do_next s0))).
  { unfold do_next, blocked. rewrite hol_is_blocking. subst s0. cbn [waiting inq lost]. rewrite Ew, El, andb_false_r. cbn [is_nil negb].
    rewrite inq_take, Ei. unfold finish_call, entered. cbn [trace]. rewrite Hl. cbn [andb negb entered_of].
    apply in_or_app; right; left; reflexivity. }
  clearbody s0. revert E. generalize (do_next s0). clear.
  induction b as [|t b IH]; intros s E; cbn [fold_left]; [exact E|].
  apply IH. destruct t; cbn [run_thunk]. unfold entered in *.
  unfold do_next. destruct (checks_disconnected && lost s); [exact E|]. destruct (blocked s); [exact E|].
  destruct (q_take inq_pop (inq s)) as [[[c' r] rest]|]; [|exact E].
  destruct r; unfold finish_call; cbn [trace]; try exact E;
    destruct (_ && _); cbn [entered_of]; try exact E; apply in_or_app; left; exact E.
Qed.

(* the receiver is never stuck: if a call is queued and none is waiting for its arguments, a doNextCall is scheduled *)
Definition RInv (s : state) : Prop := lost s = false -> inq s <> [] -> waiting s = [] -> evq s <> [].

Definition receiver_part (s : state) := (inq s, waiting s, evq s, lost s).

Lemma rinv_of_receiver s s' : receiver_part s' = receiver_part s -> RInv s -> RInv s'.
Proof. unfold receiver_part, RInv. intros E I. inversion E as [[E1 E2 E3 E4]]. rewrite E1, E2, E3, E4. exact I. Qed.

Lemma evq_put_nonempty (t : thunk) l : q_put evq_push t l <> [].
Proof. destruct evq_push; cbn [q_put]; [destruct l|]; discriminate. Qed.

Lemma do_next_rinv s : RInv (do_next s).
Proof.
  unfold do_next, blocked. rewrite hol_is_blocking, loss_stops_dequeue. cbn [andb].
  destruct (lost s) eqn:El; [intros H; congruence|].
  destruct (waiting s) as [|x w] eqn:Ew; cbn [is_nil negb].
  - rewrite inq_take. destruct (inq s) as [|[c r] rest] eqn:Ei.
    + intros _ H; rewrite Ei in H; congruence.
    + destruct r; unfold RInv, finish_call; cbn [inq waiting evq]; intros _ _ H.
      * apply evq_put_nonempty.
      * cbn in H. discriminate.
      * apply evq_put_nonempty.
  - intros _ _ H. rewrite Ew in H. discriminate.
Qed.

Lemma pump_receiver f : forall s, receiver_part (pump f s) = receiver_part s.
Proof.
  induction f as [|f IH]; intros s; cbn [pump]; [reflexivity|].
  destruct (cur s); [reflexivity|]. destruct (q_take sendq_pop (sendq s)) as [[c rest]|]; [|reflexivity].
  destruct (stalls c); [rewrite IH|]; reflexivity.
Qed.

Lemma thunks_rinv batch : forall s, batch <> [] -> RInv (fold_left run_thunk batch s).
Proof.
  intros s Hne. destruct (exists_last Hne) as [b [t ->]]. rewrite fold_left_app. cbn [fold_left].
  destruct t; cbn [run_thunk]. apply do_next_rinv.
Qed.

Lemma gift_ready_rinv a k ok s : RInv s -> RInv (gift_ready_gen a k ok s).
Proof.
  intros I. unfold gift_ready_gen. destruct (find _ (waiting s)) as [[c g]|] eqn:Ef.
  - destruct (g_out _).
    + intros _ _ _. unfold finish_call. cbn [evq]. apply evq_put_nonempty.
    + unfold RInv. cbn [inq waiting evq lost]. intros _ _ H2. apply map_eq_nil in H2. rewrite H2 in Ef. discriminate Ef.
  - unfold RInv. cbn [inq waiting evq lost]. intros H0 H1 H2. apply I; [exact H0| |exact H2].
    intros E. rewrite E in H1. cbn in H1. congruence.
Qed.

Lemma step_rinv s o : RInv s -> RInv (step s o).
Proof.
  intros I. destruct o; cbn [step].
  - apply (rinv_of_receiver s); [|exact I]. unfold issue.
    match goal with |- context [if ?b then _ else _] => destruct b end; rewrite ?pump_receiver; reflexivity.
  - apply (rinv_of_receiver s); [|exact I]. unfold release.
    destruct (cur s) as [[c [|[|m]]]|]; rewrite ?pump_receiver; reflexivity.
  - unfold deliver. destruct (lost s) eqn:El; [exact I|]. destruct (negb (in_flight s)); [exact I|]. destruct (wire s) as [|c w]; [exact I|].
    destruct (cfate c); try (intros _ _ _; cbn [evq]; apply evq_put_nonempty).
    apply (rinv_of_receiver s); [unfold receiver_part; cbn [inq waiting evq lost]; rewrite El; reflexivity | exact I].
  - apply gift_ready_rinv; exact I.
  - unfold turn. destruct evq_is_fifo as [_ ->].
    destruct (evq s) as [|t b] eqn:Ev.
    + cbn [fold_left]. unfold RInv. cbn [inq waiting evq lost]. intros H0 H1 H2. pose proof (I H0 H1 H2) as H3. congruence.
    + apply thunks_rinv. discriminate.
  - unfold disconnect. destruct (lost s) eqn:El; [exact I|].
    destruct finish_clears_inq; intros H; cbn [lost] in H; discriminate H.
  - apply (rinv_of_receiver s); [|exact I]. destruct (early_gift_parts k ok s) as (_ & _ & El & _ & E).
    unfold receiver_part. inversion E as [[E1 E2 E3]]. rewrite E1, E2, E3, El. reflexivity.
  - apply (rinv_of_receiver s); [|exact I]. destruct (sender_lost_parts s) as (_ & _ & El & E).
    unfold receiver_part. inversion E as [[E1 E2 E3]]. rewrite E1, E2, E3, El. reflexivity.
  - apply gift_ready_rinv; exact I.
Qed.

Lemma run_from_rinv ops : forall s, RInv s -> RInv (fold_left step ops s).
Proof. induction ops as [|o ops IH]; intros s I; cbn [fold_left]; [exact I|]. apply IH, step_rinv, I. Qed.

Lemma RInv_init : RInv init.
Proof. intros _ H; cbn in H; congruence. Qed.

Theorem receiver_never_stuck ops :
  lost (run ops) = false -> inq (run ops) <> [] -> waiting (run ops) = [] -> evq (run ops) <> [].
Proof. apply (run_from_rinv ops init). apply RInv_init. Qed.

(* ------------------------------------------------------------------ *)
(* every reachable state can be settled: releasing the stalls, delivering the bytes, resolving the gifts and
   running turns empties the whole pipeline *)

Definition smeasure (s : state) : nat :=
  match cur s with Some (_, n) => S n | None => 0 end + list_sum (map (fun c => S (stalls c)) (sendq s)).

Lemma pump_measure f : forall s, cur s = None -> smeasure (pump f s) <= smeasure s.
Proof.
  induction f as [|f IH]; intros s Hc; cbn [pump]; [lia|]. rewrite Hc, sendq_take.
  destruct (sendq s) as [|c rest] eqn:Eq; [lia|].
  destruct (stalls c) eqn:Es.
  - etransitivity; [apply IH; reflexivity|]. unfold smeasure. cbn [cur sendq]. rewrite Hc, Eq. unfold list_sum. cbn [map fold_right]. lia.
  - unfold smeasure. cbn [cur sendq]. rewrite Hc, Eq. unfold list_sum. cbn [map fold_right]. rewrite Es. lia.
Qed.

Lemma release_measure s p : cur s = Some p -> smeasure (release s) < smeasure s.
Proof.
  intros Hc. unfold release. rewrite Hc. destruct p as [c [|[|m]]].
  - eapply Nat.le_lt_trans; [apply pump_measure; reflexivity|]. unfold smeasure. cbn [cur sendq]. rewrite Hc. lia.
  - eapply Nat.le_lt_trans; [apply pump_measure; reflexivity|]. unfold smeasure. cbn [cur sendq]. rewrite Hc. lia.
  - unfold smeasure. cbn [cur sendq]. rewrite Hc. lia.
Qed.

Lemma drain_sender : forall n s, smeasure s <= n -> SInv s ->
  exists k, cur (fold_left step (repeat StallRelease k) s) = None /\ sendq (fold_left step (repeat StallRelease k) s) = [].
Proof.
  induction n as [|n IH]; intros s Hm I.
  - destruct (cur s) as [[c m]|] eqn:Ec; [unfold smeasure in Hm; rewrite Ec in Hm; lia|].
    exists 0. cbn. split; [exact Ec | apply I; exact Ec].
  - destruct (cur s) as [p|] eqn:Ec.
    + destruct (IH (release s)) as [k Hk].
      { pose proof (release_measure s p Ec). lia. }
      { apply release_sinv; exact I. }
      exists (S k). cbn [repeat fold_left step]. exact Hk.
    + exists 0. cbn. split; [exact Ec | apply I; exact Ec].
Qed.

(* ---- the Deferred network of a delivery: `live m g` = m third-party references are unresolved, none has failed *)
Definition live (m : nat) (g : gnet) : Prop :=
  1 <= m /\ g_nunref g = Z.of_nat m /\ g_has_all g = true /\ g_r1 g = (Z.of_nat m + 1)%Z /\ g_f1 g = false /\
  g_r2 g = 1%Z /\ g_f2 g = false /\ g_out g = None /\ g_left g = m.

Ltac zb := repeat match goal with
  | |- context [Z.eqb ?a ?b] => destruct (Z.eqb_spec a b); try lia
  | |- context [Z.leb ?a ?b] => destruct (Z.leb_spec a b); try lia
  | |- context [Z.ltb ?a ?b] => destruct (Z.ltb_spec a b); try lia
  end.

Ltac crunch := repeat (first [progress zb | progress cbn [negb andb orb fst snd g_nunref g_has_all g_r1 g_f1 g_r2 g_f2 g_out g_left pred] in *]);
  repeat split; try reflexivity; try lia.

Lemma and_feed_sticky pre : forall st r0, snd st = Some r0 -> snd (fold_left and_feed pre st) = Some r0.
Proof.
  induction pre as [|x pre IH]; intros st r0 H; cbn [fold_left]; [exact H|]. apply IH.
  unfold and_feed, and_apply. destruct (and_cb _ _ _) as [[r f] o]. cbn [snd]. rewrite H. reflexivity.
Qed.

Lemma and_feed_true pre : forall r, forallb (fun b => b) pre = true -> (Z.of_nat (List.length pre) < r)%Z ->
  fold_left and_feed pre ((r, false), None) = ((r - Z.of_nat (List.length pre))%Z, false, None).
Proof.
  induction pre as [|x pre IH]; intros r A L; cbn [fold_left List.length].
  - f_equal. f_equal. cbn. lia.
  - cbn [forallb] in A. apply andb_true_iff in A as [-> A]. cbn [List.length] in L.
    assert (E : and_feed (r, false, None) true = ((r - 1)%Z, false, None)).
    { unfold and_feed, and_apply, and_cb. cbn [fst snd]. crunch. }
    rewrite E, IH by (try exact A; lia). f_equal. f_equal. lia.
Qed.

Lemma and_feed_exact pre : forall r, forallb (fun b => b) pre = true -> pre <> [] -> r = Z.of_nat (List.length pre) ->
  snd (fold_left and_feed pre ((r, false), None)) = Some true.
Proof.
  induction pre as [|x pre IH]; intros r A N L; [congruence|]. cbn [fold_left List.length] in *.
  cbn [forallb] in A. apply andb_true_iff in A as [-> A].
  destruct pre as [|y pre].
  - cbn [fold_left]. subst r. unfold and_feed, and_apply, and_cb. cbn [fst snd List.length]. crunch.
  - assert (E : and_feed (r, false, None) true = ((r - 1)%Z, false, None)).
    { unfold and_feed, and_apply, and_cb. cbn [fst snd]. cbn [List.length] in L. crunch. }
    rewrite E. apply IH; [exact A | discriminate | cbn [List.length] in *; lia].
Qed.

Lemma and_feed_false pre : forall r, forallb (fun b => b) pre = false -> (Z.of_nat (List.length pre) <= r)%Z ->
  snd (fold_left and_feed pre ((r, false), None)) = Some false.
Proof.
  induction pre as [|x pre IH]; intros r A L; [discriminate A|]. cbn [fold_left List.length forallb] in *.
  destruct x; cbn [andb] in A.
  - assert (Hp : pre <> []) by (intros ->; discriminate A).
    assert (E : and_feed (r, false, None) true = ((r - 1)%Z, false, None)).
    { unfold and_feed, and_apply, and_cb. cbn [fst snd]. destruct pre; [congruence|]. cbn [List.length] in L. crunch. }
    rewrite E. apply IH; [exact A | lia].
  - apply and_feed_sticky. unfold and_feed, and_apply, and_cb. cbn [fst snd]. crunch.
Qed.

Definition all_ok (l : list bool) : bool := forallb (fun b => b) l.

(* the network right after receiveClose, when `pre` references resolved early and m are unresolved *)
Lemma close_spec pre m : 1 <= List.length pre + m ->
  (all_ok pre = false -> g_out (gnet_close pre m) = Some false) /\
  (all_ok pre = true -> m = 0 -> g_out (gnet_close pre m) = Some true) /\
  (all_ok pre = true -> 1 <= m -> live m (gnet_close pre m)).
Proof.
  intros H. unfold all_ok, gnet_close, and_init, and_init_full, args_close_has_all, args_close_dl_len.
  cbn [g_nunref g_has_all g_r1 g_f1 g_r2 g_f2 g_out g_left].
  assert (R : forall r0 : Z, (0 < r0)%Z -> fst (if negb (negb (r0 =? 0)%Z) then (0%Z, false, Some true) else (r0, false, @None bool)) = (r0, false)).
  { intros r0 Hr. destruct (Z.eqb_spec r0 0); [lia|]. reflexivity. }
  set (r := ((if negb (Z.of_nat m =? 0)%Z then 1 else 0) + Z.of_nat (List.length pre + m))%Z).
  assert (Hr : (0 < r)%Z) by (subst r; destruct (negb _); lia).
  rewrite (R r Hr), (R 1%Z) by lia.
  split; [|split].
  - intros A. rewrite (and_feed_false pre r A) by (subst r; destruct (negb _); lia).
    unfold and_apply, and_cb. cbn [fst snd]. crunch.
  - intros A ->. rewrite (and_feed_exact pre r A); [unfold and_apply, and_cb; cbn [fst snd]; crunch | |].
    + intros ->. cbn in H. lia.
    + subst r. cbn. rewrite Nat.add_0_r. reflexivity.
  - intros A Hm. rewrite (and_feed_true pre r A) by (subst r; destruct (Z.eqb_spec (Z.of_nat m) 0); cbn [negb]; lia).
    cbn [fst snd]. unfold live. cbn [g_nunref g_has_all g_r1 g_f1 g_r2 g_f2 g_out g_left].
    subst r. destruct (Z.eqb_spec (Z.of_nat m) 0); [lia|]. cbn [negb]. repeat split; try lia.
Qed.

Lemma live_init n : 1 <= n -> live n (gnet_init n).
Proof. intros H. apply (close_spec [] n); [cbn; lia | reflexivity | exact H]. Qed.

Ltac fire_unfold :=
  unfold gift_fire, update_child, update_child_full, and_apply, and_cb;
  cbn [g_nunref g_has_all g_r1 g_f1 g_r2 g_f2 g_out g_left fst snd].

Lemma fire_true_more m g : live (S (S m)) g -> live (S m) (gift_fire true g).
Proof.
  intros (H1 & H2 & H3 & H4 & H5 & H6 & H7 & H8 & H9). unfold live. fire_unfold.
  rewrite H2, H3, H4, H5, H6, H7, H8, H9.
  crunch.
Qed.

Lemma fire_true_last g : live 1 g -> g_out (gift_fire true g) = Some true /\ g_left (gift_fire true g) = 0.
Proof.
  intros (H1 & H2 & H3 & H4 & H5 & H6 & H7 & H8 & H9). fire_unfold.
  rewrite H2, H3, H4, H5, H6, H7, H8, H9.
  crunch.
Qed.

Lemma fire_false m g : live m g -> g_out (gift_fire false g) = Some false /\ g_left (gift_fire false g) = pred m.
Proof.
  intros (H1 & H2 & H3 & H4 & H5 & H6 & H7 & H8 & H9). fire_unfold.
  rewrite H2, H3, H4, H5, H6, H7, H8, H9.
  crunch.
Qed.

Lemma fire_out_stable ok g r : g_out g = Some r -> g_out (gift_fire ok g) = Some r.
Proof.
  intros H. unfold gift_fire. destruct (update_child _ _) as [nun fa]. cbn [g_out]. rewrite H. reflexivity.
Qed.

Lemma gifts_run_out_stable rs : forall g r, g_out g = Some r -> g_out (gifts_run rs g) = Some r.
Proof. induction rs as [|x rs IH]; intros g r H; cbn [gifts_run]; [exact H|]. apply IH, fire_out_stable, H. Qed.

(* "a delivery becomes runnable exactly when all its third-party references have resolved": after the results rs of
   the first |rs| <= m references, the delivery's ready_deferred has fired with a failure iff one of them failed, with
   success iff all m have resolved, and not at all otherwise -- for every m and every rs *)
Theorem gifts_all_or_first_failure : forall rs m g, live m g -> List.length rs <= m ->
  g_out (gifts_run rs g) =
    if forallb (fun b => b) rs then (if List.length rs =? m then Some true else None) else Some false.
Proof.
  induction rs as [|r rs IH]; intros m g L Hl.
  - cbn [gifts_run forallb List.length]. destruct L as (H1 & _ & _ & _ & _ & _ & _ & H8 & _).
    destruct m; [lia|]. cbn [Nat.eqb]. exact H8.
  - cbn [gifts_run forallb List.length] in *. destruct r; cbn [andb].
    + destruct m as [|[|m]]; [destruct L; lia | |].
      * destruct rs; [|cbn in Hl; lia]. cbn [gifts_run forallb List.length Nat.eqb]. apply fire_true_last, L.
      * rewrite (IH (S m) _ (fire_true_more _ _ L)); [|lia]. reflexivity.
    + apply gifts_run_out_stable. apply (fire_false m g L).
Qed.

(* the same when some of the references resolved or failed EARLY, while the call was still being received: `pre` are the
   early results, m references are unresolved when the call is complete, rs are the results of the first |rs| of those *)
Theorem gifts_any_time pre m rs : 1 <= List.length pre + m -> List.length rs <= m ->
  g_out (gifts_run rs (gnet_close pre m)) =
    if all_ok (pre ++ rs) then (if List.length rs =? m then Some true else None) else Some false.
Proof.
  intros H Hl. destruct (close_spec pre m H) as (Hf & Ht & Hlive). unfold all_ok in *. rewrite forallb_app.
  destruct (forallb (fun b => b) pre) eqn:Ea; cbn [andb].
  - destruct m as [|m].
    + destruct rs; [|cbn in Hl; lia]. cbn [gifts_run forallb List.length Nat.eqb]. apply Ht; reflexivity.
    + apply gifts_all_or_first_failure; [apply Hlive; [reflexivity|lia] | exact Hl].
  - apply gifts_run_out_stable. apply Hf. reflexivity.
Qed.

Lemma fire_none_live ok m g : live m g -> g_out (gift_fire ok g) = None -> exists m', live m' (gift_fire ok g).
Proof.
  intros L H. destruct ok.
  - destruct m as [|[|m]]; [destruct L; lia | |].
    + destruct (fire_true_last g L) as [E _]. congruence.
    + eexists. apply fire_true_more, L.
  - destruct (fire_false m g L) as [E _]. congruence.
Qed.

(* every delivery that is not ready holds a live network *)
Definition GInv (s : state) : Prop :=
  (forall c g, In (c, g) (waiting s) -> exists m, live m g) /\
  (forall c g, In (c, Pending g) (inq s) -> exists m, live m g).

Lemma ginv_of_receiver s s' : receiver_part s' = receiver_part s -> GInv s -> GInv s'.
Proof. unfold receiver_part, GInv. intros E I. inversion E as [[E1 E2 E3 E4]]. rewrite E1, E2. exact I. Qed.

Lemma do_next_ginv s : GInv s -> GInv (do_next s).
Proof.
  intros [Iw Iq]. unfold do_next. destruct (checks_disconnected && lost s); [split; assumption|].
  destruct (blocked s); [split; assumption|]. rewrite inq_take.
  destruct (inq s) as [|[c r] rest] eqn:Ei; [split; [assumption | rewrite Ei; assumption]|].
  assert (Iq' : forall c0 g, In (c0, Pending g) rest -> exists m, live m g) by (intros c0 g H; eapply Iq; right; exact H).
  destruct r; unfold finish_call; (split; cbn [waiting inq]; [|exact Iq']); try exact Iw.
  intros c0 g0 H. apply in_app_or in H. destruct H as [H|[H|[]]]; [eapply Iw; exact H|].
  inversion H; subst. eapply Iq. left; reflexivity.
Qed.

Lemma thunks_ginv batch : forall s, GInv s -> GInv (fold_left run_thunk batch s).
Proof.
  induction batch as [|t b IH]; intros s I; cbn [fold_left]; [exact I|]. apply IH. destruct t; apply do_next_ginv, I.
Qed.

Lemma gift_ready_ginv a k ok s : GInv s -> GInv (gift_ready_gen a k ok s).
Proof.
  intros [Iw Iq]. unfold gift_ready_gen. set (ok' := ok && _).
  destruct (find _ (waiting s)) as [[c g]|] eqn:Ef.
  - apply find_some in Ef. destruct Ef as [Hin _]. destruct (Iw _ _ Hin) as [m L].
    destruct (g_out (gift_fire ok' g)) eqn:Eo.
    + unfold finish_call. split; cbn [waiting inq]; [|exact Iq].
      intros c0 g0 H. apply filter_In in H. eapply Iw, H.
    + destruct (fire_none_live ok' m g L Eo) as [m' L'].
      split; cbn [waiting inq]; [|exact Iq].
      intros c0 g0 H. apply in_map_iff in H. destruct H as [[c1 g1] [E H]]. cbn [fst] in E.
      destruct (cid c1 =? k); inversion E; subst; [exists m'; exact L' | eapply Iw; exact H].
  - split; cbn [waiting inq]; [exact Iw|].
    intros c0 g0 H. apply in_map_iff in H. destruct H as [[c1 r1] [E H]]. cbn [fst snd] in E.
    destruct (cid c1 =? k); [|inversion E; subst; eapply Iq; exact H].
    destruct r1 as [|g1|]; cbn [step_rdy] in E; try discriminate E.
    destruct (Iq _ _ H) as [m L].
    destruct (g_out (gift_fire ok' g1)) as [[|]|] eqn:Eo; inversion E; subst.
    eapply fire_none_live; eauto.
Qed.

Lemma step_ginv s o : GInv s -> GInv (step s o).
Proof.
  intros I. destruct o; cbn [step].
  - apply (ginv_of_receiver s); [|exact I]. unfold issue.
    match goal with |- context [if ?b then _ else _] => destruct b end; rewrite ?pump_receiver; reflexivity.
  - apply (ginv_of_receiver s); [|exact I]. unfold release.
    destruct (cur s) as [[c [|[|m]]]|]; rewrite ?pump_receiver; reflexivity.
  - unfold deliver. destruct (lost s); [exact I|]. destruct (negb (in_flight s)); [exact I|]. destruct (wire s) as [|c w]; [exact I|].
    destruct I as [Iw Iq].
    assert (Hnew : forall g0, rdy_on_arrival c (early s) = Pending g0 -> exists m, live m g0).
    { unfold rdy_on_arrival. destruct (cfate c) as [|[|n]| |]; try discriminate.
      set (pre := firstn (S n) (early_of (cid c) (early s))).
      assert (Hl : List.length pre <= S n) by (subst pre; apply firstn_le_length).
      set (mm := S n - List.length pre). assert (Hmm : 1 <= List.length pre + mm) by (subst mm; lia). clearbody mm.
      intros g0 H. destruct (g_out (gnet_close pre mm)) as [[|]|] eqn:Eo; inversion H; subst g0.
      destruct (close_spec pre mm Hmm) as (Hf & Ht & Hlive).
      destruct (all_ok pre) eqn:Ea; [|rewrite (Hf eq_refl) in Eo; discriminate Eo].
      destruct mm as [|m]; [rewrite (Ht eq_refl eq_refl) in Eo; discriminate Eo|].
      eexists. apply Hlive; [reflexivity | lia]. }
    destruct (cfate c) eqn:Ef; try (split; [exact Iw | exact Iq]);
      (split; cbn [waiting inq]; [exact Iw|]); rewrite inq_put; intros c0 g0 H; apply in_app_or in H;
      (destruct H as [H|[H|[]]]; [eapply Iq; exact H|]); inversion H; subst; eapply Hnew; eassumption.
  - apply gift_ready_ginv, I.
  - unfold turn. apply thunks_ginv. exact I.
  - unfold disconnect. destruct (lost s); [exact I|]. destruct I as [Iw Iq].
    destruct finish_clears_inq; (split; cbn [waiting inq]; [exact Iw|]); [intros c g []|exact Iq].
  - apply (ginv_of_receiver s); [|exact I]. destruct (early_gift_parts k ok s) as (_ & _ & El & _ & E).
    unfold receiver_part. inversion E as [[E1 E2 E3]]. rewrite E1, E2, E3, El. reflexivity.
  - apply (ginv_of_receiver s); [|exact I]. destruct (sender_lost_parts s) as (_ & _ & El & E).
    unfold receiver_part. inversion E as [[E1 E2 E3]]. rewrite E1, E2, E3, El. reflexivity.
  - apply gift_ready_ginv, I.
Qed.

Lemma run_from_ginv ops : forall s, GInv s -> GInv (fold_left step ops s).
Proof. induction ops as [|o ops IH]; intros s I; cbn [fold_left]; [exact I|]. apply IH, step_ginv, I. Qed.

Lemma GInv_init : GInv init.
Proof. split; intros c g []. Qed.

(* the ops that settle a state keep the connection *)
Definition settle_op (o : op) : Prop :=
  match o with
  | Issue _ _ => False | GiftReady _ false => False | Disconnect => False
  | EarlyGift _ _ => False | SenderLost => False | GiftReady0 _ _ => False
  | _ => True
  end.

Lemma thunks_lost batch : forall s, lost (fold_left run_thunk batch s) = lost s.
Proof.
  induction batch as [|t b IH]; intros s; cbn [fold_left]; [reflexivity|]. rewrite IH. destruct t; cbn [run_thunk].
  unfold do_next. destruct (checks_disconnected && lost s); [reflexivity|]. destruct (blocked s); [reflexivity|].
  destruct (q_take inq_pop (inq s)) as [[[c r] rest]|]; [|reflexivity]. destruct r; reflexivity.
Qed.

Lemma pump_lost f : forall s, lost (pump f s) = lost s.
Proof. intros s. pose proof (pump_receiver f s) as H. unfold receiver_part in H. inversion H. reflexivity. Qed.

Lemma settle_step_lost s o : settle_op o -> lost (step s o) = lost s.
Proof.
  destruct o; cbn [settle_op step]; intros H; try destruct H.
  - unfold release. destruct (cur s) as [[c [|[|m]]]|]; rewrite ?pump_lost; reflexivity.
  - unfold deliver. destruct (lost s) eqn:El; [exact El|]. destruct (negb (in_flight s)); [exact El|].
    destruct (wire s); [exact El|]. destruct (cfate c); reflexivity.
  - apply (gift_ready_parts true).
  - unfold turn. rewrite thunks_lost. reflexivity.
Qed.

Lemma thunks_cut batch : forall s, cut (fold_left run_thunk batch s) = cut s.
Proof.
  induction batch as [|t b IH]; intros s; cbn [fold_left]; [reflexivity|]. rewrite IH. destruct t; cbn [run_thunk].
  unfold do_next. destruct (checks_disconnected && lost s); [reflexivity|]. destruct (blocked s); [reflexivity|].
  destruct (q_take inq_pop (inq s)) as [[[c r] rest]|]; [|reflexivity]. destruct r; reflexivity.
Qed.

Lemma pump_cut f : forall s, cut (pump f s) = cut s.
Proof.
  induction f as [|f IH]; intros s; cbn [pump]; [reflexivity|].
  destruct (cur s); [reflexivity|]. destruct (q_take sendq_pop (sendq s)) as [[c rest]|]; [|reflexivity].
  destruct (stalls c); [rewrite IH|]; reflexivity.
Qed.

Lemma settle_step_uncut s o : settle_op o -> cut s = None -> cut (step s o) = None.
Proof.
  destruct o; cbn [settle_op step]; intros H Ec; try destruct H.
  - unfold release. destruct (cur s) as [[c [|[|m]]]|]; rewrite ?pump_cut; exact Ec.
  - unfold deliver. destruct (lost s); [exact Ec|]. destruct (negb (in_flight s)); [exact Ec|].
    destruct (wire s); [exact Ec|]. destruct (cfate c); cbn [cut]; unfold cut_pred; rewrite Ec; reflexivity.
  - destruct (gift_ready_parts true k ok s) as (_ & _ & _ & E). unfold gift_ready. rewrite E. exact Ec.
  - unfold turn. rewrite thunks_cut. exact Ec.
Qed.

Lemma settle_run_uncut more : forall s, Forall settle_op more -> cut s = None -> cut (fold_left step more s) = None.
Proof.
  induction more as [|o more IH]; intros s H Ec; cbn [fold_left]; [exact Ec|].
  inversion H; subst. apply IH; [assumption|]. apply settle_step_uncut; assumption.
Qed.

Lemma settle_run_lost more : forall s, Forall settle_op more -> lost (fold_left step more s) = lost s.
Proof.
  induction more as [|o more IH]; intros s H; cbn [fold_left]; [reflexivity|].
  inversion H; subst. rewrite IH; [apply settle_step_lost|]; assumption.
Qed.

Lemma deliver_sender s : lost s = false -> cut s = None ->
  cur (deliver s) = cur s /\ sendq (deliver s) = sendq s /\ wire (deliver s) = tl (wire s).
Proof.
  intros El Ec. unfold deliver, in_flight. rewrite El, Ec. cbn [negb]. destruct (wire s) as [|c0 w] eqn:Ew.
  - rewrite Ew. repeat split; reflexivity.
  - destruct (cfate c0); cbn [cur sendq wire tl]; repeat split; reflexivity.
Qed.

Lemma drain_wire : forall n s, lost s = false -> cut s = None -> List.length (wire s) <= n -> cur s = None -> sendq s = [] ->
  exists k, let s' := fold_left step (repeat Deliver k) s in cur s' = None /\ sendq s' = [] /\ wire s' = [].
Proof.
  induction n as [|n IH]; intros s El Ec Hl Hc Hq.
  - exists 0. cbn. destruct (wire s); [auto | cbn in Hl; lia].
  - destruct (wire s) as [|c w] eqn:Ew; [exists 0; cbn; auto|].
    destruct (deliver_sender s El Ec) as (E1 & E2 & E3).
    destruct (IH (deliver s)) as [k Hk];
      [exact (eq_trans (settle_step_lost s Deliver Logic.I) El) | exact (settle_step_uncut s Deliver Logic.I Ec)
       | rewrite E3, Ew; cbn in *; lia | congruence | congruence |].
    exists (S k). cbn [repeat fold_left step]. exact Hk.
Qed.

Lemma do_next_sw s : sw_part (do_next s) = sw_part s.
Proof.
  unfold do_next. destruct (checks_disconnected && lost s); [reflexivity|]. destruct (blocked s); [reflexivity|].
  destruct (q_take inq_pop (inq s)) as [[[c r] rest]|]; [|reflexivity]. destruct r; reflexivity.
Qed.

Lemma thunks_sw batch : forall s, sw_part (fold_left run_thunk batch s) = sw_part s.
Proof.
  induction batch as [|t b IH]; intros s; cbn [fold_left]; [reflexivity|].
  rewrite IH. destruct t; apply do_next_sw.
Qed.

(* what is left to do on the receiver: two steps per queued delivery (dequeue, finish), one per waiting delivery, and one
   per unresolved third-party reference *)
Definition rleft (r : rdy) : nat := match r with Pending g => g_left g | _ => 0 end.
Definition rmeasure (s : state) : nat :=
  list_sum (map (fun e => 2 + rleft (snd e)) (inq s)) + list_sum (map (fun e => 1 + g_left (snd e)) (waiting s)).

Lemma list_sum_app l1 l2 : list_sum (l1 ++ l2) = list_sum l1 + list_sum l2.
Proof. induction l1 as [|x l IH]; cbn [app list_sum fold_right] in *; [reflexivity|]. unfold list_sum in *. cbn [fold_right]. lia. Qed.

Lemma do_next_measure s : rmeasure (do_next s) <= rmeasure s.
Proof.
  unfold do_next. destruct (checks_disconnected && lost s); [lia|]. destruct (blocked s); [lia|]. rewrite inq_take.
  destruct (inq s) as [|[c r] rest] eqn:Ei; [lia|].
  destruct r; unfold rmeasure, finish_call; cbn [inq waiting]; rewrite ?Ei, ?map_app, ?list_sum_app;
    unfold list_sum; cbn [map fold_right snd rleft]; lia.
Qed.

Lemma do_next_measure_strict s : lost s = false -> waiting s = [] -> inq s <> [] -> rmeasure (do_next s) < rmeasure s.
Proof.
  intros El Ew Hi. unfold do_next, blocked. rewrite hol_is_blocking, Ew, El, andb_false_r. cbn [is_nil negb]. rewrite inq_take.
  destruct (inq s) as [|[c r] rest] eqn:Ei; [congruence|].
  destruct r; unfold rmeasure, finish_call; cbn [inq waiting]; rewrite ?Ei, ?Ew, ?map_app, ?list_sum_app;
    unfold list_sum; cbn [map fold_right snd rleft app]; lia.
Qed.

Lemma thunks_measure batch : forall s, rmeasure (fold_left run_thunk batch s) <= rmeasure s.
Proof.
  induction batch as [|t b IH]; intros s; cbn [fold_left]; [lia|].
  etransitivity; [apply IH|]. destruct t; apply do_next_measure.
Qed.

Lemma turn_measure s : lost s = false -> waiting s = [] -> inq s <> [] -> evq s <> [] -> rmeasure (turn s) < rmeasure s.
Proof.
  intros El Ew Hi He. unfold turn. destruct evq_is_fifo as [_ ->].
  destruct (evq s) as [|t b]; [congruence|]. cbn [fold_left]. destruct t; cbn [run_thunk].
  eapply Nat.le_lt_trans; [apply thunks_measure|].
  set (s0 := mk _ _ _ _ _ _ _ _ _ _ _ _).
  assert (E : rmeasure s = rmeasure s0) by reflexivity. rewrite E.
  apply do_next_measure_strict; subst s0; cbn [waiting inq lost]; assumption.
Qed.

Lemma gift_measure s x g m : lost s = false -> waiting s = [(x, g)] -> live m g ->
  rmeasure (gift_ready (cid x) true s) < rmeasure s.
Proof.
  intros El Ew L. unfold gift_ready, gift_ready_gen. rewrite Ew, El. cbn [andb negb]. rewrite ?andb_true_r. cbn [find fst negb andb]. rewrite Nat.eqb_refl.
  destruct m as [|[|m]]; [destruct L; lia | |].
  - destruct (fire_true_last g L) as [-> _]. cbn [filter fst negb]. rewrite Nat.eqb_refl. cbn [negb].
    unfold rmeasure, finish_call. cbn [inq waiting]. rewrite Ew. unfold list_sum. cbn [map fold_right]. lia.
  - pose proof (fire_true_more m g L) as L'. destruct L' as (_ & _ & _ & _ & _ & _ & _ & Ho & Hl).
    rewrite Ho. destruct L as (_ & _ & _ & _ & _ & _ & _ & _ & Hl0).
    unfold rmeasure. cbn [inq waiting map fst snd]. rewrite Ew. cbn [map fst snd]. rewrite Nat.eqb_refl.
    unfold list_sum. cbn [map fold_right snd]. rewrite Hl, Hl0. lia.
Qed.

Lemma drain_receiver : forall n s, rmeasure s <= n -> lost s = false -> AInv (abs s) -> RInv s -> GInv s ->
  exists more, Forall settle_op more /\
    inq (fold_left step more s) = [] /\ waiting (fold_left step more s) = [] /\
    sw_part (fold_left step more s) = sw_part s.
Proof.
  induction n as [|n IH]; intros s Hm El I R G.
  - exists []. cbn [fold_left]. unfold rmeasure in Hm.
    destruct (inq s); [|unfold list_sum in Hm; cbn in Hm; lia].
    destruct (waiting s); [|unfold list_sum in Hm; cbn in Hm; lia]. auto.
  - destruct (wait_len s I) as [Ew|[[x g] Ew]].
    + destruct (inq s) as [|e rest] eqn:Ei; [exists []; cbn [fold_left]; auto|].
      assert (Hi : inq s <> []) by (rewrite Ei; discriminate).
      pose proof (R El Hi Ew) as He.
      destruct (IH (turn s)) as (more & Hf & H1 & H2 & H3).
      { pose proof (turn_measure s El Ew Hi He). lia. }
      { exact (eq_trans (settle_step_lost s Turn Logic.I) El). }
      { eapply effs_preserves; [apply (step_effs s Turn I) | exact I]. }
      { apply (step_rinv s Turn R). }
      { apply (step_ginv s Turn G). }
      exists (Turn :: more). cbn [fold_left step]. split; [constructor; [cbn; trivial | exact Hf]|].
      split; [exact H1|]. split; [exact H2|]. rewrite H3. unfold turn. rewrite thunks_sw. reflexivity.
    + destruct G as [Gw Gq]. destruct (Gw x g) as [m L]; [rewrite Ew; left; reflexivity|].
      destruct (IH (gift_ready (cid x) true s)) as (more & Hf & H1 & H2 & H3).
      { pose proof (gift_measure s x g m El Ew L). lia. }
      { exact (eq_trans (settle_step_lost s (GiftReady (cid x) true) Logic.I) El). }
      { eapply effs_preserves; [apply (step_effs s (GiftReady (cid x) true) I) | exact I]. }
      { apply (step_rinv s (GiftReady (cid x) true) R). }
      { apply (step_ginv s (GiftReady (cid x) true)). split; assumption. }
      exists (GiftReady (cid x) true :: more). cbn [fold_left step]. split; [constructor; [cbn; trivial | exact Hf]|].
      split; [exact H1|]. split; [exact H2|]. rewrite H3. apply gift_ready_sw.
Qed.

Lemma forall_repeat {A} (P : A -> Prop) x k : P x -> Forall P (repeat x k).
Proof. intros H. induction k; cbn [repeat]; constructor; assumption. Qed.

Theorem can_always_settle ops : lost (run ops) = false -> cut (run ops) = None ->
  exists more, Forall settle_op more /\ pipeline (run (ops ++ more)) = [].
Proof.
  intros El Ec. pose (s0 := run ops).
  destruct (drain_sender (smeasure s0) s0 (le_n _)) as [k1 [Hc1 Hq1]].
  { apply (run_from_sinv ops init). intros _; reflexivity. }
  set (s1 := fold_left step (repeat StallRelease k1) s0) in *.
  assert (El1 : lost s1 = false).
  { subst s1. rewrite settle_run_lost; [exact El | apply forall_repeat; exact I]. }
  assert (Ec1 : cut s1 = None).
  { subst s1. apply settle_run_uncut; [apply forall_repeat; exact I | exact Ec]. }
  destruct (drain_wire (List.length (wire s1)) s1 El1 Ec1 (le_n _) Hc1 Hq1) as [k2 (Hc2 & Hq2 & Hw2)].
  set (s2 := fold_left step (repeat Deliver k2) s1) in *.
  assert (El2 : lost s2 = false).
  { subst s2. rewrite settle_run_lost; [exact El1 | apply forall_repeat; exact I]. }
  assert (I2 : AInv (abs s2)) by (apply run_from_inv, run_from_inv, run_inv).
  assert (R2 : RInv s2).
  { apply run_from_rinv, run_from_rinv. apply (run_from_rinv ops init). apply RInv_init. }
  assert (G2 : GInv s2).
  { apply run_from_ginv, run_from_ginv. apply (run_from_ginv ops init). apply GInv_init. }
  destruct (drain_receiver (rmeasure s2) s2 (le_n _) El2 I2 R2 G2) as (more & Hf & Hi & Hw & Hsw).
  exists (repeat StallRelease k1 ++ repeat Deliver k2 ++ more). split.
  - apply Forall_app; split; [apply forall_repeat; exact I|].
    apply Forall_app; split; [apply forall_repeat; exact I | exact Hf].
  - unfold run. rewrite !fold_left_app. fold (run ops). fold s0. fold s1. fold s2.
    unfold pipeline, inq_ids, wait_ids, upstream, cur_ids. rewrite Hi, Hw.
    unfold sw_part in Hsw. inversion Hsw as [[E1 E2 E3]]. rewrite E1, E2, E3, Hc2, Hq2, Hw2. reflexivity.
Qed.

Lemma count_issues_app a b : count_issues (a ++ b) = count_issues a + count_issues b.
Proof. unfold count_issues. rewrite filter_app, app_length. reflexivity. Qed.

(* every issued call can still be brought to a conclusion: entered, or explicitly refused *)
Theorem eventually_entered_or_refused ops : lost (run ops) = false -> cut (run ops) = None ->
  exists more, Forall settle_op more /\
    forall c, c < count_issues ops ->
      In c (entered (run (ops ++ more))) \/ In (Failed c) (history (run (ops ++ more))) \/
      In (Rejected c) (history (run (ops ++ more))).
Proof.
  intros El Ec. destruct (can_always_settle ops El Ec) as (more & Hf & Hp). exists more. split; [exact Hf|].
  intros c Hc.
  assert (Ed : dropped (run (ops ++ more)) = []).
  { apply dropped_only_after_loss. unfold run. rewrite fold_left_app. rewrite settle_run_lost; assumption. }
  destruct (no_silent_loss (ops ++ more) c) as [H|[H|[H|[H|H]]]].
  - unfold run. rewrite run_from_next, count_issues_app. cbn [next_id init]. lia.
  - left; exact H.
  - rewrite Hp in H. destruct H.
  - right; left; exact H.
  - right; right; exact H.
  - rewrite Ed in H. destruct H.
Qed.

(* ------------------------------------------------------------------ *)
(* BEYOND THE PROPERTY TEXT (robustness observation; C04 itself says nothing about connection loss).
   connection loss: once the receiver has lost the connection nothing is entered any more, whatever happens next
   (calls issued, stalls released, bytes "delivered", gifts resolved, turns, a second loss) *)

Lemma do_next_lost_id s : lost s = true -> do_next s = s.
Proof. intros El. unfold do_next. rewrite loss_stops_dequeue, El. reflexivity. Qed.

Lemma thunks_lost_entered batch : forall s, lost s = true -> entered (fold_left run_thunk batch s) = entered s.
Proof.
  induction batch as [|t b IH]; intros s El; cbn [fold_left]; [reflexivity|].
  destruct t; cbn [run_thunk]. rewrite (do_next_lost_id s El). apply IH, El.
Qed.

Lemma pump_trace f s : trace (pump f s) = trace s.
Proof. pose proof (pump_abs f s) as H. apply (f_equal a_trace) in H. exact H. Qed.

Lemma step_lost_stays s o : lost s = true -> lost (step s o) = true.
Proof.
  intros El. destruct o; cbn [step].
  - unfold issue. match goal with |- context [if ?b then _ else _] => destruct b end; rewrite ?pump_lost; exact El.
  - unfold release. destruct (cur s) as [[c [|[|m]]]|]; rewrite ?pump_lost; exact El.
  - unfold deliver. rewrite El. exact El.
  - destruct (gift_ready_parts true k ok s) as (_ & _ & E & _). unfold gift_ready. rewrite E. exact El.
  - unfold turn. rewrite thunks_lost. exact El.
  - unfold disconnect. rewrite El. exact El.
  - destruct (early_gift_parts k ok s) as (_ & _ & -> & _). exact El.
  - destruct (sender_lost_parts s) as (_ & _ & -> & _). exact El.
  - destruct (gift_ready_parts false k ok s) as (_ & _ & -> & _). exact El.
Qed.

(* every op except the successful resolution of a reference that the PEER sent with giftID 0 *)
Definition acked_op (o : op) : Prop := match o with GiftReady0 _ true => False | _ => True end.

Lemma gift_failed_after_loss a k s : GInv s -> lost s = true ->
  entered (gift_ready_gen a k false s) = entered s.
Proof.
  intros G El. unfold entered, gift_ready_gen. cbn [andb].
  destruct (find _ (waiting s)) as [[c g]|] eqn:Ef; [|reflexivity].
  apply find_some in Ef. destruct Ef as [Hin _]. destruct G as [Gw _]. destruct (Gw _ _ Hin) as [m L].
  destruct (fire_false m g L) as [-> _]. unfold finish_call. cbn [trace andb entered_of]. reflexivity.
Qed.

Lemma step_lost_entered s o : GInv s -> lost s = true -> acked_op o \/ docall_checks_disconnected = true ->
  entered (step s o) = entered s.
Proof.
  intros G El Ho. destruct o; cbn [step].
  - unfold entered, issue. match goal with |- context [if ?b then _ else _] => destruct b end; rewrite ?pump_trace; reflexivity.
  - unfold entered. pose proof (release_abs s) as H. apply (f_equal a_trace) in H. cbn [abs a_trace] in H. rewrite H. reflexivity.
  - unfold deliver. rewrite El. reflexivity.
  - (* the resolution counts as a failure, and a live network answers a failure with a failure *)
    rewrite <- (gift_failed_after_loss true k s G El). unfold gift_ready, gift_ready_gen.
    rewrite gift_after_loss_fails, El. cbn [andb orb negb]. rewrite andb_false_r. reflexivity.
  - unfold entered, turn. apply (thunks_lost_entered _ (mk _ _ _ _ _ _ [] _ _ _ _ _)). exact El.
  - unfold disconnect. rewrite El. reflexivity.
  - destruct (early_gift_parts k ok s) as (E & _). apply (f_equal a_trace) in E. unfold entered. cbn [abs a_trace] in E. rewrite E. reflexivity.
  - destruct (sender_lost_parts s) as (E & _). apply (f_equal a_trace) in E. unfold entered. cbn [abs a_trace] in E. rewrite E. reflexivity.
  - destruct ok; [|apply gift_failed_after_loss; assumption]. destruct Ho as [[]|Hd].
    rewrite <- (gift_failed_after_loss false k s G El). unfold gift_ready_gen.
    rewrite Hd, El. cbn [andb negb]. rewrite orb_true_r. reflexivity.
Qed.

Theorem nothing_entered_after_loss ops more : lost (run ops) = true ->
  Forall acked_op more \/ docall_checks_disconnected = true ->
  entered (run (ops ++ more)) = entered (run ops).
Proof.
  unfold run. rewrite fold_left_app. generalize (run_from_ginv ops init GInv_init). generalize (fold_left step ops init). clear ops.
  intros s G. revert s G.
  induction more as [|o more IH]; intros s G El Hm; cbn [fold_left]; [reflexivity|].
  assert (Ho : acked_op o \/ docall_checks_disconnected = true) by (destruct Hm as [Hm|Hd]; [inversion Hm; subst; left; assumption | right; exact Hd]).
  assert (Hm' : Forall acked_op more \/ docall_checks_disconnected = true) by (destruct Hm as [Hm|Hd]; [inversion Hm; subst; left; assumption | right; exact Hd]).
  rewrite IH; [apply step_lost_entered; assumption | apply step_ginv, G | apply step_lost_stays, El | exact Hm'].
Qed.

(* without that restriction the statement is FALSE: a peer that sends a third-party reference with giftID 0 gets its call
   entered after the receiver has lost the connection (ackGift has nothing to send, so nothing fails) *)
Definition giftid0_witness : list op := [Issue 0 (FGift 1); Deliver; Turn; Disconnect].

Theorem nothing_entered_after_loss_refuted : docall_checks_disconnected = false ->
  exists ops more, lost (run ops) = true /\ entered (run ops) = [] /\ entered (run (ops ++ more)) = [0].
Proof.
  intros H. first [ vm_compute in H; discriminate H
                  | exists giftid0_witness, [GiftReady0 0 true]; vm_compute; repeat split; reflexivity ].
Qed.

Theorem loss_is_final ops more : lost (run ops) = true -> lost (run (ops ++ more)) = true.
Proof.
  unfold run. rewrite fold_left_app. generalize (fold_left step ops init). clear ops.
  induction more as [|o more IH]; intros s El; cbn [fold_left]; [exact El|]. apply IH, step_lost_stays, El.
Qed.

(* ------------------------------------------------------------------ *)
(* the SENDER loses the connection: only what it had completely written can still arrive *)

Definition is_arrival (e : event) : bool := match e with Queued _ | Rejected _ => true | _ => false end.
Definition arrived (s : state) : nat := List.length (filter is_arrival (trace s)).
Definition budget (s : state) : nat := match cut s with Some k => k | None => 0 end.

Lemma do_next_arrived s : arrived (do_next s) = arrived s.
Proof.
  unfold do_next. destruct (checks_disconnected && lost s); [reflexivity|]. destruct (blocked s); [reflexivity|].
  destruct (q_take inq_pop (inq s)) as [[[c r] rest]|]; [|reflexivity].
  destruct r; unfold arrived, finish_call; cbn [trace]; try reflexivity; destruct (_ && _); reflexivity.
Qed.

Lemma thunks_arrived batch : forall s, arrived (fold_left run_thunk batch s) = arrived s.
Proof. induction batch as [|t b IH]; intros s; cbn [fold_left]; [reflexivity|]. rewrite IH. destruct t; apply do_next_arrived. Qed.

Lemma gift_ready_arrived a k ok s : arrived (gift_ready_gen a k ok s) = arrived s.
Proof.
  unfold gift_ready_gen. destruct (find _ (waiting s)) as [[c g]|]; [|reflexivity].
  destruct (g_out _); [|reflexivity]. unfold arrived, finish_call. cbn [trace]. destruct (_ && _); reflexivity.
Qed.

Lemma step_after_cut s o k : cut s = Some k ->
  exists k', cut (step s o) = Some k' /\ arrived (step s o) + k' = arrived s + k.
Proof.
  intros Ec. destruct o; cbn [step].
  - exists k. unfold issue. match goal with |- context [if ?b then _ else _] => destruct b end;
      rewrite ?pump_cut; unfold arrived; rewrite ?pump_trace; cbn [cut trace]; auto.
  - exists k. pose proof (release_abs s) as H. apply (f_equal a_trace) in H. cbn [abs a_trace] in H. unfold arrived. rewrite H.
    split; [|reflexivity]. unfold release. destruct (cur s) as [[c [|[|m]]]|]; rewrite ?pump_cut; exact Ec.
  - unfold deliver, in_flight, cut_pred. rewrite Ec. destruct (lost s); [exists k; auto|].
    destruct k as [|k]; cbn [negb]; [exists 0; auto|]. destruct (wire s) as [|c w]; [exists (S k); auto|].
    exists k. destruct (cfate c); unfold arrived; cbn [cut trace filter is_arrival List.length pred]; split; try reflexivity; lia.
  - exists k. destruct (gift_ready_parts true k0 ok s) as (_ & _ & _ & E). unfold gift_ready. rewrite E, gift_ready_arrived. auto.
  - exists k. unfold turn. rewrite thunks_cut, thunks_arrived. auto.
  - exists k. unfold disconnect. destruct (lost s); [auto|]. destruct finish_clears_inq; auto.
  - exists k. destruct (early_gift_parts k0 ok s) as (E & _ & _ & Ec' & _). apply (f_equal a_trace) in E. cbn [abs a_trace] in E.
    unfold arrived. rewrite E, Ec'. auto.
  - exists k. unfold sender_lost. rewrite Ec. auto.
  - exists k. destruct (gift_ready_parts false k0 ok s) as (_ & _ & _ & E). rewrite E, gift_ready_arrived. auto.
Qed.

(* after the sender's loss, at most as many calls arrive (are queued or rejected) as were completely on the wire then,
   whatever happens next: what the sender serializes afterwards is never received *)
Theorem after_sender_loss_only_in_flight_arrive ops more k : cut (run ops) = Some k ->
  arrived (run (ops ++ more)) <= arrived (run ops) + k.
Proof.
  unfold run. rewrite fold_left_app. generalize (fold_left step ops init). clear ops. revert k.
  induction more as [|o more IH]; intros k s Ec; cbn [fold_left]; [lia|].
  destruct (step_after_cut s o k Ec) as (k' & Ec' & E). specialize (IH k' _ Ec'). lia.
Qed.

Theorem sender_loss_cuts_at_wire ops : cut (run ops) = None -> cut (run (ops ++ [SenderLost])) = Some (List.length (wire (run ops))).
Proof. intros Ec. rewrite run_app_one. cbn [step]. unfold sender_lost. rewrite Ec. reflexivity. Qed.

(* ------------------------------------------------------------------ *)
(* LocalReferenceable: order is given by the eventual queue alone *)

Lemma evq_isolation : evq_isolates_exceptions = true.
Proof. reflexivity. Qed.

Lemma datas_app a b : datas (a ++ b) = datas a ++ datas b.
Proof. induction a as [|t a IH]; cbn [app datas]; [reflexivity|]. destruct t; cbn [app]; rewrite IH; reflexivity. Qed.

Definition LInv (s : lstate) : Prop := l_entered s ++ datas (l_evq s) = seq 0 (l_next s).

(* while a batch runs: what was delivered, then the data still in the batch, then the data queued meanwhile *)
Lemma run_batch_inv batch : forall s,
  l_entered s ++ datas batch ++ datas (l_evq s) = seq 0 (l_next s) -> LInv (run_batch batch s).
Proof.
  destruct evq_is_fifo as [Hp _].
  induction batch as [|t rest IH]; intros s I; cbn [run_batch].
  - exact I.
  - destruct t; cbn [datas app] in I.
    + apply IH. cbn [l_entered l_evq l_next]. rewrite <- app_assoc. exact I.
    + apply IH. exact I.
    + rewrite evq_isolation. apply IH. exact I.
    + apply IH. cbn [l_entered l_evq l_next]. rewrite Hp. cbn [q_put]. rewrite datas_app. cbn [datas].
      rewrite !app_assoc. rewrite <- (app_assoc (l_entered s)). rewrite I, seq_S. reflexivity.
Qed.

Lemma lstep_inv s o : LInv s -> LInv (lstep s o).
Proof.
  unfold LInv. intros I. destruct evq_is_fifo as [Hp Hi]. destruct o; cbn [lstep].
  - cbn [l_entered l_evq l_next]. rewrite Hp. cbn [q_put]. rewrite datas_app. cbn [datas].
    rewrite app_assoc, I, seq_S. reflexivity.
  - cbn [l_entered l_evq l_next]. rewrite Hp. cbn [q_put]. rewrite datas_app. destruct raises; cbn [datas]; rewrite app_nil_r; exact I.
  - cbn [l_entered l_evq l_next]. rewrite Hp. cbn [q_put]. rewrite datas_app. cbn [datas]. rewrite app_nil_r; exact I.
  - rewrite Hi. apply run_batch_inv. cbn [l_entered l_evq l_next datas]. rewrite app_nil_r. exact I.
Qed.

Lemma lrun_from_inv ops : forall s, LInv s -> LInv (fold_left lstep ops s).
Proof. induction ops as [|o ops IH]; intros s I; cbn [fold_left]; [exact I|]. apply IH, lstep_inv, I. Qed.

(* the eventual queue is an order-preserving channel: whatever unrelated callables (also raising ones, also ones that
   write themselves) share it, delivered ++ still queued = written, in the order written *)
Theorem eventual_channel_in_order ops :
  l_entered (lrun ops) ++ datas (l_evq (lrun ops)) = seq 0 (l_next (lrun ops)).
Proof. apply (lrun_from_inv ops). reflexivity. Qed.

Corollary eventual_channel_prefix ops : sublist (l_entered (lrun ops)) (seq 0 (l_next (lrun ops))).
Proof. rewrite <- eventual_channel_in_order. apply sublist_app_l. Qed.

(* ------------------------------------------------------------------ *)
(* non-vacuity *)

(* the regression witness of defect D1: one call pauses mid-argument, three more are issued meanwhile *)
Example d1_witness :
  entered (run [Issue 1 FPlain; Issue 0 FPlain; Issue 0 FPlain; Issue 0 FPlain; StallRelease;
                Deliver; Deliver; Deliver; Deliver; Turn]) = [0; 1; 2; 3].
Proof. vm_compute. reflexivity. Qed.

(* a call blocked behind a gift, an early and a late refusal: the hypotheses of head_of_line are met *)
Definition hol_example : list op :=
  [Issue 0 (FGift 1); Issue 0 FRejectEarly; Issue 0 FRejectLate; Issue 2 FPlain; StallRelease; StallRelease;
   Deliver; Deliver; Deliver; Deliver; Turn; Turn; GiftReady 0 true; Turn; Turn].

Example hol_example_history :
  history (run hol_example) =
  [Queued 0; Rejected 1; Queued 2; Queued 3; Entered 0; Failed 2; Entered 3].
Proof. vm_compute. reflexivity. Qed.

Example hol_example_applies :
  exists before after, history (run hol_example) = before ++ Entered 3 :: after /\
                       In (Queued 2) (history (run hol_example)) /\ 2 < 3 /\ In (Failed 2) before.
Proof.
  exists [Queued 0; Rejected 1; Queued 2; Queued 3; Entered 0; Failed 2], [].
  rewrite hol_example_history. cbn. intuition.
Qed.

Example waiting_is_reached :
  wait_ids (run [Issue 0 (FGift 1); Deliver; Turn]) = [0].
Proof. vm_compute. reflexivity. Qed.

(* a call with three third-party references: runnable only after the third has resolved *)
Example three_gifts :
  map (fun ops => entered (run ops))
      [ [Issue 0 (FGift 3); Issue 0 FPlain; Deliver; Deliver; Turn; GiftReady 0 true; Turn; GiftReady 0 true; Turn];
        [Issue 0 (FGift 3); Issue 0 FPlain; Deliver; Deliver; Turn; GiftReady 0 true; Turn; GiftReady 0 true; Turn;
         GiftReady 0 true; Turn; Turn] ] = [ []; [0; 1] ].
Proof. vm_compute. reflexivity. Qed.

(* ... and refused as soon as one of them fails, also while it is still queued behind another waiting call *)
Example gift_fails_while_queued :
  history (run [Issue 0 (FGift 1); Issue 0 (FGift 2); Issue 0 FPlain; Deliver; Deliver; Deliver; Turn;
                GiftReady 1 false; GiftReady 0 true; Turn; Turn; Turn]) =
  [Queued 0; Queued 1; Queued 2; Entered 0; Failed 1; Entered 2].
Proof. vm_compute. reflexivity. Qed.

Example live_example : live 3 (gnet_init 3) /\ List.length [true; true] <= 3.
Proof. split; [apply live_init; lia | cbn; lia]. Qed.

(* the connection is lost while call 0 waits for its gift and calls 1, 2 are queued behind it, call 3 is still on the
   wire: the hypotheses of nothing_entered_after_loss / loss_is_final are met, 1 and 2 are dropped, and even the gift
   that resolves afterwards does not let call 0 in *)
Definition loss_example : list op :=
  [Issue 0 FPlain; Issue 0 (FGift 1); Issue 0 FPlain; Issue 0 FPlain; Issue 0 FPlain; Deliver; Deliver; Deliver; Deliver;
   Turn; Turn; Turn; Disconnect].

Example loss_example_state :
  (lost (run loss_example), entered (run loss_example), wait_ids (run loss_example),
   ids (dropped (run loss_example)) ++ inq_ids (run loss_example), ids (wire (run loss_example))) = (true, [0], [1], [2; 3], [4]).
Proof. vm_compute. reflexivity. Qed.

Example loss_example_after :
  history (run (loss_example ++ [GiftReady 1 true; Turn; Deliver; Turn; Turn])) =
  [Queued 0; Queued 1; Queued 2; Queued 3; Entered 0; Failed 1].
Proof. vm_compute. reflexivity. Qed.

(* a reference that resolves while its call is still on the wire: the call is ready on arrival; one that fails early
   makes the call fail when its turn comes; with two references, one early and one late, the call waits for the late one *)
Example early_gift_example :
  map (fun ops => history (run ops))
      [ [Issue 0 (FGift 1); EarlyGift 0 true; Deliver; Turn];
        [Issue 0 (FGift 1); EarlyGift 0 false; Deliver; Turn];
        [Issue 0 (FGift 2); EarlyGift 0 true; Deliver; Turn; Turn; GiftReady 0 true; Turn] ] =
  [ [Queued 0; Entered 0]; [Queued 0; Failed 0]; [Queued 0; Entered 0] ].
Proof. vm_compute. reflexivity. Qed.

Example any_time_example : 1 <= List.length [true] + 2 /\ List.length [true] <= 2.
Proof. cbn; lia. Qed.

(* the sender is cut off with call 0 completely written, call 1 paused in a streaming argument and call 2 queued: only
   call 0 can still arrive, although 1 and 2 are serialized afterwards *)
Definition sender_loss_example : list op :=
  [Issue 0 FPlain; Issue 1 FPlain; Issue 0 FPlain; SenderLost; StallRelease; Deliver; Deliver; Deliver; Turn; Turn].

Example sender_loss_example_state :
  (cut (run [Issue 0 FPlain; Issue 1 FPlain; Issue 0 FPlain; SenderLost]), entered (run sender_loss_example),
   ids (wire (run sender_loss_example))) = (Some 1, [0], [1; 2]).
Proof. vm_compute. reflexivity. Qed.

Example settle_example : lost (run hol_example) = false.
Proof. vm_compute. reflexivity. Qed.

Example local_example :
  l_entered (lrun [LSpawnOp; LNoise true; LIssue; LIssue; LTurn; LNoise true; LIssue; LTurn; LTurn]) = [0; 1; 2; 3].
Proof. vm_compute. reflexivity. Qed.

(* ------------------------------------------------------------------ *)
(* RE-ENTRANT SEND: lemmas about enqueue / pump used by lib/OrderHooksProofs.v, where the history with calls issued from inside the
   serialization of another call (hook table, lib/Order.v pump_h / issue_h / release_h / nrun) is proved to be the flat history. *)

Lemma issue_busy i s p : cur s = Some p -> issue1 s i = enqueue i s.
Proof. intros H. unfold issue1, issue, enqueue. rewrite H. cbn [is_none andb]. reflexivity. Qed.

Lemma enqueue_cur i s : cur (enqueue i s) = cur s.
Proof. reflexivity. Qed.

Lemma fold_issue_busy inner : forall s p, cur s = Some p -> fold_left issue1 inner s = fold_left enqueue1 inner s.
Proof.
  induction inner as [|i r IH]; intros s p H; cbn [fold_left]; [reflexivity|].
  rewrite (issue_busy i s p H). unfold enqueue1 at 2. apply (IH _ p). rewrite enqueue_cur. exact H.
Qed.

Lemma fold_enqueue_with_cur p inner : forall s, with_cur p (fold_left enqueue1 inner s) = fold_left enqueue1 inner (with_cur p s).
Proof. induction inner as [|i r IH]; intros s; cbn [fold_left]; [reflexivity|]. rewrite IH. reflexivity. Qed.

Lemma fold_enqueue_wrote c inner : forall s, wrote c (fold_left enqueue1 inner s) = fold_left enqueue1 inner (wrote c s).
Proof. induction inner as [|i r IH]; intros s; cbn [fold_left]; [reflexivity|]. rewrite IH. reflexivity. Qed.

Lemma fold_enqueue_len inner : forall s, List.length (sendq (fold_left enqueue1 inner s)) = List.length (sendq s) + List.length inner.
Proof.
  induction inner as [|i r IH]; intros s; cbn [fold_left List.length]; [lia|].
  rewrite IH. unfold enqueue1, enqueue. cbn [sendq]. rewrite sendq_put, app_length. cbn [List.length]. lia.
Qed.

Lemma pump_one_more f : forall s, List.length (sendq s) < f -> pump (S f) s = pump f s.
Proof.
  induction f as [|f IH]; intros s Hl; [lia|].
  cbn [pump]. destruct (cur s) as [p|]; [reflexivity|].
  rewrite sendq_take. destruct (sendq s) as [|c rest] eqn:Eq; [reflexivity|].
  destruct (stalls c); [|reflexivity].
  change (pump (S f) ?x = pump f ?x) with (pump (S f) x = pump f x).
  apply IH. cbn [sendq]. cbn [List.length] in Hl. lia.
Qed.

(* put one more call on the queue of a producer that is about to run = let it run, then issue the call *)
Lemma enqueue_then_pump i : forall q s, sendq s = q -> cur s = None ->
  pump (S (S (List.length q))) (enqueue i s) = issue1 (pump (S (List.length q)) s) i.
Proof.
  induction q as [|c rest IH]; intros s Eq Ec.
  - cbn [List.length].
    assert (E1 : pump 1 s = s). { cbn [pump]. rewrite Ec, sendq_take, Eq. reflexivity. }
    rewrite E1.
    unfold issue1, issue. rewrite idle_test_before_enqueue, Ec, Eq. cbn [is_none is_nil andb fst snd].
    rewrite sendq_put. cbn [app List.length]. unfold enqueue. rewrite Eq, Ec, sendq_put. cbn [app]. reflexivity.
  - cbn [List.length].
    remember (S (List.length rest)) as n eqn:En.
    cbn [pump]. rewrite enqueue_cur, Ec. unfold enqueue at 1. cbn [sendq]. rewrite sendq_put, Eq. cbn [app]. rewrite !sendq_take.
    cbn [next_id wire inq waiting evq trace lost dropped early cut].
    destruct (stalls c) eqn:Es.
    + subst n.
      set (s' := mk (next_id s) rest None (wire s ++ [c]) (inq s) (waiting s) (evq s) (trace s) (lost s) (dropped s) (early s) (cut s)).
      specialize (IH s' eq_refl eq_refl).
      unfold enqueue in IH. subst s'. cbn [next_id sendq cur wire inq waiting evq trace lost dropped early cut] in IH.
      rewrite sendq_put in IH. exact IH.
    + unfold issue1, issue. cbn [cur is_none andb next_id sendq wire inq waiting evq trace lost dropped early cut fst snd].
      rewrite sendq_put. reflexivity.
Qed.

Lemma enqueue_many_then_pump inner : forall s, cur s = None ->
  pump (S (List.length (sendq s) + List.length inner)) (fold_left enqueue1 inner s)
  = fold_left issue1 inner (pump (S (List.length (sendq s))) s).
Proof.
  induction inner as [|i r IH]; intros s Ec; cbn [fold_left List.length].
  - rewrite Nat.add_0_r. reflexivity.
  - unfold enqueue1 at 2.
    assert (El : List.length (sendq (enqueue i s)) = S (List.length (sendq s))).
    { unfold enqueue. cbn [sendq]. rewrite sendq_put, app_length. cbn [List.length]. lia. }
    specialize (IH (enqueue i s) Ec). rewrite El in IH.
    replace (S (List.length (sendq s) + S (List.length r))) with (S (S (List.length (sendq s)) + List.length r)) by lia.
    rewrite IH. rewrite (enqueue_then_pump i (sendq s) s eq_refl Ec). reflexivity.
Qed.
