(* C05: proofs about lib/IdentityKeys.v. *)
From Coq Require Import ZArith List String Bool Lia.
Import ListNotations.
Require Import Verif.lib.PyLite Verif.gen.NegotiateGen Verif.lib.Negotiate Verif.lib.NegotiateProofs
               Verif.gen.IdentityGen Verif.lib.Identity Verif.lib.IdentityProofs Verif.lib.IdentityKeys.
Local Open Scope Z_scope.

Lemma ostr_eqb_refl a : ostr_eqb a a = true.
Proof. apply ostr_eqb_eq. reflexivity. Qed.

(* TubRef.__eq__, derived from the translated _distinguishers: equal exactly when the tubID attributes are equal *)
Theorem tubref_eq a b : tubref_eqb a b = true <-> sr_tub a = sr_tub b.
Proof.
  unfold tubref_eqb, tubref_hkey, tubref_distinguishers. cbn [map field_val fvals_eqb fval_eqb].
  rewrite andb_true_r. apply ostr_eqb_eq.
Qed.

(* WHAT "NAMING X" MEANS: a probe TubRef finds a stored TubRef (equal hashed tuples, and __eq__) exactly when their tubID
   attributes are equal -- location hints play no part *)
Theorem dict_match_iff a b : dict_match a b = true <-> sr_tub a = sr_tub b.
Proof.
  unfold dict_match. rewrite andb_true_iff, tubref_eq. split; [intros [_ H]; exact H|].
  intros H. split; [|exact H]. apply tubref_eq. exact H.
Qed.

Corollary dict_match_ignores_hints a b h1 h2 n1 n2 :
  dict_match {| sr_tub := a; sr_hints := h1; sr_name := n1 |} {| sr_tub := b; sr_hints := h2; sr_name := n2 |} =
  dict_match {| sr_tub := a; sr_hints := []; sr_name := None |} {| sr_tub := b; sr_hints := []; sr_name := None |}.
Proof.
  destruct (dict_match {| sr_tub := a; sr_hints := []; sr_name := None |} {| sr_tub := b; sr_hints := []; sr_name := None |}) eqn:E.
  - apply dict_match_iff in E. apply dict_match_iff. exact E.
  - destruct (dict_match _ _) eqn:E2; [|reflexivity]. apply dict_match_iff in E2. cbn [sr_tub] in E2.
    assert (X : dict_match {| sr_tub := a; sr_hints := []; sr_name := None |} {| sr_tub := b; sr_hints := []; sr_name := None |} = true)
      by (apply dict_match_iff; exact E2).
    congruence.
Qed.

(* the comparison of the translated identity checks (`theirTubRef != self.target`, modelled on ids) is TubRef's own __eq__ *)
Theorem client_check_is_tubref_eq t target :
  ostr_eqb (Some t) (Some (tub_of target)) = true -> sr_tub target <> None -> tubref_eqb (tubref_of_id t) target = true.
Proof.
  intros H Hn. apply tubref_eq. unfold tubref_of_id. cbn [sr_tub]. unfold tub_of in H.
  destruct (sr_tub target) as [x|]; [|contradiction Hn; reflexivity].
  cbv beta iota in H. cbn [ostr_eqb] in H. apply list_eqb_eq in H. subst t. reflexivity.
Qed.

(* ... and conversely (the SAFETY direction): whenever TubRef's own __eq__ says the peer's TubRef equals the dialled one, the id-level
   test of the translated checks passes too -- so `theirTubRef != self.target` refuses exactly what the model's comparison refuses;
   no side condition *)
Theorem client_check_is_tubref_eq_converse t target :
  tubref_eqb (tubref_of_id t) target = true -> ostr_eqb (Some t) (Some (tub_of target)) = true.
Proof.
  intros H. apply tubref_eq in H. unfold tubref_of_id in H. cbn [sr_tub] in H. unfold tub_of. rewrite <- H.
  apply ostr_eqb_eq. reflexivity.
Qed.

Theorem client_check_iff_tubref_eq t target :
  sr_tub target <> None ->
  (ostr_eqb (Some t) (Some (tub_of target)) = true <-> tubref_eqb (tubref_of_id t) target = true).
Proof.
  intros Hn. split; [intros H; apply client_check_is_tubref_eq; assumption|apply client_check_is_tubref_eq_converse].
Qed.

(* the side condition of the completeness direction is needed: a connector whose target TubRef has tubID None (tub_of = "") and a
   peer id "" are equal on ids but not as TubRefs.  (No hello is ever accepted with an empty id: evaluate_bound's t <> [].) *)
Example client_check_side_condition_needed :
  ostr_eqb (Some []) (Some (tub_of {| sr_tub := None; sr_hints := []; sr_name := None |})) = true /\
  tubref_eqb (tubref_of_id []) {| sr_tub := None; sr_hints := []; sr_name := None |} = false.
Proof. vm_compute. split; reflexivity. Qed.

Section KeysProofs.
Variable cert : Type.
Variable tubid_of : cert -> list Z.
Notation kt_find := (kt_find cert).
Notation kstep := (kstep cert tubid_of).
Notation krun := (krun cert tubid_of).

(* an entry is justified when its key's tubID is proven by the certificate of its own transport, or it is the loopback *)
Definition kjust (my : list Z) (e : sref * conn cert) : Prop :=
  (conn_loop cert (snd e) = true /\ sr_tub (fst e) = Some my) \/
  (conn_loop cert (snd e) = false /\ exists t, sr_tub (fst e) = Some t /\ proven cert tubid_of (conn_cert cert (snd e)) t).

Lemma kt_find_in k t e : kt_find k t = Some e -> In e t /\ sr_tub k = sr_tub (fst e).
Proof.
  induction t as [|x r IH]; cbn [IdentityKeys.kt_find]; [discriminate|].
  destruct (dict_match k (fst x)) eqn:E.
  - intros H; inversion H; subst. split; [left; reflexivity|apply dict_match_iff; exact E].
  - intros H. destruct (IH H) as [Hi He]. split; [right; exact Hi|exact He].
Qed.

Lemma kt_remove_subset k (t : ktable cert) e : In e (kt_remove cert k t) -> In e t.
Proof.
  induction t as [|x r IH]; cbn [kt_remove]; [intros []|].
  destruct (dict_match k (fst x)); [intros H; right; apply IH; exact H|].
  intros [H|H]; [left; exact H|right; apply IH; exact H].
Qed.

Lemma k_attached_just my k c t :
  Forall (kjust my) t -> kjust my (k, c) -> Forall (kjust my) (k_attached cert k c t).
Proof. intros Ht Hk. unfold k_attached. destruct (kt_find k t); [exact Ht|constructor; assumption]. Qed.

Lemma kstep_just my t e : Forall (kjust my) t -> Forall (kjust my) (kstep my t e).
Proof.
  intros Ht. destruct e as [r target p claimed arrives|k|k]; cbn [IdentityKeys.kstep].
  - destruct (handle_hello cert tubid_of r my (tub_of target) p claimed) as [w|their master] eqn:EH; [exact Ht|].
    destruct (master || arrives); [|exact Ht].
    apply handle_hello_bound in EH. destruct EH as (crt & Hl & Hh & Hcl & Htgt & Hne & _).
    apply k_attached_just; [exact Ht|]. right. cbn [fst snd conn_loop conn_cert]. split; [reflexivity|].
    destruct r; cbn [is_client].
    + specialize (Htgt eq_refl). exists their. split.
      * unfold tub_of in Htgt. destruct (sr_tub target) as [x|]; [congruence|]. subst their. exfalso. apply Hne. exact Htgt.
      * exists crt. auto.
    + exists their. split; [reflexivity|exists crt; auto].
  - rewrite Forall_forall in *. intros e He. apply Ht. eapply kt_remove_subset. exact He.
  - destruct (getBroker_decide _ _) eqn:ED; try exact Ht.
    apply k_attached_just; [exact Ht|]. left. cbn [fst snd conn_loop]. split; [reflexivity|].
    (* the loopback branch is only taken when the requested tub id is this Tub's own *)
    destruct (kt_find k t); destruct (ostr_eqb (sr_tub k) (Some my)) eqn:E; cbv in ED; try discriminate ED.
    apply ostr_eqb_eq in E. exact E.
Qed.

Theorem krun_just my evs : Forall (kjust my) (krun my evs).
Proof.
  unfold IdentityKeys.krun.
  assert (G : forall t, Forall (kjust my) t -> Forall (kjust my) (fold_left (kstep my) evs t)).
  { induction evs as [|e r IH]; intros t Ht; cbn [fold_left]; [exact Ht|]. apply IH. apply kstep_just. exact Ht. }
  apply G. constructor.
Qed.

(* "getReference on a FURL naming X succeeds over it only if the TLS peer presented a certificate whose hash is X":
   after ANY history, the Broker Tub.brokers finds for the TubRef made from the FURL (whatever its location hints and name) runs
   over a transport whose leaf certificate hashes to the FURL's tub id -- or it is the loopback and the FURL names this Tub.  The
   equality between the probe's and the stored key's tub id comes from the translated __eq__ / __hash__ (dict_match_iff). *)
Theorem getReference_key_proven my evs k c s :
  getReference_broker cert (krun my evs) s = Some (k, c) ->
  sr_tub k = sr_tub s /\
  ((conn_loop cert c = true /\ sr_tub s = Some my) \/
   (conn_loop cert c = false /\ exists x, sr_tub s = Some x /\ proven cert tubid_of (conn_cert cert c) x)).
Proof.
  unfold getReference_broker. intros Hf.
  apply kt_find_in in Hf. destruct Hf as [Hin Heq]. cbn [fst] in Heq.
  unfold getReference_key, sturdy_getTubRef in Heq. cbn [sr_tub] in Heq.
  split; [symmetry; exact Heq|].
  pose proof (krun_just my evs) as J. rewrite Forall_forall in J. specialize (J _ Hin).
  destruct J as [[Hl Hk]|[Hl (t & Hk & Hp)]]; cbn [fst snd] in *.
  - left. split; [exact Hl|congruence].
  - right. split; [exact Hl|]. exists t. split; [congruence|exact Hp].
Qed.

(* two SturdyRefs that name the same tub id -- different hints, different object names -- are served by the same table entry *)
Theorem getReference_same_tub_same_broker (t : ktable cert) s1 s2 :
  sr_tub s1 = sr_tub s2 -> getReference_broker cert t s1 = getReference_broker cert t s2.
Proof.
  intros He. unfold getReference_broker.
  induction t as [|e r IH]; cbn [IdentityKeys.kt_find]; [reflexivity|].
  assert (X : dict_match (getReference_key s1) (fst e) = dict_match (getReference_key s2) (fst e)).
  { destruct (dict_match (getReference_key s2) (fst e)) eqn:E2.
    - apply dict_match_iff in E2. apply dict_match_iff. unfold getReference_key, sturdy_getTubRef in *. cbn [sr_tub] in *. congruence.
    - destruct (dict_match (getReference_key s1) (fst e)) eqn:E1; [|reflexivity].
      apply dict_match_iff in E1. assert (Y : dict_match (getReference_key s2) (fst e) = true).
      { apply dict_match_iff. unfold getReference_key, sturdy_getTubRef in *. cbn [sr_tub] in *. congruence. }
      congruence. }
  rewrite X. destruct (dict_match (getReference_key s2) (fst e)); [reflexivity|exact IH].
Qed.

End KeysProofs.

(* ------------------------------------------------------------------ non-vacuity *)
Definition exk_id : list Z := [97; 97; 98].
Definition exk_tubid (c : Z) : list Z := if c =? 2 then exk_id else [].
Definition exk_table : ktable Z :=
  krun Z exk_tubid [122] [KNegotiated Z Client {| sr_tub := Some exk_id; sr_hints := [[116]]; sr_name := None |}
                                         {| leaf := Some 2; extras := [] |} (Some exk_id) true].

(* the connection was dialled through a TubRef with hint "t"; a SturdyRef with other hints and another name finds the same Broker,
   one that names another tub id (differing in the last character) finds nothing *)
Example exk_same_tub_other_words :
  getReference_broker Z exk_table {| sr_tub := Some exk_id; sr_hints := [[120]; [121]]; sr_name := Some [110] |} =
    Some ({| sr_tub := Some exk_id; sr_hints := [[116]]; sr_name := None |}, {| conn_cert := Some 2; conn_loop := false |}) /\
  getReference_broker Z exk_table {| sr_tub := Some [97; 97; 99]; sr_hints := [[116]]; sr_name := None |} = None.
Proof. vm_compute. split; reflexivity. Qed.
