(* Furl.v -- executable model of furl.decode_furl / encode_furl, SturdyRef / TubRef identity,
   connections.tcp.convert_legacy_hint, the three hint handlers' hint_to_endpoint (up to the
   endpoint constructor) and connection.get_endpoint's choice of handler.
   The patterns, constants and shape facts come from gen/FurlGen.v (translated from the source
   on every run).  Definitions only; proofs are in FurlProofs.v. *)
From Coq Require Import ZArith NArith List String Bool.
Import ListNotations.
Require Import Verif.lib.PyLite Verif.lib.Regex Verif.lib.FurlPrim Verif.gen.FurlGen Verif.lib.Utf8.
Local Open Scope Z_scope.

Definition str := list Z.     (* a Python str: its code points *)


(* ---- str.split(sep) / sep.join(..) for a one-character separator *)
Fixpoint split_on (sep : Z) (s : str) : list str :=
  match s with
  | [] => [[]]
  | x :: s' =>
      if x =? sep then [] :: split_on sep s'
      else match split_on sep s' with
           | h :: t => (x :: h) :: t
           | [] => [[x]]
           end
  end.

Fixpoint join_with (sep : Z) (l : list str) : str :=
  match l with
  | [] => []
  | [a] => a
  | a :: t => a ++ sep :: join_with sep t
  end.

(* ---- base32.is_base32: every character of s.lower() is in the alphabet *)
Fixpoint assocZ {A} (x : Z) (l : list (Z * A)) : option A :=
  match l with
  | [] => None
  | (y, v) :: l' => if x =? y then Some v else assocZ x l'
  end.

(* does c.lower() lie inside the alphabet?  (py_lower_table lists every code point whose
   lower() differs from itself and lies inside the alphabet) *)
Definition base32_char (x : Z) : bool :=
  zmem x BASE32_ALPHABET ||
  match assocZ x py_lower_table with Some lo => forallb (fun y => zmem y BASE32_ALPHABET) lo | None => false end.

Definition is_base32 (s : str) : bool := forallb base32_char s.

(* ---- furl.decode_furl *)
Definition str_is_nil (s : str) : bool := match s with [] => true | _ => false end.

Definition decode_furl (s : str) : res (str * list str * str) :=
  match re_apply AUTH_STURDYREF_RE AUTH_STURDYREF_RE_method s with
  | None => Exc "ValueError"
  | Some c =>
      let tub := firstn TUBID_CUT (group_or_nil 1 c) in
      if negb (is_base32 tub) then Exc "BadFURLError"
      else
        let hs := split_on HINT_SEP (group_or_nil 2 c) in
        let hs := match hs with [[]] => [] | _ => hs end in
        if existsb str_is_nil hs then Exc "BadFURLError"
        else Ok (tub, hs, group_or_nil 3 c)
  end.

Definition encode_furl (tub : str) (hs : list str) (name : str) : str :=
  ENC_PREFIX ++ tub ++ ENC_AT ++ join_with ENC_SEP hs ++ ENC_SLASH ++ name.

(* ---- six.ensure_str on a bytes FURL: bytes.decode("utf-8", "strict").  CPython's decoder: shortest form only,
   no surrogates, nothing above U+10FFFF; anything else is UnicodeDecodeError (a ValueError).  The encoder
   `utf8` / `scalarb` are the ones of lib/Utf8.v (C10) *)
Definition second3 (b c1 : Z) : bool := if b =? 224 then 160 <=? c1 else if b =? 237 then c1 <? 160 else true.
Definition second4 (b c1 : Z) : bool := if b =? 240 then 144 <=? c1 else if b =? 244 then c1 <? 144 else true.

Fixpoint utf8_dec (l : list Z) : option (list Z) :=
  match l with
  | [] => Some []
  | b :: r =>
      if (0 <=? b) && (b <? 128) then option_map (cons b) (utf8_dec r)
      else if (194 <=? b) && (b <? 224) then
        match r with
        | c1 :: r1 => if is_cont c1 then option_map (cons ((b - 192) * 64 + (c1 - 128))) (utf8_dec r1) else None
        | _ => None
        end
      else if (224 <=? b) && (b <? 240) then
        match r with
        | c1 :: c2 :: r2 =>
            if is_cont c1 && is_cont c2 && second3 b c1
            then option_map (cons ((b - 224) * 4096 + (c1 - 128) * 64 + (c2 - 128))) (utf8_dec r2) else None
        | _ => None
        end
      else if (240 <=? b) && (b <? 245) then
        match r with
        | c1 :: c2 :: c3 :: r3 =>
            if is_cont c1 && is_cont c2 && is_cont c3 && second4 b c1
            then option_map (cons ((b - 240) * 262144 + (c1 - 128) * 4096 + (c2 - 128) * 64 + (c3 - 128))) (utf8_dec r3) else None
        | _ => None
        end
      else None
  end.

(* decode_furl applied to a bytes object *)
Definition decode_furl_bytes (b : list Z) : res (str * list str * str) :=
  match utf8_dec b with
  | None => Exc "UnicodeDecodeError"
  | Some s => decode_furl s
  end.

(* ---- SturdyRef / TubRef identity: __eq__ and __hash__ go through _distinguishers() *)
Record sref := { sr_tub : option str; sr_hints : list str; sr_name : option str; sr_url : option str }.

Definition opt_str_eqb (a b : option str) : bool :=
  match a, b with
  | None, None => true
  | Some x, Some y => list_eqb x y
  | _, _ => false
  end.

Fixpoint strs_eqb (a b : list str) : bool :=
  match a, b with
  | [], [] => true
  | x :: a', y :: b' => list_eqb x y && strs_eqb a' b'
  | _, _ => false
  end.

Definition field_eqb (f : idfield) (a b : sref) : bool :=
  match f with
  | FTubID => opt_str_eqb (sr_tub a) (sr_tub b)
  | FName => opt_str_eqb (sr_name a) (sr_name b)
  | FHints => strs_eqb (sr_hints a) (sr_hints b)
  | FUrl => opt_str_eqb (sr_url a) (sr_url b)
  end.

Definition sref_eqb (a b : sref) : bool := forallb (fun f => field_eqb f a b) sturdyref_distinguishers.
Definition tubref_eqb (a b : sref) : bool := forallb (fun f => field_eqb f a b) tubref_distinguishers.

(* the tuple that is hashed *)
Inductive fval := VStr (v : option str) | VStrs (v : list str).
Definition field_val (f : idfield) (a : sref) : fval :=
  match f with
  | FTubID => VStr (sr_tub a)
  | FName => VStr (sr_name a)
  | FHints => VStrs (sr_hints a)
  | FUrl => VStr (sr_url a)
  end.
Definition sref_key (a : sref) : list fval := map (fun f => field_val f a) sturdyref_distinguishers.

(* ---- SturdyRef.__lt__: `self._distinguishers() < them._distinguishers()` *)
(* str < str: code point order, a proper prefix is smaller *)
Fixpoint str_ltb (a b : str) : bool :=
  match a, b with
  | _, [] => false
  | [], _ :: _ => true
  | x :: a', y :: b' => if x <? y then true else if x =? y then str_ltb a' b' else false
  end.

(* tuple comparison of the translated _distinguishers(): the first field on which the two differ decides; a field
   that is None on one side only cannot be ordered (TypeError), hint lists are not part of any key on this tree *)
Fixpoint key_ltb (fs : list idfield) (a b : sref) : res bool :=
  match fs with
  | [] => Ok false
  | f :: fs' =>
      if field_eqb f a b then key_ltb fs' a b
      else match field_val f a, field_val f b with
           | VStr (Some x), VStr (Some y) => Ok (str_ltb x y)
           | _, _ => Exc "TypeError"
           end
  end.
Definition sref_ltb (a b : sref) : res bool := key_ltb sturdyref_distinguishers a b.

(* SturdyRef(url) *)
Definition sturdyref (url : str) : res sref :=
  match decode_furl url with
  | Ok (t, hs, n) => Ok {| sr_tub := Some t; sr_hints := hs; sr_name := Some n; sr_url := Some url |}
  | Exc e => Exc e
  end.

(* ---- int(<digits>) and "%d" *)
Fixpoint digit_val_in (zs : list Z) (x : Z) : option Z :=
  match zs with
  | [] => None
  | z :: zs' => if (z <=? x) && (x <=? z + 9) then Some (x - z) else digit_val_in zs' x
  end.
Definition digit_val (x : Z) : option Z := digit_val_in digit_zeros x.

Fixpoint int_acc (acc : Z) (ds : str) : option Z :=
  match ds with
  | [] => Some acc
  | d :: ds' => match digit_val d with Some v => int_acc (acc * 10 + v) ds' | None => None end
  end.

(* int(s) for s made of decimal digits; anything else (empty, non-digit, more digits than
   sys.get_int_max_str_digits()) is a ValueError *)
Definition py_int (ds : str) : res Z :=
  match ds with
  | [] => Exc "ValueError"
  | _ => if (0 <? INT_MAX_STR_DIGITS) && (INT_MAX_STR_DIGITS <? Z.of_nat (List.length ds)) then Exc "ValueError"
         else match int_acc 0 ds with Some v => Ok v | None => Exc "ValueError" end
  end.

(* "%d" % n for 0 <= n; fuel = number of digits allowed *)
Fixpoint dec_digits (fuel : nat) (n : Z) (acc : str) : str :=
  match fuel with
  | O => acc
  | S f => let acc' := (48 + n mod 10) :: acc in
           if n / 10 =? 0 then acc' else dec_digits f (n / 10) acc'
  end.
Definition py_dec (n : Z) : str := dec_digits (S (Z.to_nat (Z.log2 (Z.max n 1)))) n [].

(* ---- connections/tcp.py convert_legacy_hint *)
Definition TCP_PREFIX : str := [116; 99; 112; 58].   (* "tcp:" of the format string 'tcp:%s:%d' *)

Definition convert_legacy_hint (loc : str) : res str :=
  match re_apply OLD_STYLE_HINT_RE OLD_STYLE_HINT_RE_method loc with
  | Some c =>
      match py_int (group_or_nil 2 c) with
      | Ok port => Ok (TCP_PREFIX ++ group_or_nil 1 c ++ [58] ++ py_dec port)
      | Exc e => Exc e
      end
  | None => Ok loc
  end.

(* ---- the three handlers *)
Inductive endpoint :=
| EpTcp (host : str) (port : Z)            (* HostnameEndpoint(reactor, host, port) *)
| EpTor (host : str) (port : Z)            (* txtorcon.TorClientEndpoint(host, port, ..) *)
| EpI2p (host : str) (port : option Z).    (* SAMI2PStreamClientEndpoint.new(sam, host, port) *)

Fixpoint lstrip (x : Z) (s : str) : str :=
  match s with y :: s' => if y =? x then lstrip x s' else s | [] => [] end.
Definition rstrip (x : Z) (s : str) : str := rev (lstrip x (rev s)).

Definition invalid {A} : res A := Exc "InvalidHintError".

Definition tcp_hint_to_endpoint (hint : str) : res endpoint :=
  match re_apply NEW_STYLE_HINT_RE NEW_STYLE_HINT_RE_method hint with
  | None => invalid
  | Some c =>
      match py_int (group_or_nil 2 c) with
      | Exc e => Exc e
      | Ok port => Ok (EpTcp (rstrip 93 (lstrip 91 (group_or_nil 1 c))) port)
      end
  end.

(* `nonpublic` stands for tor.is_non_public_numeric_address (ipaddress module) *)
Definition tor_hint_to_endpoint (nonpublic : str -> bool) (hint : str) : res endpoint :=
  match re_apply TOR_HINT_RE TOR_HINT_RE_method hint with
  | None => invalid
  | Some c =>
      match py_int (group_or_nil 2 c) with
      | Exc e => Exc e
      | Ok port => if nonpublic (group_or_nil 1 c) then invalid else Ok (EpTor (group_or_nil 1 c) port)
      end
  end.

(* _RunningI2P keeps the keyword arguments it was created with; `dflt` = Some d when they contain port=d
   (i2p.default(reactor, port=d) / i2p.sam_endpoint(ep, port=d)).  The code pops 'port' from the copy of the
   Before commit 733f931 the code popped 'port' from the copy of the kwargs only when the hint had no port (or port 0);
   otherwise the hint's port was passed positionally AND port=d by keyword, which Python rejects with TypeError
   (pops = false).  Since 733f931 'port' is always popped and used when the hint has no non-zero port of its own
   (pops = true).  `pops` = the translated shape fact FurlGen.I2P_POPS_PORT, so both forms stay in the model. *)
Definition i2p_hint_to_endpoint (pops : bool) (dflt : option Z) (hint : str) : res endpoint :=
  match re_apply I2P_HINT_RE I2P_HINT_RE_method hint with
  | None => invalid
  | Some c =>
      let host := group_or_nil 1 c in
      let portnum : res (option Z) :=
        match group 3 c with
        | None | Some [] => Ok None                             (* `if mo.group(3)` is false *)
        | Some ds => match py_int ds with Exc e => Exc e | Ok port => Ok (Some port) end
        end in
      match portnum with
      | Exc e => Exc e
      | Ok pn =>
          let falsy := match pn with None => true | Some v => v =? 0 end in     (* `not portnum` *)
          if pops then Ok (EpI2p host (if falsy then dflt else pn))       (* 733f931: own non-zero port, else the default / None *)
          else match dflt with
               | None => Ok (EpI2p host pn)
               | Some d => if falsy then Ok (EpI2p host (Some d)) else Exc "TypeError"
               end
      end
  end.

(* a registered handler: one of foolscap's three, or any third-party plugin, abstracted to what its
   hint_to_endpoint does with a hint (an endpoint, or the class name of the exception it raises) *)
Inductive hkind := KTcp | KTor | KI2p (dflt : option Z) | KPlugin (f : str -> res endpoint).

Definition hint_to_endpoint_gen (pops : bool) (nonpublic : str -> bool) (kd : hkind) (hint : str) : res endpoint :=
  match kd with
  | KTcp => tcp_hint_to_endpoint hint
  | KTor => tor_hint_to_endpoint nonpublic hint
  | KI2p dflt => i2p_hint_to_endpoint pops dflt hint
  | KPlugin f => f hint
  end.
Definition hint_to_endpoint := hint_to_endpoint_gen I2P_POPS_PORT.

(* ---- connection.get_endpoint: convert, find the type before the first ':', look up the plugin *)
Fixpoint lookup_handler (ty : str) (hs : list (str * hkind)) : option hkind :=
  match hs with
  | [] => None
  | (n, kd) :: hs' => if list_eqb ty n then Some kd else lookup_handler ty hs'
  end.

(* the dispatch itself is the GENERATED term FurlGen.get_endpoint_shape (connection.get_endpoint's _try read statement
   by statement); here it is instantiated with the legacy conversion, the handler table and the handlers of this model *)
Definition get_endpoint_gen (pops : bool) (handlers : list (str * hkind)) (nonpublic : str -> bool) (loc : str) : res endpoint :=
  get_endpoint_shape convert_legacy_hint (fun ty => lookup_handler ty handlers)
                     (fun kd hint => hint_to_endpoint_gen pops nonpublic kd hint) loc.
Definition get_endpoint := get_endpoint_gen I2P_POPS_PORT.

(* ---- vocabulary of the step-count theorems about the FURL pattern (FurlProofs.v section 1) *)
(* the pattern with a leading `^`: what `.match()` / an anchored pattern would try (position 0 only) *)
Definition anchored (p : pattern) : pattern := {| p_anch := true; p_body := p_body p; p_groups := p_groups p |}.

Fixpoint prefixb (w s : list Z) : bool :=
  match w, s with
  | [], _ => true
  | a :: w', x :: s' => (x =? a) && prefixb w' s'
  | _ :: _, [] => false
  end.

(* number of positions of s at which the word w starts *)
Fixpoint occ (w s : list Z) : N :=
  match s with
  | [] => 0%N
  | _ :: s' => ((if prefixb w s then 1 else 0) + occ w s')%N
  end.

(* "pb://" k times: the family of the known finding oracle/furl-quadratic *)
Definition pb_repeat (k : nat) : list Z := List.concat (repeat ENC_PREFIX k).

(* compact observation codes for the correspondence check *)
Definition ep_code (r : res endpoint) : list (list Z) :=
  match r with
  | Ok (EpTcp h p) => [[1]; h; [p]]
  | Ok (EpTor h p) => [[2]; h; [p]]
  | Ok (EpI2p h (Some p)) => [[3]; h; [p]]
  | Ok (EpI2p h None) => [[3]; h; []]
  | Exc e => if String.eqb e "InvalidHintError" then [[0]] else if String.eqb e "ValueError" then [[-1]]
             else if String.eqb e "TypeError" then [[-3]] else if String.eqb e "KeyError" then [[-4]] else [[-2]]
  end.

Definition furl_code (r : res (str * list str * str)) : list (list Z) :=
  match r with
  | Ok (t, hs, n) => [1] :: t :: n :: hs
  | Exc e => if String.eqb e "BadFURLError" then [[0]] else if String.eqb e "ValueError" then [[-1]]
             else if String.eqb e "UnicodeDecodeError" then [[-3]] else [[-2]]
  end.
