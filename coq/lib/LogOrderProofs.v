(* C18: "subscribers see an order-preserving subsequence" END TO END: logger (lib/LogBuf.v step / run) composed with the
   Subscription machine (sub_step) and subscribe(catch_up): what a subscriber is handed -- the catch-up batch, then what
   start_sending delivers, then what still waits in the queue -- is in event-number order, the catch-up part entirely
   before the live part, for every history, every schedule of turns / acknowledgements / failures, any limits. *)
From Coq Require Import ZArith List Bool Lia Sorting.Sorted Sorting.Permutation.
Import ListNotations.
Require Import Verif.lib.PyLite Verif.gen.LogBufGen Verif.lib.LogBuf Verif.lib.LogBufProofs.
Local Open Scope Z_scope.

(* ---------------------------------------------------------------- lists *)
Lemma subseq_trans {A} (a b : list A) : subseq a b -> forall c, subseq b c -> subseq a c.
Proof.
  intros H1 c H2. revert a H1. induction H2 as [m | x l m H IH | x l m H IH]; intros a H1.
  - inversion H1; subst. constructor.
  - inversion H1; subst; [constructor | apply ss_cons, IH; assumption | apply ss_skip, IH; assumption].
  - apply ss_skip, IH, H1.
Qed.

Lemma subseq_Forall {A} (P : A -> Prop) (l m : list A) : subseq l m -> Forall P m -> Forall P l.
Proof.
  induction 1 as [m | x l m H IH | x l m H IH]; intros F; [constructor| |].
  - inversion F; subst. constructor; [assumption | apply IH; assumption].
  - inversion F; subst. apply IH; assumption.
Qed.

Lemma subseq_sorted {A} (R : A -> A -> Prop) (l m : list A) : subseq l m -> StronglySorted R m -> StronglySorted R l.
Proof.
  induction 1 as [m | x l m H IH | x l m H IH]; intros S; [constructor| |].
  - inversion S; subst. constructor; [apply IH; assumption | eapply subseq_Forall; eassumption].
  - inversion S; subst. apply IH; assumption.
Qed.

Lemma subseq_app_skip {A} (l m p : list A) : subseq l m -> subseq l (p ++ m).
Proof. intros H. induction p; cbn [app]; [exact H | apply ss_skip; assumption]. Qed.

Lemma subseq_app_both {A} (p l m : list A) : subseq l m -> subseq (p ++ l) (p ++ m).
Proof. intros H. induction p; cbn [app]; [exact H | apply ss_cons; assumption]. Qed.

Lemma sorted_app {A} (R : A -> A -> Prop) (a b : list A) :
  StronglySorted R a -> StronglySorted R b -> (forall x y, In x a -> In y b -> R x y) -> StronglySorted R (a ++ b).
Proof.
  induction a as [|x a IH]; intros Sa Sb H; cbn [app]; [exact Sb|]. inversion Sa; subst. constructor.
  - apply IH; [assumption | assumption | intros; apply H; [right|]; assumption].
  - apply Forall_app. split; [assumption|]. apply Forall_forall. intros y Hy. apply H; [left; reflexivity | exact Hy].
Qed.

Lemma sorted_map_num l : StronglySorted num_le l -> StronglySorted Z.le (map e_num l).
Proof.
  induction 1 as [|x l S IH F]; cbn [map]; constructor; [exact IH|].
  apply Forall_forall. intros n Hn. apply in_map_iff in Hn. destruct Hn as (y & <- & Hy).
  rewrite Forall_forall in F. exact (F y Hy).
Qed.

(* ---------------------------------------------------------------- what the buffers hold *)
Lemma aget_in {V} (k : Z) (l : list (Z * V)) v : aget k l = Some v -> exists k', In (k', v) l.
Proof.
  induction l as [|[k' v'] t IH]; intros Hv; [discriminate|]. cbn [aget] in Hv.
  destruct (k =? k'); [inversion Hv; subst; exists k'; left; reflexivity|].
  destruct (IH Hv) as [k2 Hk2]. exists k2. right. exact Hk2.
Qed.

Lemma aset_in {V} (k : Z) (v : V) l k' v' : In (k', v') (aset k v l) -> v' = v \/ In (k', v') l.
Proof.
  induction l as [|[k0 v0] t IH]; cbn [aset].
  - intros [H|[]]. inversion H; left; reflexivity.
  - destruct (k =? k0).
    + intros [H|H]; [inversion H; left; reflexivity | right; right; exact H].
    + intros [H|H]; [right; left; exact H|]. destruct (IH H) as [ -> |H']; [left; reflexivity | right; right; exact H'].
Qed.

Lemma buf_get_in_all b f l x : In x (buf_get b f l) -> In x (all_buffered b).
Proof.
  unfold buf_get, dict_of, all_buffered. destruct (aget f b) as [d|] eqn:E1; [|intros []].
  destruct (aget l d) as [q|] eqn:E2; [|intros []]. intros Hx.
  destruct (aget_in _ _ _ E1) as [kf Hf]. destruct (aget_in _ _ _ E2) as [kl Hl].
  apply in_flat_map. exists (kf, d). split; [exact Hf|]. cbn [snd]. apply in_flat_map. exists (kl, q). split; assumption.
Qed.

Lemma all_buffered_buf_set b f l q x : In x (all_buffered (buf_set b f l q)) -> In x q \/ In x (all_buffered b).
Proof.
  unfold all_buffered, buf_set. intros H. apply in_flat_map in H. destruct H as ([kf d] & Hd & Hx). cbn [snd] in Hx.
  destruct (aset_in _ _ _ _ _ Hd) as [ -> |Hd'].
  - apply in_flat_map in Hx. destruct Hx as ([kl q'] & Hq & Hx). cbn [snd] in Hx.
    destruct (aset_in _ _ _ _ _ Hq) as [ -> |Hq']; [left; exact Hx|]. right.
    unfold dict_of in Hq'. destruct (aget f b) as [d0|] eqn:E; [|destruct Hq'].
    destruct (aget_in _ _ _ E) as [k0 H0]. apply in_flat_map. exists (k0, d0). split; [exact H0|].
    cbn [snd]. apply in_flat_map. exists (kl, q'). split; assumption.
  - right. apply in_flat_map. exists (kf, d). split; assumption.
Qed.

Lemma skipn_in {A} k (l : list A) x : In x (skipn k l) -> In x l.
Proof. revert l. induction k as [|k IH]; intros l H; [exact H|]. destruct l; [destruct H|]. right. apply IH. exact H. Qed.

Lemma add_event_bufs_in c sz b i e x : In x (all_buffered (x_bufs (add_event c sz b i e))) -> In x (all_buffered b) \/ x = e.
Proof.
  destruct (add_event_x_bufs c sz b i e) as (q' & -> & (k & ->) & _). intros H.
  assert (G : In x (buf_get b (e_fac e) (e_lvl e) ++ [e]) -> In x (all_buffered b) \/ x = e).
  { intros Hx. apply in_app_or in Hx. destruct Hx as [Hx|[ <- |[]]]; [left; eapply buf_get_in_all; exact Hx | right; reflexivity]. }
  apply all_buffered_buf_set in H. destruct H as [H|H]; [apply G; eapply skipn_in; exact H|].
  apply all_buffered_buf_set in H. destruct H as [H|H]; [apply G; exact H | left; exact H].
Qed.

Lemma msg_inner_bufs_in c s e x :
  In x (all_buffered (s_bufs (fst (fst (msg_inner c s e))))) -> In x (all_buffered (s_bufs s)) \/ x = e.
Proof.
  unfold msg_inner. destruct (cmpZ threshold_drop_cmp (e_lvl e) (threshold_of (s_thr s) (e_fac e))); cbn [fst s_bufs];
    [left; assumption | apply add_event_bufs_in].
Qed.

Lemma msg_inner_seq' c s e : s_seq (fst (fst (msg_inner c s e))) = s_seq s.
Proof. apply msg_inner_seq. Qed.

(* every buffered event carries a number the logger has already handed out *)
Definition nums_le_seq (s : st) : Prop := forall x, In x (all_buffered (s_bufs s)) -> e_num x <= s_seq s.

Lemma fallback_bufs_in c s num id rp x :
  In x (all_buffered (s_bufs (fst (fallback c s num id rp)))) -> In x (all_buffered (s_bufs s)) \/ e_num x = num.
Proof.
  unfold fallback. destruct rp; [|left; assumption].
  destruct (msg_inner c s _) as [[s2 r2] n2] eqn:E. cbn [fst]. intros H.
  assert (H' : In x (all_buffered (s_bufs (fst (fst (msg_inner c s (mkEv num FAC_INTERNAL fallback_level true (fallback_id id)))))))) by (rewrite E; exact H).
  apply msg_inner_bufs_in in H'. destruct H' as [H'| -> ]; [left; exact H' | right; reflexivity].
Qed.

Lemma end_of_call_bufs s n : s_bufs (end_of_call s n) = s_bufs s.
Proof. reflexivity. Qed.

Lemma step_nums_le c s o : auto_only o -> nums_le_seq s -> nums_le_seq (fst (step c s o)).
Proof.
  intros Ha Hi. destruct o as [numo fac lvl ok rp id | rp id | f l n | f l | ]; cbn [step].
  - destruct numo as [n|]; [destruct Ha|]. rewrite next_num_spec.
    set (s0 := mkSt (s_seq s + 1) (s_sizes s) (s_thr s) (s_bufs s) (s_inc s)).
    set (e := mkEv (s_seq s + 1) fac lvl ok id).
    pose proof (msg_inner_bufs_in c s0 e) as B1. pose proof (msg_inner_seq c s0 e) as Q1.
    destruct (msg_inner c s0 e) as [[s1 raised] n1]. cbn [fst] in B1, Q1.
    assert (I1 : forall x, In x (all_buffered (s_bufs s1)) -> e_num x <= s_seq s + 1).
    { intros x Hx. destruct (B1 x Hx) as [H| -> ]; [specialize (Hi x H); lia | cbn; lia]. }
    destruct raised; [destruct msg_catch_all|].
    + pose proof (fallback_bufs_in c s1 (s_seq s + 1) id rp) as B2. pose proof (fallback_seq c s1 (s_seq s + 1) id rp) as Q2.
      destruct (fallback c s1 (s_seq s + 1) id rp) as [s2 n2]. cbn [fst] in *. intros x Hx.
      rewrite end_of_call_bufs in Hx. rewrite end_of_call_seq, Q2, Q1. cbn [s_seq s0].
      destruct (B2 x Hx) as [H|H]; [apply I1; exact H | lia].
    + cbn [fst]. intros x Hx. rewrite end_of_call_bufs in Hx. rewrite end_of_call_seq, Q1. apply I1. exact Hx.
    + cbn [fst]. intros x Hx. rewrite end_of_call_bufs in Hx. rewrite end_of_call_seq, Q1. apply I1. exact Hx.
  - rewrite next_num_spec. set (s0 := mkSt (s_seq s + 1) (s_sizes s) (s_thr s) (s_bufs s) (s_inc s)).
    destruct msg_catch_all.
    + pose proof (fallback_bufs_in c s0 (s_seq s + 1) id rp) as B2. pose proof (fallback_seq c s0 (s_seq s + 1) id rp) as Q2.
      destruct (fallback c s0 (s_seq s + 1) id rp) as [s2 n2]. cbn [fst] in *. intros x Hx.
      rewrite end_of_call_bufs in Hx. rewrite end_of_call_seq, Q2. cbn [s_seq s0].
      destruct (B2 x Hx) as [H|H]; [specialize (Hi x H); lia | lia].
    + cbn [fst]. intros x Hx. cbn in Hx. specialize (Hi x Hx). cbn [s_seq s0]. lia.
  - exact Hi.
  - exact Hi.
  - destruct (i_rep (s_inc s)) as [r|]; [destruct (r_timer r)|]; exact Hi.
Qed.

Lemma run_nums_le c ops : forall s, Forall auto_only ops -> nums_le_seq s -> nums_le_seq (fst (run c s ops)).
Proof.
  induction ops as [|o t IH]; intros s Ha Hi; [exact Hi|]. inversion Ha; subst. cbn [run].
  pose proof (step_nums_le c s o H1 Hi) as H. destruct (step c s o) as [s1 r]. cbn [fst] in H.
  specialize (IH s1 H2 H). destruct (run c s1 t) as [s2 rs]. exact IH.
Qed.

Lemma init_nums_le : nums_le_seq init.
Proof. intros x []. Qed.

(* ---------------------------------------------------------------- what immediate observers are handed *)
Lemma msg_sends_num c s e x : In x (msg_sends c s e) -> x = e.
Proof.
  unfold msg_sends. destruct (cmpZ _ _ _); [intros []|]. destruct (immediate_sees _ _ _ _ _); [intros [ <- |[]]; reflexivity | intros []].
Qed.

Lemma step_sends_num c s o x : auto_only o -> In x (step_sends c s o) -> e_num x = s_seq s + 1 /\ is_auto o = true.
Proof.
  intros Ha. destruct o as [numo fac lvl ok rp id | rp id | f l n | f l | ]; cbn [step_sends]; try (intros []).
  - destruct numo as [n|]; [destruct Ha|]. rewrite next_num_spec.
    destruct (msg_inner c _ _) as [[s1 raised] n1]. intros H. apply in_app_or in H. destruct H as [H|H].
    + apply msg_sends_num in H. subst x. split; reflexivity.
    + destruct (raised && msg_catch_all && rp); [|destruct H]. apply msg_sends_num in H. subst x. split; reflexivity.
  - rewrite next_num_spec. destruct (msg_catch_all && rp); [|intros []]. intros H. apply msg_sends_num in H. subst x. split; reflexivity.
Qed.

Lemma run_sends_sorted c ops : forall s, Forall auto_only ops ->
  StronglySorted Z.le (map e_num (run_sends c s ops)) /\ Forall (fun n => s_seq s < n) (map e_num (run_sends c s ops)).
Proof.
  induction ops as [|o t IH]; intros s Ha; [split; constructor|]. inversion Ha; subst. cbn [run_sends].
  pose proof (step_seq c s o) as Q. destruct (IH (fst (step c s o)) H2) as [S F]. rewrite map_app.
  assert (B : forall n, In n (map e_num (step_sends c s o)) -> n = s_seq s + 1 /\ is_auto o = true).
  { intros n Hn. apply in_map_iff in Hn. destruct Hn as (x & <- & Hx). apply (step_sends_num c s o x H1 Hx). }
  split.
  - apply sorted_app; [| exact S |].
    + assert (G : forall l, (forall n, In n l -> n = s_seq s + 1) -> StronglySorted Z.le l).
      { induction l as [|a l IHl]; intros Hl; constructor; [apply IHl; intros; apply Hl; right; assumption|].
        apply Forall_forall. intros y Hy. rewrite (Hl a (or_introl eq_refl)), (Hl y (or_intror Hy)). lia. }
      apply G. intros n Hn. apply B. exact Hn.
    + intros x y Hx Hy. destruct (B x Hx) as [-> Au]. rewrite Au in Q. rewrite Forall_forall in F. specialize (F y Hy). lia.
  - apply Forall_app. split.
    + apply Forall_forall. intros n Hn. destruct (B n Hn) as [-> _]. lia.
    + eapply Forall_impl; [|exact F]. cbn beta. intros n Hn. destruct (is_auto o); lia.
Qed.

(* ---------------------------------------------------------------- the Subscription side *)
Lemma sub_emitted_subseq maxq maxfl sops : forall q, subseq (q_emitted (fold_left (sub_step maxq maxfl) sops q)) (q_emitted q ++ sends_of sops).
Proof.
  induction sops as [|o t IH]; intros q; cbn [fold_left sends_of flat_map].
  - rewrite app_nil_r. apply subseq_refl.
  - eapply subseq_trans; [apply IH|]. destruct o as [e| | |]; cbn [sub_step app].
    + destruct (q_subscribed q); cbn [q_emitted].
      * rewrite <- app_assoc. apply subseq_refl.
      * apply subseq_app_both. apply ss_skip. apply subseq_refl.
    + destruct (q_marked q); [|apply subseq_refl].
      destruct (drain _ _ _ _ _ _) as [[[a b] c0] d]. apply subseq_refl.
    + destruct (0 <? q_outstanding q); apply subseq_refl.
    + destruct (0 <? q_outstanding q); apply subseq_refl.
Qed.

(* the in-flight window: the number of remote calls that are neither acknowledged nor failed never exceeds the counter,
   and the counter never exceeds MAX_IN_FLIGHT *)
Theorem subscriber_window maxq maxfl ops : 0 <= maxq -> 0 <= maxfl ->
  let s := sub_run maxq maxfl ops in 0 <= q_outstanding s <= q_inflight s /\ q_inflight s <= maxfl.
Proof.
  intros Hq Hf. cbv zeta. unfold sub_run.
  destruct (sub_run_inv maxq maxfl ops sub_init Hq (sub_init_inv maxq maxfl Hq Hf)) as (_ & H2 & H3 & H4 & _). lia.
Qed.

(* ---------------------------------------------------------------- end to end *)
Theorem subscriber_sees_ordered c pre ops sops catch_up maxq maxfl :
  0 <= maxq -> 0 <= maxfl -> Forall auto_only pre -> Forall auto_only ops ->
  let s0 := fst (run c init pre) in
  sends_of sops = map e_num (run_sends c s0 ops) ->
  let q0 := fst (sub_subscribe catch_up (s_bufs s0)) in
  let direct := snd (sub_subscribe catch_up (s_bufs s0)) in
  let q := fold_left (sub_step maxq maxfl) sops q0 in
  StronglySorted Z.le (map e_num direct ++ q_delivered q ++ q_queue q) /\
  Forall (fun n => n <= s_seq s0) (map e_num direct) /\
  Forall (fun n => s_seq s0 < n) (q_delivered q ++ q_queue q) /\
  subseq (q_delivered q ++ q_queue q) (sends_of sops) /\
  (catch_up = true -> Permutation direct (all_buffered (s_bufs s0))).
Proof.
  intros Hq Hf Hpre Hops s0 Hs q0 direct q.
  assert (I0 : nums_le_seq s0) by (apply run_nums_le; [exact Hpre | exact init_nums_le]).
  destruct (run_sends_sorted c ops s0 Hops) as [S F]. rewrite <- Hs in S, F.
  assert (Q0 : q0 = sub_init) by (unfold q0, sub_subscribe; destruct catchup; reflexivity).
  assert (D : direct = if catch_up then sort_by_num (all_buffered (s_bufs s0)) else [])
    by (unfold direct, sub_subscribe; destruct catchup; reflexivity).
  assert (SS : subseq (q_delivered q ++ q_queue q) (sends_of sops)).
  { eapply subseq_trans; [|pose proof (sub_emitted_subseq maxq maxfl sops q0) as E; rewrite Q0 in E; cbn [q_emitted sub_init app] in E; rewrite Q0; exact E].
    pose proof (sub_run_inv maxq maxfl sops sub_init Hq (sub_init_inv maxq maxfl Hq Hf)) as (_ & _ & _ & _ & H5).
    unfold q. rewrite Q0. exact H5. }
  assert (Dle : Forall (fun n => n <= s_seq s0) (map e_num direct)).
  { apply Forall_forall. intros n Hn. apply in_map_iff in Hn. destruct Hn as (x & <- & Hx). apply I0.
    rewrite D in Hx. destruct catch_up; [apply sort_in; exact Hx | destruct Hx]. }
  assert (Lgt : Forall (fun n => s_seq s0 < n) (q_delivered q ++ q_queue q)) by (eapply subseq_Forall; eassumption).
  split; [|split; [exact Dle|split; [exact Lgt|split; [exact SS|]]]].
  - apply sorted_app.
    + rewrite D. destruct catch_up; [apply sorted_map_num, sort_sorted | constructor].
    + eapply subseq_sorted; eassumption.
    + intros x y Hx Hy. rewrite Forall_forall in Dle, Lgt. specialize (Dle x Hx). specialize (Lgt y Hy). lia.
  - intros ->. rewrite D. apply sort_perm.
Qed.

(* non-vacuity: three buffered events, catch-up, then five live ones (one below the threshold set in between), a slow subscriber *)
Example ex_sees_ordered :
  let c := mkCfg false false NoFault in
  let pre := [Msg None 0 20 true true 0; Msg None 2 30 true true 1; MsgBad true 2] in
  let ops := [Msg None 0 20 true true 3; SetThr 0 25; Msg None 0 20 true true 4; Msg None 0 30 true true 5; Msg None 2 20 true true 6] in
  let sops := [Send 3; Turn; Send 5; Ack; Send 6; Turn] in
  Forall auto_only pre /\ Forall auto_only ops /\
  sends_of sops = map e_num (run_sends c (fst (run c init pre)) ops) /\
  let q := fold_left (sub_step 2 1) sops (fst (sub_subscribe true (s_bufs (fst (run c init pre))))) in
  map e_num (snd (sub_subscribe true (s_bufs (fst (run c init pre))))) = [0; 1; 2] /\ q_delivered q = [3; 5] /\ q_queue q = [6].
Proof.
  cbv zeta. split; [repeat constructor|]. split; [repeat constructor|]. split; [vm_compute; reflexivity|].
  split; [vm_compute; reflexivity|]. split; vm_compute; reflexivity.
Qed.
