(* C18: "subscribers see an order-preserving subsequence" END TO END: logger (lib/LogBuf.v step / run) composed with the
   Subscription machine (sub_step) and subscribe(catch_up): what a subscriber is handed -- the catch-up batch, then what
   start_sending delivers, then what still waits in the queue -- is in event-number order, the catch-up part entirely
   before the live part, for every history, every schedule of turns / acknowledgements / failures, any limits. *)
From Coq Require Import ZArith List Bool Lia Sorting.Sorted Sorting.Permutation.
Import ListNotations.
Require Import Verif.lib.PyLite Verif.gen.LogBufGen Verif.lib.LogBuf Verif.lib.LogBufProofs.
Local Open Scope Z_scope.

(* ---------------------------------------------------------------- lists *)
Lemma subseq_trans {A} (a b : list A) : subseq a b -> forall c, subseq b c -> subseq a c.
Proof.
  intros H1 c H2. revert a H1. induction H2 as [m | x l m H IH | x l m H IH]; intros a H1.
  - inversion H1; subst. constructor.
  - inversion H1; subst; [constructor | apply ss_cons, IH; assumption | apply ss_skip, IH; assumption].
  - apply ss_skip, IH, H1.
Qed.

Lemma subseq_Forall {A} (P : A -> Prop) (l m : list A) : subseq l m -> Forall P m -> Forall P l.
Proof.
  induction 1 as [m | x l m H IH | x l m H IH]; intros F; [constructor| |].
  - inversion F; subst. constructor; [assumption | apply IH; assumption].
  - inversion F; subst. apply IH; assumption.
Qed.

Lemma subseq_sorted {A} (R : A -> A -> Prop) (l m : list A) : subseq l m -> StronglySorted R m -> StronglySorted R l.
Proof.
  induction 1 as [m | x l m H IH | x l m H IH]; intros S; [constructor| |].
  - inversion S; subst. constructor; [apply IH; assumption | eapply subseq_Forall; eassumption].
  - inversion S; subst. apply IH; assumption.
Qed.

Lemma subseq_app_skip {A} (l m p : list A) : subseq l m -> subseq l (p ++ m).
Proof. intros H. induction p; cbn [app]; [exact H | apply ss_skip; assumption]. Qed.

Lemma subseq_app_both {A} (p l m : list A) : subseq l m -> subseq (p ++ l) (p ++ m).
Proof. intros H. induction p; cbn [app]; [exact H | apply ss_cons; assumption]. Qed.

Lemma sorted_app {A} (R : A -> A -> Prop) (a b : list A) :
  StronglySorted R a -> StronglySorted R b -> (forall x y, In x a -> In y b -> R x y) -> StronglySorted R (a ++ b).
Proof.
  induction a as [|x a IH]; intros Sa Sb H; cbn [app]; [exact Sb|]. inversion Sa; subst. constructor.
  - apply IH; [assumption | assumption | intros; apply H; [right|]; assumption].
  - apply Forall_app. split; [assumption|]. apply Forall_forall. intros y Hy. apply H; [left; reflexivity | exact Hy].
Qed.

Lemma sorted_map_num l : (forall x, In x l -> is_int x = true) -> StronglySorted int_num_le l -> StronglySorted Z.le (map e_num l).
Proof.
  intros Hi. induction 1 as [|x l S IH F]; cbn [map]; constructor; [apply IH; intros; apply Hi; right; assumption|].
  apply Forall_forall. intros n Hn. apply in_map_iff in Hn. destruct Hn as (y & <- & Hy).
  rewrite Forall_forall in F. apply (F y Hy); apply Hi; [left; reflexivity | right; exact Hy].
Qed.

(* ---------------------------------------------------------------- what the buffers hold: lib/LogBufProofs.v, section B' *)
Lemma msg_inner_seq' c s e : s_seq (fst (fst (msg_inner c s e))) = s_seq s.
Proof. apply msg_inner_seq. Qed.

(* every buffered event carries a number the logger has already handed out *)
Definition nums_le_seq (s : st) : Prop := forall x, In x (all_buffered (s_bufs s)) -> e_numk x = NumInt /\ e_num x <= s_seq s.

Lemma fallback_bufs_in c s num id rp k x :
  In x (all_buffered (s_bufs (fst (fallback c s num id rp k)))) -> In x (all_buffered (s_bufs s)) \/ (e_num x = num /\ e_numk x = k).
Proof.
  unfold fallback. destruct rp; [|left; assumption].
  destruct (msg_inner c s _) as [[s2 r2] n2] eqn:E. cbn [fst]. intros H.
  assert (H' : In x (all_buffered (s_bufs (fst (fst (msg_inner c s (mkEv num FAC_INTERNAL fallback_level true (fallback_id id) k))))))) by (rewrite E; exact H).
  apply msg_inner_bufs_in in H'. destruct H' as [H'| -> ]; [left; exact H' | right; split; reflexivity].
Qed.

Lemma end_of_call_bufs s n : s_bufs (end_of_call s n) = s_bufs s.
Proof. reflexivity. Qed.

Lemma step_nums_le c s o : auto_only o -> nums_le_seq s -> nums_le_seq (fst (step c s o)).
Proof.
  intros Ha Hi. destruct o as [numo fac lvl ok rp id | rp id | f l n | f l | ]; cbn [step].
  - destruct numo as [n|]; [destruct Ha|]. rewrite next_num_spec.
    set (s0 := mkSt (s_seq s + 1) (s_sizes s) (s_thr s) (s_bufs s) (s_inc s)).
    change (kind_of None) with NumInt.
    set (e := mkEv (s_seq s + 1) fac lvl ok id NumInt).
    pose proof (msg_inner_bufs_in c s0 e) as B1. pose proof (msg_inner_seq c s0 e) as Q1.
    destruct (msg_inner c s0 e) as [[s1 raised] n1]. cbn [fst] in B1, Q1.
    assert (I1 : forall x, In x (all_buffered (s_bufs s1)) -> e_numk x = NumInt /\ e_num x <= s_seq s + 1).
    { intros x Hx. destruct (B1 x Hx) as [H| -> ]; [specialize (Hi x H); split; [apply Hi | lia] | cbn; split; [reflexivity | lia]]. }
    destruct raised; [destruct msg_catch_all|].
    + pose proof (fallback_bufs_in c s1 (s_seq s + 1) id rp NumInt) as B2. pose proof (fallback_seq c s1 (s_seq s + 1) id rp NumInt) as Q2.
      destruct (fallback c s1 (s_seq s + 1) id rp NumInt) as [s2 n2]. cbn [fst] in *. intros x Hx.
      rewrite end_of_call_bufs in Hx. rewrite end_of_call_seq, Q2, Q1. cbn [s_seq s0].
      destruct (B2 x Hx) as [H|[H H']]; [apply I1; exact H | split; [exact H' | lia]].
    + cbn [fst]. intros x Hx. rewrite end_of_call_bufs in Hx. rewrite end_of_call_seq, Q1. apply I1. exact Hx.
    + cbn [fst]. intros x Hx. rewrite end_of_call_bufs in Hx. rewrite end_of_call_seq, Q1. apply I1. exact Hx.
  - rewrite next_num_spec. set (s0 := mkSt (s_seq s + 1) (s_sizes s) (s_thr s) (s_bufs s) (s_inc s)).
    destruct msg_catch_all.
    + pose proof (fallback_bufs_in c s0 (s_seq s + 1) id rp NumInt) as B2. pose proof (fallback_seq c s0 (s_seq s + 1) id rp NumInt) as Q2.
      destruct (fallback c s0 (s_seq s + 1) id rp NumInt) as [s2 n2]. cbn [fst] in *. intros x Hx.
      rewrite end_of_call_bufs in Hx. rewrite end_of_call_seq, Q2. cbn [s_seq s0].
      destruct (B2 x Hx) as [H|[H H']]; [specialize (Hi x H); split; [apply Hi | lia] | split; [exact H' | lia]].
    + cbn [fst]. intros x Hx. cbn in Hx. specialize (Hi x Hx). cbn [s_seq s0]. split; [apply Hi | lia].
  - exact Hi.
  - exact Hi.
  - destruct (i_rep (s_inc s)) as [r|]; [destruct (r_timer r)|]; exact Hi.
Qed.

Lemma run_nums_le c ops : forall s, Forall auto_only ops -> nums_le_seq s -> nums_le_seq (fst (run c s ops)).
Proof.
  induction ops as [|o t IH]; intros s Ha Hi; [exact Hi|]. inversion Ha; subst. cbn [run].
  pose proof (step_nums_le c s o H1 Hi) as H. destruct (step c s o) as [s1 r]. cbn [fst] in H.
  specialize (IH s1 H2 H). destruct (run c s1 t) as [s2 rs]. exact IH.
Qed.

Lemma init_nums_le : nums_le_seq init.
Proof. intros x []. Qed.

(* ---------------------------------------------------------------- what immediate observers are handed *)
Lemma msg_sends_num c s e x : In x (msg_sends c s e) -> x = e.
Proof.
  unfold msg_sends. destruct (cmpZ _ _ _); [intros []|]. destruct (immediate_sees _ _ _ _ _); [intros [ <- |[]]; reflexivity | intros []].
Qed.

Lemma step_sends_num c s o x : auto_only o -> In x (step_sends c s o) -> e_num x = s_seq s + 1 /\ is_auto o = true.
Proof.
  intros Ha. destruct o as [numo fac lvl ok rp id | rp id | f l n | f l | ]; cbn [step_sends]; try (intros []).
  - destruct numo as [n|]; [destruct Ha|]. rewrite next_num_spec.
    destruct (msg_inner c _ _) as [[s1 raised] n1]. intros H. apply in_app_or in H. destruct H as [H|H].
    + apply msg_sends_num in H. subst x. split; reflexivity.
    + destruct (raised && msg_catch_all && rp); [|destruct H]. apply msg_sends_num in H. subst x. split; reflexivity.
  - rewrite next_num_spec. destruct (msg_catch_all && rp); [|intros []]. intros H. apply msg_sends_num in H. subst x. split; reflexivity.
Qed.

Lemma run_sends_sorted c ops : forall s, Forall auto_only ops ->
  StronglySorted Z.le (map e_num (run_sends c s ops)) /\ Forall (fun n => s_seq s < n) (map e_num (run_sends c s ops)).
Proof.
  induction ops as [|o t IH]; intros s Ha; [split; constructor|]. inversion Ha; subst. cbn [run_sends].
  pose proof (step_seq c s o) as Q. destruct (IH (fst (step c s o)) H2) as [S F]. rewrite map_app.
  assert (B : forall n, In n (map e_num (step_sends c s o)) -> n = s_seq s + 1 /\ is_auto o = true).
  { intros n Hn. apply in_map_iff in Hn. destruct Hn as (x & <- & Hx). apply (step_sends_num c s o x H1 Hx). }
  split.
  - apply sorted_app; [| exact S |].
    + assert (G : forall l, (forall n, In n l -> n = s_seq s + 1) -> StronglySorted Z.le l).
      { induction l as [|a l IHl]; intros Hl; constructor; [apply IHl; intros; apply Hl; right; assumption|].
        apply Forall_forall. intros y Hy. rewrite (Hl a (or_introl eq_refl)), (Hl y (or_intror Hy)). lia. }
      apply G. intros n Hn. apply B. exact Hn.
    + intros x y Hx Hy. destruct (B x Hx) as [-> Au]. rewrite Au in Q. rewrite Forall_forall in F. specialize (F y Hy). lia.
  - apply Forall_app. split.
    + apply Forall_forall. intros n Hn. destruct (B n Hn) as [-> _]. lia.
    + eapply Forall_impl; [|exact F]. cbn beta. intros n Hn. destruct (is_auto o); lia.
Qed.

(* ---------------------------------------------------------------- the Subscription side *)
Lemma sub_emitted_subseq maxq maxfl sops : forall q, subseq (q_emitted (fold_left (sub_step maxq maxfl) sops q)) (q_emitted q ++ sends_of sops).
Proof.
  induction sops as [|o t IH]; intros q; cbn [fold_left sends_of flat_map].
  - rewrite app_nil_r. apply subseq_refl.
  - eapply subseq_trans; [apply IH|]. destruct o as [e| | |]; cbn [sub_step app].
    + destruct (q_subscribed q); cbn [q_emitted].
      * rewrite <- app_assoc. apply subseq_refl.
      * apply subseq_app_both. apply ss_skip. apply subseq_refl.
    + destruct (q_marked q); [|apply subseq_refl].
      destruct (drain _ _ _ _ _ _) as [[[a b] c0] d]. apply subseq_refl.
    + destruct (0 <? q_outstanding q); apply subseq_refl.
    + destruct (0 <? q_outstanding q); apply subseq_refl.
Qed.

(* the in-flight window: the number of remote calls that are neither acknowledged nor failed never exceeds the counter,
   and the counter never exceeds MAX_IN_FLIGHT *)
Theorem subscriber_window maxq maxfl ops : 0 <= maxq -> 0 <= maxfl ->
  let s := sub_run maxq maxfl ops in 0 <= q_outstanding s <= q_inflight s /\ q_inflight s <= maxfl.
Proof.
  intros Hq Hf. cbv zeta. unfold sub_run.
  destruct (sub_run_inv maxq maxfl ops sub_init Hq (sub_init_inv maxq maxfl Hq Hf)) as (_ & H2 & H3 & H4 & _). lia.
Qed.

Theorem subscriber_window_real ops :
  let s := sub_run MAX_QUEUE_SIZE MAX_IN_FLIGHT ops in 0 <= q_outstanding s <= q_inflight s /\ q_inflight s <= MAX_IN_FLIGHT.
Proof. destruct real_limits_nonneg. apply subscriber_window; assumption. Qed.

(* ---------------------------------------------------------------- end to end *)
Lemma nums_le_nohost s : nums_le_seq s -> nohost (s_bufs s).
Proof. intros H. apply nohost_in. intros x Hx. destruct (H x Hx) as [K _]. unfold is_hostile. rewrite K. reflexivity. Qed.

Theorem subscriber_sees_ordered c pre ops sops catch_up maxq maxfl :
  0 <= maxq -> 0 <= maxfl -> Forall auto_only pre -> Forall auto_only ops ->
  let s0 := fst (run c init pre) in
  sends_of sops = map e_num (run_sends c s0 ops) ->
  let q0 := fst (fst (sub_subscribe catch_up (s_bufs s0))) in
  let direct := snd (fst (sub_subscribe catch_up (s_bufs s0))) in
  let q := fold_left (sub_step maxq maxfl) sops q0 in
  snd (sub_subscribe catch_up (s_bufs s0)) = false /\
  StronglySorted Z.le (map e_num direct ++ q_delivered q ++ q_queue q) /\
  Forall (fun n => n <= s_seq s0) (map e_num direct) /\
  Forall (fun n => s_seq s0 < n) (q_delivered q ++ q_queue q) /\
  subseq (q_delivered q ++ q_queue q) (sends_of sops) /\
  (catch_up = true -> Permutation direct (all_buffered (s_bufs s0))).
Proof.
  intros Hq Hf Hpre Hops s0 Hs q0 direct q.
  assert (I0 : nums_le_seq s0) by (apply run_nums_le; [exact Hpre | exact init_nums_le]).
  pose proof (nums_le_nohost s0 I0) as Hnh.
  assert (NR : catch_up && sort_raises catchup_sort_key (all_buffered (s_bufs s0)) = false)
    by (unfold catchup_sort_key, sort_raises; unfold nohost in Hnh; rewrite Hnh; apply andb_false_r).
  destruct (run_sends_sorted c ops s0 Hops) as [S F]. rewrite <- Hs in S, F.
  assert (Q0 : q0 = sub_init) by (unfold q0, sub_subscribe; destruct catchup; rewrite NR; reflexivity).
  assert (D : direct = if catch_up then sort_catchup (all_buffered (s_bufs s0)) else [])
    by (unfold direct, sub_subscribe; destruct catchup; rewrite NR; reflexivity).
  assert (SS : subseq (q_delivered q ++ q_queue q) (sends_of sops)).
  { eapply subseq_trans; [|pose proof (sub_emitted_subseq maxq maxfl sops q0) as E; rewrite Q0 in E; cbn [q_emitted sub_init app] in E; rewrite Q0; exact E].
    pose proof (sub_run_inv maxq maxfl sops sub_init Hq (sub_init_inv maxq maxfl Hq Hf)) as (_ & _ & _ & _ & H5).
    unfold q. rewrite Q0. exact H5. }
  assert (Din : forall x, In x direct -> In x (all_buffered (s_bufs s0))).
  { intros x Hx. rewrite D in Hx. destruct catch_up; [|destruct Hx].
    eapply Permutation_in; [apply sort_catchup_perm | exact Hx]. }
  assert (Dle : Forall (fun n => n <= s_seq s0) (map e_num direct)).
  { apply Forall_forall. intros n Hn. apply in_map_iff in Hn. destruct Hn as (x & <- & Hx). apply I0. apply Din. exact Hx. }
  assert (Lgt : Forall (fun n => s_seq s0 < n) (q_delivered q ++ q_queue q)) by (eapply subseq_Forall; eassumption).
  split; [unfold sub_subscribe; destruct catchup; rewrite NR; reflexivity|].
  split; [|split; [exact Dle|split; [exact Lgt|split; [exact SS|]]]].
  - apply sorted_app.
    + apply sorted_map_num.
      * intros x Hx. destruct (I0 x (Din x Hx)) as [K _]. unfold is_int. rewrite K. reflexivity.
      * rewrite D. destruct catch_up; [apply sort_catchup_sorted | constructor].
    + eapply subseq_sorted; eassumption.
    + intros x y Hx Hy. rewrite Forall_forall in Dle, Lgt. specialize (Dle x Hx). specialize (Lgt y Hy). lia.
  - intros ->. rewrite D. apply sort_catchup_perm.
Qed.

(* non-vacuity: three buffered events, catch-up, then five live ones (one below the threshold set in between), a slow subscriber *)
Example ex_sees_ordered :
  let c := mkCfg false false NoFault in
  let pre := [Msg None 0 20 true true 0; Msg None 2 30 true true 1; MsgBad true 2] in
  let ops := [Msg None 0 20 true true 3; SetThr 0 25; Msg None 0 20 true true 4; Msg None 0 30 true true 5; Msg None 2 20 true true 6] in
  let sops := [Send 3; Turn; Send 5; Ack; Send 6; Turn] in
  Forall auto_only pre /\ Forall auto_only ops /\
  sends_of sops = map e_num (run_sends c (fst (run c init pre)) ops) /\
  let q := fold_left (sub_step 2 1) sops (fst (fst (sub_subscribe true (s_bufs (fst (run c init pre)))))) in
  map e_num (snd (fst (sub_subscribe true (s_bufs (fst (run c init pre)))))) = [0; 1; 2] /\ q_delivered q = [3; 5] /\ q_queue q = [6].
Proof.
  cbv zeta. split; [repeat constructor|]. split; [repeat constructor|]. split; [vm_compute; reflexivity|].
  split; [vm_compute; reflexivity|]. split; vm_compute; reflexivity.
Qed.
