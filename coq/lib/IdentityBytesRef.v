(* C05: a CONCRETE instance of the parameters of lib/IdentityBytes.v, used only by the correspondence (model and real
   Negotiation run on the same byte strings) and by the non-vacuity Examples.  The theorems of IdentityBytesProofs.v
   quantify over all instances and do not depend on this file.  Valid for the inputs the harness generates: ASCII bytes
   plus 0xFE / 0xFF (never valid UTF-8), decimal integers written with digits only.  Definitions only. *)
From Coq Require Import ZArith List String Bool.
Import ListNotations.
Require Import Verif.lib.PyLite Verif.gen.NegotiateGen Verif.lib.Negotiate Verif.lib.NegBytes Verif.gen.IdentityGen
               Verif.lib.NegSplit Verif.lib.Identity Verif.lib.IdentityBytes.
Local Open Scope Z_scope.

Definition ascii_decode (s : list Z) : option (list Z) := if forallb (fun c => c <? 128) s then Some s else None.

Fixpoint dec_digits (acc : Z) (s : list Z) : option Z :=
  match s with
  | [] => Some acc
  | c :: r => if (48 <=? c) && (c <=? 57) then dec_digits (acc * 10 + (c - 48)) r else None
  end.
Definition dec_int (s : list Z) : option Z := match s with [] => None | _ => dec_digits 0 s end.

Definition k_range : list Z := [98;97;110;97;110;97;45;110;101;103;111;116;105;97;116;105;111;110;45;114;97;110;103;101].
Definition k_forced : list Z := [110;101;103;111;116;105;97;116;105;111;110;45;102;111;114;99;101;100].
Definition k_vocab_range : list Z := [105;110;105;116;105;97;108;45;118;111;99;97;98;45;116;97;98;108;101;45;114;97;110;103;101].
Definition k_decision_version : list Z := [98;97;110;97;110;97;45;100;101;99;105;115;105;111;110;45;118;101;114;115;105;111;110].
Definition k_vocab_index : list Z := [105;110;105;116;105;97;108;45;118;111;99;97;98;45;116;97;98;108;101;45;105;110;100;101;120].
Definition s_true : list Z := [116; 114; 117; 101].

(* evaluateHello up to the call of evaluateNegotiationVersion<n>, then `assert not forced` *)
Definition ref_pre_ok (d : list (list Z * list Z)) : bool :=
  match dict_get k_range d with
  | None => false
  | Some v =>
      match bsplit_ws v with
      | [a; b] => match dec_int a, dec_int b with
                  | Some lo, Some hi => is_ok (best_overlap minVersion maxVersion lo hi)
                  | _, _ => false
                  end
      | _ => false
      end
  end &&
  match dict_get k_forced d with
  | Some f => negb (negb (list_is_nil f) && list_eqb (blower f) s_true)
  | None => true
  end.

(* the deciding end after the identity checks, no existing connection: initial-vocab-table-range (default "0 0") *)
Definition ref_post_ok (vmin vmax : Z) (d : list (list Z * list Z)) : bool :=
  let v := match dict_get k_vocab_range d with Some v => v | None => [48; 32; 48] end in
  match bsplit_ws v with
  | a :: b :: _ => match dec_int a, dec_int b with
                   | Some lo, Some hi => is_ok (best_overlap vmin vmax lo hi)
                   | _, _ => false
                   end
  | _ => false
  end.

Fixpoint hash_of (hashes : list (Z * list Z)) (i : Z) : option (list Z) :=
  match hashes with [] => None | (j, h) :: r => if i =? j then Some h else hash_of r i end.

(* acceptDecision + acceptDecisionVersion1 (2, 3 delegate to it) *)
Definition ref_decision_ok (vmin vmax : Z) (hashes : list (Z * list Z)) (d : list (list Z * list Z)) : bool :=
  match dict_get k_decision_version d with
  | None | Some [] => false
  | Some v =>
      match dec_int v with
      | None => false
      | Some n =>
          if negb ((1 <=? n) && (n <=? 3)) then false
          else if dict_has k_error d then false
          else match dict_get k_vocab_index d with
               | None | Some [] => is_ok (check_inrange vmin vmax 0)
               | Some s =>
                   match bsplit_ws s with
                   | [i; h] => match dec_int i with
                               | None => false
                               | Some idx =>
                                   is_ok (check_inrange vmin vmax idx) &&
                                   negb ((hash_checked_from_index <=? idx) &&
                                         negb (match hash_of hashes idx with Some h' => list_eqb h' h | None => false end))
                               end
                   | _ => false
                   end
               end
      end
  end.
