(* C15: executable model of the keepalive / idle-disconnect timers of foolscap's Banana
   (banana.py connectionMade, dataReceived, keepaliveTimerFired, disconnectTimerFired,
   connectionLost) built on the TRANSLATED fragments of gen/TimersGen.v, and of the
   PING/PONG handling of handleData / sendPING / sendPONG.

   Time is Z milliseconds.  A timer is `option Z`: the absolute expiry time of the pending
   reactor.callLater, None when nothing is pending.  Definitions only; proofs in TimersProofs.v. *)
From Coq Require Import ZArith List Bool.
Import ListNotations.
Require Import Verif.lib.PyLite Verif.gen.BananaGen Verif.gen.TimersGen.
Local Open Scope Z_scope.

Record cfg := { cK : option Z;      (* keepaliveTimeout  (None = not configured) *)
                cT : option Z }.    (* disconnectTimeout *)

Record st := {
  now : Z;              (* time of the latest event *)
  last_rx : Z;          (* dataLastReceivedAt *)
  use_ka : bool;        (* useKeepalives *)
  abandoned : bool;     (* connectionAbandoned (set after a receive error) *)
  ka : option Z;        (* pending keepaliveTimer *)
  dc : option Z;        (* pending disconnectTimer *)
  closed : bool;        (* connectionLost has run *)
  torn : list Z;        (* times at which connectionTimedOut was called, newest first *)
  pings : list Z        (* times at which sendPING was called, newest first *)
}.

(* inputs: a chunk arrives and is processed without error / with a receive error (BananaError or
   other exception out of handleData), the reactor runs its delayed calls at time t, the transport
   reports connectionLost *)
Inductive ev := Rx (t : Z) | RxBad (t : Z) | Tick (t : Z) | Close (t : Z).

Definition ev_time (e : ev) : Z := match e with Rx t | RxBad t | Tick t | Close t => t end.

Definition reps (n t : Z) : list Z := repeat t (Z.to_nat n).

(* apply the effects of a translated fragment that owns the keepalive timer / the disconnect timer *)
Definition apply_ka (s : st) (t : Z) (r : fx) : st :=
  let '(tm, lr, u, p, d) := r in
  {| now := t; last_rx := lr; use_ka := u; abandoned := abandoned s; ka := tm; dc := dc s; closed := closed s;
     torn := reps d t ++ torn s; pings := reps p t ++ pings s |}.

Definition apply_dc (s : st) (t : Z) (r : fx) : st :=
  let '(tm, lr, u, p, d) := r in
  {| now := t; last_rx := lr; use_ka := u; abandoned := abandoned s; ka := ka s; dc := tm; closed := closed s;
     torn := reps d t ++ torn s; pings := reps p t ++ pings s |}.

Definition blank (t0 : Z) : st :=
  {| now := t0; last_rx := t0; use_ka := false; abandoned := false; ka := None; dc := None; closed := false;
     torn := []; pings := [] |}.

(* Banana.connectionMade at time t0 *)
Definition init (c : cfg) (t0 : Z) : st :=
  let s := blank t0 in
  let s := match cK c with
           | Some k => apply_ka s t0 (connectionMade_ka t0 (last_rx s) k (use_ka s) (abandoned s) (ka s))
           | None => s end in
  match cT c with
  | Some d => apply_dc s t0 (connectionMade_dc t0 (last_rx s) d (use_ka s) (abandoned s) (dc s))
  | None => s end.

Definition set_now (s : st) (t : Z) : st :=
  {| now := t; last_rx := last_rx s; use_ka := use_ka s; abandoned := abandoned s; ka := ka s; dc := dc s;
     closed := closed s; torn := torn s; pings := pings s |}.

Definition set_abandoned (s : st) : st :=
  {| now := now s; last_rx := last_rx s; use_ka := use_ka s; abandoned := true; ka := ka s; dc := dc s;
     closed := closed s; torn := torn s; pings := pings s |}.

Definition set_closed (s : st) : st :=
  {| now := now s; last_rx := last_rx s; use_ka := use_ka s; abandoned := abandoned s; ka := ka s; dc := dc s;
     closed := true; torn := torn s; pings := pings s |}.

(* Banana.dataReceived up to `try:` -- the stamp does not own a timer; route it through apply_ka *)
Definition stamp (s : st) (t : Z) : st :=
  apply_ka s t (dataReceived_stamp t (last_rx s) 0 (use_ka s) (abandoned s) (ka s)).

(* the keepalive delayed call runs if it is due *)
Definition fire_ka (c : cfg) (s : st) (t : Z) : st :=
  match ka s, cK c with
  | Some e, Some k => if e <=? t then apply_ka s t (keepaliveTimerFired t (last_rx s) k (use_ka s) (abandoned s) (ka s))
                      else s
  | _, _ => s
  end.

Definition fire_dc (c : cfg) (s : st) (t : Z) : st :=
  match dc s, cT c with
  | Some e, Some d => if e <=? t then apply_dc s t (disconnectTimerFired t (last_rx s) d (use_ka s) (abandoned s) (dc s))
                      else s
  | _, _ => s
  end.

Definition tmo (o : option Z) : Z := match o with Some x => x | None => 0 end.

(* One reactor turn at time t: every delayed call that is due runs once, seeing time.time() = t.
   (The order of the two callbacks inside the turn is immaterial: TimersProofs.fire_commute;
   a re-armed timer expires at t + timeout + eps > t and is not run again in this turn.) *)
Definition step (c : cfg) (s : st) (e : ev) : st :=
  match e with
  | Rx t => stamp s t
  | RxBad t => set_abandoned (stamp s t)
  | Tick t => set_now (fire_dc c (fire_ka c s t) t) t
  | Close t =>
      (* Banana.connectionLost runs both `if self.<x>Timer:` blocks whether or not a timeout is configured *)
      let s1 := apply_ka s t (connectionLost_ka t (last_rx s) (tmo (cK c)) (use_ka s) (abandoned s) (ka s)) in
      let s2 := apply_dc s1 t (connectionLost_dc t (last_rx s1) (tmo (cT c)) (use_ka s1) (abandoned s1) (dc s1)) in
      set_closed (set_now s2 t)
  end.

Definition run (c : cfg) (s : st) (evs : list ev) : st := fold_left (step c) evs s.

(* ---------------------------------------------------------------- specification vocabulary *)

(* time of the latest arrival that the connection still pays attention to (arrivals after a
   receive error are ignored by the code: the connection is being dropped) *)
Fixpoint last_arrival (cur : Z) (ab : bool) (evs : list ev) : Z :=
  match evs with
  | [] => cur
  | Rx t :: r => last_arrival (if ab then cur else t) ab r
  | RxBad t :: r => last_arrival (if ab then cur else t) true r
  | _ :: r => last_arrival cur ab r
  end.

Definition is_tick (e : ev) : Prop := exists t, e = Tick t.
Definition is_close (e : ev) : Prop := exists t, e = Close t.

(* event times never go backwards, starting from time t *)
Fixpoint sorted_from (t : Z) (evs : list ev) : Prop :=
  match evs with
  | [] => True
  | e :: r => t <= ev_time e /\ sorted_from (ev_time e) r
  end.

(* at time t no pending timer is more than d overdue *)
Definition overdue_ok (d : Z) (s : st) (t : Z) : Prop :=
  (forall e, ka s = Some e -> t <= e + d) /\ (forall e, dc s = Some e -> t <= e + d).

(* the reactor is never more than d late: whenever something happens (and at the end of the
   observation) every pending delayed call is at most d past its expiry *)
Fixpoint punctual (c : cfg) (d : Z) (s : st) (evs : list ev) : Prop :=
  match evs with
  | [] => overdue_ok d s (now s)
  | e :: r => overdue_ok d s (ev_time e) /\ punctual c d (step c s e) r
  end.

(* ---------------------------------------------------------------- PING / PONG *)

(* a received token: (header value, type byte) *)
Definition tok := (Z * Z)%type.

Definition act (a : tok_action) (h : Z) : list Z :=
  match a with ActPongHeader => [h] | ActIgnore => [] end.

(* handleData's dispatch restricted to what matters here: PING and PONG are consumed in front of the
   object grammar; returns (tokens handed on to the unslicer stack, numbers of the PONGs written) *)
Fixpoint rx_tokens (toks : list tok) : list tok * list Z :=
  match toks with
  | [] => ([], [])
  | (h, ty) :: r =>
      let '(d, p) := rx_tokens r in
      if ty =? tok_PING then (d, act on_PING h ++ p)
      else if ty =? tok_PONG then (d, act on_PONG h ++ p)
      else ((h, ty) :: d, p)
  end.

(* the header scan of handleData: up to header_limit bytes < 128, then a type byte >= 128 *)
Inductive hres := HNeed | HBad | HTok (header : Z) (typebyte : Z) (rest : list Z).

(* `header = b1282int(first65[:pos])` if pos else 0; acc holds the header digits, latest first *)
Definition hdr_of (acc : list Z) : Z :=
  match acc with [] => 0 | _ => match b1282int (rev acc) with Ok v => v | Exc _ => -1 end end.

Fixpoint scan (n : nat) (acc : list Z) (l : list Z) {struct l} : hres :=
  match l with
  | [] => HNeed
  | b :: r => if 128 <=? b
              then HTok (hdr_of acc) b r
              else match n with O => HBad | S n' => scan n' (b :: acc) r end
  end.

Definition scan_token (l : list Z) : hres := scan (Z.to_nat header_limit) [] l.

(* bytes written in reply to one received token *)
Definition reply_bytes (h ty : Z) : res (list Z) :=
  if ty =? tok_PING then match on_PING with ActPongHeader => sendPONG h [] | ActIgnore => Ok [] end
  else if ty =? tok_PONG then match on_PONG with ActPongHeader => sendPONG h [] | ActIgnore => Ok [] end
  else Ok [].
