(* C10: the callee's side of one inbound call -- from the moment the CallUnslicer knows the request id to the `answer` or
   `error` message handed to Broker.send.  Broker.callFailed, Broker._callFinished, the Deferred chain of Broker.doNextCall and
   CallUnslicer.reportViolation are TRANSLATED statement by statement into small programs (gen/CalleeGen.v); this file
   interprets them.  What the application and the serializer do is a parameter of every delivery (`denv`): any combination. *)
From Coq Require Import ZArith List String Bool.
Import ListNotations.
Require Import Verif.lib.PyLite Verif.lib.Utf8 Verif.gen.FailureGen Verif.lib.Failure Verif.gen.CalleeGen.
Local Open Scope Z_scope.

(* what Banana.produce makes of a top-level object handed to send() (lib/Send.v): written in full; aborted by a Violation
   of one of its slicers (OPEN .. ABORT CLOSE: the caller's AnswerUnslicer fails the request with a local Violation); or a
   non-Violation exception in a slicer: sendFailed, the connection is dropped *)
Inductive slice_out := SOk | SViolation | SCrash.

Record denv := {
  d_reqid : Z;                (* 0: callRemoteOnly, nobody waits for an answer *)
  d_schema : bool;            (* the method has a schema (target with a RemoteInterface) *)
  d_ready : bool;             (* the delivery's ready_deferred fired with a result (false: errback -- refused / unresolvable gift) *)
  d_raises : bool;            (* _doCall raises or the Deferred it returns fails: checkAllArgs, unknown method, wrong arity,
                                 any exception of the application *)
  d_result_ok : bool;         (* methodSchema.checkResults accepts the result *)
  d_answer : slice_out;       (* fate of the AnswerSlicer in produce *)
  d_log_local : bool;         (* (tub and tub.logLocalFailures) or not tub *)
  d_repr_raises : bool;       (* formatting the target object or the arguments with % raises (an application __repr__/__str__) *)
  d_render_raises : bool;     (* str()/format of the exception instance raises *)
  d_unsafe : bool;            (* unsafeTracebacks *)
  d_exc : exc                 (* what the failure handed to callFailed looks like to FailureSlicer (lib/Failure.v) *)
}.

Inductive msg := MAnswer (r : Z) | MAnswerAborted (r : Z) | MError (r : Z) (s : fstate).

Definition msg_req (m : msg) : Z := match m with MAnswer r | MAnswerAborted r | MError r _ => r end.

Record cst := {
  active : list Z;            (* keys of activeLocalCalls *)
  sent : list msg;            (* top-level objects handed to Broker.send, as produce leaves them on the wire *)
  cup : bool;                 (* the connection has not been dropped *)
  swallowed : nat             (* failures that ended in the chain's final log.err: reported to nobody *)
}.

Definition with_active (s : cst) (a : list Z) : cst := {| active := a; sent := sent s; cup := cup s; swallowed := swallowed s |}.
Definition with_sent (s : cst) (m : msg) : cst := {| active := active s; sent := sent s ++ [m]; cup := cup s; swallowed := swallowed s |}.
Definition dropped (s : cst) : cst := {| active := active s; sent := sent s; cup := false; swallowed := swallowed s |}.
Definition swallow (s : cst) : cst := {| active := active s; sent := sent s; cup := cup s; swallowed := S (swallowed s) |}.

Definition is_active (r : Z) (s : cst) : bool := existsb (Z.eqb r) (active s).

Fixpoint remove1 (r : Z) (l : list Z) : list Z :=
  match l with [] => [] | x :: t => if r =? x then t else x :: remove1 r t end.

(* result of running statements: fell off the end / `return` / an exception propagates *)
Inductive xr := XOk (s : cst) | XReturn (s : cst) | XRaise (s : cst).

(* ---- Broker.callFailed(f, reqID, delivery) *)
Definition send_error (e : denv) (r : Z) (s : cst) : cst :=
  match get_state (d_unsafe e) (d_exc e) with
  | Ok fs => with_sent s (MError r fs)
  | Exc _ => dropped s          (* FailureSlicer raising inside produce (reflect.qual of a class without a module name): not a
                                   Violation -> sendFailed, the connection is dropped *)
  end.

(* the `copyable` state an ErrorSlicer for this delivery carries (when FailureSlicer returns: exactly for nameable classes) *)
Definition the_state (e : denv) : fstate :=
  match get_state (d_unsafe e) (d_exc e) with Ok fs => fs | Exc _ => {| s_type := []; s_value := []; s_traceback := []; s_parents := [] |} end.

Fixpoint run_c (e : denv) (hasd : bool) (r : Z) (st : cstmt) (s : cst) {struct st} : xr :=
  let block := fix go (l : list cstmt) (s : cst) {struct l} : xr :=
    match l with
    | [] => XOk s
    | x :: t => match run_c e hasd r x s with XOk s' => go t s' | o => o end
    end in
  match st with
  | CIfDelivery b => if hasd then block b s else XOk s
  | CIfLogLocal b => if d_log_local e then block b s else XOk s
  | CIfReq b => if r =? 0 then XOk s else block b s
  | CLogFailure => if logfailure_renders_delivery && d_repr_raises e then XRaise s else XOk s
  | CLogFailureGuarded => XOk s       (* a log entry that raises is itself logged; callFailed goes on *)
  | CRenderLog => if d_render_raises e then XRaise s else XOk s
  | CLog => XOk s
  | CAssertActive => if is_active r s then XOk s else XRaise s
  | CSendError => XOk (send_error e r s)
  | CDelActive => if is_active r s then XOk (with_active s (remove1 r (active s))) else XRaise s
  end.

Fixpoint run_cs (e : denv) (hasd : bool) (r : Z) (l : list cstmt) (s : cst) : xr :=
  match l with
  | [] => XOk s
  | x :: t => match run_c e hasd r x s with XOk s' => run_cs e hasd r t s' | o => o end
  end.

Definition call_failed (e : denv) (hasd : bool) (r : Z) (s : cst) : xr := run_cs e hasd r callfailed_prog s.

(* ---- Broker._callFinished(res, delivery) *)
Definition send_answer (e : denv) (s : cst) : cst :=
  match d_answer e with
  | SOk => with_sent s (MAnswer (d_reqid e))
  | SViolation => with_sent s (MAnswerAborted (d_reqid e))
  | SCrash => dropped s
  end.

Fixpoint run_f (e : denv) (st : fstmt) (s : cst) {struct st} : xr :=
  let block := fix go (l : list fstmt) (s : cst) {struct l} : xr :=
    match l with
    | [] => XOk s
    | x :: t => match run_f e x s with XOk s' => go t s' | o => o end
    end in
  match st with
  | FIfOneWayReturn => if d_reqid e =? 0 then XReturn s else XOk s
  | FLocal | FLog => XOk s
  | FRenderLog => if d_render_raises e then XRaise s else XOk s
  | FAssertActive => if is_active (d_reqid e) s then XOk s else XRaise s
  | FIfSchema b => if d_schema e then block b s else XOk s
  | FCheckResults => if d_result_ok e then XOk s else XRaise s
  | FSendAnswerGuarded | FSendAnswer => XOk (send_answer e s)      (* send() only queues: it does not raise *)
  | FDelActive => if is_active (d_reqid e) s then XOk (with_active s (remove1 (d_reqid e) (active s))) else XRaise s
  end.

Fixpoint run_fs (e : denv) (l : list fstmt) (s : cst) : xr :=
  match l with
  | [] => XOk s
  | x :: t => match run_f e x s with XOk s' => run_fs e t s' | o => o end
  end.

Definition call_finished (e : denv) (s : cst) : xr := run_fs e callfinished_prog s.

(* ---- the Deferred chain of doNextCall: a result or a failure travels down the links *)
Definition apply_fun (e : denv) (f : cfun) (failing : bool) (s : cst) : bool * cst :=     (* -> (now failing, state) *)
  match f with
  | KReady => (failing, s)                                   (* _ready returns its argument *)
  | KDoCall => (d_raises e, s)
  | KFinished => match call_finished e s with XOk s' | XReturn s' => (false, s') | XRaise s' => (true, s') end
  | KFailed => match call_failed e true (d_reqid e) s with XOk s' | XReturn s' => (false, s') | XRaise s' => (true, s') end
  | KLogErr => (false, swallow s)
  end.

Fixpoint run_chain (e : denv) (ls : list link) (failing : bool) (s : cst) : bool * cst :=
  match ls with
  | [] => (failing, s)
  | LBoth f :: t => let '(fl, s') := apply_fun e f failing s in run_chain e t fl s'
  | LCallback f :: t => if failing then run_chain e t failing s else let '(fl, s') := apply_fun e f false s in run_chain e t fl s'
  | LErrback f :: t => if failing then let '(fl, s') := apply_fun e f true s in run_chain e t fl s' else run_chain e t failing s
  end.

(* ---- one inbound `call` sequence, from the request id on *)
Inductive inbound :=
| InRejected (abort : bool) (e : denv)   (* a Violation inside the CallUnslicer after the request id: unknown object, unknown
                                            method, an argument the schema rejects (abort = false), or the caller's ABORT (true) *)
| InDelivered (e : denv).                (* receiveClose: queued, later started by doNextCall *)

Definition in_env (i : inbound) : denv := match i with InRejected _ e | InDelivered e => e end.

Definition register (e : denv) (s : cst) : cst :=
  if registers_reqid && negb (d_reqid e =? 0) then with_active s (d_reqid e :: active s) else s.

(* -> (returned, state) *)
Fixpoint run_r (e : denv) (abort : bool) (st : rstmt) (s : cst) {struct st} : bool * cst :=
  let block := fix go (l : list rstmt) (s : cst) {struct l} : bool * cst :=
    match l with
    | [] => (false, s)
    | x :: t => let '(ret, s') := run_r e abort x s in if ret then (true, s') else go t s'
    end in
  match st with
  | RIfAbort b => if abort then block b s else (false, s)
  | RIfStage b => block b s                                           (* the request id is known: stage > 0 *)
  | RDelActive => if is_active (d_reqid e) s then (false, with_active s (remove1 (d_reqid e) (active s)))
                  else (true, dropped s)                              (* KeyError out of reportViolation: not a Violation, the
                                                                         catch-all of dataReceived drops the connection *)
  | RCallFailed => match call_failed e false (d_reqid e) s with
                   | XOk s' | XReturn s' => (false, s')
                   | XRaise s' => (true, dropped s')                  (* an exception out of reportViolation: BananaError *)
                   end
  | RReturnF => (true, s)
  end.

Fixpoint run_rs (e : denv) (abort : bool) (l : list rstmt) (s : cst) : cst :=
  match l with
  | [] => s
  | x :: t => let '(ret, s') := run_r e abort x s in if ret then s' else run_rs e abort t s'
  end.

Definition handle (i : inbound) (s : cst) : cst :=
  if negb (cup s) then s else
  match i with
  | InRejected abort e => run_rs e abort report_violation_prog (register e s)
  | InDelivered e =>
    let '(failing, s') := run_chain e delivery_chain (negb (d_ready e)) (register e s) in
    if failing then swallow s' else s'          (* a failure left at the end of a chain is reported to nobody either *)
  end.

(* A history lists the calls in the order in which the callee CONCLUDES them, which is not the order of arrival: a rejected call is
   concluded while it is being parsed (reportViolation -> callFailed hands its `error` to send() at once); a delivery is only queued
   on arrival and concluded in a later turn, when its chain reaches _callFinished / callFailed -- after the deliveries queued before
   it, after a stall on a gift, after the method's Deferred fired.  So a call rejected after three deliveries arrived stands BEFORE
   them in the history (observed on the real Broker: harness DeliveryLog.history).  The theorems quantify over every list.  `handle`
   folds the arrival-time entry into activeLocalCalls (register) into the same step: for distinct request ids that is unobservable
   (no step looks at another call's entry). *)
Definition handle_all (ins : list inbound) (s : cst) : cst := fold_left (fun s i => handle i s) ins s.

Definition cinit0 : cst := {| active := []; sent := []; cup := true; swallowed := 0 |}.

(* messages that concern request r *)
Definition replies (r : Z) (l : list msg) : nat := List.length (filter (fun m => msg_req m =? r) l).

(* ---- the specification side: WHICH reply a call must get, and when the model keeps the connection *)
(* a delivery that doNextCall starts must be answered with an `error` exactly when its arguments did not become ready, the method
   (or checkAllArgs, or the lookup of the method) raised, or the callee's schema rejects the result; otherwise with an `answer` *)
Definition must_fail (e : denv) : bool := negb (d_ready e) || d_raises e || (d_schema e && negb (d_result_ok e)).

(* the exact guard of one delivery (delivery_guard_exact: the connection survives it IF AND ONLY IF this holds): the message that
   must be written can be serialized without a non-Violation exception -- the `error` needs a class FailureSlicer can name, the
   `answer` an AnswerSlicer that does not crash *)
Definition delivery_ok (e : denv) : Prop := if must_fail e then nameable (d_exc e) = true else d_answer e <> SCrash.

(* the same for a call rejected while it is received: an `error` is written unless it was the caller's ABORT.  (On the real callee
   the failure handed to reportViolation is always a foolscap Violation, which is nameable.) *)
Definition rejected_ok (abort : bool) (e : denv) : Prop := abort = false -> nameable (d_exc e) = true.

Definition reply_of (i : inbound) : list msg :=
  match i with
  | InRejected abort e => if abort || (d_reqid e =? 0) then [] else [MError (d_reqid e) (the_state e)]
  | InDelivered e =>
    if d_reqid e =? 0 then [] else
    [if must_fail e then MError (d_reqid e) (the_state e)
     else match d_answer e with SViolation => MAnswerAborted (d_reqid e) | _ => MAnswer (d_reqid e) end]
  end.

(* what the property promises for one inbound call *)
Definition expected_replies (i : inbound) : nat :=
  match i with
  | InRejected abort e => if abort || (d_reqid e =? 0) then 0%nat else 1%nat
  | InDelivered e => if d_reqid e =? 0 then 0%nat else 1%nat
  end.
