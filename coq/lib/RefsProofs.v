(* C08 / C09: lemmas and theorems about lib/Refs.v (model) and gen/RefsGen.v (translated). *)
From Coq Require Import ZArith List Bool Lia Arith String.
Import ListNotations.
Require Import Verif.lib.PyLite Verif.gen.RefsGen Verif.lib.Refs.
Local Open Scope Z_scope.
Notation length := List.length.

(* ------------------------------------------------------------------ *)
(* the translated pieces, characterised once; everything below uses only these facts *)

Lemma send_spec r : send r = Ok (r + 1 =? 1, r + 1).
Proof. unfold send. cbv zeta. destruct (r + 1 =? 1); reflexivity. Qed.

Lemma decref_spec n r :
  decref n r = if r >=? n then Ok (r - n =? 0, r - n) else Exc "AssertionError"%string.
Proof. unfold decref. cbv zeta. destruct (r >=? n); [destruct (r - n =? 0); reflexivity | reflexivity]. Qed.

Lemma getRef_incr_spec r : getRef_incr r = r + 1.
Proof. reflexivity. Qed.

(* D15 regression: bound-method references count like ordinary ones *)
Lemma getRef_incr_method_spec r : getRef_incr_method r = getRef_incr r.
Proof. reflexivity. Qed.

Lemma handleRefLost_assign_spec r : handleRefLost_assign r = (r, 0).
Proof. reflexivity. Qed.

Lemma handleRefLost_skip_spec c : handleRefLost_skip c = (c =? 0).
Proof. reflexivity. Qed.

Lemma freeTracker_keeps_spec r : freeTracker_keeps r = negb (r =? 0).
Proof. reflexivity. Qed.

(* (how freeYourReferenceTracker deletes the import-table entry, freeTracker_delkey, is not characterised here: the
   development is generic in the rule -- step_k -- and `same_proxy` below is where the source's rule is used: fix ab72d65) *)

(* finish() forgets the inbound calls that were parsed but never run (fix 30b3768); not part of the reference model,
   checked on the implementation by the loopback family (oracle/dead-broker-keeps-undelivered-calls) *)
Lemma finish_drops_undelivered_calls_spec : finish_drops_undelivered_calls = true.
Proof. reflexivity. Qed.

Lemma finish_clears_spec :
  finish_clears_myReferenceByCLID && finish_clears_myReferenceByPUID = true /\ finish_clears_yourReferenceByCLID = true.
Proof. split; reflexivity. Qed.

(* ------------------------------------------------------------------ *)
(* owner table *)

Lemma find_clid_some tab c e : find_clid tab c = Some e -> In e tab /\ oe_clid e = c.
Proof. unfold find_clid. intros H. apply find_some in H. destruct H as [H1 H2]. apply Z.eqb_eq in H2. auto. Qed.

Lemma find_clid_none tab c : find_clid tab c = None -> forall e, In e tab -> oe_clid e <> c.
Proof. unfold find_clid. intros H e He E. pose proof (find_none _ _ H e He) as F. cbn in F. apply Z.eqb_neq in F. auto. Qed.

Lemma rc_cons e tab k : rc (e :: tab) k = if oe_clid e =? k then oe_rc e else rc tab k.
Proof. unfold rc, find_clid. cbn [find]. destruct (oe_clid e =? k); reflexivity. Qed.

Definition upd_entry (c v : Z) (e : oentry) : oentry :=
  if oe_clid e =? c then {| oe_obj := oe_obj e; oe_clid := oe_clid e; oe_rc := v |} else e.

Lemma find_clid_set_rc tab c v k : find_clid (set_rc tab c v) k = option_map (upd_entry c v) (find_clid tab k).
Proof.
  unfold find_clid, set_rc. induction tab as [|e tab IH]; cbn [map find option_map]; [reflexivity|].
  assert (E : oe_clid (if oe_clid e =? c then {| oe_obj := oe_obj e; oe_clid := oe_clid e; oe_rc := v |} else e) = oe_clid e)
    by (destruct (oe_clid e =? c); reflexivity).
  rewrite E. destruct (oe_clid e =? k); [reflexivity | exact IH].
Qed.

Lemma rc_set_rc tab c v k :
  rc (set_rc tab c v) k = if k =? c then match find_clid tab c with Some _ => v | None => 0 end else rc tab k.
Proof.
  unfold rc. rewrite find_clid_set_rc. destruct (k =? c) eqn:Ek.
  - apply Z.eqb_eq in Ek. subst k. destruct (find_clid tab c) as [e|] eqn:F; cbn [option_map]; [|reflexivity].
    apply find_clid_some in F as [_ F]. unfold upd_entry. rewrite F, Z.eqb_refl. reflexivity.
  - destruct (find_clid tab k) as [e|] eqn:F; cbn [option_map]; [|reflexivity].
    apply find_clid_some in F as [_ F]. unfold upd_entry. rewrite F, Ek. reflexivity.
Qed.

Lemma rc_del tab c k : rc (del_clid tab c) k = if k =? c then 0 else rc tab k.
Proof.
  induction tab as [|e tab IH].
  - cbn. destruct (k =? c); reflexivity.
  - unfold del_clid. cbn [filter]. fold (del_clid tab c). destruct (oe_clid e =? c) eqn:Ec; cbn [negb].
    + rewrite IH, rc_cons. destruct (k =? c) eqn:Ek; [reflexivity|].
      destruct (oe_clid e =? k) eqn:E2; [|reflexivity].
      apply Z.eqb_eq in E2, Ec. apply Z.eqb_neq in Ek. congruence.
    + rewrite !rc_cons, IH. destruct (k =? c) eqn:Ek; [|reflexivity].
      apply Z.eqb_eq in Ek. subst. rewrite Ec. reflexivity.
Qed.

Lemma rc_none tab c : find_clid tab c = None -> rc tab c = 0.
Proof. unfold rc. intros ->. reflexivity. Qed.

Lemma rc_pos_found tab c : 0 < rc tab c -> exists e, find_clid tab c = Some e /\ oe_rc e = rc tab c.
Proof. unfold rc. destruct (find_clid tab c) as [e|]; [eauto | lia]. Qed.

Lemma map_clid_set_rc tab c v : map oe_clid (set_rc tab c v) = map oe_clid tab.
Proof. unfold set_rc. rewrite map_map. apply map_ext. intros e. destruct (oe_clid e =? c); reflexivity. Qed.

Lemma map_obj_set_rc tab c v : map oe_obj (set_rc tab c v) = map oe_obj tab.
Proof. unfold set_rc. rewrite map_map. apply map_ext. intros e. destruct (oe_clid e =? c); reflexivity. Qed.

Lemma NoDup_map_filter {A B} (f : A -> B) (p : A -> bool) l : NoDup (map f l) -> NoDup (map f (filter p l)).
Proof.
  induction l as [|a l IH]; cbn; [auto|]. intros H. inversion H as [|? ? Hn Hd]; subst.
  destruct (p a); cbn; [constructor; [|auto] | auto].
  intros Hin. apply Hn. apply in_map_iff in Hin as (x & E & Hx). apply filter_In in Hx as [Hx _].
  apply in_map_iff. eauto.
Qed.

(* ------------------------------------------------------------------ *)
(* holder lists *)

Lemma nth_error_upd_nth {A} (l : list A) i f j :
  nth_error (upd_nth l i f) j = if Nat.eqb j i then option_map f (nth_error l j) else nth_error l j.
Proof.
  revert i j; induction l as [|a l IH]; intros i j.
  - destruct i, j; cbn; try reflexivity; destruct (Nat.eqb _ _); reflexivity.
  - destruct i, j; cbn; try reflexivity. apply IH.
Qed.

Lemma Forall_upd_nth {A} (P : A -> Prop) l i f :
  Forall P l -> (forall a, nth_error l i = Some a -> P a -> P (f a)) -> Forall P (upd_nth l i f).
Proof.
  revert i; induction l as [|a l IH]; intros [|i] H Hf; cbn; auto; inversion H; subst; constructor; auto.
Qed.

Lemma upd_nth_app_last {A} (l : list A) a f : upd_nth (l ++ [a]) (List.length l) f = l ++ [f a].
Proof. induction l as [|b l IH]; cbn; [reflexivity | rewrite IH; reflexivity]. Qed.

Lemma nth_error_app_last {A} (l : list A) a : nth_error (l ++ [a]) (List.length l) = Some a.
Proof. induction l as [|b l IH]; cbn; auto. Qed.

Lemma recv_sum_app trk t c : recv_sum (trk ++ [t]) c = recv_sum trk c + contrib t c.
Proof. induction trk as [|a l IH]; cbn [app recv_sum]; lia. Qed.

Lemma recv_sum_upd trk i f t c :
  nth_error trk i = Some t -> recv_sum (upd_nth trk i f) c = recv_sum trk c - contrib t c + contrib (f t) c.
Proof.
  revert i; induction trk as [|a l IH]; intros [|i]; cbn [nth_error upd_nth recv_sum]; try discriminate.
  - intros E; inversion E; subst. lia.
  - intros E. rewrite (IH _ E). lia.
Qed.

Lemma contrib_nonneg t c : 0 <= t_recv t -> 0 <= contrib t c.
Proof. unfold contrib. destruct (_ =? _); lia. Qed.

Lemma recv_sum_nonneg trk c : Forall (fun t => 0 <= t_recv t) trk -> 0 <= recv_sum trk c.
Proof. induction 1 as [|t l Ht _ IH]; cbn [recv_sum]; [lia|]. pose proof (contrib_nonneg t c Ht). lia. Qed.

Lemma recv_sum_ge trk i t c :
  Forall (fun t => 0 <= t_recv t) trk -> nth_error trk i = Some t -> contrib t c <= recv_sum trk c.
Proof.
  intros H; revert i; induction H as [|a l Ha Hl IH]; intros [|i]; cbn [nth_error recv_sum]; try discriminate.
  - intros E; inversion E; subst. pose proof (recv_sum_nonneg l c Hl). lia.
  - intros E. pose proof (IH _ E). pose proof (contrib_nonneg a c Ha). lia.
Qed.

Lemma recv_sum_zero trk c : Forall (fun t => t_recv t = 0) trk -> recv_sum trk c = 0.
Proof. induction 1 as [|t l Ht _ IH]; cbn [recv_sum]; [reflexivity|]. unfold contrib. rewrite Ht, IH. destruct (_ =? _); reflexivity. Qed.

Lemma inflight_app ch m c :
  inflight (ch ++ [m]) c = inflight ch c + match m with MyRef k _ _ => if k =? c then 1 else 0 | Ack _ => 0 end.
Proof. induction ch as [|a l IH]; cbn [app inflight]; [destruct m; lia|]. destruct a; rewrite IH; lia. Qed.

Lemma inflight_nonneg ch c : 0 <= inflight ch c.
Proof. induction ch as [|a l IH]; cbn [inflight]; [lia|]. destruct a; [destruct (_ =? _)|]; lia. Qed.

Lemma decs_app ch m c :
  decs (ch ++ [m]) c = decs ch c + match m with Decref k n _ => if k =? c then n else 0 | ToOwner _ _ => 0 end.
Proof. induction ch as [|a l IH]; cbn [app decs]; [destruct m; lia|]. destruct a; rewrite IH; lia. Qed.

Definition dpos (m : msgHO) : Prop := match m with Decref _ n _ => 0 < n | ToOwner _ _ => True end.

Lemma decs_nonneg ch c : Forall dpos ch -> 0 <= decs ch c.
Proof. induction 1 as [|a l Ha _ IH]; cbn [decs]; [lia|]. destruct a; cbn in Ha; [destruct (_ =? _)|]; lia. Qed.

Lemma cnt_nonneg l c : 0 <= cnt l c.
Proof. induction l as [|a l IH]; cbn [cnt]; [lia|]. destruct (_ =? _); lia. Qed.

Lemma inflight_in ch c d w : In (MyRef c d w) ch -> 1 <= inflight ch c.
Proof.
  induction ch as [|a l IH]; cbn [In inflight]; [tauto|]. intros [->|H].
  - rewrite Z.eqb_refl. pose proof (inflight_nonneg l c). lia.
  - specialize (IH H). destruct a; [destruct (_ =? _)|]; lia.
Qed.

Lemma tab_get_del tab c k : tab_get (tab_del tab c) k = if k =? c then None else tab_get tab k.
Proof.
  induction tab as [|[a i] tab IH]; cbn [tab_del filter tab_get fst]; [destruct (k =? c); reflexivity|].
  fold (tab_del tab c). destruct (a =? c) eqn:Ea; cbn [negb].
  - rewrite IH. destruct (k =? c) eqn:Ek; [reflexivity|]. destruct (a =? k) eqn:E2; [|reflexivity].
    apply Z.eqb_eq in E2, Ea. apply Z.eqb_neq in Ek. congruence.
  - cbn [tab_get]. rewrite IH. destruct (k =? c) eqn:Ek; [|reflexivity].
    apply Z.eqb_eq in Ek. subst. rewrite Ea. reflexivity.
Qed.

Lemma find_proxy_some trk p i : find_proxy trk p = Some i -> exists t, nth_error trk i = Some t /\ t_proxy t = Some p.
Proof.
  revert i; induction trk as [|t l IH]; intros i; cbn [find_proxy]; [discriminate|].
  destruct (t_proxy t) as [q|] eqn:Eq.
  - destruct (q =? p) eqn:Eqp.
    + intros E; inversion E; subst. apply Z.eqb_eq in Eqp. subst. exists t. cbn. auto.
    + destruct (find_proxy l p) as [j|]; cbn [option_map]; [|discriminate]. intros E; inversion E; subst.
      destruct (IH j eq_refl) as (t' & H1 & H2). exists t'. cbn. auto.
  - destruct (find_proxy l p) as [j|]; cbn [option_map]; [|discriminate]. intros E; inversion E; subst.
    destruct (IH j eq_refl) as (t' & H1 & H2). exists t'. cbn. auto.
Qed.

(* ------------------------------------------------------------------ *)
(* home_ok *)

Lemma home_ok_mono f g ch : (forall c, f c <= g c) -> home_ok f ch -> home_ok g ch.
Proof.
  revert f g; induction ch as [|m ch IH]; intros f g Hfg; cbn [home_ok]; [auto|].
  destruct m as [c n r|c k].
  - apply IH. intros k. cbv beta. destruct (k =? c); [specialize (Hfg k); lia | apply Hfg].
  - intros [H1 H2]. split; [specialize (Hfg c); lia | eapply IH; eauto].
Qed.

Lemma home_ok_app_decref f ch c n r : home_ok f ch -> home_ok f (ch ++ [Decref c n r]).
Proof.
  revert f; induction ch as [|m ch IH]; intros f; cbn [app home_ok]; [auto|].
  destruct m as [c' n' r'|c' k']; [apply IH | intros [H1 H2]; split; [exact H1 | apply IH; exact H2]].
Qed.

Lemma home_ok_app_home f ch c k : home_ok f ch -> decs ch c < f c -> home_ok f (ch ++ [ToOwner c k]).
Proof.
  revert f; induction ch as [|m ch IH]; intros f; cbn [app home_ok decs].
  - intros _ H. split; [lia | exact I].
  - destruct m as [c' n' r'|c' k'].
    + intros H1 H2. apply IH; [exact H1|]. cbv beta. rewrite (Z.eqb_sym c c'). destruct (c' =? c); lia.
    + intros [H1 H2] H3. split; [exact H1 | apply IH; assumption].
Qed.

Lemma home_ok_in f ch c k : Forall dpos ch -> home_ok f ch -> In (ToOwner c k) ch -> 0 < f c.
Proof.
  intros Hd; revert f; induction Hd as [|m ch Hm _ IH]; intros f; cbn [home_ok In]; [tauto|].
  destruct m as [c' n' r'|c' k'].
  - intros H [E|Hin]; [discriminate|]. specialize (IH _ H Hin). cbv beta in IH. cbn in Hm. destruct (c =? c'); lia.
  - intros [H1 H2] [E|Hin]; [inversion E; subst; exact H1 | eapply IH; eauto].
Qed.

(* ------------------------------------------------------------------ *)
(* the invariant of every reachable state (ALL histories, including the D9 and D16 ones) *)

Record Inv (s : state) : Prop := {
  (* refcount = received + my-references in flight + releases in flight (+ my-references the holder threw away) *)
  inv_count : forall c, rc (o_tab (ow s)) c
                        = recv_sum (h_trk (hd s)) c + inflight (ch_oh s) c + decs (ch_ho s) c + cnt (leaked s) c;
  inv_recv : Forall (fun t => 0 <= t_recv t) (h_trk (hd s));
  inv_dpos : Forall dpos (ch_ho s);
  inv_own : Forall (fun e => 1 <= oe_rc e /\ Z.abs (oe_clid e) < o_next (ow s)) (o_tab (ow s));
  inv_tab : forall c i, tab_get (h_tab (hd s)) c = Some i ->
                        exists t, nth_error (h_trk (hd s)) i = Some t /\ t_clid t = c;
  inv_alive : Forall (fun t => t_proxy t <> None -> 1 <= t_recv t) (h_trk (hd s));
  inv_pend : forall i t, nth_error (h_trk (hd s)) i = Some t -> 1 <= t_recv t ->
                         t_proxy t <> None \/ In i (h_pend (hd s));
  inv_home : home_ok (rc (o_tab (ow s))) (ch_ho s);
  inv_nofail : o_failed (ow s) = false;
  inv_next : 0 < o_next (ow s)
}.

Lemma Inv_init : Inv init.
Proof.
  constructor; cbn; auto; try (intros; discriminate); try reflexivity.
  intros i t H. destruct i; discriminate.
Qed.

Lemma rc_nonneg s c : Inv s -> 0 <= rc (o_tab (ow s)) c.
Proof.
  intros I. rewrite (inv_count s I).
  pose proof (recv_sum_nonneg _ c (inv_recv s I)). pose proof (inflight_nonneg (ch_oh s) c).
  pose proof (decs_nonneg _ c (inv_dpos s I)). pose proof (cnt_nonneg (leaked s) c). lia.
Qed.

Lemma new_clid_abs x n : 0 < n -> Z.abs (new_clid x n) = n.
Proof. intros H. unfold new_clid, callable_clid. destruct (x <? 0); lia. Qed.

Lemma fresh_clid s x : Inv s -> find_clid (o_tab (ow s)) (new_clid x (o_next (ow s))) = None.
Proof.
  intros I. destruct (find_clid _ _) as [e|] eqn:F; [|reflexivity].
  apply find_clid_some in F as [Hin E]. pose proof (inv_own s I) as H. rewrite Forall_forall in H.
  specialize (H e Hin). pose proof (new_clid_abs x _ (inv_next s I)). rewrite E in H. lia.
Qed.

(* ---- Send *)
Lemma Inv_send s x d : Inv s -> Inv (fst (do_send s x d)).
Proof.
  intros I. unfold do_send.
  destruct (find_obj (o_tab (ow s)) x) as [e|] eqn:F.
  - (* the object already has an entry *)
    rewrite send_spec. cbn [fst].
    apply find_some in F as [Hin _].
    assert (Hf : exists e', find_clid (o_tab (ow s)) (oe_clid e) = Some e').
    { destruct (find_clid (o_tab (ow s)) (oe_clid e)) as [e'|] eqn:F'; [eauto|].
      exfalso. eapply find_clid_none; eauto. }
    destruct Hf as [e' Fe'].
    assert (R : forall k, rc (set_rc (o_tab (ow s)) (oe_clid e) (rc (o_tab (ow s)) (oe_clid e) + 1)) k
                          = rc (o_tab (ow s)) k + if oe_clid e =? k then 1 else 0).
    { intros k. rewrite rc_set_rc, Fe'. rewrite (Z.eqb_sym k). destruct (oe_clid e =? k) eqn:Ek; [|lia].
      apply Z.eqb_eq in Ek. subst. lia. }
    constructor; cbn [ow hd ch_oh ch_ho leaked o_tab o_next o_failed].
    + intros c. rewrite R, inflight_app, (inv_count s I). lia.
    + apply (inv_recv s I).
    + apply (inv_dpos s I).
    + pose proof (inv_own s I) as H. rewrite Forall_forall in *. intros a Ha.
      unfold set_rc in Ha. apply in_map_iff in Ha as (b & Eb & Hb). specialize (H b Hb).
      pose proof (rc_nonneg s (oe_clid e) I).
      destruct (oe_clid b =? oe_clid e); subst a; cbn [oe_rc oe_clid]; lia.
    + apply (inv_tab s I).
    + apply (inv_alive s I).
    + apply (inv_pend s I).
    + eapply home_ok_mono; [|apply (inv_home s I)]. intros c. cbv beta. rewrite R. destruct (_ =? _); lia.
    + apply (inv_nofail s I).
    + apply (inv_next s I).
  - (* first transmission: a fresh clid *)
    pose proof (fresh_clid s x I) as Fr. pose proof (new_clid_abs x _ (inv_next s I)) as Ab.
    set (c := new_clid x (o_next (ow s))) in *.
    assert (E0 : rc ({| oe_obj := x; oe_clid := c; oe_rc := 0 |} :: o_tab (ow s)) c = 0).
    { rewrite rc_cons. cbn [oe_clid oe_rc]. rewrite Z.eqb_refl. reflexivity. }
    rewrite E0, send_spec. cbn [fst].
    assert (R : forall k, rc (set_rc ({| oe_obj := x; oe_clid := c; oe_rc := 0 |} :: o_tab (ow s)) c (0 + 1)) k
                          = rc (o_tab (ow s)) k + if c =? k then 1 else 0).
    { intros k. rewrite rc_set_rc. unfold find_clid at 1. cbn [find oe_clid]. rewrite Z.eqb_refl.
      rewrite (Z.eqb_sym k). destruct (c =? k) eqn:Ek.
      - apply Z.eqb_eq in Ek. subst k. rewrite (rc_none _ _ Fr). lia.
      - rewrite rc_cons. cbn [oe_clid]. rewrite Ek. lia. }
    constructor; cbn [ow hd ch_oh ch_ho leaked o_tab o_next o_failed].
    + intros k. rewrite R, inflight_app, (inv_count s I). lia.
    + apply (inv_recv s I).
    + apply (inv_dpos s I).
    + pose proof (inv_own s I) as H. rewrite Forall_forall in *. intros a Ha.
      unfold set_rc in Ha. apply in_map_iff in Ha as (b & Eb & Hb). destruct Hb as [Hb|Hb].
      * subst b. cbn [oe_clid] in Eb. rewrite Z.eqb_refl in Eb. subst a. cbn [oe_rc oe_clid]. lia.
      * specialize (H b Hb). destruct (oe_clid b =? c) eqn:Ebc; subst a; cbn [oe_rc oe_clid]; lia.
    + apply (inv_tab s I).
    + apply (inv_alive s I).
    + apply (inv_pend s I).
    + eapply home_ok_mono; [|apply (inv_home s I)]. intros k. cbv beta. rewrite R. destruct (_ =? _); lia.
    + apply (inv_nofail s I).
    + pose proof (inv_next s I). lia.
Qed.

(* ---- the holder receives a my-reference *)
Lemma get_ref_facts t np :
  let '(t', p, np') := get_ref t np in
  t_clid t' = t_clid t /\ t_recv t' = t_recv t + 1 /\ t_proxy t' = Some p /\
  (t_proxy t = Some p \/ (t_proxy t = None /\ p = np)).
Proof. unfold get_ref. destruct (t_proxy t) as [q|] eqn:E; cbn; rewrite getRef_incr_spec; auto 6. Qed.

Definition myref_trk (s : state) (c : Z) (w : option Z) : list tracker :=
  match tab_get (h_tab (hd s)) c with
  | Some _ => h_trk (hd s)
  | None => h_trk (hd s) ++ [{| t_clid := c; t_recv := 0; t_proxy := None; t_url := w |}] end.
Definition myref_tab (s : state) (c : Z) : list (Z * nat) :=
  match tab_get (h_tab (hd s)) c with
  | Some _ => h_tab (hd s)
  | None => (c, List.length (h_trk (hd s))) :: h_tab (hd s) end.
Definition myref_idx (s : state) (c : Z) : nat :=
  match tab_get (h_tab (hd s)) c with Some i => i | None => List.length (h_trk (hd s)) end.

Definition myref_core (s : state) (trk : list tracker) (tab : list (Z * nat)) (i : nat) (rest : list msgOH)
  : state * list event :=
  match nth_error trk i with
  | Some t =>
    let '(t', p, np) := get_ref t (h_nextpid (hd s)) in
    ({| ow := ow s;
        hd := {| h_trk := upd_nth trk i (fun _ => t'); h_tab := tab; h_nextpid := np; h_nextrid := h_nextrid (hd s);
                 h_pend := h_pend (hd s); h_acks := h_acks (hd s) |};
        ch_oh := rest; ch_ho := ch_ho s; lost := lost s; leaked := leaked s |}, [EvDelivered p])
  | None => (s, [])
  end.

Lemma do_myref_eq s c w rest : do_myref s c w rest = myref_core s (myref_trk s c w) (myref_tab s c) (myref_idx s c) rest.
Proof. unfold do_myref, myref_core, myref_trk, myref_tab, myref_idx. destruct (tab_get (h_tab (hd s)) c); reflexivity. Qed.

Lemma myref_nth s c w : Inv s -> exists t, nth_error (myref_trk s c w) (myref_idx s c) = Some t /\ t_clid t = c.
Proof.
  intros I. unfold myref_trk, myref_idx. destruct (tab_get (h_tab (hd s)) c) as [i|] eqn:G.
  - apply (inv_tab s I) in G. exact G.
  - eexists. split; [apply nth_error_app_last | reflexivity].
Qed.

Lemma Inv_myref s c w rest : Inv s -> ch_oh s = MyRef c false w :: rest -> Inv (fst (do_myref s c w rest)).
Proof.
  intros I Hch. rewrite do_myref_eq.
  assert (Hsum : forall k, recv_sum (myref_trk s c w) k = recv_sum (h_trk (hd s)) k).
  { intros k. unfold myref_trk. destruct (tab_get _ _); [reflexivity|]. rewrite recv_sum_app. unfold contrib. cbn.
    destruct (_ =? _); lia. }
  assert (Hrecv0 : Forall (fun t => 0 <= t_recv t) (myref_trk s c w)).
  { unfold myref_trk. destruct (tab_get _ _); [apply (inv_recv s I)|]. apply Forall_app. split; [apply (inv_recv s I)|].
    constructor; [cbn; lia | constructor]. }
  assert (Halive0 : Forall (fun t => t_proxy t <> None -> 1 <= t_recv t) (myref_trk s c w)).
  { unfold myref_trk. destruct (tab_get _ _); [apply (inv_alive s I)|]. apply Forall_app. split; [apply (inv_alive s I)|].
    constructor; [cbn; congruence | constructor]. }
  pose proof (myref_nth s c w I) as Hnth.
  assert (Htab0 : forall k j, tab_get (myref_tab s c) k = Some j ->
                              exists t, nth_error (myref_trk s c w) j = Some t /\ t_clid t = k).
  { intros k j. unfold myref_tab, myref_trk. destruct (tab_get (h_tab (hd s)) c) as [i|] eqn:G.
    - apply (inv_tab s I).
    - cbn [tab_get]. destruct (c =? k) eqn:Ek.
      + intros E; inversion E; subst j. apply Z.eqb_eq in Ek. subst k.
        eexists. split; [apply nth_error_app_last | reflexivity].
      + intros H. apply (inv_tab s I) in H as (t & H1 & H2). exists t. split; [|exact H2].
        rewrite nth_error_app1; [exact H1 | apply nth_error_Some; congruence]. }
  assert (Hpend0 : forall j t, nth_error (myref_trk s c w) j = Some t -> 1 <= t_recv t ->
                               t_proxy t <> None \/ In j (h_pend (hd s))).
  { intros j t. unfold myref_trk. destruct (tab_get (h_tab (hd s)) c) as [i|] eqn:G; [apply (inv_pend s I)|].
    intros H. destruct (Nat.lt_ge_cases j (List.length (h_trk (hd s)))) as [Hl|Hl].
    - rewrite nth_error_app1 in H by exact Hl. apply (inv_pend s I _ _ H).
    - rewrite nth_error_app2 in H by exact Hl. destruct (j - List.length (h_trk (hd s)))%nat as [|n]; cbn in H.
      + inversion H; subst t. cbn. lia.
      + destruct n; discriminate. }
  generalize dependent (myref_trk s c w). generalize dependent (myref_tab s c). generalize dependent (myref_idx s c).
  intros i0 tab0 trk0 Hsum Hrecv0 Halive0 Hnth Htab0 Hpend0.
  unfold myref_core. destruct Hnth as (t & Ht & Hc). rewrite Ht.
  pose proof (get_ref_facts t (h_nextpid (hd s))) as G. destruct (get_ref t (h_nextpid (hd s))) as [[t' p] np].
  destruct G as (G1 & G2 & G3 & G4). cbn [fst].
  assert (Ht0 : 0 <= t_recv t) by (rewrite Forall_forall in Hrecv0; apply Hrecv0; eapply nth_error_In; eauto).
  constructor; cbn [ow hd ch_oh ch_ho leaked h_trk h_tab h_pend].
  - intros k. rewrite (recv_sum_upd _ _ _ t k Ht), Hsum. pose proof (inv_count s I k) as E. rewrite Hch in E.
    cbn [inflight] in E. unfold contrib. rewrite G1, G2, Hc. destruct (c =? k); lia.
  - apply Forall_upd_nth; [assumption | intros a _ _; lia].
  - apply (inv_dpos s I).
  - apply (inv_own s I).
  - intros k j Hk. apply Htab0 in Hk as (u' & Hu & Hku). rewrite nth_error_upd_nth.
    destruct (Nat.eqb j i0) eqn:Ej; [|eauto].
    apply Nat.eqb_eq in Ej. subst j. rewrite Hu. cbn [option_map]. eexists. split; [reflexivity|].
    rewrite Ht in Hu. inversion Hu; subst u'. congruence.
  - apply Forall_upd_nth; [assumption | intros a _ _ _; lia].
  - intros j u'. rewrite nth_error_upd_nth. destruct (Nat.eqb j i0) eqn:Ej; [|apply Hpend0].
    intros Hu _. apply Nat.eqb_eq in Ej. subst j. rewrite Ht in Hu. cbn [option_map] in Hu. inversion Hu; subst u'.
    left. congruence.
  - apply (inv_home s I).
  - apply (inv_nofail s I).
  - apply (inv_next s I).
Qed.

(* ---- the holder receives the answer to a decref *)
Lemma do_ack_tab s rid rest k j :
  tab_get (h_tab (hd (fst (do_ack s rid rest)))) k = Some j -> tab_get (h_tab (hd s)) k = Some j.
Proof.
  unfold do_ack. cbn [fst hd h_tab].
  destruct (acks_get _ _) as [i|]; [|auto]. destruct (nth_error _ _) as [t|]; [|auto].
  destruct (freeTracker_keeps _); [auto|]. destruct freeTracker_delkey.
  - rewrite tab_get_del. destruct (k =? t_clid t); [discriminate | auto].
  - destruct (tab_get (h_tab (hd s)) (t_clid t)) as [j'|]; [|auto]. destruct (Nat.eqb i j'); [|auto].
    rewrite tab_get_del. destruct (k =? t_clid t); [discriminate | auto].
Qed.

Lemma Inv_ack s rid rest : Inv s -> ch_oh s = Ack rid :: rest -> Inv (fst (do_ack s rid rest)).
Proof.
  intros I Hch. constructor.
  - intros c. pose proof (inv_count s I c) as E. rewrite Hch in E. cbn [inflight] in E. exact E.
  - apply (inv_recv s I).
  - apply (inv_dpos s I).
  - apply (inv_own s I).
  - intros c i H. apply do_ack_tab in H. apply (inv_tab s I _ _ H).
  - apply (inv_alive s I).
  - apply (inv_pend s I).
  - apply (inv_home s I).
  - apply (inv_nofail s I).
  - apply (inv_next s I).
Qed.

Lemma Inv_recv_oh s : Inv s -> Inv (fst (do_recv_oh s)).
Proof.
  intros I. unfold do_recv_oh. destruct (ch_oh s) as [|[c [|] w|rid] rest] eqn:Hch; cbn [fst]; auto.
  - (* discarded my-reference: the holder never counts it *)
    constructor; cbn [ow hd ch_oh ch_ho leaked]; try apply I.
    intros k. pose proof (inv_count s I k) as E. rewrite Hch in E. cbn [inflight] in E. cbn [cnt]. lia.
  - apply Inv_myref; assumption.
  - apply Inv_ack; assumption.
Qed.

(* ---- the owner receives a decref / a your-reference *)
Lemma decref_head_bound s c n rid rest :
  Inv s -> ch_ho s = Decref c n rid :: rest ->
  0 < n /\ exists e, find_clid (o_tab (ow s)) c = Some e /\ n <= oe_rc e /\ oe_rc e = rc (o_tab (ow s)) c.
Proof.
  intros I Hch. pose proof (inv_dpos s I) as D. rewrite Hch in D. inversion D as [|? ? Dn Dr]; subst. cbn in Dn.
  pose proof (inv_count s I c) as E. rewrite Hch in E. cbn [decs] in E. rewrite Z.eqb_refl in E.
  pose proof (recv_sum_nonneg _ c (inv_recv s I)). pose proof (inflight_nonneg (ch_oh s) c).
  pose proof (decs_nonneg _ c Dr). pose proof (cnt_nonneg (leaked s) c).
  split; [exact Dn|]. destruct (rc_pos_found (o_tab (ow s)) c) as (e & F & R); [lia|].
  exists e. split; [exact F|]. split; lia.
Qed.

Lemma Inv_recv_ho s : Inv s -> Inv (fst (do_recv_ho s)).
Proof.
  intros I. unfold do_recv_ho. destruct (ch_ho s) as [|[c n rid|c k] rest] eqn:Hch; cbn [fst]; auto.
  - destruct (decref_head_bound s c n rid rest I Hch) as (Hn & e & F & Hle & Hrc).
    rewrite F, decref_spec. assert (G : oe_rc e >=? n = true) by (apply Z.geb_le; lia). rewrite G. cbn [fst].
    pose proof (inv_dpos s I) as D. rewrite Hch in D. inversion D as [|? ? _ Dr]; subst.
    set (tab' := if oe_rc e - n =? 0 then del_clid (o_tab (ow s)) c else set_rc (o_tab (ow s)) c (oe_rc e - n)).
    assert (R : forall k, rc tab' k = if k =? c then rc (o_tab (ow s)) k - n else rc (o_tab (ow s)) k).
    { intros k. subst tab'. destruct (oe_rc e - n =? 0) eqn:Ez.
      - rewrite rc_del. apply Z.eqb_eq in Ez. destruct (k =? c) eqn:Ek; [|reflexivity]. apply Z.eqb_eq in Ek. subst. lia.
      - rewrite rc_set_rc, F. destruct (k =? c) eqn:Ek; [|reflexivity]. apply Z.eqb_eq in Ek. subst. lia. }
    constructor; cbn [ow hd ch_oh ch_ho leaked o_tab o_next o_failed].
    + intros k. rewrite R, inflight_app. pose proof (inv_count s I k) as E. rewrite Hch in E. cbn [decs] in E.
      rewrite (Z.eqb_sym k c). destruct (c =? k); lia.
    + apply (inv_recv s I).
    + exact Dr.
    + pose proof (inv_own s I) as H. rewrite Forall_forall in *. subst tab'. intros a Ha.
      destruct (oe_rc e - n =? 0) eqn:Ez.
      * apply filter_In in Ha as [Ha _]. auto.
      * apply Z.eqb_neq in Ez. unfold set_rc in Ha. apply in_map_iff in Ha as (b & Eb & Hb). specialize (H b Hb).
        destruct (oe_clid b =? c); subst a; cbn [oe_rc oe_clid]; lia.
    + apply (inv_tab s I).
    + apply (inv_alive s I).
    + apply (inv_pend s I).
    + pose proof (inv_home s I) as H. rewrite Hch in H. cbn [home_ok] in H.
      eapply home_ok_mono; [|exact H]. intros k. cbv beta. rewrite R. lia.
    + apply (inv_nofail s I).
    + apply (inv_next s I).
  - constructor; cbn [ow hd ch_oh ch_ho leaked]; try apply I.
    + intros k0. pose proof (inv_count s I k0) as E. rewrite Hch in E. cbn [decs] in E. exact E.
    + pose proof (inv_dpos s I) as D. rewrite Hch in D. inversion D; assumption.
    + pose proof (inv_home s I) as H. rewrite Hch in H. cbn [home_ok] in H. apply H.
Qed.

(* ---- the proxy dies *)
Lemma Inv_drop s p : Inv s -> Inv (fst (do_drop s p)).
Proof.
  intros I. unfold do_drop. destruct (find_proxy (h_trk (hd s)) p) as [i|] eqn:F; cbn [fst]; [|exact I].
  apply find_proxy_some in F as (t & Ht & Hp).
  constructor; cbn [ow hd ch_oh ch_ho leaked h_trk h_tab h_pend]; try apply I.
  - intros c. rewrite (recv_sum_upd _ _ _ t c Ht). unfold contrib. cbn [t_clid t_recv]. rewrite (inv_count s I c). lia.
  - apply Forall_upd_nth; [apply (inv_recv s I) | intros a _ Ha; exact Ha].
  - intros c j H. apply (inv_tab s I) in H as (u & Hu & Hc). rewrite nth_error_upd_nth.
    destruct (Nat.eqb j i); [rewrite Hu; cbn; eauto | eauto].
  - apply Forall_upd_nth; [apply (inv_alive s I) | intros a _ _ Hn; cbn in Hn; congruence].
  - intros j u. rewrite nth_error_upd_nth. destruct (Nat.eqb j i) eqn:Ej.
    + apply Nat.eqb_eq in Ej. subst j. intros _ _. right. apply in_or_app. right. left. reflexivity.
    + intros Hu Hr. destruct (inv_pend s I _ _ Hu Hr); [left; assumption | right; apply in_or_app; left; assumption].
Qed.

(* ---- _handleRefLost *)
Lemma Inv_reflost s : Inv s -> Inv (fst (do_reflost s)).
Proof.
  intros I. unfold do_reflost. destruct (h_pend (hd s)) as [|i pend] eqn:Hp; cbn [fst]; [exact I|].
  destruct (nth_error (h_trk (hd s)) i) as [t|] eqn:Ht; cbn [fst]; [|exact I].
  assert (Hpend' : forall j u, nth_error (h_trk (hd s)) j = Some u -> 1 <= t_recv u -> j <> i ->
                               t_proxy u <> None \/ In j pend).
  { intros j u Hu Hr Hne. destruct (inv_pend s I _ _ Hu Hr) as [H|H]; [left; exact H|]. rewrite Hp in H.
    destruct H as [H|H]; [congruence | right; exact H]. }
  destruct (t_proxy t) as [q|] eqn:Hq.
  - (* resurrected *)
    cbn [fst]. constructor; cbn [ow hd ch_oh ch_ho leaked h_trk h_tab h_pend]; try apply I.
    intros j u Hu Hr. destruct (Nat.eq_dec j i) as [->|Hne]; [|apply Hpend'; assumption].
    left. rewrite Ht in Hu. inversion Hu; subst u. congruence.
  - rewrite handleRefLost_assign_spec, handleRefLost_skip_spec.
    assert (Ht0 : 0 <= t_recv t).
    { pose proof (inv_recv s I) as H. rewrite Forall_forall in H. apply H. eapply nth_error_In; eauto. }
    assert (Hpend2 : forall j u, nth_error (upd_nth (h_trk (hd s)) i
                         (fun t0 => {| t_clid := t_clid t0; t_recv := 0; t_proxy := t_proxy t0; t_url := t_url t0 |})) j = Some u ->
                       1 <= t_recv u -> t_proxy u <> None \/ In j pend).
    { intros j u. rewrite nth_error_upd_nth. destruct (Nat.eqb j i) eqn:Ej.
      - apply Nat.eqb_eq in Ej. subst j. rewrite Ht. cbn [option_map]. intros Hu; inversion Hu; subst u. cbn. lia.
      - apply Nat.eqb_neq in Ej. intros Hu Hr. apply Hpend'; assumption. }
    assert (Htab2 : forall c j, tab_get (h_tab (hd s)) c = Some j -> exists u,
              nth_error (upd_nth (h_trk (hd s)) i (fun t0 => {| t_clid := t_clid t0; t_recv := 0; t_proxy := t_proxy t0; t_url := t_url t0 |})) j
              = Some u /\ t_clid u = c).
    { intros c j H. apply (inv_tab s I) in H as (u & Hu & Hc). rewrite nth_error_upd_nth.
      destruct (Nat.eqb j i); [rewrite Hu; cbn; eauto | eauto]. }
    destruct (t_recv t =? 0) eqn:Ez; cbn [fst].
    + apply Z.eqb_eq in Ez.
      constructor; cbn [ow hd ch_oh ch_ho leaked h_trk h_tab h_pend]; try apply I; try assumption.
      * intros c. rewrite (recv_sum_upd _ _ _ t c Ht). unfold contrib. cbn [t_clid t_recv]. rewrite (inv_count s I c), Ez.
        destruct (_ =? _); lia.
      * apply Forall_upd_nth; [apply (inv_recv s I) | intros a _ _; cbn; lia].
      * apply Forall_upd_nth; [apply (inv_alive s I) | intros a Ha _ Hn; cbn in Hn].
        rewrite Ht in Ha. inversion Ha; subst a. congruence.
    + apply Z.eqb_neq in Ez.
      constructor; cbn [ow hd ch_oh ch_ho leaked h_trk h_tab h_pend]; try apply I; try assumption.
      * intros c. rewrite (recv_sum_upd _ _ _ t c Ht), decs_app. unfold contrib. cbn [t_clid t_recv].
        rewrite (inv_count s I c). destruct (_ =? _); lia.
      * apply Forall_upd_nth; [apply (inv_recv s I) | intros a _ _; cbn; lia].
      * apply Forall_app. split; [apply (inv_dpos s I) | constructor; [cbn; lia | constructor]].
      * apply Forall_upd_nth; [apply (inv_alive s I) | intros a Ha _ Hn; cbn in Hn].
        rewrite Ht in Ha. inversion Ha; subst a. congruence.
      * apply home_ok_app_decref. apply (inv_home s I).
Qed.

(* ---- a proxy is sent home / called through *)
Lemma Inv_home s p k : Inv s -> Inv (fst (do_home s p k)).
Proof.
  intros I. unfold do_home. destruct (find_proxy (h_trk (hd s)) p) as [i|] eqn:F; cbn [fst]; [|exact I].
  apply find_proxy_some in F as (t & Ht & Hp). rewrite Ht. cbn [fst].
  constructor; cbn [ow hd ch_oh ch_ho leaked]; try apply I.
  - intros c. rewrite decs_app, (inv_count s I c). lia.
  - apply Forall_app. split; [apply (inv_dpos s I) | constructor; [exact Logic.I | constructor]].
  - apply home_ok_app_home; [apply (inv_home s I)|].
    rewrite (inv_count s I (t_clid t)).
    pose proof (recv_sum_ge _ _ _ (t_clid t) (inv_recv s I) Ht) as G. unfold contrib in G. rewrite Z.eqb_refl in G.
    pose proof (inv_alive s I) as A. rewrite Forall_forall in A. specialize (A t (nth_error_In _ _ Ht)).
    assert (1 <= t_recv t) by (apply A; congruence).
    pose proof (inflight_nonneg (ch_oh s) (t_clid t)). pose proof (cnt_nonneg (leaked s) (t_clid t)). lia.
Qed.

(* ---- connection loss *)
Lemma Inv_lost s : Inv s -> Inv (fst (do_lost s)).
Proof.
  intros I. unfold do_lost. destruct finish_clears_spec as [-> ->]. cbn [fst].
  constructor; cbn; auto; try (intros; discriminate); try apply I.
  intros i t H. destruct i; discriminate.
Qed.

Theorem Inv_step s o : Inv s -> Inv (fst (step s o)).
Proof.
  intros I. unfold step. destruct (lost s); [exact I|].
  destruct o; [apply Inv_send | apply Inv_recv_oh | apply Inv_recv_ho | apply Inv_drop | apply Inv_reflost
               | apply Inv_home | apply Inv_lost]; exact I.
Qed.

Theorem Inv_run ops : forall s, Inv s -> Inv (run s ops).
Proof. induction ops as [|o r IH]; intros s I; cbn [run]; [exact I | apply IH, Inv_step, I]. Qed.

Corollary Inv_reachable ops : Inv (run init ops).
Proof. apply Inv_run, Inv_init. Qed.

Theorem count_invariant ops c :
  let s := run init ops in
  rc (o_tab (ow s)) c = recv_sum (h_trk (hd s)) c + inflight (ch_oh s) c + decs (ch_ho s) c + cnt (leaked s) c.
Proof. exact (inv_count _ (Inv_reachable ops) c). Qed.

(* ------------------------------------------------------------------ *)
(* the owner's ids: never reused; the table is a partial bijection object <-> clid *)

Record OwnWf (s : state) : Prop := {
  ow_alloc_nodup : NoDup (map fst (o_alloc (ow s)));
  ow_alloc_lt : Forall (fun a => Z.abs (fst a) < o_next (ow s)) (o_alloc (ow s));
  ow_next_pos : 0 < o_next (ow s);
  ow_clids : NoDup (map oe_clid (o_tab (ow s)));
  ow_objs : NoDup (map oe_obj (o_tab (ow s)));
  ow_logged : Forall (fun e => In (oe_clid e, oe_obj e) (o_alloc (ow s))) (o_tab (ow s))
}.

Lemma OwnWf_init : OwnWf init.
Proof. constructor; cbn; try constructor. Qed.

Lemma logged_set_rc al tab c v :
  Forall (fun e => In (oe_clid e, oe_obj e) al) tab -> Forall (fun e => In (oe_clid e, oe_obj e) al) (set_rc tab c v).
Proof.
  rewrite !Forall_forall. intros H a Ha. unfold set_rc in Ha. apply in_map_iff in Ha as (b & Eb & Hb).
  specialize (H b Hb). destruct (oe_clid b =? c); subst a; cbn [oe_clid oe_obj]; exact H.
Qed.

Lemma OwnWf_step s o : OwnWf s -> OwnWf (fst (step s o)).
Proof.
  intros W. unfold step. destruct (lost s); [exact W|]. destruct o; cbn [fst].
  - (* Send *)
    unfold do_send. destruct (find_obj (o_tab (ow s)) x) as [e|] eqn:F; rewrite send_spec; cbn [fst].
    + constructor; cbn [ow o_tab o_next o_alloc]; try apply W.
      * rewrite map_clid_set_rc. apply W.
      * rewrite map_obj_set_rc. apply W.
      * apply logged_set_rc. apply W.
    + pose proof (new_clid_abs x _ (ow_next_pos s W)) as Ab.
      constructor; cbn [ow o_tab o_next o_alloc].
      * cbn [map fst]. constructor; [|apply W]. intros Hin. apply in_map_iff in Hin as (a & Ea & Ha).
        pose proof (ow_alloc_lt s W) as L. rewrite Forall_forall in L. specialize (L a Ha). rewrite Ea in L. lia.
      * constructor; [cbn [fst]; lia|]. apply Forall_impl with (2 := ow_alloc_lt s W). intros a Ha. lia.
      * pose proof (ow_next_pos s W). lia.
      * rewrite map_clid_set_rc. cbn [map oe_clid]. constructor; [|apply W].
        intros Hin. apply in_map_iff in Hin as (a & Ea & Ha).
        pose proof (ow_logged s W) as G. rewrite Forall_forall in G. specialize (G a Ha).
        pose proof (ow_alloc_lt s W) as L. rewrite Forall_forall in L. specialize (L _ G). cbn [fst] in L. rewrite Ea in L. lia.
      * rewrite map_obj_set_rc. cbn [map oe_obj]. constructor; [|apply W].
        intros Hin. apply in_map_iff in Hin as (a & Ea & Ha).
        pose proof (find_none _ _ F a Ha) as N. cbn in N. apply Z.eqb_neq in N. congruence.
      * apply logged_set_rc. constructor; [cbn; left; reflexivity|].
        apply Forall_impl with (2 := ow_logged s W). intros a Ha. right. exact Ha.
  - (* RecvOH: the owner is untouched *)
    unfold do_recv_oh. destruct (ch_oh s) as [|[c [|]|rid] rest]; cbn [fst]; try exact W.
    + constructor; cbn [ow]; apply W.
    + rewrite do_myref_eq. unfold myref_core. destruct (nth_error _ _) as [t|]; [|exact W].
      destruct (get_ref t (h_nextpid (hd s))) as [[t' p] np]. cbn [fst]. constructor; cbn [ow]; apply W.
    + constructor; cbn [ow]; apply W.
  - (* RecvHO *)
    unfold do_recv_ho. destruct (ch_ho s) as [|[c n rid|c k] rest]; cbn [fst]; try exact W.
    + destruct (find_clid (o_tab (ow s)) c) as [e|]; [|constructor; cbn [ow]; apply W].
      destruct (decref n (oe_rc e)) as [[done v]|]; cbn [fst]; constructor; cbn [ow o_tab o_next o_alloc]; try apply W.
      * destruct done; [apply NoDup_map_filter | rewrite map_clid_set_rc]; apply W.
      * destruct done; [apply NoDup_map_filter | rewrite map_obj_set_rc]; apply W.
      * destruct done; [|apply logged_set_rc; apply W].
        pose proof (ow_logged s W) as G. rewrite Forall_forall in *. intros a Ha. apply filter_In in Ha as [Ha _]. auto.
    + constructor; cbn [ow]; apply W.
  - unfold do_drop. destruct (find_proxy _ _); cbn [fst]; [constructor; cbn [ow]; apply W | exact W].
  - unfold do_reflost. destruct (h_pend (hd s)); [exact W|]. destruct (nth_error _ _) as [t|]; [|exact W].
    destruct (t_proxy t); [constructor; cbn [ow]; apply W|].
    destruct (handleRefLost_assign (t_recv t)) as [cnt0 r']. destruct (handleRefLost_skip cnt0); constructor; cbn [ow]; apply W.
  - unfold do_home. destruct (find_proxy _ _); [|exact W]. destruct (nth_error _ _); [|exact W].
    constructor; cbn [ow]; apply W.
  - unfold do_lost. cbn [fst]. constructor; cbn [ow o_tab o_next o_alloc]; try apply W.
    + destruct (_ && _); [constructor | apply W].
    + destruct (_ && _); [constructor | apply W].
    + destruct (_ && _); [constructor | apply W].
Qed.

Lemma OwnWf_run ops : forall s, OwnWf s -> OwnWf (run s ops).
Proof. induction ops as [|o r IH]; intros s W; cbn [run]; [exact W | apply IH, OwnWf_step, W]. Qed.

(* the log only grows: what a clid was allocated for never changes *)
Lemma alloc_grows s o a : In a (o_alloc (ow s)) -> In a (o_alloc (ow (fst (step s o)))).
Proof.
  intros H. unfold step. destruct (lost s); [exact H|]. destruct o; cbn [fst].
  - unfold do_send. destruct (find_obj _ _); rewrite send_spec; cbn [fst ow o_alloc]; [exact H | right; exact H].
  - unfold do_recv_oh. destruct (ch_oh s) as [|[c [|]|rid] rest]; cbn [fst]; try exact H.
    rewrite do_myref_eq. unfold myref_core. destruct (nth_error _ _) as [t|]; [|exact H].
    destruct (get_ref t (h_nextpid (hd s))) as [[t' p] np]. exact H.
  - unfold do_recv_ho. destruct (ch_ho s) as [|[c n rid|c k] rest]; cbn [fst]; try exact H.
    destruct (find_clid _ _) as [e|]; [|exact H]. destruct (decref n (oe_rc e)) as [[done v]|]; exact H.
  - unfold do_drop. destruct (find_proxy _ _); exact H.
  - unfold do_reflost. destruct (h_pend (hd s)); [exact H|]. destruct (nth_error _ _) as [t|]; [|exact H].
    destruct (t_proxy t); [exact H|].
    destruct (handleRefLost_assign (t_recv t)) as [cnt0 r']. destruct (handleRefLost_skip cnt0); exact H.
  - unfold do_home. destruct (find_proxy _ _); [|exact H]. destruct (nth_error _ _); exact H.
  - exact H.
Qed.

(* ------------------------------------------------------------------ *)
(* connection loss *)

Lemma step_lost_id s o : lost s = true -> step s o = (s, []).
Proof. intros H. unfold step. rewrite H. reflexivity. Qed.

Lemma run_lost_id ops s : lost s = true -> run s ops = s.
Proof. induction ops as [|o r IH]; cbn [run]; [reflexivity|]. intros H. rewrite step_lost_id by exact H. cbn [fst]. apply IH, H. Qed.

Definition LostEmpty (s : state) : Prop :=
  lost s = true -> o_tab (ow s) = [] /\ h_tab (hd s) = [] /\ ch_oh s = [] /\ ch_ho s = [].

Lemma lost_preserved s o : lost s = false -> o <> ConnLost -> lost (fst (step s o)) = false.
Proof.
  intros H Hne. unfold step. rewrite H. destruct o; cbn [fst]; try congruence.
  - unfold do_send. destruct (find_obj _ _); rewrite send_spec; exact H.
  - unfold do_recv_oh. destruct (ch_oh s) as [|[c [|]|rid] rest]; cbn [fst]; try exact H.
    rewrite do_myref_eq. unfold myref_core. destruct (nth_error _ _) as [t|]; [|exact H].
    destruct (get_ref t (h_nextpid (hd s))) as [[t' p] np]. exact H.
  - unfold do_recv_ho. destruct (ch_ho s) as [|[c n rid|c k] rest]; cbn [fst]; try exact H.
    destruct (find_clid _ _) as [e|]; [|exact H]. destruct (decref n (oe_rc e)) as [[done v]|]; exact H.
  - unfold do_drop. destruct (find_proxy _ _); exact H.
  - unfold do_reflost. destruct (h_pend (hd s)); [exact H|]. destruct (nth_error _ _) as [t|]; [|exact H].
    destruct (t_proxy t); [exact H|].
    destruct (handleRefLost_assign (t_recv t)) as [cnt0 r']. destruct (handleRefLost_skip cnt0); exact H.
  - unfold do_home. destruct (find_proxy _ _); [|exact H]. destruct (nth_error _ _); exact H.
Qed.

Lemma LostEmpty_step s o : LostEmpty s -> LostEmpty (fst (step s o)).
Proof.
  intros L. destruct (lost s) eqn:Hl.
  - rewrite step_lost_id by exact Hl. exact L.
  - destruct o; try (intros H; rewrite lost_preserved in H by (auto; discriminate); discriminate).
    intros _. unfold step. rewrite Hl. unfold do_lost. destruct finish_clears_spec as [-> ->]. cbn. auto.
Qed.

Lemma LostEmpty_run ops : forall s, LostEmpty s -> LostEmpty (run s ops).
Proof. induction ops as [|o r IH]; intros s L; cbn [run]; [exact L | apply IH, LostEmpty_step, L]. Qed.

Lemma run_app ops1 ops2 s : run s (ops1 ++ ops2) = run (run s ops1) ops2.
Proof. revert s; induction ops1 as [|o r IH]; intros s; cbn [app run]; [reflexivity | apply IH]. Qed.

Lemma lost_after_connlost s : lost (fst (step s ConnLost)) = true.
Proof. unfold step. destruct (lost s) eqn:H; [exact H | reflexivity]. Qed.

Theorem loss_forgets ops1 ops2 :
  let s := run init (ops1 ++ ConnLost :: ops2) in
  lost s = true /\ o_tab (ow s) = [] /\ h_tab (hd s) = [] /\ ch_oh s = [] /\ ch_ho s = [].
Proof.
  cbv zeta. rewrite run_app. cbn [run]. set (s1 := run init ops1).
  assert (L1 : LostEmpty s1) by (apply LostEmpty_run; intros H; discriminate).
  pose proof (lost_after_connlost s1) as Hl. rewrite run_lost_id by exact Hl.
  split; [exact Hl|]. exact (LostEmpty_step s1 ConnLost L1 Hl).
Qed.

(* ------------------------------------------------------------------ *)
(* C08: as long as no decref answer frees another tracker's table entry (safe_op), every tracker that counts
   references -- in particular every tracker with a live proxy -- is the one registered for its clid *)

Definition Attached (s : state) : Prop :=
  forall i t, nth_error (h_trk (hd s)) i = Some t -> 1 <= t_recv t -> tab_get (h_tab (hd s)) (t_clid t) = Some i.

Lemma Attached_step s o : Inv s -> Attached s -> safe_op s o = true -> Attached (fst (step s o)).
Proof.
  intros I A Hs. unfold Attached in *. unfold step. destruct (lost s) eqn:Hl; [exact A|]. destruct o; cbn [fst].
  - unfold do_send. destruct (find_obj _ _); rewrite send_spec; exact A.
  - unfold do_recv_oh. destruct (ch_oh s) as [|[c [|] w|rid] rest] eqn:Hch; cbn [fst]; try exact A.
    + (* my-reference *)
      rewrite do_myref_eq. unfold myref_core. destruct (myref_nth s c w I) as (t & Ht & Hc). rewrite Ht.
      pose proof (get_ref_facts t (h_nextpid (hd s))) as G. destruct (get_ref t (h_nextpid (hd s))) as [[t' p] np].
      destruct G as (G1 & G2 & G3 & G4). cbn [fst hd h_trk h_tab].
      intros j u. rewrite nth_error_upd_nth. destruct (Nat.eqb j (myref_idx s c)) eqn:Ej.
      * apply Nat.eqb_eq in Ej. subst j. rewrite Ht. cbn [option_map]. intros E _. inversion E; subst u. rewrite G1, Hc.
        unfold myref_tab, myref_idx. destruct (tab_get (h_tab (hd s)) c) eqn:Gt; [exact Gt|].
        cbn [tab_get]. rewrite Z.eqb_refl. reflexivity.
      * apply Nat.eqb_neq in Ej. unfold myref_trk, myref_tab, myref_idx in *.
        destruct (tab_get (h_tab (hd s)) c) as [i|] eqn:Gt; [apply A|].
        intros Hu Hr. assert (Hj : (j < List.length (h_trk (hd s)))%nat).
        { destruct (Nat.lt_ge_cases j (List.length (h_trk (hd s)))) as [Hlt|Hge]; [exact Hlt|].
          rewrite nth_error_app2 in Hu by exact Hge.
          destruct (j - List.length (h_trk (hd s)))%nat as [|n] eqn:En; [lia|]. destruct n; discriminate. }
        rewrite nth_error_app1 in Hu by exact Hj. specialize (A _ _ Hu Hr).
        cbn [tab_get]. destruct (c =? t_clid u) eqn:Ec; [|exact A].
        apply Z.eqb_eq in Ec. subst c. congruence.
    + (* answer to a decref *)
      unfold do_ack. cbn [fst hd h_trk h_tab].
      cbn [safe_op] in Hs. rewrite Hl, Hch in Hs.
      destruct (acks_get (h_acks (hd s)) rid) as [i|]; [|exact A].
      destruct (nth_error (h_trk (hd s)) i) as [t|] eqn:Ht; [|exact A].
      rewrite freeTracker_keeps_spec in *. destruct (t_recv t =? 0) eqn:Ez; cbn [negb] in *; [|exact A].
      apply Z.eqb_eq in Ez.
      assert (Del : forall j u, nth_error (h_trk (hd s)) j = Some u -> 1 <= t_recv u ->
                                tab_get (tab_del (h_tab (hd s)) (t_clid t)) (t_clid u) = Some j).
      { intros j u Hu Hr. rewrite tab_get_del. specialize (A _ _ Hu Hr).
        destruct (t_clid u =? t_clid t) eqn:Ec; [|exact A]. exfalso.
        apply Z.eqb_eq in Ec. rewrite Ec in A. rewrite A in Hs. apply Nat.eqb_eq in Hs. subst j.
        rewrite Ht in Hu. inversion Hu; subst u. lia. }
      destruct freeTracker_delkey; [exact Del|].
      destruct (tab_get (h_tab (hd s)) (t_clid t)) as [j'|]; [|exact A]. destruct (Nat.eqb i j'); [exact Del | exact A].
  - unfold do_recv_ho. destruct (ch_ho s) as [|[c n rid|c k] rest]; cbn [fst]; try exact A.
    destruct (find_clid _ _) as [e|]; [|exact A]. destruct (decref n (oe_rc e)) as [[done v]|]; exact A.
  - unfold do_drop. destruct (find_proxy (h_trk (hd s)) p) as [i|]; cbn [fst]; [|exact A].
    cbn [hd h_trk h_tab]. intros j u. rewrite nth_error_upd_nth. destruct (Nat.eqb j i); [|apply A].
    destruct (nth_error (h_trk (hd s)) j) as [t|] eqn:Ht; cbn [option_map]; [|discriminate].
    intros E Hr. inversion E; subst u. cbn [t_clid t_recv] in *. apply A; assumption.
  - unfold do_reflost. destruct (h_pend (hd s)) as [|i pend]; [exact A|].
    destruct (nth_error (h_trk (hd s)) i) as [t|] eqn:Ht; [|exact A].
    destruct (t_proxy t); [exact A|]. rewrite handleRefLost_assign_spec.
    assert (Hcore : forall j u, nth_error (upd_nth (h_trk (hd s)) i
                        (fun t0 => {| t_clid := t_clid t0; t_recv := 0; t_proxy := t_proxy t0; t_url := t_url t0 |})) j = Some u ->
                      1 <= t_recv u -> tab_get (h_tab (hd s)) (t_clid u) = Some j).
    { intros j u. rewrite nth_error_upd_nth. destruct (Nat.eqb j i); [|apply A].
      destruct (nth_error (h_trk (hd s)) j); cbn [option_map]; [|discriminate].
      intros E Hr. inversion E; subst u. cbn in Hr. lia. }
    destruct (handleRefLost_skip (t_recv t)); exact Hcore.
  - unfold do_home. destruct (find_proxy _ _); [|exact A]. destruct (nth_error _ _); exact A.
  - unfold do_lost. cbn [fst hd h_trk]. intros j u Hu. destruct j; discriminate.
Qed.

Lemma Attached_run ops : forall s, Inv s -> Attached s -> safe_run s ops -> Attached (run s ops).
Proof.
  induction ops as [|o r IH]; intros s I A Hs; cbn [run]; [exact A|]. destruct Hs as [H1 H2].
  apply IH; [apply Inv_step, I | apply Attached_step; assumption | exact H2].
Qed.

Lemma Attached_init : Attached init.
Proof. intros i t H. destruct i; discriminate. Qed.

(* D16 (repaired by ab72d65): the e9 history.  Object 1 is sent; proxy dropped (decref#1); sent again before the owner sees decref#1;
   the owner answers decref#1; the holder gets my-reference#2, drops the proxy (decref#2), THEN gets answer#1 with
   received_count == 0 and forgets the tracker; the object is sent a third time before the owner sees decref#2: a NEW
   tracker and proxy; answer#2 then deletes the NEW tracker's table entry by clid; fourth send. *)
Definition d16_ops : list op :=
  [Send 1 false; RecvOH; DropProxy 0; HandleRefLost; Send 1 false; RecvHO; RecvOH; DropProxy 1; HandleRefLost; RecvOH;
   Send 1 false; RecvOH; RecvHO; RecvOH; Send 1 false].

(* ------------------------------------------------------------------ *)
(* the deletion rule as a parameter: everything about counts holds for either rule; with deletion by identity (the
   candidate repair of D16) the same-proxy statement holds WITHOUT the safe_run guard *)

Lemma step_k_current s o : step_k freeTracker_delkey s o = step s o.
Proof. unfold step_k, step. destruct (lost s); [reflexivity|]. destruct o; reflexivity. Qed.

Lemma run_k_current ops : forall s, run_k freeTracker_delkey s ops = run s ops.
Proof. induction ops as [|o r IH]; intros s; cbn [run_k run]; [reflexivity | rewrite step_k_current; apply IH]. Qed.

Definition ack_case (s : state) (o : op) : Prop := lost s = false /\ o = RecvOH /\ exists rid rest, ch_oh s = Ack rid :: rest.

Lemma step_k_same k s o : ~ ack_case s o -> step_k k s o = step s o /\ safe_op s o = true.
Proof.
  intros N. unfold step_k, step, ack_case in *. destruct (lost s) eqn:Hl.
  - split; [reflexivity|]. destruct o; cbn [safe_op]; try reflexivity. rewrite Hl. reflexivity.
  - destruct o; cbn [safe_op]; try (split; reflexivity). rewrite Hl.
    unfold do_recv_oh_k, do_recv_oh. destruct (ch_oh s) as [|[c d|rid] rest] eqn:Hch; try (split; reflexivity).
    exfalso. apply N. repeat split; eauto.
Qed.

Lemma do_ack_k_tab k s rid rest c j :
  tab_get (h_tab (hd (fst (do_ack_k k s rid rest)))) c = Some j -> tab_get (h_tab (hd s)) c = Some j.
Proof.
  unfold do_ack_k. cbn [fst hd h_tab].
  destruct (acks_get _ _) as [i|]; [|auto]. destruct (nth_error _ _) as [t|]; [|auto].
  destruct (freeTracker_keeps _); [auto|]. destruct k.
  - rewrite tab_get_del. destruct (c =? t_clid t); [discriminate | auto].
  - destruct (tab_get (h_tab (hd s)) (t_clid t)) as [j'|]; [|auto]. destruct (Nat.eqb i j'); [|auto].
    rewrite tab_get_del. destruct (c =? t_clid t); [discriminate | auto].
Qed.

Lemma Inv_ack_k k s rid rest : Inv s -> ch_oh s = Ack rid :: rest -> Inv (fst (do_ack_k k s rid rest)).
Proof.
  intros I Hch. constructor.
  - intros c. pose proof (inv_count s I c) as E. rewrite Hch in E. cbn [inflight] in E. exact E.
  - apply (inv_recv s I).
  - apply (inv_dpos s I).
  - apply (inv_own s I).
  - intros c i H. apply do_ack_k_tab in H. apply (inv_tab s I _ _ H).
  - apply (inv_alive s I).
  - apply (inv_pend s I).
  - apply (inv_home s I).
  - apply (inv_nofail s I).
  - apply (inv_next s I).
Qed.

Lemma ack_case_dec s o : ack_case s o \/ ~ ack_case s o.
Proof.
  unfold ack_case. destruct (lost s); [right; intros (H & _); discriminate|].
  destruct o; try (right; intros (_ & H & _); discriminate).
  destruct (ch_oh s) as [|[c d|rid] rest]; [right; intros (_ & _ & r & q & H); discriminate | right; intros (_ & _ & r & q & H); discriminate|].
  left. repeat split; eauto.
Qed.

Lemma step_k_ack k s o : ack_case s o -> exists rid rest, ch_oh s = Ack rid :: rest /\ step_k k s o = do_ack_k k s rid rest.
Proof.
  intros (Hl & -> & rid & rest & Hch). exists rid, rest. split; [exact Hch|].
  unfold step_k. rewrite Hl. unfold do_recv_oh_k. rewrite Hch. reflexivity.
Qed.

Theorem Inv_step_k k s o : Inv s -> Inv (fst (step_k k s o)).
Proof.
  intros I. destruct (ack_case_dec s o) as [A|N].
  - destruct (step_k_ack k s o A) as (rid & rest & Hch & ->). apply Inv_ack_k; assumption.
  - destruct (step_k_same k s o N) as [-> _]. apply Inv_step, I.
Qed.

Theorem Inv_run_k k ops : forall s, Inv s -> Inv (run_k k s ops).
Proof. induction ops as [|o r IH]; intros s I; cbn [run_k]; [exact I | apply IH, Inv_step_k, I]. Qed.

(* the counting invariant does not depend on the deletion rule *)
Theorem count_invariant_k k ops c :
  let s := run_k k init ops in
  rc (o_tab (ow s)) c = recv_sum (h_trk (hd s)) c + inflight (ch_oh s) c + decs (ch_ho s) c + cnt (leaked s) c.
Proof. exact (inv_count _ (Inv_run_k k ops init Inv_init) c). Qed.

Lemma Attached_step_id s o : Inv s -> Attached s -> Attached (fst (step_k DelByIdentity s o)).
Proof.
  intros I A. destruct (ack_case_dec s o) as [C|N].
  - destruct (step_k_ack DelByIdentity s o C) as (rid & rest & Hch & ->).
    unfold Attached in *. unfold do_ack_k. cbn [fst hd h_trk h_tab].
    destruct (acks_get (h_acks (hd s)) rid) as [i|]; [|exact A].
    destruct (nth_error (h_trk (hd s)) i) as [t|] eqn:Ht; [|exact A].
    rewrite freeTracker_keeps_spec. destruct (t_recv t =? 0) eqn:Ez; cbn [negb]; [|exact A].
    apply Z.eqb_eq in Ez. destruct (tab_get (h_tab (hd s)) (t_clid t)) as [j'|] eqn:G; [|exact A].
    destruct (Nat.eqb i j') eqn:Eij; [|exact A]. apply Nat.eqb_eq in Eij. subst j'.
    intros j u Hu Hr. rewrite tab_get_del. specialize (A _ _ Hu Hr).
    destruct (t_clid u =? t_clid t) eqn:Ec; [|exact A]. exfalso.
    apply Z.eqb_eq in Ec. rewrite Ec, G in A. inversion A; subst j. rewrite Ht in Hu. inversion Hu; subst u. lia.
  - destruct (step_k_same DelByIdentity s o N) as [-> Hs]. apply Attached_step; assumption.
Qed.

Lemma Attached_run_id ops : forall s, Inv s -> Attached s -> Attached (run_k DelByIdentity s ops).
Proof.
  induction ops as [|o r IH]; intros s I A; cbn [run_k]; [exact A|].
  apply IH; [apply Inv_step_k, I | apply Attached_step_id; assumption].
Qed.

(* C08, first sentence, at FULL strength for the repaired rule: in every history, a my-reference whose clid has a live proxy
   delivers that very proxy *)
Theorem same_proxy_with_identity_rule ops :
  let s := run_k DelByIdentity init ops in
  forall i t p w rest,
    lost s = false -> nth_error (h_trk (hd s)) i = Some t -> t_proxy t = Some p ->
    ch_oh s = MyRef (t_clid t) false w :: rest ->
    snd (step_k DelByIdentity s RecvOH) = [EvDelivered p].
Proof.
  intros s i t p w rest Hl Ht Hp Hch.
  pose proof (Inv_run_k DelByIdentity ops init Inv_init) as I. fold s in I.
  pose proof (Attached_run_id ops init Inv_init Attached_init) as A. fold s in A.
  assert (Hr : 1 <= t_recv t).
  { pose proof (inv_alive s I) as H. rewrite Forall_forall in H. apply (H t (nth_error_In _ _ Ht)). congruence. }
  specialize (A _ _ Ht Hr).
  unfold step_k. rewrite Hl. unfold do_recv_oh_k. rewrite Hch. unfold do_myref. rewrite A, Ht.
  unfold get_ref. rewrite Hp. reflexivity.
Qed.

Theorem one_proxy_per_clid_with_identity_rule ops :
  let s := run_k DelByIdentity init ops in
  forall i j ti tj, nth_error (h_trk (hd s)) i = Some ti -> nth_error (h_trk (hd s)) j = Some tj ->
                    t_proxy ti <> None -> t_proxy tj <> None -> t_clid ti = t_clid tj -> i = j.
Proof.
  intros s i j ti tj Hi Hj Pi Pj Ec.
  pose proof (Inv_run_k DelByIdentity ops init Inv_init) as I. fold s in I.
  pose proof (Attached_run_id ops init Inv_init Attached_init) as A. fold s in A.
  pose proof (inv_alive s I) as H. rewrite Forall_forall in H.
  pose proof (A _ _ Hi (H ti (nth_error_In _ _ Hi) Pi)) as E1.
  pose proof (A _ _ Hj (H tj (nth_error_In _ _ Hj) Pj)) as E2. congruence.
Qed.

(* ... hence, as soon as the SOURCE uses the identity rule (freeTracker_delkey is read from freeYourReferenceTracker on every
   run), the first sentence of C08 holds at full strength for `run` / `step` themselves *)
Theorem same_proxy_if_identity_rule :
  freeTracker_delkey = DelByIdentity ->
  forall ops, let s := run init ops in
  forall i t p w rest,
    lost s = false -> nth_error (h_trk (hd s)) i = Some t -> t_proxy t = Some p ->
    ch_oh s = MyRef (t_clid t) false w :: rest ->
    snd (step s RecvOH) = [EvDelivered p].
Proof.
  intros E ops. cbv zeta. rewrite <- run_k_current, <- step_k_current, E. apply same_proxy_with_identity_rule.
Qed.

(* the D16 history itself: under the identity rule the fourth send arrives as the proxy that is held (2), under deletion
   by clid as a new one (3) *)
Example d16_repaired :
  snd (step_k DelByIdentity (run_k DelByIdentity init d16_ops) RecvOH) = [EvDelivered 2] /\
  snd (step_k DelByClid (run_k DelByClid init d16_ops) RecvOH) = [EvDelivered 3].
Proof. vm_compute. split; reflexivity. Qed.

(* C08, first sentence, at full strength for the CURRENT source (the rule is re-read from freeYourReferenceTracker on every
   run; `eq_refl` stops type-checking the moment the source deletes by anything but identity) *)
Theorem same_proxy ops :
  let s := run init ops in
  forall i t p w rest,
    lost s = false -> nth_error (h_trk (hd s)) i = Some t -> t_proxy t = Some p ->
    ch_oh s = MyRef (t_clid t) false w :: rest ->
    snd (step s RecvOH) = [EvDelivered p].
Proof. exact (same_proxy_if_identity_rule eq_refl ops). Qed.

Theorem one_proxy_per_clid ops :
  let s := run init ops in
  forall i j ti tj, nth_error (h_trk (hd s)) i = Some ti -> nth_error (h_trk (hd s)) j = Some tj ->
                    t_proxy ti <> None -> t_proxy tj <> None -> t_clid ti = t_clid tj -> i = j.
Proof.
  assert (E : freeTracker_delkey = DelByIdentity) by reflexivity.
  cbv zeta. rewrite <- run_k_current, E. apply one_proxy_per_clid_with_identity_rule.
Qed.

(* ---- the OLD rule (deletion by clid), kept as documentation of D16: under it the statement holds exactly for the histories
   in which no decref answer frees a table entry that belongs to another tracker (safe_op), and is refuted otherwise *)
Lemma Attached_step_k k s o : Inv s -> Attached s -> safe_op s o = true -> Attached (fst (step_k k s o)).
Proof.
  intros I A Hs. destruct (ack_case_dec s o) as [C|N].
  - destruct (step_k_ack k s o C) as (rid & rest & Hch & ->). destruct C as (Hl & -> & _).
    unfold Attached in *. unfold do_ack_k. cbn [fst hd h_trk h_tab].
    cbn [safe_op] in Hs. rewrite Hl, Hch in Hs.
    destruct (acks_get (h_acks (hd s)) rid) as [i|]; [|exact A].
    destruct (nth_error (h_trk (hd s)) i) as [t|] eqn:Ht; [|exact A].
    rewrite freeTracker_keeps_spec in *. destruct (t_recv t =? 0) eqn:Ez; cbn [negb] in *; [|exact A].
    apply Z.eqb_eq in Ez.
    assert (Del : forall j u, nth_error (h_trk (hd s)) j = Some u -> 1 <= t_recv u ->
                              tab_get (tab_del (h_tab (hd s)) (t_clid t)) (t_clid u) = Some j).
    { intros j u Hu Hr. rewrite tab_get_del. specialize (A _ _ Hu Hr).
      destruct (t_clid u =? t_clid t) eqn:Ec; [|exact A]. exfalso.
      apply Z.eqb_eq in Ec. rewrite Ec in A. rewrite A in Hs. apply Nat.eqb_eq in Hs. subst j.
      rewrite Ht in Hu. inversion Hu; subst u. lia. }
    destruct k; [exact Del|].
    destruct (tab_get (h_tab (hd s)) (t_clid t)) as [j'|]; [|exact A]. destruct (Nat.eqb i j'); [exact Del | exact A].
  - destruct (step_k_same k s o N) as [-> _]. apply Attached_step; assumption.
Qed.

Lemma Attached_run_k k ops : forall s, Inv s -> Attached s -> safe_run_k k s ops -> Attached (run_k k s ops).
Proof.
  induction ops as [|o r IH]; intros s I A Hs; cbn [run_k]; [exact A|]. destruct Hs as [H1 H2].
  apply IH; [apply Inv_step_k, I | apply Attached_step_k; assumption | exact H2].
Qed.

Theorem same_proxy_guarded k ops :
  safe_run_k k init ops ->
  let s := run_k k init ops in
  forall i t p w rest,
    lost s = false -> nth_error (h_trk (hd s)) i = Some t -> t_proxy t = Some p ->
    ch_oh s = MyRef (t_clid t) false w :: rest ->
    snd (step_k k s RecvOH) = [EvDelivered p].
Proof.
  intros Hs s i t p w rest Hl Ht Hp Hch.
  pose proof (Inv_run_k k ops init Inv_init) as I. fold s in I.
  pose proof (Attached_run_k k ops init Inv_init Attached_init Hs) as A. fold s in A.
  assert (Hr : 1 <= t_recv t).
  { pose proof (inv_alive s I) as H. rewrite Forall_forall in H. apply (H t (nth_error_In _ _ Ht)). congruence. }
  specialize (A _ _ Ht Hr).
  unfold step_k. rewrite Hl. unfold do_recv_oh_k. rewrite Hch. unfold do_myref. rewrite A, Ht.
  unfold get_ref. rewrite Hp. reflexivity.
Qed.

Theorem same_proxy_refuted_under_clid_rule :
  exists ops, let s := run_k DelByClid init ops in
  exists i t p w rest,
    lost s = false /\ nth_error (h_trk (hd s)) i = Some t /\ t_proxy t = Some p /\
    ch_oh s = MyRef (t_clid t) false w :: rest /\ snd (step_k DelByClid s RecvOH) <> [EvDelivered p].
Proof.
  exists d16_ops. cbv zeta.
  exists 1%nat, {| t_clid := 1; t_recv := 1; t_proxy := Some 2; t_url := None |}, 2, None, [].
  vm_compute. repeat split; discriminate.
Qed.

Example safe_run_example :
  safe_run_k DelByClid init [Send 1 false; RecvOH; DropProxy 0; HandleRefLost; Send 1 false; RecvHO; RecvOH; RecvOH; DropProxy 1;
                             HandleRefLost; RecvHO; RecvOH; Send 1 false; RecvOH; Send 1 false; RecvOH].
Proof. vm_compute. repeat split. Qed.

Example d16_not_safe : ~ safe_run_k DelByClid init d16_ops.
Proof. vm_compute. intuition discriminate. Qed.

(* bound methods and Referenceables side by side: one counter, one table, negated numbers for the methods; a re-send uses
   the clid on file *)
Example method_clids_example :
  let s := run init [Send (-1) false; Send 1 false; Send (-2) false; Send (-1) false] in
  map (fun e => (oe_obj e, oe_clid e, oe_rc e)) (o_tab (ow s)) = [(-2, -3, 1); (1, 2, 1); (-1, -1, 2)] /\ o_next (ow s) = 4.
Proof. vm_compute. split; reflexivity. Qed.

(* ------------------------------------------------------------------ *)
(* C08: home *)

Theorem home_original ops :
  let s := run init ops in
  forall c k rest, lost s = false -> ch_ho s = ToOwner c k :: rest ->
  exists x, In (c, x) (o_alloc (ow s)) /\ snd (step s RecvHO) = [EvHome k (Some x)].
Proof.
  intros s c k rest Hl Hch. pose proof (Inv_reachable ops) as I. fold s in I.
  pose proof (OwnWf_run ops init OwnWf_init) as W. fold s in W.
  pose proof (inv_home s I) as H. rewrite Hch in H. cbn [home_ok] in H. destruct H as [H _].
  destruct (rc_pos_found _ _ H) as (e & F & _).
  exists (oe_obj e). split.
  - pose proof (ow_logged s W) as G. rewrite Forall_forall in G. apply find_clid_some in F as [Hin Ec].
    specialize (G e Hin). rewrite Ec in G. exact G.
  - unfold step. rewrite Hl. unfold do_recv_ho. rewrite Hch. cbn [snd]. rewrite F. reflexivity.
Qed.

(* what the owner puts on the wire for object x is a clid allocated for x (and for nothing else: alloc_functional) *)
Theorem send_names_object ops x d :
  let s := run init ops in lost s = false ->
  exists c w, ch_oh (fst (step s (Send x d))) = ch_oh s ++ [MyRef c d w] /\ In (c, x) (o_alloc (ow (fst (step s (Send x d))))).
Proof.
  intros s Hl. pose proof (OwnWf_run ops init OwnWf_init) as W. fold s in W.
  unfold step. rewrite Hl. unfold do_send. destruct (find_obj (o_tab (ow s)) x) as [e|] eqn:F; rewrite send_spec; cbn [fst ch_oh ow o_alloc].
  - exists (oe_clid e). eexists. split; [reflexivity|]. apply find_some in F as [Hin Ex]. apply Z.eqb_eq in Ex.
    pose proof (ow_logged s W) as G. rewrite Forall_forall in G. specialize (G e Hin). rewrite Ex in G. exact G.
  - eexists. eexists. split; [reflexivity | left; reflexivity].
Qed.

Theorem alloc_functional ops :
  let s := run init ops in
  forall c x y, In (c, x) (o_alloc (ow s)) -> In (c, y) (o_alloc (ow s)) -> x = y.
Proof.
  intros s c x y Hx Hy. pose proof (OwnWf_run ops init OwnWf_init) as W. fold s in W.
  pose proof (ow_alloc_nodup s W) as N. revert N Hx Hy. generalize (o_alloc (ow s)). intros l.
  induction l as [|[c0 x0] l IH]; cbn [map fst In]; [tauto|]. intros N. inversion N as [|? ? Hn Hd]; subst.
  intros [E1|H1] [E2|H2].
  - congruence.
  - inversion E1; subst. exfalso. apply Hn. apply in_map_iff. exists (c, y). auto.
  - inversion E2; subst. exfalso. apply Hn. apply in_map_iff. exists (c, x). auto.
  - auto.
Qed.

Theorem alloc_monotone ops o a :
  In a (o_alloc (ow (run init ops))) -> In a (o_alloc (ow (run init (ops ++ [o])))).
Proof. intros H. rewrite run_app. cbn [run]. apply alloc_grows. exact H. Qed.

(* ------------------------------------------------------------------ *)
(* proxies have identity: a proxy id is handed out once, to one tracker *)

Definition PW (np : Z) (trk : list tracker) : Prop :=
  (forall i t p, nth_error trk i = Some t -> t_proxy t = Some p -> p < np) /\
  (forall i j ti tj p, nth_error trk i = Some ti -> nth_error trk j = Some tj -> t_proxy ti = Some p -> t_proxy tj = Some p -> i = j).

Lemma PW_mono np np' trk : PW np trk -> np <= np' -> PW np' trk.
Proof. intros [H1 H2] L. split; [|exact H2]. intros i t p Ht Hp. specialize (H1 i t p Ht Hp). lia. Qed.

Lemma PW_upd_sub np trk i f :
  PW np trk -> (forall t p, nth_error trk i = Some t -> t_proxy (f t) = Some p -> t_proxy t = Some p) -> PW np (upd_nth trk i f).
Proof.
  intros [H1 H2] Hf.
  assert (Old : forall j u p, nth_error (upd_nth trk i f) j = Some u -> t_proxy u = Some p ->
                              exists u0, nth_error trk j = Some u0 /\ t_proxy u0 = Some p).
  { intros j u p. rewrite nth_error_upd_nth. destruct (Nat.eqb j i) eqn:E; [|eauto].
    apply Nat.eqb_eq in E. subst j. destruct (nth_error trk i) as [u0|] eqn:Hu; cbn [option_map]; [|discriminate].
    intros Eq Hp. inversion Eq; subst u. eauto. }
  split.
  - intros j u p Hu Hp. destruct (Old _ _ _ Hu Hp) as (u0 & A & B). eapply H1; eauto.
  - intros j1 j2 u1 u2 p Hu1 Hu2 Hp1 Hp2. destruct (Old _ _ _ Hu1 Hp1) as (a & A1 & A2). destruct (Old _ _ _ Hu2 Hp2) as (b & B1 & B2).
    eapply H2; eauto.
Qed.

Lemma PW_app_none np trk t : PW np trk -> t_proxy t = None -> PW np (trk ++ [t]).
Proof.
  intros [H1 H2] Hn.
  assert (Old : forall j u p, nth_error (trk ++ [t]) j = Some u -> t_proxy u = Some p -> nth_error trk j = Some u).
  { intros j u p Hu Hp. destruct (Nat.lt_ge_cases j (List.length trk)) as [L|L].
    - rewrite nth_error_app1 in Hu by exact L. exact Hu.
    - rewrite nth_error_app2 in Hu by exact L. destruct (j - List.length trk)%nat as [|n]; cbn in Hu.
      + inversion Hu; subst u. congruence.
      + destruct n; discriminate. }
  split.
  - intros j u p Hu Hp. eapply H1; eauto.
  - intros j1 j2 u1 u2 p Hu1 Hu2 Hp1 Hp2. eapply H2; eauto.
Qed.

Lemma PW_set_fresh np trk i t t' :
  PW np trk -> nth_error trk i = Some t -> t_proxy t' = Some np -> PW (np + 1) (upd_nth trk i (fun _ => t')).
Proof.
  intros [H1 H2] Ht Hp'.
  assert (Cases : forall j u p, nth_error (upd_nth trk i (fun _ => t')) j = Some u -> t_proxy u = Some p ->
                                (j = i /\ p = np) \/ (j <> i /\ nth_error trk j = Some u)).
  { intros j u p. rewrite nth_error_upd_nth. destruct (Nat.eqb j i) eqn:E.
    - apply Nat.eqb_eq in E. subst j. rewrite Ht. cbn [option_map]. intros Eq Hp. inversion Eq; subst u. left. split; congruence.
    - apply Nat.eqb_neq in E. intros Hu _. right. auto. }
  split.
  - intros j u p Hu Hp. destruct (Cases _ _ _ Hu Hp) as [[_ ->]|[_ Hu0]]; [lia|]. specialize (H1 _ _ _ Hu0 Hp). lia.
  - intros j1 j2 u1 u2 p Hu1 Hu2 Hp1 Hp2.
    destruct (Cases _ _ _ Hu1 Hp1) as [[-> E1]|[N1 A1]]; destruct (Cases _ _ _ Hu2 Hp2) as [[-> E2]|[N2 A2]].
    + reflexivity.
    + subst p. specialize (H1 _ _ _ A2 Hp2). lia.
    + subst p. specialize (H1 _ _ _ A1 Hp1). lia.
    + eapply H2; eauto.
Qed.

Definition ProxWf (s : state) : Prop := PW (h_nextpid (hd s)) (h_trk (hd s)).

Lemma ProxWf_init : ProxWf init.
Proof. split; intros i; destruct i; discriminate. Qed.

Lemma ProxWf_step s o : Inv s -> ProxWf s -> ProxWf (fst (step s o)).
Proof.
  intros I W. unfold ProxWf in *. unfold step. destruct (lost s); [exact W|]. destruct o; cbn [fst].
  - unfold do_send. destruct (find_obj _ _); rewrite send_spec; exact W.
  - unfold do_recv_oh. destruct (ch_oh s) as [|[c [|] w|rid] rest] eqn:Hch; cbn [fst]; try exact W.
    rewrite do_myref_eq. unfold myref_core. destruct (myref_nth s c w I) as (t & Ht & Hc). rewrite Ht.
    assert (W0 : PW (h_nextpid (hd s)) (myref_trk s c w)).
    { unfold myref_trk. destruct (tab_get _ _); [exact W | apply PW_app_none; [exact W | reflexivity]]. }
    unfold get_ref. destruct (t_proxy t) as [q|] eqn:Hq; cbn [fst hd h_trk h_nextpid].
    + apply PW_upd_sub; [exact W0|]. intros u p Hu Hp. rewrite Ht in Hu. inversion Hu; subst u. cbn in Hp. congruence.
    + eapply PW_set_fresh; [exact W0 | exact Ht | reflexivity].
  - unfold do_recv_ho. destruct (ch_ho s) as [|[c n rid|c k] rest]; cbn [fst]; try exact W.
    destruct (find_clid _ _) as [e|]; [|exact W]. destruct (decref n (oe_rc e)) as [[done v]|]; exact W.
  - unfold do_drop. destruct (find_proxy _ _) as [i|]; cbn [fst hd h_trk h_nextpid]; [|exact W].
    apply PW_upd_sub; [exact W|]. intros u q _ Hq. cbn in Hq. discriminate.
  - unfold do_reflost. destruct (h_pend (hd s)) as [|i pend]; [exact W|]. destruct (nth_error _ _) as [t|]; [|exact W].
    destruct (t_proxy t); [exact W|]. destruct (handleRefLost_assign (t_recv t)) as [cnt0 r'].
    destruct (handleRefLost_skip cnt0); cbn [fst hd h_trk h_nextpid]; (apply PW_upd_sub; [exact W|]; intros u q _ Hq; exact Hq).
  - unfold do_home. destruct (find_proxy _ _); [|exact W]. destruct (nth_error _ _); exact W.
  - unfold do_lost. cbn [fst hd h_trk h_nextpid]. split; intros i; destruct i; discriminate.
Qed.

Lemma ProxWf_run ops : forall s, Inv s -> ProxWf s -> ProxWf (run s ops).
Proof. induction ops as [|o r IH]; intros s I W; cbn [run]; [exact W | apply IH; [apply Inv_step, I | apply ProxWf_step; assumption]]. Qed.

Lemma find_proxy_complete trk p : forall i t, nth_error trk i = Some t -> t_proxy t = Some p -> exists j, find_proxy trk p = Some j.
Proof.
  induction trk as [|a l IH]; intros [|i] t; cbn [nth_error find_proxy]; try discriminate.
  - intros E Hp; inversion E; subst a. rewrite Hp, Z.eqb_refl. eauto.
  - intros Ht Hp. destruct (IH _ _ Ht Hp) as (j & ->). destruct (t_proxy a) as [q|]; [destruct (q =? p)|]; cbn [option_map]; eauto.
Qed.

(* "proxy p designates object x": some tracker of the holder has the live proxy p, and its clid was allocated for x *)
Definition denotes (s : state) (p x : Z) : Prop :=
  exists i t, nth_error (h_trk (hd s)) i = Some t /\ t_proxy t = Some p /\ In (t_clid t, x) (o_alloc (ow s)).
Definition holds (s : state) (p : Z) : Prop := exists i t, nth_error (h_trk (hd s)) i = Some t /\ t_proxy t = Some p.

Lemma alloc_run ops : forall s a, In a (o_alloc (ow s)) -> In a (o_alloc (ow (run s ops))).
Proof. induction ops as [|o r IH]; intros s a H; cbn [run]; [exact H | apply IH, alloc_grows, H]. Qed.

(* trackers keep their clid, and a live proxy stays with its tracker *)
Lemma holds_back s o p j u :
  Inv s -> ProxWf s -> lost (fst (step s o)) = false ->
  nth_error (h_trk (hd (fst (step s o)))) j = Some u -> t_proxy u = Some p -> p < h_nextpid (hd s) ->
  exists u0, nth_error (h_trk (hd s)) j = Some u0 /\ t_proxy u0 = Some p /\ t_clid u0 = t_clid u.
Proof.
  intros I W Hl'.
  assert (K0 : nth_error (h_trk (hd s)) j = Some u -> t_proxy u = Some p -> p < h_nextpid (hd s) ->
               exists u0, nth_error (h_trk (hd s)) j = Some u0 /\ t_proxy u0 = Some p /\ t_clid u0 = t_clid u) by (intros; exists u; auto).
  unfold step in *. destruct (lost s) eqn:Hl; [cbn [fst] in Hl'; congruence|]. destruct o; cbn [fst] in *.
  - unfold do_send. destruct (find_obj _ _); rewrite send_spec; cbn [fst hd]; exact K0.
  - unfold do_recv_oh. destruct (ch_oh s) as [|[c [|] w|rid] rest] eqn:Hch; cbn [fst hd]; try exact K0.
    rewrite do_myref_eq. unfold myref_core. destruct (myref_nth s c w I) as (t & Ht & Hc). rewrite Ht.
    unfold get_ref. destruct (t_proxy t) as [q|] eqn:Hq; cbn [fst hd h_trk]; rewrite nth_error_upd_nth; destruct (Nat.eqb j (myref_idx s c)) eqn:E.
    + apply Nat.eqb_eq in E. subst j. rewrite Ht. cbn [option_map]. intros Eq Hp Hlt. inversion Eq; subst u. cbn in Hp. cbn [t_clid].
      unfold myref_trk, myref_idx in *. destruct (tab_get (h_tab (hd s)) c) as [i0|] eqn:G.
      * exists t. split; [exact Ht|]. split; [congruence | reflexivity].
      * rewrite nth_error_app_last in Ht. inversion Ht; subst t. discriminate.
    + intros Hu Hp Hlt. unfold myref_trk in Hu. destruct (tab_get (h_tab (hd s)) c) as [i0|]; [apply K0; assumption|].
      destruct (Nat.lt_ge_cases j (List.length (h_trk (hd s)))) as [L|L].
      * rewrite nth_error_app1 in Hu by exact L. apply K0; assumption.
      * rewrite nth_error_app2 in Hu by exact L. destruct (j - List.length (h_trk (hd s)))%nat as [|n]; cbn in Hu.
        -- inversion Hu; subst u. discriminate.
        -- destruct n; discriminate.
    + apply Nat.eqb_eq in E. subst j. rewrite Ht. cbn [option_map]. intros Eq Hp Hlt. inversion Eq; subst u. cbn in Hp. inversion Hp. lia.
    + intros Hu Hp Hlt. unfold myref_trk in Hu. destruct (tab_get (h_tab (hd s)) c) as [i0|]; [apply K0; assumption|].
      destruct (Nat.lt_ge_cases j (List.length (h_trk (hd s)))) as [L|L].
      * rewrite nth_error_app1 in Hu by exact L. apply K0; assumption.
      * rewrite nth_error_app2 in Hu by exact L. destruct (j - List.length (h_trk (hd s)))%nat as [|n]; cbn in Hu.
        -- inversion Hu; subst u. discriminate.
        -- destruct n; discriminate.
  - unfold do_recv_ho. destruct (ch_ho s) as [|[c n rid|c k] rest]; cbn [fst hd]; try exact K0.
    destruct (find_clid _ _) as [e|]; [|exact K0]. destruct (decref n (oe_rc e)) as [[done v]|]; cbn [fst hd]; exact K0.
  - unfold do_drop. destruct (find_proxy _ _) as [i|]; cbn [fst hd h_trk]; [|exact K0].
    rewrite nth_error_upd_nth. destruct (Nat.eqb j i); [|exact K0].
    destruct (nth_error (h_trk (hd s)) j) as [u0|]; cbn [option_map]; [|discriminate]. intros Eq Hp. inversion Eq; subst u. discriminate.
  - unfold do_reflost. destruct (h_pend (hd s)) as [|i pend]; [exact K0|]. destruct (nth_error (h_trk (hd s)) i) as [t|] eqn:Ht; [|exact K0].
    destruct (t_proxy t) eqn:Hq; [cbn [fst hd]; exact K0|]. destruct (handleRefLost_assign (t_recv t)) as [cnt0 r'].
    assert (K : nth_error (upd_nth (h_trk (hd s)) i (fun t0 => {| t_clid := t_clid t0; t_recv := r'; t_proxy := t_proxy t0; t_url := t_url t0 |})) j = Some u ->
                t_proxy u = Some p -> p < h_nextpid (hd s) ->
                exists u0, nth_error (h_trk (hd s)) j = Some u0 /\ t_proxy u0 = Some p /\ t_clid u0 = t_clid u).
    { rewrite nth_error_upd_nth. destruct (Nat.eqb j i) eqn:E; [|intros; exists u; auto].
      apply Nat.eqb_eq in E. subst j. rewrite Ht. cbn [option_map]. intros Eq Hp. inversion Eq; subst u. cbn in Hp. congruence. }
    destruct (handleRefLost_skip cnt0); cbn [fst hd h_trk]; exact K.
  - unfold do_home. destruct (find_proxy _ _) as [i0|]; [|exact K0]. destruct (nth_error (h_trk (hd s)) i0); cbn [fst hd]; exact K0.
  - unfold do_lost in Hl'. cbn in Hl'. discriminate.
Qed.

Lemma denotes_step s o p x :
  Inv s -> ProxWf s -> OwnWf s -> denotes s p x -> lost (fst (step s o)) = false -> holds (fst (step s o)) p -> denotes (fst (step s o)) p x.
Proof.
  intros I W _ (i & t & Ht & Hp & Ha) Hl' (j & u & Hu & Hpu).
  assert (Hlt : p < h_nextpid (hd s)) by (destruct W as [W1 _]; eapply W1; eauto).
  destruct (holds_back s o p j u I W Hl' Hu Hpu Hlt) as (u0 & Hu0 & Hp0 & Hc0).
  assert (j = i) by (destruct W as [_ W2]; eapply W2; eauto). subst j. rewrite Ht in Hu0. inversion Hu0; subst u0.
  exists i, u. repeat split; auto. rewrite <- Hc0. apply alloc_grows. exact Ha.
Qed.

Lemma lost_run_false ops : forall s, lost (run s ops) = false -> lost s = false.
Proof.
  induction ops as [|o r IH]; intros s H; cbn [run] in H; [exact H|]. specialize (IH _ H).
  destruct (lost s) eqn:E; [|reflexivity]. rewrite step_lost_id in IH by exact E. cbn in IH. congruence.
Qed.

Lemma nextpid_mono_step s o : h_nextpid (hd s) <= h_nextpid (hd (fst (step s o))).
Proof.
  unfold step. destruct (lost s); [cbn [fst hd h_nextpid]; lia|]. destruct o; cbn [fst].
  - unfold do_send. destruct (find_obj _ _); rewrite send_spec; cbn [fst hd h_nextpid]; lia.
  - unfold do_recv_oh. destruct (ch_oh s) as [|[c [|]|rid] rest]; [cbn [fst hd h_nextpid]; lia | cbn [fst hd h_nextpid]; lia | | unfold do_ack; cbn [fst hd h_nextpid]; lia].
    rewrite do_myref_eq. unfold myref_core. destruct (nth_error _ _) as [t0|]; [|cbn [fst hd h_nextpid]; lia].
    unfold get_ref. destruct (t_proxy t0); cbn [fst hd h_nextpid]; lia.
  - unfold do_recv_ho. destruct (ch_ho s) as [|[c n rid|c k] rest]; cbn; try lia.
    destruct (find_clid _ _) as [e|]; [|cbn [fst hd h_nextpid]; lia]. destruct (decref n (oe_rc e)) as [[done v]|]; cbn [fst hd h_nextpid]; lia.
  - unfold do_drop. destruct (find_proxy _ _); cbn [fst hd h_nextpid]; lia.
  - unfold do_reflost. destruct (h_pend (hd s)); [cbn [fst]; lia|]. destruct (nth_error _ _) as [t0|]; [|cbn [fst]; lia].
    destruct (t_proxy t0); [cbn [fst hd h_nextpid]; lia|]. destruct (handleRefLost_assign (t_recv t0)) as [c0 r0]. destruct (handleRefLost_skip c0); cbn [fst hd h_nextpid]; lia.
  - unfold do_home. destruct (find_proxy _ _); [|cbn [fst]; lia]. destruct (nth_error _ _); cbn [fst hd h_nextpid]; lia.
  - cbn. lia.
Qed.

Lemma nextpid_mono_run ops : forall s, h_nextpid (hd s) <= h_nextpid (hd (run s ops)).
Proof. induction ops as [|o r IH]; intros s; cbn [run]; [lia|]. pose proof (nextpid_mono_step s o). specialize (IH (fst (step s o))). lia. Qed.

(* ---- the interface the three-party model relies on, proved of the two-party model ---------------------------------- *)

(* (I1) delivery: a my-reference whose clid was allocated for x is delivered as a proxy that designates x *)
Theorem delivery_denotes ops c x w rest :
  let s := run init ops in
  lost s = false -> ch_oh s = MyRef c false w :: rest -> In (c, x) (o_alloc (ow s)) ->
  exists p, snd (step s RecvOH) = [EvDelivered p] /\ denotes (fst (step s RecvOH)) p x /\ lost (fst (step s RecvOH)) = false.
Proof.
  intros s Hl Hch Ha. pose proof (Inv_reachable ops) as I. fold s in I.
  unfold step. rewrite Hl. unfold do_recv_oh. rewrite Hch, do_myref_eq. unfold myref_core.
  destruct (myref_nth s c w I) as (t & Ht & Hc). rewrite Ht.
  pose proof (get_ref_facts t (h_nextpid (hd s))) as G. destruct (get_ref t (h_nextpid (hd s))) as [[t' p] np].
  destruct G as (G1 & G2 & G3 & G4). cbn [fst snd]. exists p. split; [reflexivity|]. split; [|exact Hl].
  exists (myref_idx s c), t'. cbn [hd h_trk ow]. rewrite nth_error_upd_nth, Nat.eqb_refl, Ht. cbn [option_map].
  repeat split; auto. rewrite G1, Hc. exact Ha.
Qed.

(* (I2) the proxy keeps designating x for as long as it is held and the connection lives *)
Theorem denotes_persists ops ops2 p x :
  let s := run init ops in
  denotes s p x -> lost (run s ops2) = false -> holds (run s ops2) p -> denotes (run s ops2) p x.
Proof.
  cbv zeta. revert ops. induction ops2 as [|o r IH] using rev_ind; intros ops D Hl Hh; [exact D|].
  rewrite run_app in *. cbn [run] in *. set (s1 := run (run init ops) r) in *.
  assert (Hl1 : lost s1 = false).
  { destruct (lost s1) eqn:E; [|reflexivity]. rewrite step_lost_id in Hl by exact E. cbn in Hl. congruence. }
  assert (R : s1 = run init (ops ++ r)) by (unfold s1; rewrite run_app; reflexivity).
  assert (I1 : Inv s1) by (rewrite R; apply Inv_reachable).
  assert (W1 : ProxWf s1) by (rewrite R; apply ProxWf_run; [apply Inv_init | apply ProxWf_init]).
  assert (O1 : OwnWf s1) by (rewrite R; apply OwnWf_run, OwnWf_init).
  assert (Hh1 : holds s1 p).
  { destruct Hh as (j & u & Hu & Hpu).
    (* p was handed out before s (it designates x there), so it is below every later counter *)
    destruct D as (i & t & Ht & Hp & _).
    assert (Lt0 : p < h_nextpid (hd (run init ops))).
    { pose proof (ProxWf_run ops init Inv_init ProxWf_init) as [A _]. eapply A; eauto. }
    pose proof nextpid_mono_run as Mono.
    assert (Lt1 : p < h_nextpid (hd s1)) by (pose proof (Mono r (run init ops)); fold s1 in H; lia).
    destruct (holds_back s1 o p j u I1 W1 Hl Hu Hpu Lt1) as (u0 & A & B & _).
    exists j, u0. auto. }
  apply denotes_step; auto. apply IH; auto.
Qed.

(* (I3) a call through (k = true) / a your-reference for (k = false) a proxy that designates x is put on the wire with a
   clid allocated for x ... *)
Theorem call_names_object ops p x k :
  let s := run init ops in
  lost s = false -> denotes s p x ->
  exists c, ch_ho (fst (step s (SendHome p k))) = ch_ho s ++ [ToOwner c k] /\ In (c, x) (o_alloc (ow (fst (step s (SendHome p k))))) /\
            lost (fst (step s (SendHome p k))) = false.
Proof.
  intros s Hl (i & t & Ht & Hp & Ha).
  pose proof (ProxWf_run ops init Inv_init ProxWf_init) as [_ W2]. fold s in W2.
  destruct (find_proxy_complete _ _ _ _ Ht Hp) as (j & F). pose proof (find_proxy_some _ _ _ F) as (u & Hu & Hpu).
  assert (j = i) by (eapply W2; eauto). subst j. rewrite Ht in Hu. inversion Hu; subst u.
  unfold step. rewrite Hl. unfold do_home. rewrite F, Ht. cbn [fst ch_ho ow lost]. exists (t_clid t). auto.
Qed.

(* ... and whenever a message with a clid allocated for x is processed by the owner, it is resolved to x itself *)
Theorem call_reaches_object ops c x k rest :
  let s := run init ops in
  lost s = false -> ch_ho s = ToOwner c k :: rest -> In (c, x) (o_alloc (ow s)) -> snd (step s RecvHO) = [EvHome k (Some x)].
Proof.
  intros s Hl Hch Ha. destruct (home_original ops c k rest Hl Hch) as (x' & Ha' & E).
  rewrite (alloc_functional ops c x x' Ha Ha'). exact E.
Qed.

(* ------------------------------------------------------------------ *)
(* C09 *)

Theorem no_early_release ops :
  let s := run init ops in
  forall c, lost s = false ->
    (exists i t, nth_error (h_trk (hd s)) i = Some t /\ t_proxy t <> None /\ t_clid t = c) \/
    (exists d w, In (MyRef c d w) (ch_oh s)) \/ (exists k, In (ToOwner c k) (ch_ho s)) ->
    exists e, find_clid (o_tab (ow s)) c = Some e /\ 1 <= oe_rc e /\ In (c, oe_obj e) (o_alloc (ow s)).
Proof.
  intros s c Hl H. pose proof (Inv_reachable ops) as I. fold s in I.
  pose proof (OwnWf_run ops init OwnWf_init) as W. fold s in W.
  assert (P : 0 < rc (o_tab (ow s)) c).
  { pose proof (recv_sum_nonneg _ c (inv_recv s I)). pose proof (inflight_nonneg (ch_oh s) c).
    pose proof (decs_nonneg _ c (inv_dpos s I)). pose proof (cnt_nonneg (leaked s) c).
    destruct H as [(i & t & Ht & Hp & Hc)|[(d & w & Hin)|(k & Hin)]].
    - rewrite (inv_count s I c). pose proof (recv_sum_ge _ _ _ c (inv_recv s I) Ht) as G. unfold contrib in G.
      rewrite Hc, Z.eqb_refl in G. pose proof (inv_alive s I) as A. rewrite Forall_forall in A.
      specialize (A t (nth_error_In _ _ Ht) Hp). lia.
    - rewrite (inv_count s I c). pose proof (inflight_in _ _ _ _ Hin). lia.
    - eapply home_ok_in; [apply (inv_dpos s I) | apply (inv_home s I) | exact Hin]. }
  destruct (rc_pos_found _ _ P) as (e & F & R). exists e. split; [exact F|]. split; [lia|].
  pose proof (ow_logged s W) as G. rewrite Forall_forall in G. apply find_clid_some in F as [Hin Ec].
  specialize (G e Hin). rewrite Ec in G. exact G.
Qed.

Theorem decref_bounded ops :
  let s := run init ops in
  o_failed (ow s) = false /\
  forall c n rid rest, ch_ho s = Decref c n rid :: rest ->
    exists e, find_clid (o_tab (ow s)) c = Some e /\ 0 < n <= oe_rc e /\ snd (step s RecvHO) = [].
Proof.
  intros s. pose proof (Inv_reachable ops) as I. fold s in I. split; [apply (inv_nofail s I)|].
  intros c n rid rest Hch. destruct (decref_head_bound s c n rid rest I Hch) as (Hn & e & F & Hle & _).
  exists e. split; [exact F|]. split; [lia|]. unfold step. destruct (lost s); [reflexivity|].
  unfold do_recv_ho. rewrite Hch, F, decref_spec.
  assert (G : oe_rc e >=? n = true) by (apply Z.geb_le; lia). rewrite G. reflexivity.
Qed.

Theorem no_reuse ops :
  let s := run init ops in
  NoDup (map fst (o_alloc (ow s))) /\ NoDup (map oe_clid (o_tab (ow s))) /\ NoDup (map oe_obj (o_tab (ow s))) /\
  Forall (fun e => In (oe_clid e, oe_obj e) (o_alloc (ow s))) (o_tab (ow s)).
Proof.
  intros s. pose proof (OwnWf_run ops init OwnWf_init) as W. fold s in W.
  split; [apply W|]. split; [apply W|]. split; apply W.
Qed.

Theorem no_leak ops :
  let s := run init ops in
  quiescent s -> no_proxy s -> leaked s = [] -> o_tab (ow s) = [].
Proof.
  intros s (Q1 & Q2 & Q3) Np Lk. pose proof (Inv_reachable ops) as I. fold s in I.
  destruct (o_tab (ow s)) as [|e tab] eqn:Et; [reflexivity|]. exfalso.
  assert (Z0 : Forall (fun t => t_recv t = 0) (h_trk (hd s))).
  { rewrite Forall_forall. intros t Hin. apply In_nth_error in Hin as (i & Hi).
    pose proof (inv_recv s I) as R. rewrite Forall_forall in R. specialize (R t (nth_error_In _ _ Hi)).
    destruct (Z.eq_dec (t_recv t) 0) as [E|E]; [exact E|]. exfalso.
    destruct (inv_pend s I i t Hi) as [H|H]; [lia | | rewrite Q3 in H; exact H].
    unfold no_proxy in Np. rewrite Forall_forall in Np. apply H. apply Np. eapply nth_error_In; eauto. }
  pose proof (inv_count s I (oe_clid e)) as C. rewrite Et, rc_cons, Z.eqb_refl, (recv_sum_zero _ _ Z0), Q1, Q2, Lk in C.
  cbn in C. pose proof (inv_own s I) as O. rewrite Et in O. inversion O; subst. lia.
Qed.

(* D9: a call whose my-reference the receiver throws away leaks the owner's entry until the connection ends *)
Theorem no_leak_refuted :
  exists ops, let s := run init ops in quiescent s /\ no_proxy s /\ o_tab (ow s) <> [].
Proof.
  exists [Send 1 true; RecvOH]. vm_compute. split; [repeat split|]. split; [constructor | discriminate].
Qed.

(* the EXACT account of what is left at quiescence, in every history: the owner's refcount of a clid is the number of
   my-references with that clid that travelled in calls the receiver discarded -- nothing else is ever left *)
Lemma quiescent_recv_zero s : Inv s -> quiescent s -> no_proxy s -> Forall (fun t => t_recv t = 0) (h_trk (hd s)).
Proof.
  intros I (Q1 & Q2 & Q3) Np. rewrite Forall_forall. intros t Hin. apply In_nth_error in Hin as (i & Hi).
  pose proof (inv_recv s I) as R. rewrite Forall_forall in R. specialize (R t (nth_error_In _ _ Hi)).
  destruct (Z.eq_dec (t_recv t) 0) as [E|E]; [exact E|]. exfalso.
  destruct (inv_pend s I i t Hi) as [H|H]; [lia | | rewrite Q3 in H; exact H].
  unfold no_proxy in Np. rewrite Forall_forall in Np. apply H. apply Np. eapply nth_error_In; eauto.
Qed.

Theorem leak_exact ops :
  let s := run init ops in
  quiescent s -> no_proxy s -> forall c, rc (o_tab (ow s)) c = cnt (leaked s) c.
Proof.
  intros s Q Np c. pose proof (Inv_reachable ops) as I. fold s in I.
  pose proof (quiescent_recv_zero s I Q Np) as Z0. destruct Q as (Q1 & Q2 & Q3).
  rewrite (inv_count s I c), (recv_sum_zero _ _ Z0), Q1, Q2. cbn. lia.
Qed.

Lemma cnt_all_zero l : (forall c, cnt l c = 0) -> l = [].
Proof.
  destruct l as [|a l]; [reflexivity|]. intros H. specialize (H a). cbn [cnt] in H. rewrite Z.eqb_refl in H.
  pose proof (cnt_nonneg l a). lia.
Qed.

(* the guard of no_leak is necessary and sufficient: the table drains iff no call carrying a reference was discarded *)
Theorem no_leak_iff ops :
  let s := run init ops in
  quiescent s -> no_proxy s -> (o_tab (ow s) = [] <-> leaked s = []).
Proof.
  intros s Q Np. split.
  - intros E. apply cnt_all_zero. intros c. pose proof (leak_exact ops Q Np c) as L. cbv zeta in L. fold s in L.
    rewrite E in L. cbn in L. lia.
  - intros E. apply (no_leak ops Q Np E).
Qed.

(* ... and every discarded my-reference does pin its object: the entry is there, for the object the clid was allocated for *)
Theorem discarded_reference_pins ops :
  let s := run init ops in
  forall c, In c (leaked s) ->
  exists e, find_clid (o_tab (ow s)) c = Some e /\ cnt (leaked s) c <= oe_rc e /\ In (c, oe_obj e) (o_alloc (ow s)).
Proof.
  intros s c Hin. pose proof (Inv_reachable ops) as I. fold s in I.
  pose proof (OwnWf_run ops init OwnWf_init) as W. fold s in W.
  assert (P : 1 <= cnt (leaked s) c).
  { revert Hin. generalize (leaked s). intros l. induction l as [|a l IH]; cbn [In cnt]; [tauto|]. intros [->|H].
    - rewrite Z.eqb_refl. pose proof (cnt_nonneg l c). lia.
    - specialize (IH H). destruct (a =? c); lia. }
  pose proof (inv_count s I c) as C.
  pose proof (recv_sum_nonneg _ c (inv_recv s I)). pose proof (inflight_nonneg (ch_oh s) c).
  pose proof (decs_nonneg _ c (inv_dpos s I)).
  destruct (rc_pos_found (o_tab (ow s)) c) as (e & F & R); [lia|].
  exists e. split; [exact F|]. split; [lia|].
  pose proof (ow_logged s W) as G. rewrite Forall_forall in G. apply find_clid_some in F as [Hi Ec].
  specialize (G e Hi). rewrite Ec in G. exact G.
Qed.

Example leak_exact_example :
  let s := run init [Send 1 true; Send 1 true; Send 2 false; RecvOH; RecvOH; RecvOH; DropProxy 0; HandleRefLost; RecvHO; RecvOH] in
  quiescent s /\ no_proxy s /\ leaked s = [1; 1] /\ rc (o_tab (ow s)) 1 = 2 /\ rc (o_tab (ow s)) 2 = 0.
Proof. vm_compute. repeat split; repeat constructor. Qed.

(* non-vacuity of no_leak: a history with re-sends racing releases that ends quiescent with an empty table *)
Example no_leak_example :
  let s := run init [Send 1 false; Send 2 false; RecvOH; DropProxy 0; HandleRefLost; Send 1 false; RecvHO; RecvOH; RecvOH;
                     RecvOH; DropProxy 1; DropProxy 2; HandleRefLost; HandleRefLost; RecvHO; RecvHO; RecvOH; RecvOH] in
  quiescent s /\ no_proxy s /\ leaked s = [] /\ o_tab (ow s) = [] /\ o_next (ow s) = 3.
Proof. vm_compute. repeat split; repeat constructor. Qed.

(* ------------------------------------------------------------------ *)
(* C08, several connections: a bare clid only ever travels on the connection whose table gives it its meaning *)

Lemma yourref_homekey_spec : yourref_homekey = HomeSameConnection.
Proof. reflexivity. Qed.

Theorem bare_clid_stays_on_its_connection pc oc c u c' :
  slice_proxy pc oc c u = WYourRef c' -> conn_id pc = conn_id oc /\ c' = c.
Proof.
  unfold slice_proxy. rewrite yourref_homekey_spec. cbn [goes_home].
  destruct (conn_id pc =? conn_id oc) eqn:E; [|discriminate].
  intros H. inversion H. apply Z.eqb_eq in E. auto.
Qed.

Theorem other_connection_is_a_gift pc oc c u :
  conn_id pc <> conn_id oc -> slice_proxy pc oc c u = WTheirRef u.
Proof.
  intros H. unfold slice_proxy. rewrite yourref_homekey_spec. cbn [goes_home].
  apply Z.eqb_neq in H. rewrite H. reflexivity.
Qed.

(* the statement discriminates: deciding by the peer Tub instead would put the stale clid of an EARLIER connection to the
   same Tub on the new connection (reconnection: same peer, different Broker) *)
Example same_peer_test_would_leak_stale_clids :
  exists pc oc, conn_id pc <> conn_id oc /\ conn_peer pc = conn_peer oc /\ goes_home HomeSamePeerTub pc oc = true /\
                goes_home HomeSameConnection pc oc = false.
Proof. exists {| conn_id := 1; conn_peer := 7 |}, {| conn_id := 2; conn_peer := 7 |}. cbn. repeat split; discriminate. Qed.

(* ------------------------------------------------------------------ *)
(* C08, gifts inside containers: the container is released exactly when every introduction it waits for is complete *)

Lemma asyncand_init_spec : asyncand_init = CountBeforeSubscribing.
Proof. reflexivity. Qed.

Definition nfired (inputs : list bool) : Z := Z.of_nat (List.length (filter (fun b => b) inputs)).

Lemma nfired_cons b r : nfired (b :: r) = (if b then 1 else 0) + nfired r.
Proof. unfold nfired. cbn [filter]. destruct b; cbn [List.length]; lia. Qed.

Lemma nfired_nonneg l : 0 <= nfired l.
Proof. unfold nfired. lia. Qed.

(* from remaining R the counter passes through 0 during n decrements iff 1 <= R <= n *)
Lemma aand_subscribe_before inputs : forall s,
  aa_remaining (aand_subscribe CountBeforeSubscribing s inputs) = aa_remaining s - nfired inputs /\
  aa_fired (aand_subscribe CountBeforeSubscribing s inputs)
  = aa_fired s || ((1 <=? aa_remaining s) && (aa_remaining s <=? nfired inputs)).
Proof.
  induction inputs as [|b r IH]; intros s; cbn [aand_subscribe].
  - unfold nfired; cbn. split; [lia|]. destruct (aa_fired s); [reflexivity|]. cbn [orb].
    destruct (1 <=? aa_remaining s) eqn:E1; [|reflexivity]. cbn [andb]. symmetry. apply Z.leb_gt. apply Z.leb_le in E1. lia.
  - rewrite nfired_cons. pose proof (nfired_nonneg r) as Hn. destruct b.
    + destruct (IH (aand_cb s)) as [I1 I2]. rewrite I1, I2. unfold aand_cb. cbn [aa_remaining aa_fired]. split; [lia|].
      destruct (aa_fired s); [reflexivity|]. cbn [orb].
      destruct (aa_remaining s - 1 =? 0) eqn:E0; destruct (1 <=? aa_remaining s) eqn:E1;
        destruct (aa_remaining s <=? 1 + nfired r) eqn:E2; destruct (1 <=? aa_remaining s - 1) eqn:E3;
        destruct (aa_remaining s - 1 <=? nfired r) eqn:E4; cbn [orb andb]; try reflexivity; exfalso;
        repeat match goal with
               | H : (_ =? _) = true |- _ => apply Z.eqb_eq in H
               | H : (_ =? _) = false |- _ => apply Z.eqb_neq in H
               | H : (_ <=? _) = true |- _ => apply Z.leb_le in H
               | H : (_ <=? _) = false |- _ => apply Z.leb_gt in H
               end; lia.
    + destruct (IH s) as [I1 I2]. rewrite I1, I2. split; [lia|]. replace (0 + nfired r) with (nfired r) by lia. reflexivity.
Qed.

Lemma aand_complete_spec j : forall s,
  aa_remaining (aand_complete s j) = aa_remaining s - Z.of_nat j /\
  aa_fired (aand_complete s j) = aa_fired s || ((1 <=? aa_remaining s) && (aa_remaining s <=? Z.of_nat j)).
Proof.
  induction j as [|j IH]; intros s; cbn [aand_complete].
  - split; [lia|]. destruct (aa_fired s); [reflexivity|]. cbn [orb].
    destruct (1 <=? aa_remaining s) eqn:E1; [|reflexivity]. cbn [andb]. symmetry. apply Z.leb_gt. apply Z.leb_le in E1. lia.
  - destruct (IH (aand_cb s)) as [I1 I2]. rewrite I1, I2. unfold aand_cb. cbn [aa_remaining aa_fired]. split; [lia|].
    destruct (aa_fired s); [reflexivity|]. cbn [orb].
    destruct (aa_remaining s - 1 =? 0) eqn:E0; destruct (1 <=? aa_remaining s) eqn:E1;
      destruct (aa_remaining s <=? Z.of_nat (S j)) eqn:E2; destruct (1 <=? aa_remaining s - 1) eqn:E3;
      destruct (aa_remaining s - 1 <=? Z.of_nat j) eqn:E4; cbn [orb andb]; try reflexivity; exfalso;
      repeat match goal with
             | H : (_ =? _) = true |- _ => apply Z.eqb_eq in H
             | H : (_ =? _) = false |- _ => apply Z.eqb_neq in H
             | H : (_ <=? _) = true |- _ => apply Z.leb_le in H
             | H : (_ <=? _) = false |- _ => apply Z.leb_gt in H
             end; lia.
Qed.

Lemma length_split_fired inputs : Z.of_nat (List.length inputs) = nfired inputs + Z.of_nat (npending inputs).
Proof.
  unfold nfired, npending. induction inputs as [|b r IH]; [reflexivity|]. cbn [filter List.length].
  destruct b; cbn [negb List.length]; lia.
Qed.

(* whatever mixture of already-introduced and pending gifts a container holds, and however many of the pending
   introductions have completed so far (j), the container is released iff ALL of them have completed *)
Theorem container_waits_for_all_gifts inputs j :
  (j <= npending inputs)%nat ->
  aa_fired (aand_complete (aand_new asyncand_init inputs) j) = Nat.eqb j (npending inputs).
Proof.
  intros Hj. rewrite asyncand_init_spec. destruct inputs as [|b r].
  - cbn in *. assert (j = 0)%nat by lia. subst. reflexivity.
  - unfold aand_new. set (inp := b :: r) in *. set (s0 := {| aa_remaining := Z.of_nat (List.length inp); aa_fired := false |}).
    destruct (aand_subscribe_before inp s0) as [S1 S2]. destruct (aand_complete_spec j (aand_subscribe CountBeforeSubscribing s0 inp)) as [_ C2].
    rewrite C2, S2, S1. subst s0. cbn [aa_remaining aa_fired orb]. pose proof (length_split_fired inp) as L.
    pose proof (nfired_nonneg inp). assert (0 < Z.of_nat (List.length inp)) by (subst inp; cbn [List.length]; lia).
    destruct (Nat.eqb j (npending inp)) eqn:E.
    + apply Nat.eqb_eq in E. subst j.
      destruct (Z.of_nat (List.length inp) <=? nfired inp) eqn:A.
      * rewrite (proj2 (Z.leb_le 1 _)) by lia. reflexivity.
      * apply Z.leb_gt in A. cbn [andb]. rewrite Bool.andb_false_r. cbn [orb].
        rewrite (proj2 (Z.leb_le 1 _)) by lia. rewrite (proj2 (Z.leb_le _ _)) by lia. reflexivity.
    + apply Nat.eqb_neq in E.
      assert (A : Z.of_nat (List.length inp) <=? nfired inp = false) by (apply Z.leb_gt; lia). rewrite A, Bool.andb_false_r. cbn [orb].
      assert (B : Z.of_nat (List.length inp) - nfired inp <=? Z.of_nat j = false) by (apply Z.leb_gt; lia).
      rewrite B, Bool.andb_false_r. reflexivity.
Qed.

(* the statement discriminates: counting the inputs while subscribing releases a container holding an already-introduced
   gift followed by a pending one at once *)
Example counting_while_subscribing_releases_early :
  aa_fired (aand_new CountWhileSubscribing [true; false]) = true /\ npending [true; false] = 1%nat.
Proof. split; reflexivity. Qed.

(* ---------------------------------------------------------------- one placeholder in several places *)
Lemma fire_with_none passes : forall ps, fire_with passes None ps = map (fun _ => None) ps.
Proof.
  induction ps as [|k r IH]; cbn [fire_with map]; [reflexivity|].
  destruct (passes k); rewrite IH; reflexivity.
Qed.

Lemma fire_with_all passes : (forall k, passes k = true) ->
  forall ps cur, fire_with passes cur ps = map (fun _ => cur) ps.
Proof.
  intros H. induction ps as [|k r IH]; intros cur; cbn [fire_with map]; [reflexivity|].
  rewrite (H k), IH. reflexivity.
Qed.

(* every update callback of the source passes the object on (each of the five facts is re-read on every run; the proof is
   `reflexivity` on them and stops type-checking as soon as one callback can end without returning its argument) *)
Lemma place_passes_all : forall k, place_passes k = true.
Proof. destruct k; reflexivity. Qed.

Theorem shared_placeholder_reaches_every_place : forall v ps,
  fire (Some v) ps = map (fun _ => Some v) ps.
Proof. intros v ps. unfold fire. apply fire_with_all. exact place_passes_all. Qed.

(* the statement discriminates, for any table of callbacks: after the first place whose callback does not return its
   argument, every later place is left with nothing *)
Theorem shared_placeholder_lost_after_nonpassing : forall passes ps1 k ps2 v,
  (forall x, In x ps1 -> passes x = true) -> passes k = false ->
  fire_with passes (Some v) (ps1 ++ k :: ps2) = map (fun _ => Some v) (ps1 ++ [k]) ++ map (fun _ => None) ps2.
Proof.
  intros passes ps1. induction ps1 as [|a r IH]; intros k ps2 v H1 Hk.
  - cbn [app fire_with map]. rewrite Hk, fire_with_none. reflexivity.
  - cbn [app fire_with map]. rewrite (H1 a (or_introl eq_refl)). f_equal. apply IH; [|exact Hk].
    intros x Hx. apply H1. right. exact Hx.
Qed.

Example shared_placeholder_three_places :
  fire (Some 7) [PArg; PArg; PList; PDict] = [Some 7; Some 7; Some 7; Some 7].
Proof. reflexivity. Qed.

Example shared_placeholder_second_argument_lost :
  fire_with (fun k => match k with PArg => false | _ => true end) (Some 7) [PArg; PArg] = [Some 7; None].
Proof. reflexivity. Qed.

(* ---------------------------------------------------------------- the FURL a holder knows for a proxy (interface between this
   model and the three-party model lib/Gifts.v: the giver can hand a proxy on only by the FURL its tracker carries)
   A my-reference carries the object's FURL (and interface name) only when ReferenceableTracker.send() reports "first";
   the holder's tracker takes the URL of the message that CREATES it and never changes it. *)
Definition url_ok (al : list (Z * Z)) (c : Z) (u : option Z) : Prop := forall x, u = Some x -> In (c, x) al.
Definition msg_url_ok (al : list (Z * Z)) (m : msgOH) : Prop :=
  match m with MyRef c _ u => url_ok al c u | Ack _ => True end.

Record UrlWf (s : state) : Prop := {
  uw_ch : Forall (msg_url_ok (o_alloc (ow s))) (ch_oh s);
  uw_trk : Forall (fun t => url_ok (o_alloc (ow s)) (t_clid t) (t_url t)) (h_trk (hd s))
}.

Lemma UrlWf_init : UrlWf init.
Proof. constructor; cbn; constructor. Qed.

Lemma url_ok_mono al al' c u : (forall a, In a al -> In a al') -> url_ok al c u -> url_ok al' c u.
Proof. intros H K x E. apply H, K, E. Qed.

Lemma msg_url_ok_mono al al' m : (forall a, In a al -> In a al') -> msg_url_ok al m -> msg_url_ok al' m.
Proof. intros H. destruct m; cbn [msg_url_ok]; [apply url_ok_mono; exact H | auto]. Qed.

Lemma UrlWf_same_owner s s' :
  o_alloc (ow s') = o_alloc (ow s) ->
  Forall (msg_url_ok (o_alloc (ow s))) (ch_oh s') ->
  Forall (fun t => url_ok (o_alloc (ow s)) (t_clid t) (t_url t)) (h_trk (hd s')) -> UrlWf s'.
Proof. intros E A B. constructor; rewrite E; assumption. Qed.

Lemma Forall_upd_nth_keep {A} (P : A -> Prop) l i f : Forall P l -> (forall a, P a -> P (f a)) -> Forall P (upd_nth l i f).
Proof.
  intros H Hf. revert i. induction H as [|a l Ha Hl IH]; intros i; destruct i; cbn [upd_nth]; constructor; auto.
Qed.

Lemma UrlWf_step s o : OwnWf s -> UrlWf s -> UrlWf (fst (step s o)).
Proof.
  intros W U. unfold step. destruct (lost s); [exact U|]. destruct o; cbn [fst].
  - (* Send: the URL on the wire names the object the clid was (or is now) allocated for *)
    unfold do_send. destruct (find_obj (o_tab (ow s)) x) as [e|] eqn:F; rewrite send_spec; cbn [fst].
    + constructor; cbn [ow o_alloc ch_oh hd].
      * apply Forall_app. split; [apply (uw_ch s U)|]. constructor; [|constructor]. cbn [msg_url_ok]. intros y Ey.
        unfold myref_url in Ey. apply find_some in F as [Hin Ex]. apply Z.eqb_eq in Ex.
        pose proof (ow_logged s W) as G. rewrite Forall_forall in G. specialize (G e Hin). rewrite Ex in G.
        destruct myref_long_form; [destruct (_ =? 1)|]; inversion Ey; subst y; exact G.
      * apply (uw_trk s U).
    + constructor; cbn [ow o_alloc ch_oh hd].
      * apply Forall_app. split.
        -- apply Forall_impl with (2 := uw_ch s U). intros m. apply msg_url_ok_mono. intros a Ha. right. exact Ha.
        -- constructor; [|constructor]. cbn [msg_url_ok]. intros y Ey. unfold myref_url in Ey.
           destruct myref_long_form; [destruct (_ =? 1)|]; inversion Ey; subst y; left; reflexivity.
      * apply Forall_impl with (2 := uw_trk s U). intros t. apply url_ok_mono. intros a Ha. right. exact Ha.
  - (* RecvOH: a new tracker takes the URL of the message that creates it *)
    unfold do_recv_oh. destruct (ch_oh s) as [|[c [|] w|rid] rest] eqn:Hch; cbn [fst]; try exact U.
    + pose proof (uw_ch s U) as C. rewrite Hch in C. inversion C; subst.
      apply (UrlWf_same_owner s); [reflexivity | assumption | apply (uw_trk s U)].
    + pose proof (uw_ch s U) as C. rewrite Hch in C. inversion C as [|m l Hm Hl]; subst.
      rewrite do_myref_eq. unfold myref_core. destruct (nth_error (myref_trk s c w) (myref_idx s c)) as [t|] eqn:Ht; [|exact U].
      assert (T0 : Forall (fun t => url_ok (o_alloc (ow s)) (t_clid t) (t_url t)) (myref_trk s c w)).
      { unfold myref_trk. destruct (tab_get _ _); [apply (uw_trk s U)|]. apply Forall_app. split; [apply (uw_trk s U)|].
        constructor; [exact Hm | constructor]. }
      assert (Tt : url_ok (o_alloc (ow s)) (t_clid t) (t_url t)).
      { rewrite Forall_forall in T0. apply T0. eapply nth_error_In; eauto. }
      unfold get_ref. destruct (t_proxy t); cbn [fst];
        (apply (UrlWf_same_owner s); [reflexivity | exact Hl |]; cbn [hd h_trk];
         apply Forall_upd_nth_keep; [exact T0 | intros a _; exact Tt]).
    + pose proof (uw_ch s U) as C. rewrite Hch in C. inversion C; subst.
      unfold do_ack. apply (UrlWf_same_owner s); [reflexivity | assumption | apply (uw_trk s U)].
  - (* RecvHO: nothing the URLs depend on changes (the allocation log is untouched) *)
    unfold do_recv_ho. destruct (ch_ho s) as [|[c n rid|c k] rest]; cbn [fst]; try exact U.
    + destruct (find_clid (o_tab (ow s)) c) as [e|].
      * destruct (decref n (oe_rc e)) as [[done v]|]; cbn [fst]; apply (UrlWf_same_owner s); cbn [ow o_alloc ch_oh hd]; try reflexivity;
          try apply (uw_trk s U); try apply (uw_ch s U).
        apply Forall_app. split; [apply (uw_ch s U) | constructor; [exact I | constructor]].
      * apply (UrlWf_same_owner s); cbn [ow o_alloc ch_oh hd]; [reflexivity | | apply (uw_trk s U)].
        apply Forall_app. split; [apply (uw_ch s U) | constructor; [exact I | constructor]].
    + apply (UrlWf_same_owner s); [reflexivity | apply (uw_ch s U) | apply (uw_trk s U)].
  - unfold do_drop. destruct (find_proxy _ _) as [i|]; cbn [fst]; [|exact U].
    apply (UrlWf_same_owner s); [reflexivity | apply (uw_ch s U) |]. cbn [hd h_trk].
    apply Forall_upd_nth_keep; [apply (uw_trk s U) | intros a Ha; exact Ha].
  - unfold do_reflost. destruct (h_pend (hd s)) as [|i pend]; [exact U|]. destruct (nth_error _ _) as [t|]; [|exact U].
    destruct (t_proxy t); [apply (UrlWf_same_owner s); [reflexivity | apply (uw_ch s U) | apply (uw_trk s U)]|].
    destruct (handleRefLost_assign (t_recv t)) as [cnt0 r'].
    destruct (handleRefLost_skip cnt0); cbn [fst]; (apply (UrlWf_same_owner s); [reflexivity | apply (uw_ch s U) |]; cbn [hd h_trk];
      apply Forall_upd_nth_keep; [apply (uw_trk s U) | intros a Ha; exact Ha]).
  - unfold do_home. destruct (find_proxy _ _); [|exact U]. destruct (nth_error _ _); [|exact U].
    apply (UrlWf_same_owner s); [reflexivity | apply (uw_ch s U) | apply (uw_trk s U)].
  - unfold do_lost. cbn [fst]. constructor; cbn [ch_oh hd h_trk]; constructor.
Qed.

Lemma UrlWf_run ops : forall s, OwnWf s -> UrlWf s -> UrlWf (run s ops).
Proof.
  induction ops as [|o r IH]; intros s W U; cbn [run]; [exact U|]. apply IH; [apply OwnWf_step, W | apply UrlWf_step; assumption].
Qed.

(* "the FURL a proxy's tracker carries": None = the tracker knows none *)
Definition proxy_url (s : state) (p : Z) : option Z :=
  match find_proxy (h_trk (hd s)) p with
  | Some i => match nth_error (h_trk (hd s)) i with Some t => t_url t | None => None end
  | None => None
  end.

(* (U1) soundness, every history: a FURL a tracker carries names the very object the proxy designates -- the object its
   clid was allocated for (and no other: alloc_functional) *)
Theorem tracker_url_names_object ops :
  let s := run init ops in
  forall i t x, nth_error (h_trk (hd s)) i = Some t -> t_url t = Some x -> In (t_clid t, x) (o_alloc (ow s)).
Proof.
  intros s i t x Ht Hu. pose proof (UrlWf_run ops init OwnWf_init UrlWf_init) as U. fold s in U.
  pose proof (uw_trk s U) as T. rewrite Forall_forall in T. apply (T t (nth_error_In _ _ Ht) x Hu).
Qed.

Theorem proxy_url_names_designated_object ops p x y :
  let s := run init ops in
  denotes s p x -> proxy_url s p = Some y -> y = x.
Proof.
  intros s (i & t & Ht & Hp & Ha) Hy. unfold proxy_url in Hy.
  pose proof (Inv_run ops init Inv_init) as I. fold s in I.
  pose proof (ProxWf_run ops init Inv_init ProxWf_init) as PWf. fold s in PWf.
  destruct (find_proxy (h_trk (hd s)) p) as [j|] eqn:F; [|discriminate].
  destruct (find_proxy_some _ _ _ F) as (u & Hu & Hpu). rewrite Hu in Hy.
  assert (j = i) by (destruct PWf as [_ W2]; eapply W2; eauto). subst j. rewrite Ht in Hu. inversion Hu; subst u.
  pose proof (tracker_url_names_object ops i t y Ht Hy) as Hay. fold s in Hay.
  pose proof (OwnWf_run ops init OwnWf_init) as W. fold s in W.
  pose proof (ow_alloc_nodup s W) as N.
  (* one clid, one object *)
  clear - Ha Hay N. induction (o_alloc (ow s)) as [|a l IH]; [destruct Ha|].
  cbn [map] in N. inversion N as [|? ? Hn N']; subst. destruct Ha as [->|Ha]; destruct Hay as [E|Hay].
  - inversion E. reflexivity.
  - exfalso. apply Hn. apply in_map_iff. exists (t_clid t, y). split; [reflexivity | exact Hay].
  - subst a. exfalso. apply Hn. apply in_map_iff. exists (t_clid t, x). split; [reflexivity | exact Ha].
  - apply IH; assumption.
Qed.

(* (U2) where a URL comes from: the first my-reference of an object carries it ... *)
Theorem first_reference_carries_url ops x d :
  let s := run init ops in lost s = false -> find_obj (o_tab (ow s)) x = None ->
  exists c, ch_oh (fst (step s (Send x d))) = ch_oh s ++ [MyRef c d (Some x)].
Proof.
  intros s Hl F. unfold step. rewrite Hl. unfold do_send. rewrite F.
  rewrite rc_cons. cbn [oe_clid oe_rc]. rewrite Z.eqb_refl, send_spec. cbn [fst ch_oh]. eexists. reflexivity.
Qed.

(* ... a re-send of an object the owner still counts does not (refcount >= 1 before the send) ... *)
Theorem resend_carries_no_url ops x d e :
  let s := run init ops in lost s = false -> find_obj (o_tab (ow s)) x = Some e ->
  ch_oh (fst (step s (Send x d))) = ch_oh s ++ [MyRef (oe_clid e) d None].
Proof.
  intros s Hl F. unfold step. rewrite Hl. unfold do_send. rewrite F. rewrite send_spec. cbn [fst ch_oh].
  pose proof (Inv_run ops init Inv_init) as I. fold s in I.
  assert (P : 1 <= rc (o_tab (ow s)) (oe_clid e)).
  { apply find_some in F as [Hin _]. pose proof (inv_own s I) as H. rewrite Forall_forall in H. specialize (H e Hin).
    assert (Fe : exists e', find_clid (o_tab (ow s)) (oe_clid e) = Some e').
    { destruct (find_clid (o_tab (ow s)) (oe_clid e)) as [e'|] eqn:F'; [eauto|]. exfalso. eapply find_clid_none; eauto. }
    destruct Fe as (e' & Fe'). unfold rc. rewrite Fe'. apply find_clid_some in Fe' as [Hin' _].
    pose proof (inv_own s I) as H'. rewrite Forall_forall in H'. specialize (H' e' Hin'). lia. }
  unfold myref_url. assert (E : myref_long_form = LongWhenFirst) by reflexivity. rewrite E.
  replace (rc (o_tab (ow s)) (oe_clid e) + 1 =? 1) with false by (symmetry; apply Z.eqb_neq; lia). reflexivity.
Qed.

(* proxy_url is the URL of THE tracker that has the live proxy (there is exactly one: ProxWf) *)
Lemma proxy_url_of_tracker ops p i t :
  let s := run init ops in
  nth_error (h_trk (hd s)) i = Some t -> t_proxy t = Some p -> proxy_url s p = t_url t.
Proof.
  intros s Ht Hp. unfold proxy_url.
  pose proof (ProxWf_run ops init Inv_init ProxWf_init) as PWf. fold s in PWf.
  destruct (find_proxy_complete _ _ _ _ Ht Hp) as (j & F). rewrite F.
  destruct (find_proxy_some _ _ _ F) as (u & Hu & Hpu). rewrite Hu.
  assert (j = i) by (destruct PWf as [_ W2]; eapply W2; eauto). subst j. congruence.
Qed.

(* ... and a tracker made for a my-reference takes exactly the URL of that message *)
Theorem new_tracker_takes_url_of_message ops c w rest :
  let s := run init ops in lost s = false -> ch_oh s = MyRef c false w :: rest -> tab_get (h_tab (hd s)) c = None ->
  exists p, snd (step s RecvOH) = [EvDelivered p] /\ proxy_url (fst (step s RecvOH)) p = w.
Proof.
  intros s Hl Hch G.
  assert (E : fst (step s RecvOH) = run init (ops ++ [RecvOH])) by (rewrite run_app; reflexivity).
  assert (K : exists p i t, snd (step s RecvOH) = [EvDelivered p] /\ nth_error (h_trk (hd (fst (step s RecvOH)))) i = Some t /\
                            t_proxy t = Some p /\ t_url t = w).
  { unfold step. rewrite Hl. unfold do_recv_oh. rewrite Hch. unfold do_myref. rewrite G, nth_error_app_last.
    unfold get_ref. cbn [t_proxy fst snd hd h_trk]. rewrite upd_nth_app_last.
    eexists. exists (List.length (h_trk (hd s))). eexists. split; [reflexivity|]. split; [apply nth_error_app_last|].
    cbn [t_proxy t_url]. split; reflexivity. }
  destruct K as (p & i & t & Hev & Ht & Hp & Hu). exists p. split; [exact Hev|].
  rewrite E in *. rewrite (proxy_url_of_tracker (ops ++ [RecvOH]) p i t Ht Hp). exact Hu.
Qed.

(* (U3) ... and that is why NOT every live proxy has one: when the holder has forgotten the tracker (its count reached 0 and the
   answer to its decref arrived) while the owner still counts a reference (a later decref is still under way), the next
   my-reference is not a first one; the tracker it creates knows no FURL.  The history is the decref window of D16; the
   proxy delivered at the end is live, designates the object, calls through it reach the object -- but it cannot be
   handed to a third party. *)
Definition urlless_ops : list op :=
  [Send 5 false; RecvOH; DropProxy 0; HandleRefLost; Send 5 false; RecvHO; RecvOH; DropProxy 1; HandleRefLost; RecvOH;
   Send 5 false; RecvOH].

Theorem live_proxy_without_url :
  exists ops p x, let s := run init ops in
    lost s = false /\ holds s p /\ denotes s p x /\ proxy_url s p = None /\
    (* the owner does count it, and a call through it reaches x (after the decref that is still under way) *)
    ch_ho s = [Decref 1 1 2] /\
    snd (step (run s [SendHome p true; RecvHO]) RecvHO) = [EvHome true (Some x)].
Proof.
  exists urlless_ops, 2, 5. cbv zeta. split; [vm_compute; reflexivity|]. split.
  { exists 1%nat. eexists. split; vm_compute; reflexivity. }
  split.
  { exists 1%nat. eexists. split; [vm_compute; reflexivity|]. split; [vm_compute; reflexivity|]. vm_compute. left. reflexivity. }
  split; [vm_compute; reflexivity|]. split; vm_compute; reflexivity.
Qed.

(* the exact condition under which a freshly delivered proxy knows its FURL: its tracker was in the table (and had one), or
   the my-reference was a first one *)
Theorem delivered_proxy_url ops c w rest :
  let s := run init ops in lost s = false -> ch_oh s = MyRef c false w :: rest ->
  exists p, snd (step s RecvOH) = [EvDelivered p] /\
    proxy_url (fst (step s RecvOH)) p =
      match tab_get (h_tab (hd s)) c with
      | Some i => match nth_error (h_trk (hd s)) i with Some t => t_url t | None => None end
      | None => w
      end.
Proof.
  intros s Hl Hch. destruct (tab_get (h_tab (hd s)) c) as [i|] eqn:G.
  - pose proof (Inv_run ops init Inv_init) as I. fold s in I.
    destruct (inv_tab s I _ _ G) as (t & Ht & Hc). rewrite Ht.
    assert (E : fst (step s RecvOH) = run init (ops ++ [RecvOH])) by (rewrite run_app; reflexivity).
    assert (K : exists p t', snd (step s RecvOH) = [EvDelivered p] /\ nth_error (h_trk (hd (fst (step s RecvOH)))) i = Some t' /\
                             t_proxy t' = Some p /\ t_url t' = t_url t).
    { unfold step. rewrite Hl. unfold do_recv_oh. rewrite Hch. unfold do_myref. rewrite G, Ht.
      unfold get_ref. destruct (t_proxy t) as [q|]; cbn [fst snd hd h_trk]; rewrite nth_error_upd_nth, Nat.eqb_refl, Ht; cbn [option_map];
        eexists; eexists; (split; [reflexivity|]); (split; [reflexivity|]); cbn [t_proxy t_url]; split; reflexivity. }
    destruct K as (p & t' & Hev & Ht' & Hp & Hu). exists p. split; [exact Hev|].
    rewrite E in *. rewrite (proxy_url_of_tracker (ops ++ [RecvOH]) p i t' Ht' Hp). exact Hu.
  - apply (new_tracker_takes_url_of_message ops c w rest); assumption.
Qed.
