(* C08 / C09: lemmas and theorems about lib/Refs.v (model) and gen/RefsGen.v (translated). *)
From Coq Require Import ZArith List Bool Lia Arith String.
Import ListNotations.
Require Import Verif.lib.PyLite Verif.gen.RefsGen Verif.lib.Refs.
Local Open Scope Z_scope.
Notation length := List.length.

(* ------------------------------------------------------------------ *)
(* the translated pieces, characterised once; everything below uses only these facts *)

Lemma send_spec r : send r = Ok (r + 1 =? 1, r + 1).
Proof. unfold send. cbv zeta. destruct (r + 1 =? 1); reflexivity. Qed.

Lemma decref_spec n r :
  decref n r = if r >=? n then Ok (r - n =? 0, r - n) else Exc "AssertionError"%string.
Proof. unfold decref. cbv zeta. destruct (r >=? n); [destruct (r - n =? 0); reflexivity | reflexivity]. Qed.

Lemma getRef_incr_spec r : getRef_incr r = r + 1.
Proof. reflexivity. Qed.

(* D15 regression: bound-method references count like ordinary ones *)
Lemma getRef_incr_method_spec r : getRef_incr_method r = getRef_incr r.
Proof. reflexivity. Qed.

Lemma handleRefLost_assign_spec r : handleRefLost_assign r = (r, 0).
Proof. reflexivity. Qed.

Lemma handleRefLost_skip_spec c : handleRefLost_skip c = (c =? 0).
Proof. reflexivity. Qed.

Lemma freeTracker_keeps_spec r : freeTracker_keeps r = negb (r =? 0).
Proof. reflexivity. Qed.

Lemma freeTracker_delkey_spec : freeTracker_delkey = DelByClid.
Proof. reflexivity. Qed.

Lemma finish_clears_spec :
  finish_clears_myReferenceByCLID && finish_clears_myReferenceByPUID = true /\ finish_clears_yourReferenceByCLID = true.
Proof. split; reflexivity. Qed.

(* ------------------------------------------------------------------ *)
(* owner table *)

Lemma find_clid_some tab c e : find_clid tab c = Some e -> In e tab /\ oe_clid e = c.
Proof. unfold find_clid. intros H. apply find_some in H. destruct H as [H1 H2]. apply Z.eqb_eq in H2. auto. Qed.

Lemma find_clid_none tab c : find_clid tab c = None -> forall e, In e tab -> oe_clid e <> c.
Proof. unfold find_clid. intros H e He E. pose proof (find_none _ _ H e He) as F. cbn in F. apply Z.eqb_neq in F. auto. Qed.

Lemma rc_cons e tab k : rc (e :: tab) k = if oe_clid e =? k then oe_rc e else rc tab k.
Proof. unfold rc, find_clid. cbn [find]. destruct (oe_clid e =? k); reflexivity. Qed.

Definition upd_entry (c v : Z) (e : oentry) : oentry :=
  if oe_clid e =? c then {| oe_obj := oe_obj e; oe_clid := oe_clid e; oe_rc := v |} else e.

Lemma find_clid_set_rc tab c v k : find_clid (set_rc tab c v) k = option_map (upd_entry c v) (find_clid tab k).
Proof.
  unfold find_clid, set_rc. induction tab as [|e tab IH]; cbn [map find option_map]; [reflexivity|].
  assert (E : oe_clid (if oe_clid e =? c then {| oe_obj := oe_obj e; oe_clid := oe_clid e; oe_rc := v |} else e) = oe_clid e)
    by (destruct (oe_clid e =? c); reflexivity).
  rewrite E. destruct (oe_clid e =? k); [reflexivity | exact IH].
Qed.

Lemma rc_set_rc tab c v k :
  rc (set_rc tab c v) k = if k =? c then match find_clid tab c with Some _ => v | None => 0 end else rc tab k.
Proof.
  unfold rc. rewrite find_clid_set_rc. destruct (k =? c) eqn:Ek.
  - apply Z.eqb_eq in Ek. subst k. destruct (find_clid tab c) as [e|] eqn:F; cbn [option_map]; [|reflexivity].
    apply find_clid_some in F as [_ F]. unfold upd_entry. rewrite F, Z.eqb_refl. reflexivity.
  - destruct (find_clid tab k) as [e|] eqn:F; cbn [option_map]; [|reflexivity].
    apply find_clid_some in F as [_ F]. unfold upd_entry. rewrite F, Ek. reflexivity.
Qed.

Lemma rc_del tab c k : rc (del_clid tab c) k = if k =? c then 0 else rc tab k.
Proof.
  induction tab as [|e tab IH].
  - cbn. destruct (k =? c); reflexivity.
  - unfold del_clid. cbn [filter]. fold (del_clid tab c). destruct (oe_clid e =? c) eqn:Ec; cbn [negb].
    + rewrite IH, rc_cons. destruct (k =? c) eqn:Ek; [reflexivity|].
      destruct (oe_clid e =? k) eqn:E2; [|reflexivity].
      apply Z.eqb_eq in E2, Ec. apply Z.eqb_neq in Ek. congruence.
    + rewrite !rc_cons, IH. destruct (k =? c) eqn:Ek; [|reflexivity].
      apply Z.eqb_eq in Ek. subst. rewrite Ec. reflexivity.
Qed.

Lemma rc_none tab c : find_clid tab c = None -> rc tab c = 0.
Proof. unfold rc. intros ->. reflexivity. Qed.

Lemma rc_pos_found tab c : 0 < rc tab c -> exists e, find_clid tab c = Some e /\ oe_rc e = rc tab c.
Proof. unfold rc. destruct (find_clid tab c) as [e|]; [eauto | lia]. Qed.

Lemma map_clid_set_rc tab c v : map oe_clid (set_rc tab c v) = map oe_clid tab.
Proof. unfold set_rc. rewrite map_map. apply map_ext. intros e. destruct (oe_clid e =? c); reflexivity. Qed.

Lemma map_obj_set_rc tab c v : map oe_obj (set_rc tab c v) = map oe_obj tab.
Proof. unfold set_rc. rewrite map_map. apply map_ext. intros e. destruct (oe_clid e =? c); reflexivity. Qed.

Lemma NoDup_map_filter {A B} (f : A -> B) (p : A -> bool) l : NoDup (map f l) -> NoDup (map f (filter p l)).
Proof.
  induction l as [|a l IH]; cbn; [auto|]. intros H. inversion H as [|? ? Hn Hd]; subst.
  destruct (p a); cbn; [constructor; [|auto] | auto].
  intros Hin. apply Hn. apply in_map_iff in Hin as (x & E & Hx). apply filter_In in Hx as [Hx _].
  apply in_map_iff. eauto.
Qed.

(* ------------------------------------------------------------------ *)
(* holder lists *)

Lemma nth_error_upd_nth {A} (l : list A) i f j :
  nth_error (upd_nth l i f) j = if Nat.eqb j i then option_map f (nth_error l j) else nth_error l j.
Proof.
  revert i j; induction l as [|a l IH]; intros i j.
  - destruct i, j; cbn; try reflexivity; destruct (Nat.eqb _ _); reflexivity.
  - destruct i, j; cbn; try reflexivity. apply IH.
Qed.

Lemma Forall_upd_nth {A} (P : A -> Prop) l i f :
  Forall P l -> (forall a, nth_error l i = Some a -> P a -> P (f a)) -> Forall P (upd_nth l i f).
Proof.
  revert i; induction l as [|a l IH]; intros [|i] H Hf; cbn; auto; inversion H; subst; constructor; auto.
Qed.

Lemma upd_nth_app_last {A} (l : list A) a f : upd_nth (l ++ [a]) (List.length l) f = l ++ [f a].
Proof. induction l as [|b l IH]; cbn; [reflexivity | rewrite IH; reflexivity]. Qed.

Lemma nth_error_app_last {A} (l : list A) a : nth_error (l ++ [a]) (List.length l) = Some a.
Proof. induction l as [|b l IH]; cbn; auto. Qed.

Lemma recv_sum_app trk t c : recv_sum (trk ++ [t]) c = recv_sum trk c + contrib t c.
Proof. induction trk as [|a l IH]; cbn [app recv_sum]; lia. Qed.

Lemma recv_sum_upd trk i f t c :
  nth_error trk i = Some t -> recv_sum (upd_nth trk i f) c = recv_sum trk c - contrib t c + contrib (f t) c.
Proof.
  revert i; induction trk as [|a l IH]; intros [|i]; cbn [nth_error upd_nth recv_sum]; try discriminate.
  - intros E; inversion E; subst. lia.
  - intros E. rewrite (IH _ E). lia.
Qed.

Lemma contrib_nonneg t c : 0 <= t_recv t -> 0 <= contrib t c.
Proof. unfold contrib. destruct (_ =? _); lia. Qed.

Lemma recv_sum_nonneg trk c : Forall (fun t => 0 <= t_recv t) trk -> 0 <= recv_sum trk c.
Proof. induction 1 as [|t l Ht _ IH]; cbn [recv_sum]; [lia|]. pose proof (contrib_nonneg t c Ht). lia. Qed.

Lemma recv_sum_ge trk i t c :
  Forall (fun t => 0 <= t_recv t) trk -> nth_error trk i = Some t -> contrib t c <= recv_sum trk c.
Proof.
  intros H; revert i; induction H as [|a l Ha Hl IH]; intros [|i]; cbn [nth_error recv_sum]; try discriminate.
  - intros E; inversion E; subst. pose proof (recv_sum_nonneg l c Hl). lia.
  - intros E. pose proof (IH _ E). pose proof (contrib_nonneg a c Ha). lia.
Qed.

Lemma recv_sum_zero trk c : Forall (fun t => t_recv t = 0) trk -> recv_sum trk c = 0.
Proof. induction 1 as [|t l Ht _ IH]; cbn [recv_sum]; [reflexivity|]. unfold contrib. rewrite Ht, IH. destruct (_ =? _); reflexivity. Qed.

Lemma inflight_app ch m c :
  inflight (ch ++ [m]) c = inflight ch c + match m with MyRef k _ => if k =? c then 1 else 0 | Ack _ => 0 end.
Proof. induction ch as [|a l IH]; cbn [app inflight]; [destruct m; lia|]. destruct a; rewrite IH; lia. Qed.

Lemma inflight_nonneg ch c : 0 <= inflight ch c.
Proof. induction ch as [|a l IH]; cbn [inflight]; [lia|]. destruct a; [destruct (_ =? _)|]; lia. Qed.

Lemma decs_app ch m c :
  decs (ch ++ [m]) c = decs ch c + match m with Decref k n _ => if k =? c then n else 0 | ToOwner _ _ => 0 end.
Proof. induction ch as [|a l IH]; cbn [app decs]; [destruct m; lia|]. destruct a; rewrite IH; lia. Qed.

Definition dpos (m : msgHO) : Prop := match m with Decref _ n _ => 0 < n | ToOwner _ _ => True end.

Lemma decs_nonneg ch c : Forall dpos ch -> 0 <= decs ch c.
Proof. induction 1 as [|a l Ha _ IH]; cbn [decs]; [lia|]. destruct a; cbn in Ha; [destruct (_ =? _)|]; lia. Qed.

Lemma cnt_nonneg l c : 0 <= cnt l c.
Proof. induction l as [|a l IH]; cbn [cnt]; [lia|]. destruct (_ =? _); lia. Qed.

Lemma inflight_in ch c d : In (MyRef c d) ch -> 1 <= inflight ch c.
Proof.
  induction ch as [|a l IH]; cbn [In inflight]; [tauto|]. intros [->|H].
  - rewrite Z.eqb_refl. pose proof (inflight_nonneg l c). lia.
  - specialize (IH H). destruct a; [destruct (_ =? _)|]; lia.
Qed.

Lemma tab_get_del tab c k : tab_get (tab_del tab c) k = if k =? c then None else tab_get tab k.
Proof.
  induction tab as [|[a i] tab IH]; cbn [tab_del filter tab_get fst]; [destruct (k =? c); reflexivity|].
  fold (tab_del tab c). destruct (a =? c) eqn:Ea; cbn [negb].
  - rewrite IH. destruct (k =? c) eqn:Ek; [reflexivity|]. destruct (a =? k) eqn:E2; [|reflexivity].
    apply Z.eqb_eq in E2, Ea. apply Z.eqb_neq in Ek. congruence.
  - cbn [tab_get]. rewrite IH. destruct (k =? c) eqn:Ek; [|reflexivity].
    apply Z.eqb_eq in Ek. subst. rewrite Ea. reflexivity.
Qed.

Lemma find_proxy_some trk p i : find_proxy trk p = Some i -> exists t, nth_error trk i = Some t /\ t_proxy t = Some p.
Proof.
  revert i; induction trk as [|t l IH]; intros i; cbn [find_proxy]; [discriminate|].
  destruct (t_proxy t) as [q|] eqn:Eq.
  - destruct (q =? p) eqn:Eqp.
    + intros E; inversion E; subst. apply Z.eqb_eq in Eqp. subst. exists t. cbn. auto.
    + destruct (find_proxy l p) as [j|]; cbn [option_map]; [|discriminate]. intros E; inversion E; subst.
      destruct (IH j eq_refl) as (t' & H1 & H2). exists t'. cbn. auto.
  - destruct (find_proxy l p) as [j|]; cbn [option_map]; [|discriminate]. intros E; inversion E; subst.
    destruct (IH j eq_refl) as (t' & H1 & H2). exists t'. cbn. auto.
Qed.

(* ------------------------------------------------------------------ *)
(* home_ok *)

Lemma home_ok_mono f g ch : (forall c, f c <= g c) -> home_ok f ch -> home_ok g ch.
Proof.
  revert f g; induction ch as [|m ch IH]; intros f g Hfg; cbn [home_ok]; [auto|].
  destruct m as [c n r|c k].
  - apply IH. intros k. cbv beta. destruct (k =? c); [specialize (Hfg k); lia | apply Hfg].
  - intros [H1 H2]. split; [specialize (Hfg c); lia | eapply IH; eauto].
Qed.

Lemma home_ok_app_decref f ch c n r : home_ok f ch -> home_ok f (ch ++ [Decref c n r]).
Proof.
  revert f; induction ch as [|m ch IH]; intros f; cbn [app home_ok]; [auto|].
  destruct m as [c' n' r'|c' k']; [apply IH | intros [H1 H2]; split; [exact H1 | apply IH; exact H2]].
Qed.

Lemma home_ok_app_home f ch c k : home_ok f ch -> decs ch c < f c -> home_ok f (ch ++ [ToOwner c k]).
Proof.
  revert f; induction ch as [|m ch IH]; intros f; cbn [app home_ok decs].
  - intros _ H. split; [lia | exact I].
  - destruct m as [c' n' r'|c' k'].
    + intros H1 H2. apply IH; [exact H1|]. cbv beta. rewrite (Z.eqb_sym c c'). destruct (c' =? c); lia.
    + intros [H1 H2] H3. split; [exact H1 | apply IH; assumption].
Qed.

Lemma home_ok_in f ch c k : Forall dpos ch -> home_ok f ch -> In (ToOwner c k) ch -> 0 < f c.
Proof.
  intros Hd; revert f; induction Hd as [|m ch Hm _ IH]; intros f; cbn [home_ok In]; [tauto|].
  destruct m as [c' n' r'|c' k'].
  - intros H [E|Hin]; [discriminate|]. specialize (IH _ H Hin). cbv beta in IH. cbn in Hm. destruct (c =? c'); lia.
  - intros [H1 H2] [E|Hin]; [inversion E; subst; exact H1 | eapply IH; eauto].
Qed.

(* ------------------------------------------------------------------ *)
(* the invariant of every reachable state (ALL histories, including the D9 and D16 ones) *)

Record Inv (s : state) : Prop := {
  (* refcount = received + my-references in flight + releases in flight (+ my-references the holder threw away) *)
  inv_count : forall c, rc (o_tab (ow s)) c
                        = recv_sum (h_trk (hd s)) c + inflight (ch_oh s) c + decs (ch_ho s) c + cnt (leaked s) c;
  inv_recv : Forall (fun t => 0 <= t_recv t) (h_trk (hd s));
  inv_dpos : Forall dpos (ch_ho s);
  inv_own : Forall (fun e => 1 <= oe_rc e /\ oe_clid e < o_next (ow s)) (o_tab (ow s));
  inv_tab : forall c i, tab_get (h_tab (hd s)) c = Some i ->
                        exists t, nth_error (h_trk (hd s)) i = Some t /\ t_clid t = c;
  inv_alive : Forall (fun t => t_proxy t <> None -> 1 <= t_recv t) (h_trk (hd s));
  inv_pend : forall i t, nth_error (h_trk (hd s)) i = Some t -> 1 <= t_recv t ->
                         t_proxy t <> None \/ In i (h_pend (hd s));
  inv_home : home_ok (rc (o_tab (ow s))) (ch_ho s);
  inv_nofail : o_failed (ow s) = false
}.

Lemma Inv_init : Inv init.
Proof.
  constructor; cbn; auto; try (intros; discriminate).
  intros i t H. destruct i; discriminate.
Qed.

Lemma rc_nonneg s c : Inv s -> 0 <= rc (o_tab (ow s)) c.
Proof.
  intros I. rewrite (inv_count s I).
  pose proof (recv_sum_nonneg _ c (inv_recv s I)). pose proof (inflight_nonneg (ch_oh s) c).
  pose proof (decs_nonneg _ c (inv_dpos s I)). pose proof (cnt_nonneg (leaked s) c). lia.
Qed.

Lemma fresh_clid s : Inv s -> find_clid (o_tab (ow s)) (o_next (ow s)) = None.
Proof.
  intros I. destruct (find_clid _ _) as [e|] eqn:F; [|reflexivity].
  apply find_clid_some in F as [Hin E]. pose proof (inv_own s I) as H. rewrite Forall_forall in H.
  specialize (H e Hin). lia.
Qed.

(* ---- Send *)
Lemma Inv_send s x d : Inv s -> Inv (fst (do_send s x d)).
Proof.
  intros I. unfold do_send.
  destruct (find_obj (o_tab (ow s)) x) as [e|] eqn:F.
  - (* the object already has an entry *)
    rewrite send_spec. cbn [fst].
    apply find_some in F as [Hin _].
    assert (Hf : exists e', find_clid (o_tab (ow s)) (oe_clid e) = Some e').
    { destruct (find_clid (o_tab (ow s)) (oe_clid e)) as [e'|] eqn:F'; [eauto|].
      exfalso. eapply find_clid_none; eauto. }
    destruct Hf as [e' Fe'].
    assert (R : forall k, rc (set_rc (o_tab (ow s)) (oe_clid e) (rc (o_tab (ow s)) (oe_clid e) + 1)) k
                          = rc (o_tab (ow s)) k + if oe_clid e =? k then 1 else 0).
    { intros k. rewrite rc_set_rc, Fe'. rewrite (Z.eqb_sym k). destruct (oe_clid e =? k) eqn:Ek; [|lia].
      apply Z.eqb_eq in Ek. subst. lia. }
    constructor; cbn [ow hd ch_oh ch_ho leaked o_tab o_next o_failed].
    + intros c. rewrite R, inflight_app, (inv_count s I). lia.
    + apply (inv_recv s I).
    + apply (inv_dpos s I).
    + pose proof (inv_own s I) as H. rewrite Forall_forall in *. intros a Ha.
      unfold set_rc in Ha. apply in_map_iff in Ha as (b & Eb & Hb). specialize (H b Hb).
      pose proof (rc_nonneg s (oe_clid e) I).
      destruct (oe_clid b =? oe_clid e); subst a; cbn [oe_rc oe_clid]; lia.
    + apply (inv_tab s I).
    + apply (inv_alive s I).
    + apply (inv_pend s I).
    + eapply home_ok_mono; [|apply (inv_home s I)]. intros c. cbv beta. rewrite R. destruct (_ =? _); lia.
    + apply (inv_nofail s I).
  - (* first transmission: a fresh clid *)
    pose proof (fresh_clid s I) as Fr.
    set (c := o_next (ow s)) in *.
    assert (E0 : rc ({| oe_obj := x; oe_clid := c; oe_rc := 0 |} :: o_tab (ow s)) c = 0).
    { rewrite rc_cons. cbn [oe_clid oe_rc]. rewrite Z.eqb_refl. reflexivity. }
    rewrite E0, send_spec. cbn [fst].
    assert (R : forall k, rc (set_rc ({| oe_obj := x; oe_clid := c; oe_rc := 0 |} :: o_tab (ow s)) c (0 + 1)) k
                          = rc (o_tab (ow s)) k + if c =? k then 1 else 0).
    { intros k. rewrite rc_set_rc. unfold find_clid at 1. cbn [find oe_clid]. rewrite Z.eqb_refl.
      rewrite (Z.eqb_sym k). destruct (c =? k) eqn:Ek.
      - apply Z.eqb_eq in Ek. subst k. rewrite (rc_none _ _ Fr). lia.
      - rewrite rc_cons. cbn [oe_clid]. rewrite Ek. lia. }
    constructor; cbn [ow hd ch_oh ch_ho leaked o_tab o_next o_failed].
    + intros k. rewrite R, inflight_app, (inv_count s I). lia.
    + apply (inv_recv s I).
    + apply (inv_dpos s I).
    + pose proof (inv_own s I) as H. rewrite Forall_forall in *. intros a Ha.
      unfold set_rc in Ha. apply in_map_iff in Ha as (b & Eb & Hb). destruct Hb as [Hb|Hb].
      * subst b. cbn [oe_clid] in Eb. rewrite Z.eqb_refl in Eb. subst a. cbn [oe_rc oe_clid]. lia.
      * specialize (H b Hb). destruct (oe_clid b =? c) eqn:Ebc; subst a; cbn [oe_rc oe_clid]; lia.
    + apply (inv_tab s I).
    + apply (inv_alive s I).
    + apply (inv_pend s I).
    + eapply home_ok_mono; [|apply (inv_home s I)]. intros k. cbv beta. rewrite R. destruct (_ =? _); lia.
    + apply (inv_nofail s I).
Qed.
