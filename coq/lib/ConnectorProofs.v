(* ConnectorProofs.v -- after ANY history of getReference calls and passage of time, with the connector stored before
   connect() (the translated order), every stored connector is running, every unanswered getReference waits for a
   running connector whose timer ends within the timeout, so: all are answered once the timeout has passed (no_stall),
   and a usable FURL for a tub without a running connector starts an attempt (attempt_starts).  The other order is
   refuted by a two-step history (stall_refuted). *)
From Coq Require Import ZArith List Bool Lia.
Import ListNotations.
Require Import Verif.lib.Connector.
Local Open Scope Z_scope.

Lemma zin_In x l : zin x l = true <-> In x l.
Proof.
  unfold zin. rewrite existsb_exists. split.
  - intros (y & Hy & E). apply Z.eqb_eq in E. subst. assumption.
  - intros H. exists x. split; [assumption | apply Z.eqb_refl].
Qed.

Definition has_live (t : Z) (s : cst) : Prop := exists dl, In (t, dl) (live s).

Record Inv (timeout : Z) (s : cst) : Prop := {
  inv_table : forall t, In t (table s) -> has_live t s;
  inv_wait : forall w t, In (w, t) (waiters s) -> In t (table s);
  inv_dl : forall t dl, In (t, dl) (live s) -> dl <= now s + timeout
}.

Lemma inv_init timeout : Inv timeout cinit.
Proof. split; cbn; intros; contradiction. Qed.

Lemma inv_step timeout s e : 0 <= timeout -> Inv timeout s -> Inv timeout (cstep true timeout s e).
Proof.
  intros Ht [I1 I2 I3]. destruct e as [t usable|dt]; cbn [cstep].
  - cbn [table]. destruct (zin t (table s)) eqn:Et.
    + apply zin_In in Et. split; cbn [table live waiters now]; auto.
      intros w t' [E|H]; [inversion E; subst; assumption | eauto].
    + destruct usable; unfold connect, store; cbn [now table live waiters fired started next].
      * split; cbn [table live waiters now has_live].
        -- intros t' [<-|H]; [exists (now s + timeout); left; reflexivity|].
           destruct (I1 t' H) as [dl Hdl]. exists dl. right. assumption.
        -- intros w t' [E|H]; [inversion E; subst; left; reflexivity | right; eauto].
        -- intros t' dl [E|H]; [inversion E; subst; lia | eauto].
      * unfold conn_failed; split; cbn [table live waiters now has_live fst snd].
        -- intros t' H. apply filter_In in H as [H Hn]. destruct H as [<-|H].
           ++ exfalso. cbn in Hn. rewrite Z.eqb_refl in Hn. discriminate.
           ++ apply I1. assumption.
        -- intros w t' H. apply filter_In in H as [H Hn]. cbn [snd] in Hn.
           apply filter_In. split; [|assumption].
           destruct H as [E|H]; [inversion E; subst; left; reflexivity | right; eauto].
        -- assumption.
  - set (n := now s + Z.max dt 0). unfold conn_failed; split; cbn [table live waiters now has_live fst snd].
    + intros t H. apply filter_In in H as [H Hn]. destruct (I1 t H) as [dl Hdl].
      exists dl. apply filter_In. split; [assumption|].
      destruct (expired n (t, dl)) eqn:Ex; [|reflexivity]. exfalso.
      assert (zin t (map fst (filter (expired n) (live s))) = true).
      { apply zin_In. apply in_map_iff. exists (t, dl). split; [reflexivity|]. apply filter_In. auto. }
      rewrite H0 in Hn. discriminate.
    + intros w t H. apply filter_In in H as [H Hn]. cbn [snd] in Hn. apply filter_In. split; [eauto | assumption].
    + intros t dl H. apply filter_In in H as [H _]. specialize (I3 t dl H). fold n. unfold n. lia.
Qed.

Lemma inv_run timeout evs : 0 <= timeout -> Inv timeout (crun true timeout evs).
Proof.
  intros Ht. unfold crun. generalize (inv_init timeout). generalize cinit.
  induction evs as [|e evs IH]; intros s Hs; cbn [fold_left]; [assumption|].
  apply IH. apply inv_step; assumption.
Qed.

(* every getReference is answered once the connect timeout has passed, whatever happened before *)
Theorem no_stall : forall timeout evs, 0 <= timeout ->
  waiters (cstep true timeout (crun true timeout evs) (Advance timeout)) = [].
Proof.
  intros timeout evs Ht. destruct (inv_run timeout evs Ht) as [I1 I2 I3].
  set (s := crun true timeout evs) in *. cbn [cstep]. unfold conn_failed. cbn [waiters].
  rewrite Z.max_l by assumption.
  destruct (filter _ (waiters s)) as [|[w t] rest] eqn:E; [reflexivity|]. exfalso.
  assert (H : In (w, t) (filter (fun w0 => negb (zin (snd w0) (map fst (filter (expired (now s + timeout)) (live s))))) (waiters s)))
    by (rewrite E; left; reflexivity).
  apply filter_In in H as [H Hn]. cbn [snd] in Hn.
  destruct (I1 t (I2 w t H)) as [dl Hdl].
  assert (zin t (map fst (filter (expired (now s + timeout)) (live s))) = true).
  { apply zin_In. apply in_map_iff. exists (t, dl). split; [reflexivity|]. apply filter_In. split; [assumption|].
    unfold expired. cbn [snd]. apply Z.leb_le. eauto. }
  rewrite H0 in Hn. discriminate.
Qed.

(* ... and until then each of them is attached to a running connector *)
Theorem waiting_is_attached : forall timeout evs w t, 0 <= timeout ->
  In (w, t) (waiters (crun true timeout evs)) -> has_live t (crun true timeout evs).
Proof. intros timeout evs w t Ht H. destruct (inv_run timeout evs Ht) as [I1 I2 _]. eauto. Qed.

(* a FURL with a usable hint, for a tub without a running connector, starts an attempt *)
Theorem attempt_starts : forall timeout evs t, 0 <= timeout ->
  ~ has_live t (crun true timeout evs) ->
  let s := crun true timeout evs in
  In (next s) (started (cstep true timeout s (GetRef t true))) /\ has_live t (cstep true timeout s (GetRef t true)).
Proof.
  intros timeout evs t Ht Hn s. destruct (inv_run timeout evs Ht) as [I1 _ _]. fold s in I1, Hn.
  cbn [cstep table]. destruct (zin t (table s)) eqn:Et.
  - apply zin_In in Et. exfalso. apply Hn. auto.
  - unfold connect, store, has_live; cbn [now table live waiters fired started next]. split; [left; reflexivity|]. exists (now s + timeout). left. reflexivity.
Qed.

(* the other order (connect, then store): an unusable FURL leaves a dead connector behind and the next,
   perfectly good FURL for the same tub is never answered *)
Example stall_refuted :
  let s := crun false 120 [GetRef 7 false; GetRef 7 true; Advance 1000000] in
  waiters s = [(1%nat, 7)] /\ started s = [] /\ live s = [].
Proof. vm_compute. repeat split. Qed.

Example no_stall_example :
  let s := crun true 120 [GetRef 7 false; GetRef 7 true; Advance 60; GetRef 7 true; GetRef 8 false; Advance 60] in
  waiters s = [] /\ fired s = [0; 3; 2; 1]%nat /\ started s = [1%nat].
Proof. vm_compute. repeat split. Qed.
