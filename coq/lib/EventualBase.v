(* C17 -- vocabulary into which /verif/translate/g_eventual.py translates, STATEMENT BY STATEMENT, the methods of
   foolscap.eventual._SimpleCallQueue (append, _turn, flush) and the module functions eventually, fireEventually,
   flushEventualQueue (definitions only, no proofs).

   A method becomes an action  world -> world * list ev * flow  built from the primitives below; a primitive stands
   for one statement (or one expression form) of eventual.py that touches the queue's own fields, a local variable
   of the method, or the environment (reactor, Deferred, the callable taken from the queue).  Everything is
   polymorphic in
     C : what is stored in self._events (a callable with its arguments),
     F : what the environment attaches to the Deferred of a flush request (its callbacks),
     U : the rest of the world the callables act on,
   so that the SAME generated code serves the queue model of lib/Eventual.v (C = script) and the Promise model
   (C = task, lib/PromiseQueue.v).  What a callable does when it is invoked, what firing a Deferred does, and the
   Deferred a flush() call creates are parameters of the generated methods: only this environment is hand-written. *)
From Coq Require Import ZArith List Bool.
Import ListNotations.
Local Open Scope Z_scope.

(* how a callable ends: returns, raises an Exception, raises a BaseException that is not an Exception
   (SystemExit, KeyboardInterrupt, GeneratorExit, ...) *)
Inductive rkind := RNo | RExc | RBase.

(* `except:` / `except BaseException:`  |  `except Exception:`  |  no try statement *)
Inductive catchmode := CatchAll | CatchException | CatchNone.
Inductive iterdir := Fwd | Bwd.        (* for .. in X  |  for .. in reversed(X) / X[::-1] *)

Inductive ev :=
| Sub (id : Z)                                       (* eventually(callable id) was called *)
| Ran (id : Z)                                       (* the queue invoked callable id *)
| Raised (id : Z)                                    (* ... and it raised *)
| Escaped (id : Z)                                   (* the exception left _turn (or eventually()) *)
| FlushFired (fid : Z) (pending : nat) (running : bool)
   (* the Deferred of flush request fid fired while `pending` submitted callables had not
      been started, `running` = a callable of a batch was executing *)
| FlushReq (fid : Z) (deferred : bool)
   (* flushEventualQueue() was called (request fid); deferred = the Deferred it returned had not fired yet,
      i.e. it was registered in self._flushObservers *)
| FlushPop (fid : Z).
   (* _turn took the registered observer fid out of self._flushObservers in order to notify it
      (the FlushFired fid event follows at once) *)

Definition is_nil {A} (l : list A) : bool := match l with [] => true | _ => false end.

Definition catches (m : catchmode) (k : rkind) : bool :=
  match m with
  | CatchAll => true
  | CatchException => match k with RBase => false | _ => true end
  | CatchNone => false
  end.

(* what a method returns: nothing, or (flush) a Deferred that has already fired / that has not *)
Inductive fres := RNone | RFired | RUnfired.
(* how a statement ends: falls through, returns, or an exception (raised by callable i, of kind k) propagates *)
Inductive flow := FNorm | FRet (r : fres) | FExc (i : Z) (k : rkind).

Section Base.
Context {C F U : Type}.

Record world := mkW {
  w_events : list C;            (* self._events *)
  w_flushers : list (Z * F);    (* self._flushObservers: the Deferreds (request number, what is attached) *)
  w_timer : bool;               (* self._timer is set (truthy) *)
  w_sched : bool;               (* the reactor holds a pending call of self._turn *)
  w_in_turn : bool;             (* self._in_turn *)
  w_loc : list C;               (* the local variable `events` of the running _turn *)
  w_obs : list (Z * F);         (* the local variable `observers` of _turn (code shapes that snapshot the list) *)
  w_user : U
}.

Definition act := world -> world * list ev * flow.

(* the environment of the queue's code: what invoking an entry taken from the batch does (rest = the entries of the
   batch not started yet), what invoking the entry from inside append() would do, what firing a Deferred does, and
   the iteration bound the model gives a while loop *)
Record env := mkEnv {
  e_call : C -> list C -> act;
  e_call_now : C -> act;
  e_fire : Z * F -> act;
  e_fuel : world -> nat
}.

Definition ret : act := fun w => (w, [], FNorm).
Definition ret_with (r : fres) : act := fun w => (w, [], FRet r).
Definition seqa (a b : act) : act :=
  fun w => let '(w1, t1, f1) := a w in
           match f1 with
           | FNorm => let '(w2, t2, f2) := b w1 in (w2, t1 ++ t2, f2)
           | _ => (w1, t1, f1)
           end.
Definition cond (c : world -> bool) (a b : act) : act := fun w => if c w then a w else b w.

(* try: a  except <mode>: h *)
Definition try_catch (a : act) (m : catchmode) (h : act) : act :=
  fun w => let '(w1, t1, f1) := a w in
           match f1 with
           | FExc i k => if catches m k then let '(w2, t2, f2) := h w1 in (w2, t1 ++ t2, f2) else (w1, t1, f1)
           | _ => (w1, t1, f1)
           end.

(* ---- Python truthiness of the fields *)
Definition t_timer (w : world) : bool := w_timer w.                       (* self._timer *)
Definition t_events (w : world) : bool := negb (is_nil (w_events w)).     (* self._events *)
Definition t_observers (w : world) : bool := negb (is_nil (w_flushers w)). (* self._flushObservers *)
Definition t_in_turn (w : world) : bool := w_in_turn w.                   (* self._in_turn *)

(* ---- statements on the fields *)
Definition upd_events (w : world) (l : list C) : world :=
  mkW l (w_flushers w) (w_timer w) (w_sched w) (w_in_turn w) (w_loc w) (w_obs w) (w_user w).
Definition upd_flushers (w : world) (l : list (Z * F)) : world :=
  mkW (w_events w) l (w_timer w) (w_sched w) (w_in_turn w) (w_loc w) (w_obs w) (w_user w).
Definition upd_user (w : world) (u : U) : world :=
  mkW (w_events w) (w_flushers w) (w_timer w) (w_sched w) (w_in_turn w) (w_loc w) (w_obs w) u.

(* self._events.append((cb, args, kwargs)) / self._events.insert(0, (cb, args, kwargs)) *)
Definition p_events_append (x : C) : act := fun w => (upd_events w (w_events w ++ [x]), [], FNorm).
Definition p_events_insert0 (x : C) : act := fun w => (upd_events w (x :: w_events w), [], FNorm).
(* self._timer = reactor.callLater(0, self._turn): the reactor now holds a pending call (ONE pending call is
   modelled: exact as long as the statement is guarded by `if not self._timer`) *)
Definition p_arm_timer : act :=
  fun w => (mkW (w_events w) (w_flushers w) true true (w_in_turn w) (w_loc w) (w_obs w) (w_user w), [], FNorm).
(* self._timer = None *)
Definition p_timer_none : act :=
  fun w => (mkW (w_events w) (w_flushers w) false (w_sched w) (w_in_turn w) (w_loc w) (w_obs w) (w_user w), [], FNorm).
(* events, self._events = self._events, [] *)
Definition p_swap_events : act :=
  fun w => (mkW [] (w_flushers w) (w_timer w) (w_sched w) (w_in_turn w) (w_events w) (w_obs w) (w_user w), [], FNorm).
(* self._in_turn = True / False *)
Definition p_set_in_turn (b : bool) : act :=
  fun w => (mkW (w_events w) (w_flushers w) (w_timer w) (w_sched w) b (w_loc w) (w_obs w) (w_user w), [], FNorm).
(* log.err(): the failure is written to the log *)
Definition p_log_err : act := ret.

(* for cb, args, kwargs in events: body   (the local list is not changed while it is walked).
   body x rest: x the entry, rest those of the walk not started yet *)
Fixpoint for_list (body : C -> list C -> act) (l : list C) {struct l} : act :=
  match l with
  | [] => ret
  | x :: rest => fun w => let '(w1, t1, f1) := body x rest w in
                          match f1 with
                          | FNorm => let '(w2, t2, f2) := for_list body rest w1 in (w2, t1 ++ t2, f2)
                          | _ => (w1, t1, f1)
                          end
  end.
Definition p_for_loc (d : iterdir) (body : C -> list C -> act) : act :=
  fun w => for_list body (match d with Fwd => w_loc w | Bwd => rev (w_loc w) end) w.

(* while c: body -- `fuel w` iterations at most, w the state when the loop is entered; the environment supplies a
   fuel that is never exhausted (lib/EventualSpecProofs.fire_while_complete) *)
Fixpoint while_fuel (n : nat) (c : world -> bool) (body : act) {struct n} : act :=
  match n with
  | O => ret
  | S n' => fun w => if c w
                     then let '(w1, t1, f1) := body w in
                          match f1 with
                          | FNorm => let '(w2, t2, f2) := while_fuel n' c body w1 in (w2, t1 ++ t2, f2)
                          | _ => (w1, t1, f1)
                          end
                     else (w, [], FNorm)
  end.
Definition p_while (fuel : world -> nat) (c : world -> bool) (body : act) : act :=
  fun w => while_fuel (fuel w) c body w.

(* self._flushObservers.pop(0).callback(None): the head leaves the LIVE list, then its Deferred fires
   (fire o = what the environment attached to it) *)
Definition p_pop0_callback (fire : Z * F -> act) : act :=
  fun w => match w_flushers w with
           | [] => (w, [], FNorm)           (* IndexError in Python; never reached under the loop condition *)
           | o :: rest => let '(w1, t1, f1) := fire o (upd_flushers w rest) in (w1, FlushPop (fst o) :: t1, f1)
           end.
(* observers, self._flushObservers = self._flushObservers, [] *)
Definition p_swap_observers : act :=
  fun w => (mkW (w_events w) [] (w_timer w) (w_sched w) (w_in_turn w) (w_loc w) (w_flushers w) (w_user w), [], FNorm).
(* for o in observers: o.callback(None) *)
Fixpoint for_obs (fire : Z * F -> act) (l : list (Z * F)) {struct l} : act :=
  match l with
  | [] => ret
  | o :: rest => fun w => let '(w1, t1, f1) := fire o w in
                          match f1 with
                          | FNorm => let '(w2, t2, f2) := for_obs fire rest w1 in (w2, FlushPop (fst o) :: t1 ++ t2, f2)
                          | _ => (w1, FlushPop (fst o) :: t1, f1)
                          end
  end.
Definition p_for_obs (fire : Z * F -> act) : act := fun w => for_obs fire (w_obs w) w.

(* d = defer.Deferred(): the environment knows which request this is (and what will be attached): nothing to do *)
Definition p_new_deferred : act := ret.
(* self._flushObservers.append(d) *)
Definition p_observers_append (d : Z * F) : act := fun w => (upd_flushers w (w_flushers w ++ [d]), [], FNorm).

End Base.

Arguments world : clear implicits.
Arguments act : clear implicits.
Arguments env : clear implicits.
