(* The fragments of banana.py translated into gen/RecvGen.v agree, for ALL arguments, with the hand-written tokenizer
   lib/Recv.v and the receive logic lib/BananaRecv.v / lib/Unsl.v.  An edit of dataReceived / sendError / handleData that
   changes a generated definition makes one of these proofs fail (or, where the definition is used by the model directly,
   changes the model). *)
From Coq Require Import ZArith List Bool Lia.
Import ListNotations.
Require Import Verif.lib.PyLite Verif.gen.BananaGen Verif.gen.RecvGen Verif.lib.Token Verif.lib.Recv Verif.lib.RecvProofs Verif.lib.BananaRecv.
Local Open Scope Z_scope.

Ltac tyc := unfold tok_OPEN, tok_CLOSE, tok_ABORT, tok_INT, tok_NEG, tok_VOCAB, tok_PING, tok_PONG, tok_STRING,
                   tok_LONGINT, tok_LONGNEG, tok_FLOAT, tok_ERROR, tok_LIST in *.
Ltac eqs := repeat match goal with |- context [?a =? ?b] => destruct (Z.eqb_spec a b) end; subst; try reflexivity; try discriminate; try lia.

(* the skip prologue of handleData (translated by symbolic execution into hd_prologue) is the model's:
   while skipBytes > 0 a chunk that fits is swallowed whole, otherwise skipBytes bytes are cut off and skipping ends *)
Ltac zb := repeat match goal with
                  | |- context [Z.leb ?a ?b] => destruct (Z.leb_spec a b)
                  | |- context [Z.ltb ?a ?b] => destruct (Z.ltb_spec a b)
                  | |- context [Z.eqb ?a ?b] => destruct (Z.eqb_spec a b)
                  | |- context [Z.geb ?a ?b] => rewrite (Z.geb_leb a b)
                  | |- context [Z.gtb ?a ?b] => rewrite (Z.gtb_ltb a b)
                  end; cbn [andb orb negb]; try reflexivity; try (f_equal; try f_equal; lia); try lia.

Theorem tie_prologue : forall n s, 0 <= n -> 0 <= s ->
  hd_prologue n s = if (0 <? s) && (n <=? s) then (s - n, None) else (0, Some s).
Proof. intros n s Hn Hs. unfold hd_prologue. zb. Qed.

Theorem tie_feed_prologue : forall (ctx ev : Type) bb fb sn e1 e2 e3 (s : rstate ctx) chunk,
  r_dead s = false -> 0 <= r_skip s ->
  feed ctx ev bb fb sn e1 e2 e3 s chunk =
  match hd_prologue (lenZ chunk) (r_skip s) with
  | (k, None) => (mk (r_ctx s) (r_buf s) k false, [])
  | (_, Some d) => let b := r_buf s ++ skipn (Z.to_nat d) chunk in loop ctx ev bb fb sn e1 e2 e3 (S (List.length b)) (r_ctx s) b
  end.
Proof.
  intros ctx ev bb fb sn e1 e2 e3 s chunk D K. rewrite tie_prologue by (unfold lenZ; lia). unfold feed. rewrite D.
  destruct ((0 <? r_skip s) && (lenZ chunk <=? r_skip s)); reflexivity.
Qed.

(* the header scan: 65 bytes are looked at, more than 64 digits are fatal, a byte >= 0x80 is the type byte *)
Theorem tie_header_window : hd_window = 65 /\ hd_max_header = 64 /\ hd_hibit = 128.
Proof. unfold hd_window, hd_max_header, hd_hibit. repeat split; reflexivity. Qed.

Theorem tie_scan_typebyte : forall b l acc room, hd_hibit <= b -> scan_header room acc (b :: l) = HOk (rev acc) b l.
Proof. intros b l acc room H. unfold hd_hibit in H. cbn [scan_header]. destruct (Z.leb_spec 128 b); [reflexivity|lia]. Qed.

(* which clauses of the dispatch read a body, and how long it is *)
Theorem tie_body_len : forall ty hdr, ty <> tok_ERROR ->
  hd_body_len ty hdr = if has_body ty then Some (blen ty hdr) else None.
Proof. intros ty hdr NE. unfold hd_body_len, has_body, blen. tyc. eqs. Qed.

Theorem tie_error_body : forall hdr, hd_body_len tok_ERROR hdr = Some hdr.
Proof. intros. unfold hd_body_len. tyc. eqs. Qed.

(* "rejected bodies are skipped as they arrive": for EVERY token kind that has a body, an incomplete body of a rejected
   token is dropped and exactly the missing bytes are skipped -- what the tokenizer model does (TSkip (n - have)) *)
Theorem tie_rejected_incomplete : forall ty hdr have, has_body ty = true ->
  hd_rejected_incomplete ty hdr have = Some (blen ty hdr - have).
Proof. intros ty hdr have. unfold hd_rejected_incomplete, has_body, blen. tyc. eqs. Qed.

(* ... and an incomplete body of an ACCEPTED token, or of an ERROR token, leaves the header in the buffer (TNeed) *)
Theorem tie_accepted_incomplete : forall ty hdr have, hd_accepted_incomplete ty hdr have = None.
Proof. intros. unfold hd_accepted_incomplete. eqs. Qed.

Theorem tie_error_incomplete : forall hdr have, hd_rejected_incomplete tok_ERROR hdr have = None.
Proof. intros. unfold hd_rejected_incomplete. tyc. eqs. Qed.

(* the oversize-ERROR test is the model's *)
Theorem tie_error_oversize : forall hdr, hd_error_oversize hdr = (SIZE_LIMIT <? hdr).
Proof. intros. unfold hd_error_oversize. rewrite Z.gtb_ltb. reflexivity. Qed.

(* the token kinds that are never tasted are exactly PING, PONG, ABORT, CLOSE (and ERROR, which has its own clause) *)
Theorem tie_exempt : forall ty, existsb (Z.eqb ty) hd_exempt =
  ((ty =? tok_PING) || (ty =? tok_PONG) || (ty =? tok_ABORT) || (ty =? tok_CLOSE) || (ty =? tok_ERROR)).
Proof. intros ty. unfold hd_exempt. cbn [existsb]. tyc. eqs. Qed.

(* every type byte of the token vocabulary is dispatched, with or without a body *)
Theorem tie_dispatch_complete : forall ty,
  In ty [tok_LIST; tok_INT; tok_STRING; tok_NEG; tok_FLOAT; tok_VOCAB; tok_OPEN; tok_CLOSE; tok_ABORT; tok_LONGINT; tok_LONGNEG; tok_ERROR; tok_PING; tok_PONG] ->
  In ty hd_nobody_clauses \/ hd_body_len ty 0 <> None.
Proof.
  intros ty H. unfold hd_nobody_clauses, hd_body_len. cbn [In] in *. tyc.
  repeat (destruct H as [<-|H]; [cbn; auto 20; right; discriminate|]). contradiction.
Qed.

(* sendError: the ERROR token that is written never announces more than SIZE_LIMIT bytes (the peer would refuse it),
   short messages are sent unchanged, and the four writes come in wire order *)
Theorem tie_send_error_len : forall n, 0 <= n -> se_len n <= SIZE_LIMIT /\ (n <= SIZE_LIMIT -> se_len n = n).
Proof. intros n H. unfold se_len, SIZE_LIMIT. destruct (Z.gtb_spec n 1000); lia. Qed.

Theorem tie_send_error_order : se_ops = [SeHeader; SeType; SeBody; SeLose].
Proof. reflexivity. Qed.

(* dataReceived: the handler sends the error, abandons the connection and reports, in that order *)
Theorem tie_handler_ops : dr_handler_ops = [HSendError; HSetAbandoned; HReport].
Proof. reflexivity. Qed.

(* buffer_bounded of lib/RecvProofs.v started from the initial state *)
Theorem buffer_bounded_from_init : forall (ctx ev : Type) (bb : ctx -> Z -> Z -> bres ctx ev) fb sn e1 e2 e3 B, 0 <= B ->
  (forall c ty hdr, has_body ty = true -> bb c ty hdr = BAccept -> blen ty hdr <= B) ->
  forall cs c, lenZ (r_buf (fst (feed_all ctx ev bb fb sn e1 e2 e3 (init c) cs))) < 65 + Z.max B SIZE_LIMIT.
Proof.
  intros ctx ev bb fb sn e1 e2 e3 B HB HA cs c.
  apply (buffer_bounded ctx ev bb fb sn e1 e2 e3 B HA cs (init c)).
  unfold held_ok, init, mk, lenZ. cbn [r_buf List.length Z.of_nat]. unfold SIZE_LIMIT. lia.
Qed.

Theorem header_cap_any : forall (ctx ev : Type) bb fb sn e1 e2 e3 (c : ctx) b m, List.length b = 65%nat -> Forall (fun x => x < 128) b ->
  tok_step ctx ev bb fb sn e1 e2 e3 c (b ++ m) = TDead ctx ev e1.
Proof. intros. apply header_cap; assumption. Qed.

(* the CLOSE clause: a CLOSE that arrives while the index phase of an OPEN is pending (and nothing is being discarded) is a protocol
   error -- what lib/BananaRecv.v's CLOSE clause does *)
Theorem tie_close_in_index_phase : forall io d, hd_close_fatal io d = io && (d =? 0).
Proof. intros io d. unfold hd_close_fatal. destruct io; cbn [andb negb orb]; zb. Qed.

(* the ABORT clause: an ABORT in the index phase of an OPEN counts that OPEN as discarded and ends the index phase -- what
   lib/BananaRecv.v's ABORT clause does (handle_violation c (inOpen c) false, then inOpen := false) *)
Theorem tie_abort_in_index_phase : hd_abort_in_index = true.
Proof. reflexivity. Qed.
